// C08 hunt: BIP32 derivation and xprv/xpub serialisation against an independent reference.
//
// The oracle is a tiny BIP32 implementation written here from the specification:
//  * secp256k1 arithmetic on num_bigint::BigUint (Jacobian coordinates), not k256
//  * HMAC-SHA512 written by hand over sha2::Sha512
//  * Base58Check written by hand over BigUint
// It is validated against the official BIP32 test vectors before it is used to judge the library.
#![allow(clippy::all)]
use bsv::*;
use num_bigint::BigUint;
use num_traits::{One, Zero};
use ripemd160::Ripemd160;
use sha2::{Digest, Sha256, Sha512};

// ---------------------------------------------------------------------------------------------
// reference implementation
// ---------------------------------------------------------------------------------------------
fn hx(s: &str) -> Vec<u8> {
    hex::decode(s).unwrap()
}
fn big(s: &str) -> BigUint {
    BigUint::parse_bytes(s.as_bytes(), 16).unwrap()
}
fn p() -> BigUint {
    big("FFFFFFFFFFFFFFFFFFFFFFFFFFFFFFFFFFFFFFFFFFFFFFFFFFFFFFFEFFFFFC2F")
}
fn n() -> BigUint {
    big("FFFFFFFFFFFFFFFFFFFFFFFFFFFFFFFEBAAEDCE6AF48A03BBFD25E8CD0364141")
}
fn gx() -> BigUint {
    big("79BE667EF9DCBBAC55A06295CE870B07029BFCDB2DCE28D959F2815B16F81798")
}
fn gy() -> BigUint {
    big("483ADA7726A3C4655DA4FBFC0E1108A8FD17B448A68554199C47D08FFB10D4B8")
}

#[derive(Clone, Debug)]
struct Jac {
    x: BigUint,
    y: BigUint,
    z: BigUint, // z == 0 => infinity
}
fn fsub(a: &BigUint, b: &BigUint, p: &BigUint) -> BigUint {
    ((a + p) - (b % p)) % p
}
fn jac_inf() -> Jac {
    Jac { x: BigUint::one(), y: BigUint::one(), z: BigUint::zero() }
}
fn jac_double(a: &Jac, p: &BigUint) -> Jac {
    if a.z.is_zero() || a.y.is_zero() {
        return jac_inf();
    }
    let y2 = (&a.y * &a.y) % p;
    let s = (BigUint::from(4u8) * &a.x * &y2) % p;
    let m = (BigUint::from(3u8) * &a.x * &a.x) % p;
    let x3 = fsub(&((&m * &m) % p), &((BigUint::from(2u8) * &s) % p), p);
    let y4 = (&y2 * &y2) % p;
    let y3 = fsub(&((&m * fsub(&s, &x3, p)) % p), &((BigUint::from(8u8) * y4) % p), p);
    let z3 = (BigUint::from(2u8) * &a.y * &a.z) % p;
    Jac { x: x3, y: y3, z: z3 }
}
fn jac_add(a: &Jac, b: &Jac, p: &BigUint) -> Jac {
    if a.z.is_zero() {
        return b.clone();
    }
    if b.z.is_zero() {
        return a.clone();
    }
    let z1z1 = (&a.z * &a.z) % p;
    let z2z2 = (&b.z * &b.z) % p;
    let u1 = (&a.x * &z2z2) % p;
    let u2 = (&b.x * &z1z1) % p;
    let s1 = (&a.y * &z2z2 % p * &b.z) % p;
    let s2 = (&b.y * &z1z1 % p * &a.z) % p;
    if u1 == u2 {
        if s1 != s2 {
            return jac_inf();
        }
        return jac_double(a, p);
    }
    let h = fsub(&u2, &u1, p);
    let r = fsub(&s2, &s1, p);
    let h2 = (&h * &h) % p;
    let h3 = (&h2 * &h) % p;
    let u1h2 = (&u1 * &h2) % p;
    let x3 = fsub(&fsub(&((&r * &r) % p), &h3, p), &((BigUint::from(2u8) * &u1h2) % p), p);
    let y3 = fsub(&((&r * fsub(&u1h2, &x3, p)) % p), &((&s1 * &h3) % p), p);
    let z3 = (&h * &a.z % p * &b.z) % p;
    Jac { x: x3, y: y3, z: z3 }
}
fn jac_mul(k: &BigUint, a: &Jac, p: &BigUint) -> Jac {
    let mut acc = jac_inf();
    let bits = k.bits();
    for i in (0..bits).rev() {
        acc = jac_double(&acc, p);
        if k.bit(i) {
            acc = jac_add(&acc, a, p);
        }
    }
    acc
}
/// affine point or None for infinity
fn jac_affine(a: &Jac, p: &BigUint) -> Option<(BigUint, BigUint)> {
    if a.z.is_zero() {
        return None;
    }
    let zi = a.z.modpow(&(p - BigUint::from(2u8)), p);
    let zi2 = (&zi * &zi) % p;
    let x = (&a.x * &zi2) % p;
    let y = (&a.y * &zi2 % p * &zi) % p;
    Some((x, y))
}
fn generator() -> Jac {
    Jac { x: gx(), y: gy(), z: BigUint::one() }
}
fn be32(v: &BigUint) -> [u8; 32] {
    let b = v.to_bytes_be();
    assert!(b.len() <= 32);
    let mut out = [0u8; 32];
    out[32 - b.len()..].copy_from_slice(&b);
    out
}
fn ser_p(pt: &(BigUint, BigUint)) -> Vec<u8> {
    let mut v = vec![if pt.1.bit(0) { 3u8 } else { 2u8 }];
    v.extend_from_slice(&be32(&pt.0));
    v
}
fn ser_p_uncompressed(pt: &(BigUint, BigUint)) -> Vec<u8> {
    let mut v = vec![4u8];
    v.extend_from_slice(&be32(&pt.0));
    v.extend_from_slice(&be32(&pt.1));
    v
}
fn parse_p(b: &[u8]) -> (BigUint, BigUint) {
    assert_eq!(b.len(), 33);
    let p = p();
    let x = BigUint::from_bytes_be(&b[1..]);
    let y2 = (x.modpow(&BigUint::from(3u8), &p) + BigUint::from(7u8)) % &p;
    let mut y = y2.modpow(&((&p + BigUint::one()) / BigUint::from(4u8)), &p);
    assert_eq!((&y * &y) % &p, y2, "not on curve");
    if y.bit(0) != (b[0] == 3) {
        y = &p - y;
    }
    (x, y)
}
fn point_of(k: &BigUint) -> (BigUint, BigUint) {
    jac_affine(&jac_mul(k, &generator(), &p()), &p()).expect("k != 0 mod n")
}

fn hmac_sha512(key: &[u8], msg: &[u8]) -> [u8; 64] {
    let mut k = [0u8; 128];
    if key.len() > 128 {
        let d = Sha512::digest(key);
        k[..64].copy_from_slice(&d);
    } else {
        k[..key.len()].copy_from_slice(key);
    }
    let mut inner = Sha512::new();
    inner.update(k.iter().map(|b| b ^ 0x36).collect::<Vec<u8>>());
    inner.update(msg);
    let ih = inner.finalize();
    let mut outer = Sha512::new();
    outer.update(k.iter().map(|b| b ^ 0x5c).collect::<Vec<u8>>());
    outer.update(&ih);
    let mut out = [0u8; 64];
    out.copy_from_slice(&outer.finalize());
    out
}
fn hash160(b: &[u8]) -> Vec<u8> {
    Ripemd160::digest(&Sha256::digest(b)).to_vec()
}
fn sha256d(b: &[u8]) -> Vec<u8> {
    Sha256::digest(&Sha256::digest(b)).to_vec()
}
const ALPHABET: &[u8] = b"123456789ABCDEFGHJKLMNPQRSTUVWXYZabcdefghijkmnopqrstuvwxyz";
fn b58enc(data: &[u8]) -> String {
    let zeros = data.iter().take_while(|b| **b == 0).count();
    let mut v = BigUint::from_bytes_be(data);
    let mut out = vec![];
    let fifty8 = BigUint::from(58u8);
    while !v.is_zero() {
        let r = (&v % &fifty8).to_u32_digits();
        out.push(ALPHABET[*r.first().unwrap_or(&0) as usize]);
        v /= &fifty8;
    }
    for _ in 0..zeros {
        out.push(b'1');
    }
    out.reverse();
    String::from_utf8(out).unwrap()
}
fn b58dec(s: &str) -> Vec<u8> {
    let zeros = s.bytes().take_while(|b| *b == b'1').count();
    let mut v = BigUint::zero();
    for c in s.bytes() {
        let d = ALPHABET.iter().position(|a| *a == c).expect("alphabet");
        v = v * BigUint::from(58u8) + BigUint::from(d as u32);
    }
    let mut out = vec![0u8; zeros];
    if !v.is_zero() {
        out.extend_from_slice(&v.to_bytes_be());
    }
    out
}
fn b58check(payload: &[u8]) -> String {
    let mut v = payload.to_vec();
    v.extend_from_slice(&sha256d(payload)[0..4]);
    b58enc(&v)
}

const XPRV: [u8; 4] = [0x04, 0x88, 0xAD, 0xE4];
const XPUB: [u8; 4] = [0x04, 0x88, 0xB2, 0x1E];
const H: u32 = 0x8000_0000;

#[derive(Clone, Debug)]
struct RPriv {
    k: BigUint,
    c: [u8; 32],
    depth: u8,
    index: u32,
    fp: [u8; 4],
}
#[derive(Clone, Debug)]
struct RPub {
    pt: (BigUint, BigUint),
    c: [u8; 32],
    depth: u8,
    index: u32,
    fp: [u8; 4],
}
impl RPriv {
    fn master(seed: &[u8]) -> Option<RPriv> {
        let i = hmac_sha512(b"Bitcoin seed", seed);
        let k = BigUint::from_bytes_be(&i[..32]);
        if k.is_zero() || k >= n() {
            return None;
        }
        let mut c = [0u8; 32];
        c.copy_from_slice(&i[32..]);
        Some(RPriv { k, c, depth: 0, index: 0, fp: [0; 4] })
    }
    fn pubkey(&self) -> Vec<u8> {
        ser_p(&point_of(&self.k))
    }
    fn ckd(&self, i: u32) -> Option<RPriv> {
        let mut data = vec![];
        if i >= H {
            data.push(0);
            data.extend_from_slice(&be32(&self.k));
        } else {
            data.extend_from_slice(&self.pubkey());
        }
        data.extend_from_slice(&i.to_be_bytes());
        let out = hmac_sha512(&self.c, &data);
        let il = BigUint::from_bytes_be(&out[..32]);
        if il >= n() {
            return None;
        }
        let k = (il + &self.k) % n();
        if k.is_zero() {
            return None;
        }
        let mut c = [0u8; 32];
        c.copy_from_slice(&out[32..]);
        let mut fp = [0u8; 4];
        fp.copy_from_slice(&hash160(&self.pubkey())[..4]);
        Some(RPriv { k, c, depth: self.depth.checked_add(1)?, index: i, fp })
    }
    fn neuter(&self) -> RPub {
        RPub { pt: point_of(&self.k), c: self.c, depth: self.depth, index: self.index, fp: self.fp }
    }
    fn payload(&self) -> Vec<u8> {
        let mut v = XPRV.to_vec();
        v.push(self.depth);
        v.extend_from_slice(&self.fp);
        v.extend_from_slice(&self.index.to_be_bytes());
        v.extend_from_slice(&self.c);
        v.push(0);
        v.extend_from_slice(&be32(&self.k));
        v
    }
    fn ser(&self) -> String {
        b58check(&self.payload())
    }
}
impl RPub {
    fn ckd(&self, i: u32) -> Option<RPub> {
        if i >= H {
            return None;
        }
        let mut data = ser_p(&self.pt);
        data.extend_from_slice(&i.to_be_bytes());
        let out = hmac_sha512(&self.c, &data);
        let il = BigUint::from_bytes_be(&out[..32]);
        if il >= n() {
            return None;
        }
        let pp = p();
        let parent = Jac { x: self.pt.0.clone(), y: self.pt.1.clone(), z: BigUint::one() };
        let child = jac_add(&jac_mul(&il, &generator(), &pp), &parent, &pp);
        let pt = jac_affine(&child, &pp)?;
        let mut c = [0u8; 32];
        c.copy_from_slice(&out[32..]);
        let mut fp = [0u8; 4];
        fp.copy_from_slice(&hash160(&ser_p(&self.pt))[..4]);
        Some(RPub { pt, c, depth: self.depth.checked_add(1)?, index: i, fp })
    }
    fn payload(&self) -> Vec<u8> {
        let mut v = XPUB.to_vec();
        v.push(self.depth);
        v.extend_from_slice(&self.fp);
        v.extend_from_slice(&self.index.to_be_bytes());
        v.extend_from_slice(&self.c);
        v.extend_from_slice(&ser_p(&self.pt));
        v
    }
    fn ser(&self) -> String {
        b58check(&self.payload())
    }
}

fn cmp_priv(l: &ExtendedPrivateKey, r: &RPriv, ctx: &str) {
    assert_eq!(l.get_private_key().to_bytes(), be32(&r.k).to_vec(), "private key {}", ctx);
    assert_eq!(l.get_public_key().to_bytes().unwrap(), r.pubkey(), "public key {}", ctx);
    assert_eq!(l.get_chain_code(), r.c.to_vec(), "chain code {}", ctx);
    assert_eq!(l.get_depth(), r.depth, "depth {}", ctx);
    assert_eq!(l.get_index(), r.index, "index {}", ctx);
    assert_eq!(l.get_parent_fingerprint(), r.fp.to_vec(), "fingerprint {}", ctx);
    let s = l.to_string().unwrap();
    assert_eq!(s, r.ser(), "xprv string {}", ctx);
    // round trip
    let back = ExtendedPrivateKey::from_string(&s).unwrap();
    assert_eq!(back.to_string().unwrap(), s, "xprv round trip {}", ctx);
    assert_eq!(back.get_private_key().to_bytes(), be32(&r.k).to_vec());
    assert_eq!(back.get_chain_code(), r.c.to_vec());
    assert_eq!((back.get_depth(), back.get_index(), back.get_parent_fingerprint()), (r.depth, r.index, r.fp.to_vec()));
}
fn cmp_pub(l: &ExtendedPublicKey, r: &RPub, ctx: &str) {
    assert_eq!(l.get_public_key().to_bytes().unwrap(), ser_p(&r.pt), "public key {}", ctx);
    assert_eq!(l.get_chain_code(), r.c.to_vec(), "chain code {}", ctx);
    assert_eq!(l.get_depth(), r.depth, "depth {}", ctx);
    assert_eq!(l.get_index(), r.index, "index {}", ctx);
    assert_eq!(l.get_parent_fingerprint(), r.fp.to_vec(), "fingerprint {}", ctx);
    let s = l.to_string().unwrap();
    assert_eq!(s, r.ser(), "xpub string {}", ctx);
    let back = ExtendedPublicKey::from_string(&s).unwrap();
    assert_eq!(back.to_string().unwrap(), s, "xpub round trip {}", ctx);
    assert_eq!(back.get_public_key().to_bytes().unwrap(), ser_p(&r.pt));
    assert_eq!((back.get_depth(), back.get_index(), back.get_parent_fingerprint()), (r.depth, r.index, r.fp.to_vec()));
}

struct Rng(u64);
impl Rng {
    fn next(&mut self) -> u64 {
        self.0 = self.0.wrapping_add(0x9E3779B97F4A7C15);
        let mut z = self.0;
        z = (z ^ (z >> 30)).wrapping_mul(0xBF58476D1CE4E5B9);
        z = (z ^ (z >> 27)).wrapping_mul(0x94D049BB133111EB);
        z ^ (z >> 31)
    }
    fn bytes(&mut self, len: usize) -> Vec<u8> {
        (0..len).map(|_| self.next() as u8).collect()
    }
    fn index(&mut self) -> u32 {
        const EDGE: [u32; 10] = [0, 1, 2, H - 2, H - 1, H, H + 1, H + 2, u32::MAX - 1, u32::MAX];
        match self.next() % 3 {
            0 => EDGE[(self.next() % 10) as usize],
            1 => (self.next() as u32) & (H - 1),
            _ => (self.next() as u32) | H,
        }
    }
}
fn path_text(idx: &[u32], style: u64) -> String {
    let mut s = String::from(if style & 8 != 0 { "M" } else { "m" });
    for (j, i) in idx.iter().enumerate() {
        s.push('/');
        if *i >= H {
            s.push_str(&(i - H).to_string());
            s.push(match (style as usize + j) % 3 {
                0 => '\'',
                1 => 'h',
                _ => 'H',
            });
        } else {
            s.push_str(&i.to_string());
        }
    }
    s
}

// ---------------------------------------------------------------------------------------------
// E01 the reference itself reproduces the official BIP32 vectors, and so does the library
// ---------------------------------------------------------------------------------------------
const TV1: &[(&[u32], &str, &str)] = &[
    (
        &[],
        "xpub661MyMwAqRbcFtXgS5sYJABqqG9YLmC4Q1Rdap9gSE8NqtwybGhePY2gZ29ESFjqJoCu1Rupje8YtGqsefD265TMg7usUDFdp6W1EGMcet8",
        "xprv9s21ZrQH143K3QTDL4LXw2F7HEK3wJUD2nW2nRk4stbPy6cq3jPPqjiChkVvvNKmPGJxWUtg6LnF5kejMRNNU3TGtRBeJgk33yuGBxrMPHi",
    ),
    (
        &[H],
        "xpub68Gmy5EdvgibQVfPdqkBBCHxA5htiqg55crXYuXoQRKfDBFA1WEjWgP6LHhwBZeNK1VTsfTFUHCdrfp1bgwQ9xv5ski8PX9rL2dZXvgGDnw",
        "xprv9uHRZZhk6KAJC1avXpDAp4MDc3sQKNxDiPvvkX8Br5ngLNv1TxvUxt4cV1rGL5hj6KCesnDYUhd7oWgT11eZG7XnxHrnYeSvkzY7d2bhkJ7",
    ),
    (
        &[H, 1],
        "xpub6ASuArnXKPbfEwhqN6e3mwBcDTgzisQN1wXN9BJcM47sSikHjJf3UFHKkNAWbWMiGj7Wf5uMash7SyYq527Hqck2AxYysAA7xmALppuCkwQ",
        "xprv9wTYmMFdV23N2TdNG573QoEsfRrWKQgWeibmLntzniatZvR9BmLnvSxqu53Kw1UmYPxLgboyZQaXwTCg8MSY3H2EU4pWcQDnRnrVA1xe8fs",
    ),
    (
        &[H, 1, H + 2],
        "xpub6D4BDPcP2GT577Vvch3R8wDkScZWzQzMMUm3PWbmWvVJrZwQY4VUNgqFJPMM3No2dFDFGTsxxpG5uJh7n7epu4trkrX7x7DogT5Uv6fcLW5",
        "xprv9z4pot5VBttmtdRTWfWQmoH1taj2axGVzFqSb8C9xaxKymcFzXBDptWmT7FwuEzG3ryjH4ktypQSAewRiNMjANTtpgP4mLTj34bhnZX7UiM",
    ),
    (
        &[H, 1, H + 2, 2],
        "xpub6FHa3pjLCk84BayeJxFW2SP4XRrFd1JYnxeLeU8EqN3vDfZmbqBqaGJAyiLjTAwm6ZLRQUMv1ZACTj37sR62cfN7fe5JnJ7dh8zL4fiyLHV",
        "xprvA2JDeKCSNNZky6uBCviVfJSKyQ1mDYahRjijr5idH2WwLsEd4Hsb2Tyh8RfQMuPh7f7RtyzTtdrbdqqsunu5Mm3wDvUAKRHSC34sJ7in334",
    ),
    (
        &[H, 1, H + 2, 2, 1000000000],
        "xpub6H1LXWLaKsWFhvm6RVpEL9P4KfRZSW7abD2ttkWP3SSQvnyA8FSVqNTEcYFgJS2UaFcxupHiYkro49S8yGasTvXEYBVPamhGW6cFJodrTHy",
        "xprvA41z7zogVVwxVSgdKUHDy1SKmdb533PjDz7J6N6mV6uS3ze1ai8FHa8kmHScGpWmj4WggLyQjgPie1rFSruoUihUZREPSL39UNdE3BBDu76",
    ),
];

#[test]
fn e01_official_vectors_reference_and_library() {
    // test vector 1
    let seed = hx("000102030405060708090a0b0c0d0e0f");
    let lib_m = ExtendedPrivateKey::from_seed(&seed).unwrap();
    let ref_m = RPriv::master(&seed).unwrap();
    for (path, xpub, xprv) in TV1 {
        let mut r = ref_m.clone();
        for i in *path {
            r = r.ckd(*i).unwrap();
        }
        assert_eq!(&r.ser(), xprv, "reference xprv {:?}", path);
        assert_eq!(&r.neuter().ser(), xpub, "reference xpub {:?}", path);
        // the library, stepwise
        let mut l = ExtendedPrivateKey::from_seed(&seed).unwrap();
        for i in *path {
            l = l.derive(*i).unwrap();
        }
        assert_eq!(&l.to_string().unwrap(), xprv);
        assert_eq!(&ExtendedPublicKey::from_xpriv(&l).to_string().unwrap(), xpub);
        if !path.is_empty() {
            for style in 0..3 {
                let l2 = lib_m.derive_from_path(&path_text(path, style)).unwrap();
                assert_eq!(&l2.to_string().unwrap(), xprv);
            }
        }
    }
    // test vector 2 master, test vector 3 (leading zeros retained), test vector 4
    let checks: &[(&str, &[u32], &str)] = &[
        (
            "fffcf9f6f3f0edeae7e4e1dedbd8d5d2cfccc9c6c3c0bdbab7b4b1aeaba8a5a29f9c999693908d8a8784817e7b7875726f6c696663605d5a5754514e4b484542",
            &[],
            "xprv9s21ZrQH143K31xYSDQpPDxsXRTUcvj2iNHm5NUtrGiGG5e2DtALGdso3pGz6ssrdK4PFmM8NSpSBHNqPqm55Qn3LqFtT2emdEXVYsCzC2U",
        ),
        (
            "4b381541583be4423346c643850da4b320e46a87ae3d2a4e6da11eba819cd4acba45d239319ac14f863b8d5ab5a0d0c64d2e8a1e7d1457df2e5a3c51c73235be",
            &[],
            "xprv9s21ZrQH143K25QhxbucbDDuQ4naNntJRi4KUfWT7xo4EKsHt2QJDu7KXp1A3u7Bi1j8ph3EGsZ9Xvz9dGuVrtHHs7pXeTzjuxBrCmmhgC6",
        ),
        (
            "4b381541583be4423346c643850da4b320e46a87ae3d2a4e6da11eba819cd4acba45d239319ac14f863b8d5ab5a0d0c64d2e8a1e7d1457df2e5a3c51c73235be",
            &[H],
            "xprv9uPDJpEQgRQfDcW7BkF7eTya6RPxXeJCqCJGHuCJ4GiRVLzkTXBAJMu2qaMWPrS7AANYqdq6vcBcBUdJCVVFceUvJFjaPdGZ2y9WACViL4L",
        ),
        (
            "3ddd5602285899a946114506157c7997e5444528f3003f6134712147db19b678",
            &[],
            "xprv9s21ZrQH143K48vGoLGRPxgo2JNkJ3J3fqkirQC2zVdk5Dgd5w14S7fRDyHH4dWNHUgkvsvNDCkvAwcSHNAQwhwgNMgZhLtQC63zxwhQmRv",
        ),
        (
            "3ddd5602285899a946114506157c7997e5444528f3003f6134712147db19b678",
            &[H],
            "xprv9vB7xEWwNp9kh1wQRfCCQMnZUEG21LpbR9NPCNN1dwhiZkjjeGRnaALmPXCX7SgjFTiCTT6bXes17boXtjq3xLpcDjzEuGLQBM5ohqkao9G",
        ),
        (
            "3ddd5602285899a946114506157c7997e5444528f3003f6134712147db19b678",
            &[H, H + 1],
            "xprv9xJocDuwtYCMNAo3Zw76WENQeAS6WGXQ55RCy7tDJ8oALr4FWkuVoHJeHVAcAqiZLE7Je3vZJHxspZdFHfnBEjHqU5hG1Jaj32dVoS6XLT1",
        ),
    ];
    for (seed, path, xprv) in checks {
        let seed = hx(seed);
        let mut r = RPriv::master(&seed).unwrap();
        let mut l = ExtendedPrivateKey::from_seed(&seed).unwrap();
        for i in *path {
            r = r.ckd(*i).unwrap();
            l = l.derive(*i).unwrap();
        }
        assert_eq!(&r.ser(), xprv, "reference vs official vector");
        cmp_priv(&l, &r, "official vector");
        cmp_pub(&ExtendedPublicKey::from_xpriv(&l), &r.neuter(), "official vector");
    }
}

// ---------------------------------------------------------------------------------------------
// E02 random seeds (16..=64 and odd lengths), random paths with boundary indices, every field
// E03 public derivation of normal children == neutered private child; hardened refused
// ---------------------------------------------------------------------------------------------
#[test]
fn e02_e03_random_seeds_and_paths_match_reference() {
    let mut rng = Rng(0xC08);
    let mut lens: Vec<usize> = (16..=64).collect();
    lens.extend_from_slice(&[0, 1, 2, 15, 65, 127, 128, 129, 200, 1000]);
    for (round, len) in lens.iter().enumerate() {
        let seed = rng.bytes(*len);
        let r0 = match RPriv::master(&seed) {
            Some(r) => r,
            None => {
                assert!(ExtendedPrivateKey::from_seed(&seed).is_err());
                continue;
            }
        };
        let l0 = ExtendedPrivateKey::from_seed(&seed).unwrap();
        cmp_priv(&l0, &r0, &format!("master len {}", len));
        cmp_pub(&ExtendedPublicKey::from_seed(&seed).unwrap(), &r0.neuter(), "xpub from_seed");
        cmp_pub(&ExtendedPublicKey::from_xpriv(&l0), &r0.neuter(), "xpub from_xpriv");

        let depth = 1 + (rng.next() % 5) as usize;
        let idx: Vec<u32> = (0..depth).map(|_| rng.index()).collect();
        let mut r = r0.clone();
        let mut l = ExtendedPrivateKey::from_seed(&seed).unwrap();
        for i in &idx {
            let rc = r.ckd(*i);
            let lc = l.derive(*i);
            // public side
            let lp = ExtendedPublicKey::from_xpriv(&l);
            if *i >= H {
                assert!(lp.derive(*i).is_err(), "hardened derivation from xpub must be refused");
            } else {
                let rp = r.neuter().ckd(*i);
                match (&rp, lp.derive(*i)) {
                    (Some(rp), Ok(lpc)) => {
                        cmp_pub(&lpc, rp, &format!("CKDpub {}", i));
                        // N(CKDpriv) == CKDpub(N)
                        assert_eq!(lpc.to_string().unwrap(), ExtendedPublicKey::from_xpriv(lc.as_ref().unwrap()).to_string().unwrap());
                    }
                    (None, Err(_)) => {}
                    _ => panic!("CKDpub decision differs"),
                }
            }
            match (rc, lc) {
                (Some(rc), Ok(lc)) => {
                    cmp_priv(&lc, &rc, &format!("seed len {} step {}", len, i));
                    r = rc;
                    l = lc;
                }
                (None, Err(_)) => break,
                _ => panic!("CKDpriv decision differs"),
            }
        }
        // the same through the path text (needs indices < 2^31 before the marker -> always true)
        if r.depth as usize == idx.len() {
            let text = path_text(&idx, round as u64);
            let lpth = l0.derive_from_path(&text).unwrap();
            cmp_priv(&lpth, &r, &text);
            // parent is not changed by deriving
            cmp_priv(&l0, &r0, "parent after derive");
            // public path when all indices are normal
            let lp0 = ExtendedPublicKey::from_xpriv(&l0);
            if idx.iter().all(|i| *i < H) {
                cmp_pub(&lp0.derive_from_path(&text).unwrap(), &r.neuter(), &text);
            } else {
                assert!(lp0.derive_from_path(&text).is_err(), "public path with hardened step must be refused: {}", text);
            }
        }
    }
}

// E04 normal-only paths, many of them, both sides, through strings parsed back in between
#[test]
fn e04_public_chain_through_strings() {
    let mut rng = Rng(44);
    for _ in 0..20 {
        let seed = rng.bytes(32);
        let mut r = RPriv::master(&seed).unwrap().neuter();
        let mut l = ExtendedPublicKey::from_string(&r.ser()).unwrap();
        for _ in 0..6 {
            let i = rng.index() & (H - 1);
            r = r.ckd(i).unwrap();
            l = ExtendedPublicKey::from_string(&l.derive(i).unwrap().to_string().unwrap()).unwrap();
            cmp_pub(&l, &r, "public chain");
        }
    }
}

// E05 path forms
#[test]
fn e05_path_forms() {
    let seed = hx("000102030405060708090a0b0c0d0e0f");
    let l0 = ExtendedPrivateKey::from_seed(&seed).unwrap();
    let r0 = RPriv::master(&seed).unwrap();
    let want = r0.ckd(H + 44).unwrap().ckd(H + 236).unwrap().ckd(H).unwrap().ckd(0).unwrap().ckd(H - 1).unwrap();
    for text in [
        "m/44'/236'/0'/0/2147483647",
        "m/44h/236h/0h/0/2147483647",
        "m/44H/236H/0H/0/2147483647",
        "m/44'/236h/0H/0/2147483647",
        "M/44'/236h/0H/0/2147483647",
        "m/44'/236'/0'/0/2147483647/",
        "m/044'/0236'/00'/00/02147483647",
    ] {
        let l = l0.derive_from_path(text).unwrap();
        cmp_priv(&l, &want, text);
    }
    // greatest hardened index
    let want = r0.ckd(u32::MAX).unwrap();
    cmp_priv(&l0.derive_from_path("m/2147483647'").unwrap(), &want, "max hardened");
    cmp_priv(&l0.derive(u32::MAX).unwrap(), &want, "max hardened direct");
    // not silently wrapped / reinterpreted: an error is fine, a different key is not
    for text in ["m/2147483648", "m/2147483648'", "m/4294967295", "m/4294967296", "m/-1", "m/1.0", "m/0x10", "m/ 1", "m/1 ", "x/1", "", "/1", "1/2"] {
        match l0.derive_from_path(text) {
            Err(_) => {}
            Ok(k) => {
                // if it is accepted it must be a standard reading of the text
                println!("accepted odd path {:?} -> depth {} index {}", text, k.get_depth(), k.get_index());
                if text == "m/2147483648" {
                    cmp_priv(&k, &r0.ckd(H).unwrap(), text);
                } else {
                    panic!("unexpected acceptance of {:?}", text);
                }
            }
        }
    }
    // "m" alone: documented observation (pinned by the repository's own test as an error)
    println!("derive_from_path(\"m\") is_err = {}", l0.derive_from_path("m").is_err());
}

// E06 depth up to 255 by path and stepwise; depth 256 is refused without a panic
#[test]
fn e06_depth_255() {
    let seed = hx("fffcf9f6f3f0edeae7e4e1dedbd8d5d2cfccc9c6c3c0bdbab7b4b1aeaba8a5a2");
    let l0 = ExtendedPrivateKey::from_seed(&seed).unwrap();
    let mut r = RPriv::master(&seed).unwrap();
    let idx: Vec<u32> = (0..255u32).map(|j| if j % 2 == 0 { j } else { H + j }).collect();
    for i in &idx {
        r = r.ckd(*i).unwrap();
    }
    assert_eq!(r.depth, 255);
    let text = path_text(&idx, 1);
    let l = l0.derive_from_path(&text).unwrap();
    cmp_priv(&l, &r, "depth 255");
    cmp_pub(&ExtendedPublicKey::from_xpriv(&l), &r.neuter(), "depth 255 xpub");
    assert!(l.derive(0).is_err());
    assert!(l.derive(H).is_err());
    assert!(ExtendedPublicKey::from_xpriv(&l).derive(0).is_err());
    assert!(l0.derive_from_path(&format!("{}/0", text)).is_err());
    // normal-only, public side, 255 deep
    let mut rp = RPriv::master(&seed).unwrap().neuter();
    let idxn: Vec<u32> = (0..255u32).collect();
    for i in &idxn {
        rp = rp.ckd(*i).unwrap();
    }
    let lp = ExtendedPublicKey::from_xpriv(&l0).derive_from_path(&path_text(&idxn, 0)).unwrap();
    cmp_pub(&lp, &rp, "public depth 255");
    // a parsed depth-255 key
    let parsed = ExtendedPrivateKey::from_string(&r.ser()).unwrap();
    assert!(parsed.derive(1).is_err());
}

// E07 hardened derivation from a public key is refused for every hardened index tried
#[test]
fn e07_hardened_public_refused() {
    let xpub = ExtendedPublicKey::from_seed(&hx("000102030405060708090a0b0c0d0e0f")).unwrap();
    for i in [H, H + 1, H + 1000, u32::MAX - 1, u32::MAX] {
        assert!(xpub.derive(i).is_err());
    }
    assert!(xpub.derive(H - 1).is_ok());
    for t in ["m/0'", "m/0h", "m/0H", "m/1/2'", "m/1/2/3h/4"] {
        assert!(xpub.derive_from_path(t).is_err(), "{}", t);
    }
}

// E08 every single-character substitution / deletion / insertion / transposition of valid strings is rejected
#[test]
fn e08_single_character_corruptions_rejected() {
    let mut rng = Rng(8);
    let mut strings = vec![];
    for _ in 0..3 {
        let seed = rng.bytes(32);
        let r = RPriv::master(&seed).unwrap().ckd(rng.index()).unwrap().ckd(rng.index() & (H - 1)).unwrap();
        strings.push((r.ser(), true));
        strings.push((r.neuter().ser(), false));
    }
    let parse = |s: &str, is_priv: bool| -> Option<String> {
        if is_priv {
            ExtendedPrivateKey::from_string(s).ok().map(|k| k.to_string().unwrap())
        } else {
            ExtendedPublicKey::from_string(s).ok().map(|k| k.to_string().unwrap())
        }
    };
    let mut tried = 0usize;
    for (s, is_priv) in &strings {
        assert_eq!(parse(s, *is_priv).as_ref(), Some(s));
        let chars: Vec<u8> = s.bytes().collect();
        for pos in 0..chars.len() {
            // substitution by every other byte value 1..=255 that is valid UTF-8 on its own (ASCII)
            for c in 1u8..128 {
                if c == chars[pos] {
                    continue;
                }
                let mut m = chars.clone();
                m[pos] = c;
                let t = String::from_utf8(m).unwrap();
                tried += 1;
                assert!(parse(&t, *is_priv).is_none(), "accepted corrupted string {}", t);
            }
            // deletion
            let mut m = chars.clone();
            m.remove(pos);
            assert!(parse(&String::from_utf8(m).unwrap(), *is_priv).is_none());
            // insertion of each alphabet character
            for c in ALPHABET {
                let mut m = chars.clone();
                m.insert(pos, *c);
                assert!(parse(&String::from_utf8(m).unwrap(), *is_priv).is_none());
            }
            // transposition
            if pos + 1 < chars.len() && chars[pos] != chars[pos + 1] {
                let mut m = chars.clone();
                m.swap(pos, pos + 1);
                assert!(parse(&String::from_utf8(m).unwrap(), *is_priv).is_none());
            }
        }
        // appended / prepended characters
        for extra in ["1", " ", "\n", "x", "\0"] {
            assert!(parse(&format!("{}{}", s, extra), *is_priv).is_none(), "suffix {:?}", extra);
            assert!(parse(&format!("{}{}", extra, s), *is_priv).is_none(), "prefix {:?}", extra);
        }
    }
    println!("substitutions tried: {}", tried);
}

// E09 every single-byte corruption of the 82 raw bytes (checksum left as it was) is rejected
#[test]
fn e09_single_byte_corruptions_of_raw_bytes_rejected() {
    let r = RPriv::master(&hx("000102030405060708090a0b0c0d0e0f")).unwrap().ckd(H).unwrap().ckd(1).unwrap();
    for (s, is_priv) in [(r.ser(), true), (r.neuter().ser(), false)] {
        let raw = b58dec(&s);
        assert_eq!(raw.len(), 82);
        for pos in 0..82 {
            for delta in [1u8, 0x80, 0xff, 0x55] {
                let mut m = raw.clone();
                m[pos] ^= delta;
                let t = b58enc(&m);
                let ok = if is_priv { ExtendedPrivateKey::from_string(&t).is_ok() } else { ExtendedPublicKey::from_string(&t).is_ok() };
                assert!(!ok, "raw byte {} ^ {:02x} accepted", pos, delta);
            }
        }
        // truncated and extended byte strings with a checksum that is right for their own length
        for len in [0usize, 3, 4, 5, 45, 77, 79, 80] {
            let mut body = raw[..78].to_vec();
            body.resize(len, 0);
            let t = b58check(&body);
            let ok = if is_priv { ExtendedPrivateKey::from_string(&t).is_ok() } else { ExtendedPublicKey::from_string(&t).is_ok() };
            assert!(!ok, "payload length {} accepted", len);
        }
    }
}

// E10 key material outside the valid range in an otherwise valid payload is rejected (BIP32 test vector 5 classes)
#[test]
fn e10_invalid_key_material_rejected() {
    let r = RPriv::master(&hx("000102030405060708090a0b0c0d0e0f")).unwrap();
    // private key 0 and n
    for k in [BigUint::zero(), n(), n() + BigUint::one(), big("FFFFFFFFFFFFFFFFFFFFFFFFFFFFFFFFFFFFFFFFFFFFFFFFFFFFFFFFFFFFFFFFFF".get(..64).unwrap())] {
        let mut pl = r.payload();
        pl[46..78].copy_from_slice(&be32(&k));
        assert!(ExtendedPrivateKey::from_string(&b58check(&pl)).is_err(), "private key {:x} accepted", k);
    }
    // n - 1 is fine and round trips
    let mut pl = r.payload();
    pl[46..78].copy_from_slice(&be32(&(n() - BigUint::one())));
    let s = b58check(&pl);
    assert_eq!(ExtendedPrivateKey::from_string(&s).unwrap().to_string().unwrap(), s);
    // public key: prefix 04 / 01 / 00, x not on curve (x = 7), x >= p
    let good = r.neuter().payload();
    for prefix in [0u8, 1, 4, 5, 6, 7, 0xff] {
        let mut pl = good.clone();
        pl[45] = prefix;
        assert!(ExtendedPublicKey::from_string(&b58check(&pl)).is_err(), "pubkey prefix {:02x} accepted", prefix);
    }
    let mut pl = good.clone();
    pl[45] = 2;
    pl[46..78].copy_from_slice(&be32(&BigUint::from(7u8)));
    assert!(ExtendedPublicKey::from_string(&b58check(&pl)).is_err(), "x = 7 accepted");
    let mut pl = good.clone();
    pl[46..78].copy_from_slice(&be32(&(p() + BigUint::one())));
    assert!(ExtendedPublicKey::from_string(&b58check(&pl)).is_err(), "x = p + 1 accepted");
    // an xprv string is not an xpub
    assert!(ExtendedPublicKey::from_string(&r.ser()).is_err());
}

// E11 construction through new(): leading-zero keys and chain codes, fingerprints, both index ranges
#[test]
fn e11_new_and_serialise_with_leading_zeros() {
    for (k, c, depth, index, fp) in [
        (BigUint::one(), [0u8; 32], 0u8, 0u32, [0u8; 4]),
        (BigUint::from(0xffu8), [0u8; 32], 255, u32::MAX, [0xff; 4]),
        (n() - BigUint::one(), [0xff; 32], 1, H, [0, 0, 0, 1]),
        (big("0000000000000000000000000000000000000000000000000000010000000000"), [1; 32], 7, H - 1, [1, 0, 0, 0]),
    ] {
        let r = RPriv { k: k.clone(), c, depth, index, fp };
        let pk = PrivateKey::from_bytes(&be32(&k)).unwrap();
        let l = ExtendedPrivateKey::new(&pk, &c, &depth, &index, Some(&fp));
        cmp_priv(&l, &r, "new()");
        let lp = ExtendedPublicKey::new(&PublicKey::from_bytes(&r.pubkey()).unwrap(), &c, &depth, &index, Some(&fp));
        cmp_pub(&lp, &r.neuter(), "new() pub");
        if depth < 255 {
            for i in [0, 5, H - 1, H, u32::MAX] {
                if let Some(rc) = r.ckd(i) {
                    cmp_priv(&l.derive(i).unwrap(), &rc, "child of new()");
                    if i < H {
                        cmp_pub(&lp.derive(i).unwrap(), &r.neuter().ckd(i).unwrap(), "pub child of new()");
                    }
                }
            }
        }
    }
    // None fingerprint means zeros
    let pk = PrivateKey::from_bytes(&be32(&BigUint::from(5u8))).unwrap();
    let l = ExtendedPrivateKey::new(&pk, &[9u8; 32], &0, &0, None);
    cmp_priv(&l, &RPriv { k: BigUint::from(5u8), c: [9; 32], depth: 0, index: 0, fp: [0; 4] }, "None fp");
}

// E12 deriving is a pure function of the parent: repeated calls agree, parent string is unchanged
#[test]
fn e12_derive_is_pure() {
    let l = ExtendedPrivateKey::from_seed(&hx("0102030405060708090a0b0c0d0e0f101112")).unwrap();
    let before = l.to_string().unwrap();
    let a = l.derive(H + 3).unwrap().to_string().unwrap();
    let _ = l.derive(7).unwrap();
    let _ = l.derive_from_path("m/1/2/3'").unwrap();
    let b = l.derive(H + 3).unwrap().to_string().unwrap();
    assert_eq!(a, b);
    assert_eq!(l.to_string().unwrap(), before);
    let p = ExtendedPublicKey::from_xpriv(&l);
    let pb = p.to_string().unwrap();
    let _ = p.derive(H);
    let _ = p.derive(3).unwrap();
    assert_eq!(p.to_string().unwrap(), pb);
}

// ---------------------------------------------------------------------------------------------
// violations
// ---------------------------------------------------------------------------------------------

// V1: an xpub string handed to the xprv parser is accepted and yields a private key
//     (the abscissa of the public key). BIP32: version bytes tell the two apart
//     (test vector 5: "pubkey version / prvkey mismatch", "unknown extended key version").
#[test]
fn violation_xpub_string_accepted_as_xprv() {
    let xpub = TV1[0].0.is_empty().then(|| TV1[0].1).unwrap();
    let res = ExtendedPrivateKey::from_string(xpub);
    if let Ok(k) = &res {
        println!("xpub parsed as xprv: private key {} (x coordinate of the public key), re-serialised as {}", k.get_private_key().to_hex(), k.to_string().unwrap());
    }
    assert!(res.is_err(), "ExtendedPrivateKey::from_string accepted an xpub string");
}

// V1b: any version bytes are accepted by both parsers (testnet tprv/tpub, zeros), and the string does not round-trip
#[test]
fn violation_unknown_version_bytes_accepted() {
    let r = RPriv::master(&hx("000102030405060708090a0b0c0d0e0f")).unwrap();
    let mut accepted = vec![];
    for ver in [[0x04u8, 0x35, 0x83, 0x94], [0, 0, 0, 0], [0xff, 0xff, 0xff, 0xff], XPUB] {
        let mut pl = r.payload();
        pl[..4].copy_from_slice(&ver);
        let s = b58check(&pl);
        if let Ok(k) = ExtendedPrivateKey::from_string(&s) {
            accepted.push(format!("xprv parser, version {}: in {} out {}", hex::encode(ver), s, k.to_string().unwrap()));
        }
    }
    for ver in [[0x04u8, 0x35, 0x87, 0xcf], [0, 0, 0, 0], [0xff, 0xff, 0xff, 0xff], XPRV] {
        let mut pl = r.neuter().payload();
        pl[..4].copy_from_slice(&ver);
        let s = b58check(&pl);
        if let Ok(k) = ExtendedPublicKey::from_string(&s) {
            accepted.push(format!("xpub parser, version {}: in {} out {}", hex::encode(ver), s, k.to_string().unwrap()));
        }
    }
    for a in &accepted {
        println!("{}", a);
    }
    assert!(accepted.is_empty(), "{} strings with foreign version bytes were accepted", accepted.len());
}

// V2: the byte in front of the private key must be 0x00 (BIP32 test vector 5: "invalid prvkey prefix 04 / 01");
//     the library ignores it, and the accepted string does not round-trip.
#[test]
fn violation_private_key_pad_byte_ignored() {
    let r = RPriv::master(&hx("000102030405060708090a0b0c0d0e0f")).unwrap();
    let mut bad = vec![];
    for pad in [1u8, 2, 3, 4, 0x80, 0xff] {
        let mut pl = r.payload();
        pl[45] = pad;
        let s = b58check(&pl);
        if let Ok(k) = ExtendedPrivateKey::from_string(&s) {
            let out = k.to_string().unwrap();
            println!("pad {:02x}: accepted {} -> re-serialised {}", pad, s, out);
            bad.push((s, out));
        }
    }
    assert!(bad.is_empty(), "payloads with a non-zero byte before the private key were accepted");
}

// V3: an extended private key made from an uncompressed-flagged PrivateKey (e.g. from an uncompressed WIF)
//     derives normal children from the 65-byte public key: wrong child key, wrong chain code, wrong fingerprint.
#[test]
fn violation_uncompressed_private_key_normal_child() {
    // the classic uncompressed WIF of 0c28fca386c7a227600b2fe50b7cae11ec86d3bf1fbe471be89827e19d72aa1d
    let pk = PrivateKey::from_wif("5HueCGU8rMjxEXxiPuD5BDku4MkFqeZyd4dZ1jvhTVqvbTLvyTJ").unwrap();
    assert_eq!(pk.to_hex(), "0c28fca386c7a227600b2fe50b7cae11ec86d3bf1fbe471be89827e19d72aa1d");
    let c = [0x11u8; 32];
    let l = ExtendedPrivateKey::new(&pk, &c, &0, &0, None);
    let r = RPriv { k: BigUint::from_bytes_be(&pk.to_bytes()), c, depth: 0, index: 0, fp: [0; 4] };
    // the parent itself serialises as the standard says
    assert_eq!(l.to_string().unwrap(), r.ser());
    // hardened child: private key and chain code right (no public key involved) ...
    let lh = l.derive(H).unwrap();
    let rh = r.ckd(H).unwrap();
    assert_eq!(lh.get_private_key().to_bytes(), be32(&rh.k).to_vec());
    // ... normal child
    let lc = l.derive(0).unwrap();
    let rc = r.ckd(0).unwrap();
    println!("expected child xprv {}\nobserved child xprv {}", rc.ser(), lc.to_string().unwrap());
    println!("expected hardened child xprv {}\nobserved hardened child xprv {}", rh.ser(), lh.to_string().unwrap());
    assert_eq!(lh.to_string().unwrap(), rh.ser(), "hardened child string (parent fingerprint)");
    assert_eq!(lc.to_string().unwrap(), rc.ser(), "normal child string");
}

// V3b: the neutered form of such a key is not a valid xpub string, and CKDpub(N(parent)) != N(CKDpriv(parent))
#[test]
fn violation_uncompressed_key_xpub() {
    let pk = PrivateKey::from_wif("5HueCGU8rMjxEXxiPuD5BDku4MkFqeZyd4dZ1jvhTVqvbTLvyTJ").unwrap();
    let c = [0x11u8; 32];
    let l = ExtendedPrivateKey::new(&pk, &c, &0, &0, None);
    let r = RPriv { k: BigUint::from_bytes_be(&pk.to_bytes()), c, depth: 0, index: 0, fp: [0; 4] };
    let lp = ExtendedPublicKey::from_xpriv(&l);
    let s = lp.to_string().unwrap();
    println!("expected xpub {}\nobserved xpub {} ({} chars)", r.neuter().ser(), s, s.len());
    assert_eq!(s, r.neuter().ser());
}

// V3c: the same through ExtendedPublicKey::new with a decompressed PublicKey
#[test]
fn violation_uncompressed_public_key_child() {
    let r = RPriv::master(&hx("000102030405060708090a0b0c0d0e0f")).unwrap().neuter();
    let unc = PublicKey::from_bytes(&ser_p_uncompressed(&r.pt)).unwrap();
    let l = ExtendedPublicKey::new(&unc, &r.c, &0, &0, None);
    let lc = l.derive(1).unwrap();
    let rc = r.ckd(1).unwrap();
    println!("expected {}\nobserved {}", rc.ser(), lc.to_string().unwrap());
    assert_eq!(lc.to_string().unwrap(), rc.ser());
}

// O1 (observation, printed only): zero depth with non-zero parent fingerprint or index (BIP32 test vector 5)
#[test]
fn o1_depth_zero_with_parent_data_is_accepted() {
    let r = RPriv::master(&hx("000102030405060708090a0b0c0d0e0f")).unwrap();
    let mut a = r.clone();
    a.fp = [1, 2, 3, 4];
    let mut b = r.clone();
    b.index = 5;
    for x in [a, b] {
        println!("depth 0, fp {:?}, index {}: xprv accepted = {}, xpub accepted = {}", x.fp, x.index, ExtendedPrivateKey::from_string(&x.ser()).is_ok(), ExtendedPublicKey::from_string(&x.neuter().ser()).is_ok());
    }
}

// sanity of the parse_p helper used nowhere else but kept honest
#[test]
fn z_reference_point_parsing() {
    let pt = point_of(&BigUint::from(12345u32));
    assert_eq!(parse_p(&ser_p(&pt)), pt);
}

// E13 hostile text never panics in the string parsers or the path parser
#[test]
fn e13_no_panics_on_odd_text() {
    let l0 = ExtendedPrivateKey::from_seed(&[7u8; 32]).unwrap();
    let p0 = ExtendedPublicKey::from_xpriv(&l0);
    let long = "1".repeat(5000);
    let longz = "z".repeat(5000);
    for s in ["", "1", "x", "xprv", "xpub", "\u{e9}", "xprv9s21ZrQH143K3QTDL4LXw2F7HEK3wJUD2nW2nRk4stbPy6cq3jPPqjiChkVvvNKmPGJxWUtg6LnF5kejMRNNU3TGtRBeJgk33yuGBxrMPH\u{e9}", long.as_str(), longz.as_str(), "0OIl"] {
        assert!(ExtendedPrivateKey::from_string(s).is_err());
        assert!(ExtendedPublicKey::from_string(s).is_err());
    }
    for t in ["m\u{e9}/0", "m/0\u{e9}", "\u{e9}", "m/\u{130}", "m/1\u{212a}", "m/'", "m/h", "m/H", "m/''", "m//", "m/", "M", "m/0'/\u{2019}", "\u{1d5c6}/0", "m/9999999999999999999999"] {
        let _ = l0.derive_from_path(t).map(|k| println!("private path {:?} accepted: depth {} index {}", t, k.get_depth(), k.get_index()));
        let _ = p0.derive_from_path(t).map(|k| println!("public path {:?} accepted: depth {} index {}", t, k.get_depth(), k.get_index()));
    }
}

// E14 how often is an xpub accepted by the xprv parser? (every one whose abscissa is a valid scalar, i.e. practically all)
#[test]
fn e14_count_xpubs_accepted_as_xprv() {
    let mut rng = Rng(14);
    let mut accepted = 0;
    for _ in 0..50 {
        let r = RPriv::master(&rng.bytes(32)).unwrap().ckd(rng.index()).unwrap();
        let s = r.neuter().ser();
        if let Ok(k) = ExtendedPrivateKey::from_string(&s) {
            accepted += 1;
            // what comes out is the abscissa of the public point
            assert_eq!(k.get_private_key().to_bytes(), be32(&point_of(&r.k).0).to_vec());
        }
    }
    println!("xpub strings accepted by ExtendedPrivateKey::from_string: {}/50", accepted);
}

// O2 (observation, printed only; BIP39 is outside C08): from_mnemonic uses the passphrase as the whole salt
#[test]
fn o2_mnemonic_passphrase_is_the_whole_salt() {
    let m = b"abandon abandon abandon abandon abandon abandon abandon abandon abandon abandon abandon about";
    let want = "xprv9s21ZrQH143K3h3fDYiay8mocZ3afhfULfb5GX8kCBdno77K4HiA15Tg23wpbeF1pLfs1c5SPmYHrEpTuuRhxMwvKDwqdKiGJS9XFKzUsAF";
    let a = ExtendedPrivateKey::from_mnemonic(m, Some(b"TREZOR".to_vec())).unwrap().to_string().unwrap();
    let b = ExtendedPrivateKey::from_mnemonic(m, Some(b"mnemonicTREZOR".to_vec())).unwrap().to_string().unwrap();
    println!("BIP39 vector, passphrase TREZOR: Some(\"TREZOR\") matches = {}, Some(\"mnemonicTREZOR\") matches = {}", a == want, b == want);
}

// O3 (observation, printed only): new() takes chain codes / fingerprints of any length and serialises them as they are
#[test]
fn o3_new_with_odd_lengths() {
    let pk = PrivateKey::from_bytes(&[1u8; 32]).unwrap();
    let l = ExtendedPrivateKey::new(&pk, &[0u8; 31], &0, &0, Some(&[1, 2, 3]));
    let s = l.to_string().unwrap();
    println!("31-byte chain code, 3-byte fingerprint: to_string gives {} chars; parses back = {}", s.len(), ExtendedPrivateKey::from_string(&s).is_ok());
}
