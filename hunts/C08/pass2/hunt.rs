// Second-pass hunt for property C08 (BIP32 derivation and xprv/xpub serialisation).
// Oracle: a small reference BIP32 written here on num-bigint (own secp256k1 affine arithmetic,
// own HMAC, own Base58Check) -- k256 / the library's code is not used for expected values.
#![allow(non_snake_case, dead_code, clippy::all)]

use bsv::*;
use num_bigint::BigUint;
use num_traits::{One, Zero};
use ripemd160::Ripemd160;
use sha2::{Digest, Sha256, Sha512};

// ---------------------------------------------------------------- reference implementation

fn hx(s: &str) -> Vec<u8> {
    hex::decode(s).unwrap()
}
fn big(s: &str) -> BigUint {
    BigUint::parse_bytes(s.as_bytes(), 16).unwrap()
}
fn P() -> BigUint {
    big("FFFFFFFFFFFFFFFFFFFFFFFFFFFFFFFFFFFFFFFFFFFFFFFFFFFFFFFEFFFFFC2F")
}
fn N() -> BigUint {
    big("FFFFFFFFFFFFFFFFFFFFFFFFFFFFFFFEBAAEDCE6AF48A03BBFD25E8CD0364141")
}
fn G() -> Pt {
    Some((
        big("79BE667EF9DCBBAC55A06295CE870B07029BFCDB2DCE28D959F2815B16F81798"),
        big("483ADA7726A3C4655DA4FBFC0E1108A8FD17B448A68554199C47D08FFB10D4B8"),
    ))
}
type Pt = Option<(BigUint, BigUint)>;

fn inv(a: &BigUint) -> BigUint {
    let p = P();
    a.modpow(&(&p - 2u32), &p)
}
fn sub(a: &BigUint, b: &BigUint) -> BigUint {
    let p = P();
    ((a % &p) + &p - (b % &p)) % &p
}
fn padd(a: &Pt, b: &Pt) -> Pt {
    let p = P();
    match (a, b) {
        (None, _) => b.clone(),
        (_, None) => a.clone(),
        (Some((x1, y1)), Some((x2, y2))) => {
            let lam = if x1 == x2 {
                if (y1 + y2) % &p == BigUint::zero() {
                    return None;
                }
                (BigUint::from(3u32) * x1 * x1 % &p) * inv(&(BigUint::from(2u32) * y1 % &p)) % &p
            } else {
                sub(y2, y1) * inv(&sub(x2, x1)) % &p
            };
            let x3 = sub(&sub(&(&lam * &lam % &p), x1), x2);
            let y3 = sub(&(&lam * sub(x1, &x3) % &p), y1);
            Some((x3, y3))
        }
    }
}
fn pmul(k: &BigUint, pt: &Pt) -> Pt {
    let mut r: Pt = None;
    let bits = k.bits();
    for i in (0..bits).rev() {
        r = padd(&r, &r);
        if k.bit(i) {
            r = padd(&r, pt);
        }
    }
    r
}
fn be32(v: &BigUint) -> Vec<u8> {
    let b = v.to_bytes_be();
    let mut out = vec![0u8; 32 - b.len()];
    out.extend_from_slice(&b);
    out
}
fn ser_p(pt: &Pt) -> Vec<u8> {
    let (x, y) = pt.clone().unwrap();
    let mut out = vec![if y.bit(0) { 3u8 } else { 2u8 }];
    out.extend(be32(&x));
    out
}
fn parse_p(b: &[u8]) -> Pt {
    assert_eq!(b.len(), 33);
    let p = P();
    let x = BigUint::from_bytes_be(&b[1..]);
    let rhs = (&x * &x * &x + 7u32) % &p;
    let y = rhs.modpow(&((&p + 1u32) / 4u32), &p);
    assert_eq!(&y * &y % &p, rhs, "not on curve");
    let odd = b[0] == 3;
    let y = if y.bit(0) == odd { y } else { &p - y };
    Some((x, y))
}
fn sha512(d: &[u8]) -> Vec<u8> {
    Sha512::digest(d).to_vec()
}
fn sha256(d: &[u8]) -> Vec<u8> {
    Sha256::digest(d).to_vec()
}
fn h160(d: &[u8]) -> Vec<u8> {
    Ripemd160::digest(&sha256(d)).to_vec()
}
fn hmac512(key: &[u8], msg: &[u8]) -> Vec<u8> {
    let mut k = if key.len() > 128 { sha512(key) } else { key.to_vec() };
    k.resize(128, 0);
    let mut i: Vec<u8> = k.iter().map(|b| b ^ 0x36).collect();
    i.extend_from_slice(msg);
    let mut o: Vec<u8> = k.iter().map(|b| b ^ 0x5c).collect();
    o.extend(sha512(&i));
    sha512(&o)
}
const ALPHA: &[u8] = b"123456789ABCDEFGHJKLMNPQRSTUVWXYZabcdefghijkmnopqrstuvwxyz";
fn b58(d: &[u8]) -> String {
    let mut n = BigUint::from_bytes_be(d);
    let mut s = vec![];
    let b = BigUint::from(58u32);
    while !n.is_zero() {
        let r = (&n % &b).to_u32_digits();
        s.push(ALPHA[if r.is_empty() { 0 } else { r[0] as usize }]);
        n /= &b;
    }
    for z in d {
        if *z == 0 {
            s.push(b'1');
        } else {
            break;
        }
    }
    s.reverse();
    String::from_utf8(s).unwrap()
}
fn b58check(payload: &[u8]) -> String {
    let mut d = payload.to_vec();
    let c = sha256(&sha256(payload));
    d.extend_from_slice(&c[0..4]);
    b58(&d)
}

#[derive(Clone, Debug, PartialEq)]
struct RefKey {
    k: Option<BigUint>, // private
    pt: Vec<u8>,        // compressed point
    c: Vec<u8>,
    depth: u8,
    index: u32,
    fp: Vec<u8>,
}
impl RefKey {
    fn master(seed: &[u8]) -> RefKey {
        let i = hmac512(b"Bitcoin seed", seed);
        let k = BigUint::from_bytes_be(&i[..32]);
        assert!(!k.is_zero() && k < N());
        RefKey { pt: ser_p(&pmul(&k, &G())), k: Some(k), c: i[32..].to_vec(), depth: 0, index: 0, fp: vec![0; 4] }
    }
    fn neuter(&self) -> RefKey {
        let mut r = self.clone();
        r.k = None;
        r
    }
    fn ckd_priv(&self, i: u32) -> RefKey {
        let k = self.k.clone().unwrap();
        let mut data = if i >= 0x8000_0000 {
            let mut d = vec![0u8];
            d.extend(be32(&k));
            d
        } else {
            self.pt.clone()
        };
        data.extend_from_slice(&i.to_be_bytes());
        let I = hmac512(&self.c, &data);
        let il = BigUint::from_bytes_be(&I[..32]);
        assert!(il < N());
        let ck = (il + &k) % N();
        assert!(!ck.is_zero());
        RefKey { pt: ser_p(&pmul(&ck, &G())), k: Some(ck), c: I[32..].to_vec(), depth: self.depth + 1, index: i, fp: h160(&self.pt)[..4].to_vec() }
    }
    fn ckd_pub(&self, i: u32) -> RefKey {
        assert!(i < 0x8000_0000);
        let mut data = self.pt.clone();
        data.extend_from_slice(&i.to_be_bytes());
        let I = hmac512(&self.c, &data);
        let il = BigUint::from_bytes_be(&I[..32]);
        assert!(il < N());
        let pt = padd(&pmul(&il, &G()), &parse_p(&self.pt));
        RefKey { pt: ser_p(&pt), k: None, c: I[32..].to_vec(), depth: self.depth + 1, index: i, fp: h160(&self.pt)[..4].to_vec() }
    }
    fn payload(&self, private: bool) -> Vec<u8> {
        let mut d = if private { hx("0488ade4") } else { hx("0488b21e") };
        d.push(self.depth);
        d.extend_from_slice(&self.fp);
        d.extend_from_slice(&self.index.to_be_bytes());
        d.extend_from_slice(&self.c);
        if private {
            d.push(0);
            d.extend(be32(self.k.as_ref().unwrap()));
        } else {
            d.extend_from_slice(&self.pt);
        }
        d
    }
    fn xprv(&self) -> String {
        b58check(&self.payload(true))
    }
    fn xpub(&self) -> String {
        b58check(&self.payload(false))
    }
}

fn check_prv(lib: &ExtendedPrivateKey, r: &RefKey, what: &str) {
    assert_eq!(lib.get_private_key().to_bytes(), be32(r.k.as_ref().unwrap()), "{}: private key", what);
    assert_eq!(lib.get_public_key().to_bytes().unwrap(), r.pt, "{}: public key", what);
    assert_eq!(lib.get_chain_code(), r.c, "{}: chain code", what);
    assert_eq!(lib.get_depth(), r.depth, "{}: depth", what);
    assert_eq!(lib.get_index(), r.index, "{}: index", what);
    assert_eq!(lib.get_parent_fingerprint(), r.fp, "{}: fingerprint", what);
    assert_eq!(lib.to_string().unwrap(), r.xprv(), "{}: xprv string", what);
    assert_eq!(ExtendedPublicKey::from_xpriv(lib).to_string().unwrap(), r.xpub(), "{}: xpub string", what);
}
fn check_pub(lib: &ExtendedPublicKey, r: &RefKey, what: &str) {
    assert_eq!(lib.get_public_key().to_bytes().unwrap(), r.pt, "{}: public key", what);
    assert_eq!(lib.get_chain_code(), r.c, "{}: chain code", what);
    assert_eq!(lib.get_depth(), r.depth, "{}: depth", what);
    assert_eq!(lib.get_index(), r.index, "{}: index", what);
    assert_eq!(lib.get_parent_fingerprint(), r.fp, "{}: fingerprint", what);
    assert_eq!(lib.to_string().unwrap(), r.xpub(), "{}: xpub string", what);
}

struct Rng(u64);
impl Rng {
    fn next(&mut self) -> u64 {
        self.0 = self.0.wrapping_add(0x9E3779B97F4A7C15);
        let mut z = self.0;
        z = (z ^ (z >> 30)).wrapping_mul(0xBF58476D1CE4E5B9);
        z = (z ^ (z >> 27)).wrapping_mul(0x94D049BB133111EB);
        z ^ (z >> 31)
    }
    fn bytes(&mut self, n: usize) -> Vec<u8> {
        (0..n).map(|_| self.next() as u8).collect()
    }
}

// ---------------------------------------------------------------- E01 oracle sanity + BIP32 vectors

#[test]
fn e01_reference_and_library_match_bip32_vectors() {
    // BIP32 test vector 1, 2, 3 masters and a few children (strings from the BIP)
    let r = RefKey::master(&hx("000102030405060708090a0b0c0d0e0f"));
    assert_eq!(r.xprv(), "xprv9s21ZrQH143K3QTDL4LXw2F7HEK3wJUD2nW2nRk4stbPy6cq3jPPqjiChkVvvNKmPGJxWUtg6LnF5kejMRNNU3TGtRBeJgk33yuGBxrMPHi");
    assert_eq!(r.xpub(), "xpub661MyMwAqRbcFtXgS5sYJABqqG9YLmC4Q1Rdap9gSE8NqtwybGhePY2gZ29ESFjqJoCu1Rupje8YtGqsefD265TMg7usUDFdp6W1EGMcet8");
    let l = ExtendedPrivateKey::from_seed(&hx("000102030405060708090a0b0c0d0e0f")).unwrap();
    check_prv(&l, &r, "tv1 m");
    let path = [0x8000_0000u32, 1, 0x8000_0002, 2, 1_000_000_000];
    let (mut rr, mut ll) = (r.clone(), l);
    for i in path {
        rr = rr.ckd_priv(i);
        ll = ll.derive(i).unwrap();
        check_prv(&ll, &rr, "tv1 chain");
    }
    assert_eq!(rr.xprv(), "xprvA41z7zogVVwxVSgdKUHDy1SKmdb533PjDz7J6N6mV6uS3ze1ai8FHa8kmHScGpWmj4WggLyQjgPie1rFSruoUihUZREPSL39UNdE3BBDu76");
    let l = ExtendedPrivateKey::from_seed(&hx("000102030405060708090a0b0c0d0e0f")).unwrap();
    check_prv(&l.derive_from_path("m/0'/1/2h/2/1000000000").unwrap(), &rr, "tv1 path");
    check_prv(&l.derive_from_path("m/0H/1/2'/2/1000000000").unwrap(), &rr, "tv1 path H");

    let seed2 = hx("fffcf9f6f3f0edeae7e4e1dedbd8d5d2cfccc9c6c3c0bdbab7b4b1aeaba8a5a29f9c999693908d8a8784817e7b7875726f6c696663605d5a5754514e4b484542");
    let r = RefKey::master(&seed2);
    assert_eq!(r.xprv(), "xprv9s21ZrQH143K31xYSDQpPDxsXRTUcvj2iNHm5NUtrGiGG5e2DtALGdso3pGz6ssrdK4PFmM8NSpSBHNqPqm55Qn3LqFtT2emdEXVYsCzC2U");
    let l = ExtendedPrivateKey::from_seed(&seed2).unwrap();
    let mut rr = r.clone();
    for i in [0u32, 2147483647 + 0x8000_0000, 1, 2147483646 + 0x8000_0000, 2] {
        rr = rr.ckd_priv(i);
    }
    check_prv(&l.derive_from_path("m/0/2147483647'/1/2147483646h/2").unwrap(), &rr, "tv2 path");

    // vector 3 / 4: leading zeros are retained
    let seed3 = hx("4b381541583be4423346c643850da4b320e46a87ae3d2a4e6da11eba819cd4acba45d239319ac14f863b8d5ab5a0d0c64d2e8a1e7d1457df2e5a3c51c73235be");
    let r = RefKey::master(&seed3);
    assert_eq!(r.xprv(), "xprv9s21ZrQH143K25QhxbucbDDuQ4naNntJRi4KUfWT7xo4EKsHt2QJDu7KXp1A3u7Bi1j8ph3EGsZ9Xvz9dGuVrtHHs7pXeTzjuxBrCmmhgC6");
    let l = ExtendedPrivateKey::from_seed(&seed3).unwrap();
    check_prv(&l, &r, "tv3 m");
    check_prv(&l.derive(0x8000_0000).unwrap(), &r.ckd_priv(0x8000_0000), "tv3 m/0H");
    let seed4 = hx("3ddd5602285899a946114506157c7997e5444528f3003f6134712147db19b678");
    let r = RefKey::master(&seed4);
    let l = ExtendedPrivateKey::from_seed(&seed4).unwrap();
    check_prv(&l, &r, "tv4 m");
    let r1 = r.ckd_priv(0x8000_0000);
    check_prv(&l.derive(0x8000_0000).unwrap(), &r1, "tv4 m/0H");
    check_prv(&l.derive_from_path("m/0'/1'").unwrap(), &r1.ckd_priv(0x8000_0001), "tv4 m/0H/1H");
}

// ---------------------------------------------------------------- E02 seeds of all lengths

#[test]
fn e02_master_from_seeds_of_every_length() {
    let mut rng = Rng(1);
    let mut lens: Vec<usize> = (0..=70).collect();
    lens.extend([100, 127, 128, 129, 255, 256, 1000, 5000]);
    for n in lens {
        let seed = rng.bytes(n);
        let r = RefKey::master(&seed);
        let l = ExtendedPrivateKey::from_seed(&seed).unwrap();
        check_prv(&l, &r, &format!("seed len {}", n));
        check_pub(&ExtendedPublicKey::from_seed(&seed).unwrap(), &r.neuter(), &format!("pub seed len {}", n));
    }
}

// ---------------------------------------------------------------- E03 boundary indices, private + public

#[test]
fn e03_child_indices_both_sides_of_2_31() {
    let mut rng = Rng(2);
    for round in 0..6 {
        let seed = rng.bytes(16 + round * 8);
        let r = RefKey::master(&seed);
        let l = ExtendedPrivateKey::from_seed(&seed).unwrap();
        let lp = ExtendedPublicKey::from_xpriv(&l);
        let mut idx: Vec<u32> = vec![0, 1, 2, 255, 256, 65535, 65536, 0x7fff_fffe, 0x7fff_ffff, 0x8000_0000, 0x8000_0001, 0xffff_fffe, 0xffff_ffff, 0x0100_0000, 0x8100_0000];
        idx.push(rng.next() as u32);
        idx.push(rng.next() as u32);
        for i in idx {
            let rc = r.ckd_priv(i);
            let lc = l.derive(i).unwrap();
            check_prv(&lc, &rc, &format!("priv child {}", i));
            if i < 0x8000_0000 {
                let rp = r.neuter().ckd_pub(i);
                assert_eq!(rp, rc.neuter());
                check_pub(&lp.derive(i).unwrap(), &rp, &format!("pub child {}", i));
            } else {
                assert!(lp.derive(i).is_err(), "hardened public derivation must be refused ({})", i);
            }
        }
    }
}

// ---------------------------------------------------------------- E04 long random chains, both routes

#[test]
fn e04_random_chains_private_and_public() {
    let mut rng = Rng(3);
    for _ in 0..8 {
        let seed = rng.bytes(32);
        let mut r = RefKey::master(&seed);
        let mut l = ExtendedPrivateKey::from_seed(&seed).unwrap();
        let mut path = String::from("m");
        for d in 0..6 {
            let mut i = rng.next() as u32;
            if d % 2 == 0 {
                i &= 0x7fff_ffff;
            }
            r = r.ckd_priv(i);
            l = l.derive(i).unwrap();
            if i >= 0x8000_0000 {
                path += &format!("/{}{}", i - 0x8000_0000, ["'", "h", "H"][(rng.next() % 3) as usize]);
            } else {
                path += &format!("/{}", i);
            }
            check_prv(&l, &r, &path);
        }
        let root = ExtendedPrivateKey::from_seed(&seed).unwrap();
        check_prv(&root.derive_from_path(&path).unwrap(), &r, &path);
        // public chain of normal children below this key
        let mut rp = r.neuter();
        let mut lp = ExtendedPublicKey::from_xpriv(&l);
        let mut ppath = String::from("m");
        for _ in 0..5 {
            let i = (rng.next() as u32) & 0x7fff_ffff;
            rp = rp.ckd_pub(i);
            lp = lp.derive(i).unwrap();
            ppath += &format!("/{}", i);
            check_pub(&lp, &rp, &ppath);
        }
        check_pub(&ExtendedPublicKey::from_xpriv(&l).derive_from_path(&ppath).unwrap(), &rp, &ppath);
        check_pub(&ExtendedPublicKey::from_xpriv(&l.derive_from_path(&ppath).unwrap()), &rp, "neutered private path");
    }
}

// ---------------------------------------------------------------- E05 parse -> derive (parsed route)

#[test]
fn e05_parsed_keys_derive_like_reference() {
    let mut rng = Rng(4);
    for _ in 0..10 {
        // arbitrary but valid extended key that no seed produced
        let k = BigUint::from_bytes_be(&rng.bytes(32)) % (N() - 1u32) + 1u32;
        let r = RefKey { pt: ser_p(&pmul(&k, &G())), k: Some(k), c: rng.bytes(32), depth: (rng.next() % 255) as u8, index: rng.next() as u32, fp: rng.bytes(4) };
        let l = ExtendedPrivateKey::from_string(&r.xprv()).unwrap();
        check_prv(&l, &r, "parsed xprv");
        let lp = ExtendedPublicKey::from_string(&r.xpub()).unwrap();
        check_pub(&lp, &r.neuter(), "parsed xpub");
        for i in [0u32, 7, 0x7fff_ffff, 0x8000_0000, 0xffff_ffff] {
            check_prv(&l.derive(i).unwrap(), &r.ckd_priv(i), "child of parsed xprv");
            if i < 0x8000_0000 {
                check_pub(&lp.derive(i).unwrap(), &r.neuter().ckd_pub(i), "child of parsed xpub");
            } else {
                assert!(lp.derive(i).is_err());
            }
        }
        // the constructor route gives the same object
        let pk = PrivateKey::from_bytes(&be32(r.k.as_ref().unwrap())).unwrap();
        let built = ExtendedPrivateKey::new(&pk, &r.c, &r.depth, &r.index, Some(&r.fp));
        check_prv(&built, &r, "built xprv");
        check_prv(&built.derive(5).unwrap(), &r.ckd_priv(5), "child of built xprv");
        let built_unc = ExtendedPrivateKey::new(&pk.compress_public_key(false), &r.c, &r.depth, &r.index, Some(&r.fp));
        check_prv(&built_unc, &r, "built xprv (uncompressed flag)");
        check_prv(&built_unc.derive(0x8000_0005).unwrap(), &r.ckd_priv(0x8000_0005), "child of built xprv (unc)");
        check_prv(&built_unc.derive(5).unwrap().derive(6).unwrap(), &r.ckd_priv(5).ckd_priv(6), "grandchild of built xprv (unc)");
        let pubk = PublicKey::from_bytes(&r.pt).unwrap();
        let bp = ExtendedPublicKey::new(&pubk.to_decompressed().unwrap(), &r.c, &r.depth, &r.index, Some(&r.fp));
        check_pub(&bp, &r.neuter(), "built xpub (decompressed)");
        check_pub(&bp.derive(9).unwrap(), &r.neuter().ckd_pub(9), "child of built xpub");
        let bp = ExtendedPublicKey::new(&pubk, &r.c, &r.depth, &r.index, None);
        let mut r0 = r.neuter();
        r0.fp = vec![0; 4];
        check_pub(&bp, &r0, "built xpub (no fingerprint)");
    }
}

// ---------------------------------------------------------------- E06 depth limits

#[test]
fn e06_depth_up_to_255() {
    let seed = hx("000102030405060708090a0b0c0d0e0f");
    let root = ExtendedPrivateKey::from_seed(&seed).unwrap();
    let mut r = RefKey::master(&seed);
    let mut path = String::from("m");
    for d in 0..255u32 {
        let i = if d % 5 == 0 { 0x8000_0000 + d } else { d };
        r = r.ckd_priv(i);
        path += &if i >= 0x8000_0000 { format!("/{}'", d) } else { format!("/{}", d) };
    }
    let deep = root.derive_from_path(&path).unwrap();
    check_prv(&deep, &r, "depth 255");
    assert_eq!(deep.get_depth(), 255);
    assert!(deep.derive(0).is_err());
    assert!(deep.derive(0x8000_0000).is_err());
    assert!(root.derive_from_path(&(path.clone() + "/0")).is_err());
    assert!(ExtendedPublicKey::from_xpriv(&deep).derive(0).is_err());
    // string of a depth-255 key round-trips and still refuses children
    let s = deep.to_string().unwrap();
    let back = ExtendedPrivateKey::from_string(&s).unwrap();
    check_prv(&back, &r, "depth 255 reparsed");
    assert!(back.derive(1).is_err());
    // public: 255 normal levels
    let mut rp = RefKey::master(&seed).neuter();
    let mut ppath = String::from("m");
    for d in 0..255u32 {
        rp = rp.ckd_pub(d * 3);
        ppath += &format!("/{}", d * 3);
    }
    let lp = ExtendedPublicKey::from_seed(&seed).unwrap().derive_from_path(&ppath).unwrap();
    check_pub(&lp, &rp, "pub depth 255");
    assert!(lp.derive(0).is_err());
    assert!(ExtendedPublicKey::from_seed(&seed).unwrap().derive_from_path(&(ppath + "/1")).is_err());
    // depth 254 parsed -> one more level is fine
    let mut r254 = RefKey::master(&seed);
    r254.depth = 254;
    let l = ExtendedPrivateKey::from_string(&r254.xprv()).unwrap();
    check_prv(&l.derive(3).unwrap(), &r254.ckd_priv(3), "254 -> 255");
    assert!(l.derive_from_path("m/3/4").is_err());
}

// ---------------------------------------------------------------- E07 path text forms

#[test]
fn e07_path_forms() {
    let seed = hx("0f0e0d0c0b0a09080706050403020100aa");
    let root = ExtendedPrivateKey::from_seed(&seed).unwrap();
    let r = RefKey::master(&seed);
    let H = 0x8000_0000u32;
    let cases: Vec<(&str, Vec<u32>)> = vec![
        ("m/0", vec![0]),
        ("m/0'", vec![H]),
        ("m/0h", vec![H]),
        ("m/0H", vec![H]),
        ("m/2147483647", vec![H - 1]),
        ("m/2147483647'", vec![0xffff_ffff]),
        ("m/2147483647h", vec![0xffff_ffff]),
        ("m/2147483647H", vec![0xffff_ffff]),
        ("m/44'/236h/0H/1/7", vec![H + 44, H + 236, H, 1, 7]),
        ("M/1/2", vec![1, 2]),
    ];
    for (p, idx) in cases {
        let mut rr = r.clone();
        for i in &idx {
            rr = rr.ckd_priv(*i);
        }
        check_prv(&root.derive_from_path(p).unwrap(), &rr, p);
        let lp = ExtendedPublicKey::from_xpriv(&root).derive_from_path(p);
        if idx.iter().any(|i| *i >= H) {
            assert!(lp.is_err(), "xpub path with hardened step must be refused: {}", p);
        } else {
            check_pub(&lp.unwrap(), &rr.neuter(), p);
        }
    }
    // must be refused (not a path, or index out of range) and must not panic
    for p in [
        "", "/", "x/0", "0/1", "m/2147483648", "m/2147483648'", "m/4294967295", "m/4294967296", "m/-1", "m/1.0", "m/a", "m/'", "m/h", "m/ 1", "m/1 ", "m/1'2", "m/0x10", "m/１", "é/0", "mé/0",
        "m/1/é", "m/99999999999999999999",
    ] {
        let a = std::panic::catch_unwind(|| root.derive_from_path(p).is_err());
        assert_eq!(a.ok(), Some(true), "path {:?} should be refused without a panic", p);
        let xp = ExtendedPublicKey::from_xpriv(&root);
        let a = std::panic::catch_unwind(move || xp.derive_from_path(p).is_err());
        assert_eq!(a.ok(), Some(true), "xpub path {:?} should be refused without a panic", p);
    }
}

// Observation only: lenient readings of malformed paths; printed, not asserted
#[test]
fn e08_lenient_paths_observation() {
    let root = ExtendedPrivateKey::from_seed(&hx("000102030405060708090a0b0c0d0e0f")).unwrap();
    for p in ["m", "m/", "m0", "m0/1", "m//0", "m/0/", "m/0''", "m/0h'", "m/0'h", "m/0hH", "m/+5", "m/007", "mm/0", "m/0'H"] {
        match root.derive_from_path(p) {
            Ok(k) => println!("path {:?} accepted -> depth {} index {:#x}", p, k.get_depth(), k.get_index()),
            Err(e) => println!("path {:?} refused: {}", p, e),
        }
    }
}

// ---------------------------------------------------------------- E09 single-character corruptions

#[test]
fn e09_single_character_corruptions_are_rejected() {
    let mut rng = Rng(5);
    for round in 0..3 {
        let seed = rng.bytes(32);
        let r = RefKey::master(&seed).ckd_priv(round).ckd_priv(0x8000_0000 + round);
        for (s, private) in [(r.xprv(), true), (r.xpub(), false)] {
            let parse = |t: &str| -> Option<String> {
                if private {
                    ExtendedPrivateKey::from_string(t).ok().map(|k| k.to_string().unwrap())
                } else {
                    ExtendedPublicKey::from_string(t).ok().map(|k| k.to_string().unwrap())
                }
            };
            assert_eq!(parse(&s), Some(s.clone()));
            let b = s.as_bytes();
            for pos in 0..b.len() {
                for &c in ALPHA.iter().chain(b"0OIl +/=_\n".iter()) {
                    if c == b[pos] {
                        continue;
                    }
                    let mut t = b.to_vec();
                    t[pos] = c;
                    let t = String::from_utf8(t).unwrap();
                    assert_eq!(parse(&t), None, "substitution at {} accepted: {}", pos, t);
                }
                // deletion, duplication, transposition
                let mut t = b.to_vec();
                t.remove(pos);
                assert_eq!(parse(std::str::from_utf8(&t).unwrap()), None, "deletion at {}", pos);
                let mut t = b.to_vec();
                t.insert(pos, b[pos]);
                assert_eq!(parse(std::str::from_utf8(&t).unwrap()), None, "duplication at {}", pos);
                if pos + 1 < b.len() && b[pos] != b[pos + 1] {
                    let mut t = b.to_vec();
                    t.swap(pos, pos + 1);
                    assert_eq!(parse(std::str::from_utf8(&t).unwrap()), None, "transposition at {}", pos);
                }
            }
            for t in [format!("1{}", s), format!(" {}", s), format!("{} ", s), format!("{}\n", s), format!("{}1", s), format!("{}{}", s, s), String::new(), "1".repeat(82), "1".repeat(111)] {
                assert_eq!(parse(&t), None, "decoration accepted: {:?}", t);
            }
        }
    }
}

// ---------------------------------------------------------------- E10 single-byte payload corruptions with the OLD checksum

#[test]
fn e10_single_byte_payload_corruptions_keep_old_checksum() {
    let mut rng = Rng(6);
    let r = RefKey::master(&rng.bytes(20)).ckd_priv(3);
    for private in [true, false] {
        let p = r.payload(private);
        let c = sha256(&sha256(&p));
        for pos in 0..78 {
            for bit in 0..8 {
                let mut q = p.clone();
                q[pos] ^= 1 << bit;
                q.extend_from_slice(&c[..4]);
                let t = b58(&q);
                let ok = if private { ExtendedPrivateKey::from_string(&t).is_ok() } else { ExtendedPublicKey::from_string(&t).is_ok() };
                assert!(!ok, "payload byte {} bit {} flipped, old checksum, accepted", pos, bit);
            }
        }
        // checksum bytes flipped
        for pos in 0..4 {
            let mut q = p.clone();
            let mut cc = c[..4].to_vec();
            cc[pos] ^= 0x80;
            q.extend(cc);
            let t = b58(&q);
            let ok = if private { ExtendedPrivateKey::from_string(&t).is_ok() } else { ExtendedPublicKey::from_string(&t).is_ok() };
            assert!(!ok);
        }
        // truncated / extended payloads with a correct checksum over what is there
        for n in [0usize, 1, 4, 5, 45, 46, 77] {
            let t = b58check(&p[..n]);
            let ok = if private { ExtendedPrivateKey::from_string(&t).is_ok() } else { ExtendedPublicKey::from_string(&t).is_ok() };
            assert!(!ok, "truncated payload of {} bytes accepted", n);
        }
        let mut q = p.clone();
        q.push(0);
        let t = b58check(&q);
        let ok = if private { ExtendedPrivateKey::from_string(&t).is_ok() } else { ExtendedPublicKey::from_string(&t).is_ok() };
        assert!(!ok, "79-byte payload accepted");
    }
}

// ---------------------------------------------------------------- E11 BIP32 test vector 5 style invalid keys (valid checksum)

fn xprv_ok(t: &str) -> bool {
    std::panic::catch_unwind(|| ExtendedPrivateKey::from_string(t).is_ok()).expect("panic in from_string")
}
fn xpub_ok(t: &str) -> bool {
    std::panic::catch_unwind(|| ExtendedPublicKey::from_string(t).is_ok()).expect("panic in from_string")
}

#[test]
fn e11_invalid_key_material_is_rejected() {
    let r = RefKey::master(&hx("000102030405060708090a0b0c0d0e0f")).ckd_priv(1);
    // private key 0, n, n+1, 2^256-1
    for k in [BigUint::zero(), N(), N() + 1u32, (BigUint::one() << 256) - 1u32] {
        let mut p = r.payload(true);
        p.truncate(46);
        p.extend(be32(&k));
        assert!(!xprv_ok(&b58check(&p)), "private key {:x} accepted", k);
    }
    // n-1 and 1 are valid
    for k in [BigUint::one(), N() - 1u32] {
        let mut rr = r.clone();
        rr.pt = ser_p(&pmul(&k, &G()));
        rr.k = Some(k);
        let l = ExtendedPrivateKey::from_string(&rr.xprv()).unwrap();
        check_prv(&l, &rr, "edge private key");
        check_prv(&l.derive(1).unwrap(), &rr.ckd_priv(1), "child of edge private key");
    }
    // public key prefixes 00 01 04 05 06 07, x not on curve, x >= p
    for pre in [0u8, 1, 4, 5, 6, 7, 0xff] {
        let mut p = r.payload(false);
        p[45] = pre;
        assert!(!xpub_ok(&b58check(&p)), "public key prefix {:02x} accepted", pre);
    }
    let mut p = r.payload(false);
    p.truncate(45);
    p.push(2);
    p.extend(be32(&BigUint::from(7u32))); // BIP32 TV5: 0200..07 is not on the curve
    assert!(!xpub_ok(&b58check(&p)));
    let mut p = r.payload(false);
    p.truncate(45);
    p.push(2);
    p.extend(be32(&(P() + 1u32))); // x = p+1 (x=1 is on the curve; non-canonical encoding must be refused)
    assert!(!xpub_ok(&b58check(&p)), "x >= p accepted");
    let mut p = r.payload(false);
    p.truncate(45);
    p.extend(vec![0u8; 33]);
    assert!(!xpub_ok(&b58check(&p)));
    // the other kind's version, testnet versions (already repaired; kept as a regression)
    for v in ["0488b21e", "04358394", "043587cf", "00000000"] {
        let mut p = r.payload(true);
        p[..4].copy_from_slice(&hx(v));
        assert!(!xprv_ok(&b58check(&p)));
    }
}

// BIP32 test vector 5: "zero depth with non-zero parent fingerprint" / "zero depth with non-zero index"
fn zero_depth_cases() -> Vec<(String, RefKey)> {
    let m = RefKey::master(&hx("000102030405060708090a0b0c0d0e0f"));
    let mut a = m.clone();
    a.fp = hx("deadbeef");
    let mut b = m.clone();
    b.index = 1;
    let mut c = m.clone();
    c.index = 0x8000_0000;
    vec![("non-zero parent fingerprint".to_string(), a), ("non-zero index".to_string(), b), ("hardened index".to_string(), c)]
}

// Same kinds of key as the BIP lists under "Test vector 5" (invalid extended keys); the BIP's own four strings
// for these two cases are checked as well (their checksum and fields are verified with the reference decoder first).
#[test]
fn violation_e12_zero_depth_with_parent_data_is_accepted() {
    let cases = zero_depth_cases();
    // BIP32 test vector 5, "(zero depth with non-zero parent fingerprint)" / "(zero depth with non-zero index)":
    // same master key as vector 1, so the reference must reproduce the BIP's strings up to the varied field.
    let mut bad = vec![];
    for (what, k) in &cases {
        assert_eq!(k.depth, 0);
        for (s, private) in [(k.xprv(), true), (k.xpub(), false)] {
            let accepted = if private { xprv_ok(&s) } else { xpub_ok(&s) };
            println!("depth 0 with {}: {} accepted = {}", what, &s[..4], accepted);
            if accepted {
                bad.push(format!("{} ({})", s, what));
            }
        }
    }
    for (s, private) in [
        ("xprv9s2SPatNQ9Vc6GTbVMFPFo7jsaZySyzk7L8n2uqKXJen3KUmvQNTuLh3fhZMBoG3G4ZW1N2kZuHEPY53qmbZzCHshoQnNf4GvELZfqTUrcv", true),
        ("xpub661no6RGEX3uJkY4bNnPcw4URcQTrSibUZ4NqJEw5eBkv7ovTwgiT91XX27VbEXGENhYRCf7hyEbWrR3FewATdCEebj6znwMfQkhRYHRLpJ", false),
        ("xprv9s21ZrQH4r4TsiLvyLXqM9P7k1K3EYhA1kkD6xuquB5i39AU8KF42acDyL3qsDbU9NmZn6MsGSUYZEsuoePmjzsB3eFKSUEh3Gu1N3cqVUN", true),
        ("xpub661MyMwAuDcm6CRQ5N4qiHKrJ39Xe1R1NyfouMKTTWcguwVcfrZJaNvhpebzGerh7gucBvzEQWRugZDuDXjNDRmXzSZe4c7mnTK97pTvGS8", false),
    ] {
        let raw = b58dec(s);
        assert_eq!(raw.len(), 82);
        assert_eq!(&sha256(&sha256(&raw[..78]))[..4], &raw[78..], "BIP string mistyped");
        assert_eq!(raw[4], 0, "depth");
        assert!(raw[5..13].iter().any(|b| *b != 0), "fingerprint or index non-zero");
        let accepted = if private { xprv_ok(s) } else { xpub_ok(s) };
        println!("BIP32 TV5 {} (fingerprint {} index {}): accepted = {}", &s[..12], hex::encode(&raw[5..9]), hex::encode(&raw[9..13]), accepted);
        if accepted {
            bad.push(format!("{} (BIP32 test vector 5)", s));
        }
    }
    // and what the accepted object then claims: a master key that has a parent
    let l = ExtendedPrivateKey::from_string(&cases[0].1.xprv()).unwrap();
    println!("accepted: depth {} parent fingerprint {} index {}", l.get_depth(), hex::encode(l.get_parent_fingerprint()), l.get_index());
    assert!(bad.is_empty(), "BIP32 (test vector 5) requires these to be refused, the library accepts them:\n{}", bad.join("\n"));
}

// ---------------------------------------------------------------- E13 constructors with fields of the wrong size

fn b58dec(s: &str) -> Vec<u8> {
    let mut n = BigUint::zero();
    for c in s.bytes() {
        n = n * 58u32 + ALPHA.iter().position(|a| *a == c).unwrap();
    }
    let mut out = vec![0u8; s.bytes().take_while(|c| *c == b'1').count()];
    out.extend(n.to_bytes_be());
    out
}

// The constructors take chain code and fingerprint as slices of any length and return Self (no error route);
// to_string then writes them out as they are.
#[test]
fn violation_e13_constructors_emit_malformed_or_shifted_serialisations() {
    let r = RefKey::master(&hx("000102030405060708090a0b0c0d0e0f")).ckd_priv(1);
    let pk = PrivateKey::from_bytes(&be32(r.k.as_ref().unwrap())).unwrap();
    let pubk = PublicKey::from_bytes(&r.pt).unwrap();
    let mut bad = vec![];
    for (cc, fp) in [(31usize, 4usize), (33, 4), (32, 3), (32, 5), (33, 3), (31, 5)] {
        let c: Vec<u8> = (0..cc as u8).collect();
        let f = vec![0xEEu8; fp];
        let x = ExtendedPrivateKey::new(&pk, &c, &1, &1, Some(&f));
        let y = ExtendedPublicKey::new(&pubk, &c, &1, &1, Some(&f));
        for (res, private) in [(x.to_string(), true), (y.to_string(), false)] {
            // acceptable: an error. Not acceptable: a string that is not an 82-byte BIP32 serialisation,
            // or one that reads back as a different key.
            if let Ok(s) = res {
                let raw = b58dec(&s);
                if raw.len() != 82 {
                    let back = if private { xprv_ok(&s) } else { xpub_ok(&s) };
                    bad.push(format!("chain code {} B / fingerprint {} B: to_string() = Ok, {} bytes / {} chars (prefix {}), library re-reads it: {}", cc, fp, raw.len(), s.len(), &s[..4], back));
                } else {
                    let (bc, bf) = if private {
                        let b = ExtendedPrivateKey::from_string(&s).unwrap();
                        (b.get_chain_code(), b.get_parent_fingerprint())
                    } else {
                        let b = ExtendedPublicKey::from_string(&s).unwrap();
                        (b.get_chain_code(), b.get_parent_fingerprint())
                    };
                    if bc != c || bf != f {
                        bad.push(format!("chain code {} B / fingerprint {} B: string re-read with chain code {} and fingerprint {}", cc, fp, hex::encode(bc), hex::encode(bf)));
                    }
                }
            }
        }
        // such an object also derives children without complaint
        assert!(x.derive(0).is_ok() && y.derive(0).is_ok());
    }
    for b in &bad {
        println!("{}", b);
    }
    assert!(bad.is_empty(), "{} malformed serialisations", bad.len());
}

#[test]
fn e13_constructor_field_sizes_observation() {
    let r = RefKey::master(&hx("000102030405060708090a0b0c0d0e0f")).ckd_priv(1);
    let pk = PrivateKey::from_bytes(&be32(r.k.as_ref().unwrap())).unwrap();
    let pubk = PublicKey::from_bytes(&r.pt).unwrap();
    for (cc, fp) in [(31usize, 4usize), (33, 4), (0, 4), (64, 4), (32, 0), (32, 3), (32, 5), (33, 3), (31, 5), (36, 0)] {
        let c = vec![0x11u8; cc];
        let f = vec![0x22u8; fp];
        let x = ExtendedPrivateKey::new(&pk, &c, &1, &1, Some(&f));
        let s = x.to_string().unwrap();
        let back = ExtendedPrivateKey::from_string(&s);
        let y = ExtendedPublicKey::new(&pubk, &c, &1, &1, Some(&f));
        let sp = y.to_string().unwrap();
        let backp = ExtendedPublicKey::from_string(&sp);
        println!(
            "chain code {} bytes, fingerprint {} bytes: xprv string {} chars reparsed={} same_cc={:?}; xpub string {} chars reparsed={} same_cc={:?}",
            cc,
            fp,
            s.len(),
            back.is_ok(),
            back.as_ref().ok().map(|b| b.get_chain_code() == c && b.get_parent_fingerprint() == f),
            sp.len(),
            backp.is_ok(),
            backp.as_ref().ok().map(|b| b.get_chain_code() == c && b.get_parent_fingerprint() == f),
        );
    }
}

// ---------------------------------------------------------------- E14 hash primitives against own implementations

#[test]
fn e14_hash_primitives() {
    let mut rng = Rng(7);
    for klen in [0usize, 1, 12, 32, 64, 127, 128, 129, 200, 1000] {
        for mlen in [0usize, 1, 37, 111, 112, 127, 128, 129, 500] {
            let k = rng.bytes(klen);
            let m = rng.bytes(mlen);
            assert_eq!(Hash::sha_512_hmac(&m, &k).to_bytes(), hmac512(&k, &m), "hmac key {} msg {}", klen, mlen);
        }
    }
    // RFC 4231 test case 2
    assert_eq!(
        hex::encode(hmac512(b"Jefe", b"what do ya want for nothing?")),
        "164b7a7bfcf819e2e395fbe73b56e0a387bd64222e831fd610270cd7ea2505549758bf75c05a994a6d034f65f8f0e6fdcaeab1a34d4a6b4b636e070a38bce737"
    );
    for n in [0usize, 1, 33, 55, 56, 63, 64, 65, 1000] {
        let m = rng.bytes(n);
        assert_eq!(Hash::hash_160(&m).to_bytes(), h160(&m));
        assert_eq!(Hash::sha_256d(&m).to_bytes(), sha256(&sha256(&m)));
    }
    assert_eq!(hex::encode(h160(b"")), "b472a266d0bd89c13706a4132ccfb16f7c3b9fcb");
}

// ---------------------------------------------------------------- E15 neutering routes agree

#[test]
fn e15_neutering_routes() {
    let mut rng = Rng(8);
    for _ in 0..5 {
        let seed = rng.bytes(48);
        let l = ExtendedPrivateKey::from_seed(&seed).unwrap();
        let a = ExtendedPublicKey::from_seed(&seed).unwrap().to_string().unwrap();
        let b = ExtendedPublicKey::from_xpriv(&l).to_string().unwrap();
        let c = ExtendedPublicKey::new(&l.get_public_key(), &l.get_chain_code(), &l.get_depth(), &l.get_index(), Some(&l.get_parent_fingerprint())).to_string().unwrap();
        // through the private key's own public key (may be held in either form)
        let d = ExtendedPublicKey::new(&l.get_private_key().to_public_key().unwrap(), &l.get_chain_code(), &0, &0, None).to_string().unwrap();
        let e = ExtendedPublicKey::new(&l.get_private_key().compress_public_key(false).to_public_key().unwrap(), &l.get_chain_code(), &0, &0, None).to_string().unwrap();
        let r = RefKey::master(&seed).xpub();
        assert_eq!(a, r);
        assert_eq!(b, r);
        assert_eq!(c, r);
        assert_eq!(d, r);
        assert_eq!(e, r);
        // repeated use of one object gives the same answers (no hidden state)
        let i = (rng.next() as u32) & 0x7fff_ffff;
        let x1 = l.derive(i).unwrap().to_string().unwrap();
        let _ = l.derive(0x8000_0000 + i).unwrap();
        let _ = l.to_string().unwrap();
        let x2 = l.derive(i).unwrap().to_string().unwrap();
        assert_eq!(x1, x2);
        assert_eq!(x1, RefKey::master(&seed).ckd_priv(i).xprv());
    }
}

// ---------------------------------------------------------------- E16 from_mnemonic (BIP39 seed) -- outside BIP32, observation

#[test]
fn e16_mnemonic_observation() {
    use hmac::{Hmac, Mac, NewMac};
    fn pbkdf2_sha512(pw: &[u8], salt: &[u8], rounds: u32) -> Vec<u8> {
        let mut s = salt.to_vec();
        s.extend_from_slice(&1u32.to_be_bytes());
        let prf = |d: &[u8]| -> Vec<u8> {
            let mut m = Hmac::<Sha512>::new_from_slice(pw).unwrap();
            m.update(d);
            m.finalize().into_bytes().to_vec()
        };
        let mut u = prf(&s);
        let mut t = u.clone();
        for _ in 1..rounds {
            u = prf(&u);
            for (a, b) in t.iter_mut().zip(u.iter()) {
                *a ^= b;
            }
        }
        t
    }
    let mn = b"abandon abandon abandon abandon abandon abandon abandon abandon abandon abandon abandon about";
    let seed = pbkdf2_sha512(mn, b"mnemonicTREZOR", 2048);
    assert_eq!(hex::encode(&seed), "c55257c360c07c72029aebc1b53c05ed0362ada38ead3e3e9efa3708e53495531f09a6987599d18264c1e1c92f2cf141630c7a3c4ab7c81b2f001698e7463b04");
    let expected = RefKey::master(&seed).xprv();
    assert_eq!(expected, "xprv9s21ZrQH143K3h3fDYiay8mocZ3afhfULfb5GX8kCBdno77K4HiA15Tg23wpbeF1pLfs1c5SPmYHrEpTuuRhxMwvKDwqdKiGJS9XFKzUsAF");
    let got = ExtendedPrivateKey::from_mnemonic(mn, Some(b"TREZOR".to_vec())).unwrap().to_string().unwrap();
    println!("BIP39 'TREZOR' passphrase: library matches BIP39 = {}", got == expected);
    let got2 = ExtendedPrivateKey::from_mnemonic(mn, Some(b"mnemonicTREZOR".to_vec())).unwrap().to_string().unwrap();
    println!("  ... with the caller prepending 'mnemonic' = {}", got2 == expected);
    let none = ExtendedPrivateKey::from_mnemonic(mn, None).unwrap().to_string().unwrap();
    assert_eq!(none, RefKey::master(&pbkdf2_sha512(mn, b"mnemonic", 2048)).xprv());
}

// ---------------------------------------------------------------- E17 odd text never panics and is refused

#[test]
fn e17_odd_strings_are_refused_without_panic() {
    let good = RefKey::master(&hx("000102030405060708090a0b0c0d0e0f")).xprv();
    let cases: Vec<String> = vec![
        "é".into(),
        "xprvé".into(),
        format!("{}é", good),
        good.to_lowercase(),
        good.to_uppercase(),
        good.replace('x', "X"),
        "xprv".into(),
        "xpub".into(),
        "0".into(),
        "\0".into(),
        "z".repeat(200),
        "z".repeat(5000),
        "1".repeat(5000),
    ];
    for t in cases {
        assert!(!xprv_ok(&t), "{:?}", t);
        assert!(!xpub_ok(&t), "{:?}", t);
    }
}

// ---------------------------------------------------------------- E18 from_random objects are well-formed masters

#[test]
fn e18_random_masters_are_well_formed() {
    for _ in 0..5 {
        let l = ExtendedPrivateKey::from_random().unwrap();
        let k = BigUint::from_bytes_be(&l.get_private_key().to_bytes());
        let r = RefKey { pt: ser_p(&pmul(&k, &G())), k: Some(k), c: l.get_chain_code(), depth: 0, index: 0, fp: vec![0; 4] };
        check_prv(&l, &r, "random master");
        check_prv(&ExtendedPrivateKey::from_string(&l.to_string().unwrap()).unwrap(), &r, "random master reparsed");
        check_prv(&l.derive_from_path("m/0'/5").unwrap(), &r.ckd_priv(0x8000_0000).ckd_priv(5), "random master children");
        let p = ExtendedPublicKey::from_random().unwrap();
        assert_eq!((p.get_depth(), p.get_index(), p.get_parent_fingerprint()), (0, 0, vec![0; 4]));
        let s = p.to_string().unwrap();
        assert_eq!(b58dec(&s).len(), 82);
        assert_eq!(ExtendedPublicKey::from_string(&s).unwrap().to_string().unwrap(), s);
    }
}
