// Third hunting pass, property C08: BIP32 derivation and xprv/xpub serialisation match the standard.
//
// Oracle: a small BIP32 reference written here from the specification: secp256k1 affine arithmetic on
// num-bigint, HMAC-SHA512 hand-built from SHA-512, Base58Check hand-built on num-bigint, plus the
// published BIP32 test vectors (whose checksums are re-verified by the reference decoder).
#![allow(clippy::all)]
#![allow(dead_code)]

use bsv::*;
use num_bigint::BigUint;
use ripemd160::Ripemd160;
use sha2::{Digest, Sha256, Sha512};

// ---------------------------------------------------------------------------------------------
// reference implementation
// ---------------------------------------------------------------------------------------------

fn hx(s: &str) -> Vec<u8> {
    hex::decode(s).unwrap()
}
fn big(s: &str) -> BigUint {
    BigUint::parse_bytes(s.as_bytes(), 16).unwrap()
}
fn p() -> BigUint {
    big("FFFFFFFFFFFFFFFFFFFFFFFFFFFFFFFFFFFFFFFFFFFFFFFFFFFFFFFEFFFFFC2F")
}
fn n() -> BigUint {
    big("FFFFFFFFFFFFFFFFFFFFFFFFFFFFFFFEBAAEDCE6AF48A03BBFD25E8CD0364141")
}
fn g() -> Pt {
    Some((
        big("79BE667EF9DCBBAC55A06295CE870B07029BFCDB2DCE28D959F2815B16F81798"),
        big("483ADA7726A3C4655DA4FBFC0E1108A8FD17B448A68554199C47D08FFB10D4B8"),
    ))
}
type Pt = Option<(BigUint, BigUint)>;

fn zero() -> BigUint {
    BigUint::from(0u8)
}
fn one() -> BigUint {
    BigUint::from(1u8)
}
fn sub_mod(a: &BigUint, b: &BigUint, m: &BigUint) -> BigUint {
    ((a % m) + m - (b % m)) % m
}
fn inv_mod(a: &BigUint, m: &BigUint) -> BigUint {
    a.modinv(m).expect("invertible")
}
fn pt_add(a: &Pt, b: &Pt) -> Pt {
    let p = p();
    match (a, b) {
        (None, _) => b.clone(),
        (_, None) => a.clone(),
        (Some((x1, y1)), Some((x2, y2))) => {
            let lambda = if x1 == x2 {
                if (y1 + y2) % &p == zero() {
                    return None;
                }
                (BigUint::from(3u8) * x1 * x1 % &p) * inv_mod(&(BigUint::from(2u8) * y1 % &p), &p) % &p
            } else {
                sub_mod(y2, y1, &p) * inv_mod(&sub_mod(x2, x1, &p), &p) % &p
            };
            let x3 = sub_mod(&sub_mod(&(&lambda * &lambda % &p), x1, &p), x2, &p);
            let y3 = sub_mod(&(&lambda * sub_mod(x1, &x3, &p) % &p), y1, &p);
            Some((x3, y3))
        }
    }
}
fn pt_mul(k: &BigUint, pt: &Pt) -> Pt {
    let mut acc: Pt = None;
    let mut addend = pt.clone();
    let bits = k.bits();
    for i in 0..bits {
        if k.bit(i) {
            acc = pt_add(&acc, &addend);
        }
        addend = pt_add(&addend, &addend);
    }
    acc
}
fn be32(v: &BigUint) -> [u8; 32] {
    let b = v.to_bytes_be();
    assert!(b.len() <= 32);
    let mut out = [0u8; 32];
    out[32 - b.len()..].copy_from_slice(&b);
    out
}
fn ser_p(pt: &Pt) -> Vec<u8> {
    let (x, y) = pt.as_ref().expect("point at infinity");
    let mut out = vec![if y.bit(0) { 3u8 } else { 2u8 }];
    out.extend_from_slice(&be32(x));
    out
}
/// Strict reading of a 33-byte compressed point
fn parse_p(bytes: &[u8]) -> Pt {
    if bytes.len() != 33 || (bytes[0] != 2 && bytes[0] != 3) {
        return None;
    }
    let p = p();
    let x = BigUint::from_bytes_be(&bytes[1..]);
    if x >= p {
        return None;
    }
    let rhs = (&x * &x * &x + BigUint::from(7u8)) % &p;
    let y = rhs.modpow(&((&p + one()) / BigUint::from(4u8)), &p);
    if &y * &y % &p != rhs {
        return None;
    }
    let y = if y.bit(0) == (bytes[0] == 3) { y } else { &p - y };
    Some((x, y))
}

fn sha512(d: &[u8]) -> Vec<u8> {
    Sha512::digest(d).to_vec()
}
fn hmac512(key: &[u8], data: &[u8]) -> Vec<u8> {
    let mut k = if key.len() > 128 { sha512(key) } else { key.to_vec() };
    k.resize(128, 0);
    let mut inner: Vec<u8> = k.iter().map(|b| b ^ 0x36).collect();
    inner.extend_from_slice(data);
    let mut outer: Vec<u8> = k.iter().map(|b| b ^ 0x5c).collect();
    outer.extend_from_slice(&sha512(&inner));
    sha512(&outer)
}
fn sha256d(d: &[u8]) -> Vec<u8> {
    Sha256::digest(&Sha256::digest(d)).to_vec()
}
fn hash160(d: &[u8]) -> Vec<u8> {
    Ripemd160::digest(&Sha256::digest(d)).to_vec()
}

const ALPHABET: &[u8] = b"123456789ABCDEFGHJKLMNPQRSTUVWXYZabcdefghijkmnopqrstuvwxyz";
fn b58enc(data: &[u8]) -> String {
    let zeros = data.iter().take_while(|b| **b == 0).count();
    let mut v = BigUint::from_bytes_be(data);
    let base = BigUint::from(58u8);
    let mut out: Vec<u8> = vec![];
    while v > zero() {
        let r = (&v % &base).to_u32_digits();
        out.push(ALPHABET[*r.first().unwrap_or(&0) as usize]);
        v = v / &base;
    }
    for _ in 0..zeros {
        out.push(b'1');
    }
    out.reverse();
    String::from_utf8(out).unwrap()
}
fn b58dec(s: &str) -> Option<Vec<u8>> {
    let mut v = zero();
    let base = BigUint::from(58u8);
    for c in s.bytes() {
        let d = ALPHABET.iter().position(|a| *a == c)?;
        v = v * &base + BigUint::from(d as u32);
    }
    let zeros = s.bytes().take_while(|c| *c == b'1').count();
    let mut out = vec![0u8; zeros];
    if v > zero() {
        out.extend_from_slice(&v.to_bytes_be());
    }
    Some(out)
}
fn b58check(payload: &[u8]) -> String {
    let mut d = payload.to_vec();
    d.extend_from_slice(&sha256d(payload)[0..4]);
    b58enc(&d)
}

#[derive(Clone, Debug, PartialEq)]
struct RefKey {
    k: Option<BigUint>,
    pt: Pt,
    c: Vec<u8>,
    depth: u8,
    index: u32,
    fp: Vec<u8>,
}
impl RefKey {
    fn master(seed: &[u8]) -> Option<RefKey> {
        let i = hmac512(b"Bitcoin seed", seed);
        let k = BigUint::from_bytes_be(&i[0..32]);
        if k == zero() || k >= n() {
            return None;
        }
        Some(RefKey {
            pt: pt_mul(&k, &g()),
            k: Some(k),
            c: i[32..].to_vec(),
            depth: 0,
            index: 0,
            fp: vec![0; 4],
        })
    }
    fn fingerprint(&self) -> Vec<u8> {
        hash160(&ser_p(&self.pt))[0..4].to_vec()
    }
    fn ckd_priv(&self, i: u32) -> Option<RefKey> {
        let k = self.k.as_ref()?;
        let mut data = vec![];
        if i >= 0x8000_0000 {
            data.push(0);
            data.extend_from_slice(&be32(k));
        } else {
            data.extend_from_slice(&ser_p(&self.pt));
        }
        data.extend_from_slice(&i.to_be_bytes());
        let out = hmac512(&self.c, &data);
        let il = BigUint::from_bytes_be(&out[0..32]);
        if il >= n() {
            return None;
        }
        let ck = (il + k) % n();
        if ck == zero() {
            return None;
        }
        Some(RefKey {
            pt: pt_mul(&ck, &g()),
            k: Some(ck),
            c: out[32..].to_vec(),
            depth: self.depth.checked_add(1)?,
            index: i,
            fp: self.fingerprint(),
        })
    }
    fn ckd_pub(&self, i: u32) -> Option<RefKey> {
        if i >= 0x8000_0000 {
            return None;
        }
        let mut data = ser_p(&self.pt);
        data.extend_from_slice(&i.to_be_bytes());
        let out = hmac512(&self.c, &data);
        let il = BigUint::from_bytes_be(&out[0..32]);
        if il >= n() {
            return None;
        }
        let pt = pt_add(&pt_mul(&il, &g()), &self.pt);
        pt.as_ref()?;
        Some(RefKey {
            pt,
            k: None,
            c: out[32..].to_vec(),
            depth: self.depth.checked_add(1)?,
            index: i,
            fp: self.fingerprint(),
        })
    }
    fn neuter(&self) -> RefKey {
        RefKey { k: None, ..self.clone() }
    }
    fn payload(&self, private: bool) -> Vec<u8> {
        let mut d = vec![];
        d.extend_from_slice(&(if private { 0x0488ADE4u32 } else { 0x0488B21Eu32 }).to_be_bytes());
        d.push(self.depth);
        d.extend_from_slice(&self.fp);
        d.extend_from_slice(&self.index.to_be_bytes());
        d.extend_from_slice(&self.c);
        if private {
            d.push(0);
            d.extend_from_slice(&be32(self.k.as_ref().unwrap()));
        } else {
            d.extend_from_slice(&ser_p(&self.pt));
        }
        d
    }
    fn xprv(&self) -> String {
        b58check(&self.payload(true))
    }
    fn xpub(&self) -> String {
        b58check(&self.payload(false))
    }
    /// Strict decoder of the 78-byte payload
    fn from_payload(d: &[u8], want_private: bool) -> Option<RefKey> {
        RefKey::from_payload_opt(d, want_private, true)
    }
    /// with_point = false leaves the public point of a private key uncomputed (speed)
    fn from_payload_opt(d: &[u8], want_private: bool, with_point: bool) -> Option<RefKey> {
        if d.len() != 78 {
            return None;
        }
        let version = u32::from_be_bytes([d[0], d[1], d[2], d[3]]);
        if version != if want_private { 0x0488ADE4 } else { 0x0488B21E } {
            return None;
        }
        let depth = d[4];
        let fp = d[5..9].to_vec();
        let index = u32::from_be_bytes([d[9], d[10], d[11], d[12]]);
        if depth == 0 && (index != 0 || fp != vec![0; 4]) {
            return None;
        }
        let c = d[13..45].to_vec();
        if want_private {
            if d[45] != 0 {
                return None;
            }
            let k = BigUint::from_bytes_be(&d[46..78]);
            if k == zero() || k >= n() {
                return None;
            }
            Some(RefKey { pt: if with_point { pt_mul(&k, &g()) } else { None }, k: Some(k), c, depth, index, fp })
        } else {
            let pt = parse_p(&d[45..78]);
            pt.as_ref()?;
            Some(RefKey { pt, k: None, c, depth, index, fp })
        }
    }
    fn from_string(s: &str, want_private: bool) -> Option<RefKey> {
        let d = b58dec(s)?;
        if d.len() != 82 || sha256d(&d[0..78])[0..4] != d[78..82] {
            return None;
        }
        RefKey::from_payload(&d[0..78], want_private)
    }
}

fn assert_priv_eq(lib: &ExtendedPrivateKey, r: &RefKey, ctx: &str) {
    assert_eq!(lib.get_private_key().to_bytes(), be32(r.k.as_ref().unwrap()).to_vec(), "private key {}", ctx);
    assert_eq!(lib.get_public_key().to_bytes().unwrap(), ser_p(&r.pt), "public key {}", ctx);
    assert_eq!(lib.get_chain_code(), r.c, "chain code {}", ctx);
    assert_eq!(lib.get_depth(), r.depth, "depth {}", ctx);
    assert_eq!(lib.get_index(), r.index, "index {}", ctx);
    assert_eq!(lib.get_parent_fingerprint(), r.fp, "fingerprint {}", ctx);
    assert_eq!(lib.to_string().unwrap(), r.xprv(), "xprv {}", ctx);
    let neutered = ExtendedPublicKey::from_xpriv(lib);
    assert_pub_eq(&neutered, &r.neuter(), ctx);
}
fn assert_pub_eq(lib: &ExtendedPublicKey, r: &RefKey, ctx: &str) {
    assert_eq!(lib.get_public_key().to_bytes().unwrap(), ser_p(&r.pt), "public key (pub) {}", ctx);
    assert_eq!(lib.get_chain_code(), r.c, "chain code (pub) {}", ctx);
    assert_eq!(lib.get_depth(), r.depth, "depth (pub) {}", ctx);
    assert_eq!(lib.get_index(), r.index, "index (pub) {}", ctx);
    assert_eq!(lib.get_parent_fingerprint(), r.fp, "fingerprint (pub) {}", ctx);
    assert_eq!(lib.to_string().unwrap(), r.xpub(), "xpub {}", ctx);
}

struct Rng(u64);
impl Rng {
    fn next(&mut self) -> u64 {
        self.0 = self.0.wrapping_add(0x9E3779B97F4A7C15);
        let mut z = self.0;
        z = (z ^ (z >> 30)).wrapping_mul(0xBF58476D1CE4E5B9);
        z = (z ^ (z >> 27)).wrapping_mul(0x94D049BB133111EB);
        z ^ (z >> 31)
    }
    fn bytes(&mut self, len: usize) -> Vec<u8> {
        (0..len).map(|_| self.next() as u8).collect()
    }
    fn index(&mut self) -> u32 {
        const EDGE: [u32; 10] = [0, 1, 2, 0x7FFF_FFFE, 0x7FFF_FFFF, 0x8000_0000, 0x8000_0001, 0xFFFF_FFFE, 0xFFFF_FFFF, 1_000_000_000];
        match self.next() % 3 {
            0 => EDGE[(self.next() % 10) as usize],
            _ => self.next() as u32,
        }
    }
}

// ---------------------------------------------------------------------------------------------
// E01: the published BIP32 test vectors 1-4 (reference sanity + library)
// ---------------------------------------------------------------------------------------------

const TV1_SEED: &str = "000102030405060708090a0b0c0d0e0f";
const TV1: &[(&str, &str, &str)] = &[
    (
        "m",
        "xpub661MyMwAqRbcFtXgS5sYJABqqG9YLmC4Q1Rdap9gSE8NqtwybGhePY2gZ29ESFjqJoCu1Rupje8YtGqsefD265TMg7usUDFdp6W1EGMcet8",
        "xprv9s21ZrQH143K3QTDL4LXw2F7HEK3wJUD2nW2nRk4stbPy6cq3jPPqjiChkVvvNKmPGJxWUtg6LnF5kejMRNNU3TGtRBeJgk33yuGBxrMPHi",
    ),
    (
        "m/0'",
        "xpub68Gmy5EdvgibQVfPdqkBBCHxA5htiqg55crXYuXoQRKfDBFA1WEjWgP6LHhwBZeNK1VTsfTFUHCdrfp1bgwQ9xv5ski8PX9rL2dZXvgGDnw",
        "xprv9uHRZZhk6KAJC1avXpDAp4MDc3sQKNxDiPvvkX8Br5ngLNv1TxvUxt4cV1rGL5hj6KCesnDYUhd7oWgT11eZG7XnxHrnYeSvkzY7d2bhkJ7",
    ),
    (
        "m/0'/1",
        "xpub6ASuArnXKPbfEwhqN6e3mwBcDTgzisQN1wXN9BJcM47sSikHjJf3UFHKkNAWbWMiGj7Wf5uMash7SyYq527Hqck2AxYysAA7xmALppuCkwQ",
        "xprv9wTYmMFdV23N2TdNG573QoEsfRrWKQgWeibmLntzniatZvR9BmLnvSxqu53Kw1UmYPxLgboyZQaXwTCg8MSY3H2EU4pWcQDnRnrVA1xe8fs",
    ),
    (
        "m/0'/1/2'",
        "xpub6D4BDPcP2GT577Vvch3R8wDkScZWzQzMMUm3PWbmWvVJrZwQY4VUNgqFJPMM3No2dFDFGTsxxpG5uJh7n7epu4trkrX7x7DogT5Uv6fcLW5",
        "xprv9z4pot5VBttmtdRTWfWQmoH1taj2axGVzFqSb8C9xaxKymcFzXBDptWmT7FwuEzG3ryjH4ktypQSAewRiNMjANTtpgP4mLTj34bhnZX7UiM",
    ),
    (
        "m/0'/1/2'/2",
        "xpub6FHa3pjLCk84BayeJxFW2SP4XRrFd1JYnxeLeU8EqN3vDfZmbqBqaGJAyiLjTAwm6ZLRQUMv1ZACTj37sR62cfN7fe5JnJ7dh8zL4fiyLHV",
        "xprvA2JDeKCSNNZky6uBCviVfJSKyQ1mDYahRjijr5idH2WwLsEd4Hsb2Tyh8RfQMuPh7f7RtyzTtdrbdqqsunu5Mm3wDvUAKRHSC34sJ7in334",
    ),
    (
        "m/0'/1/2'/2/1000000000",
        "xpub6H1LXWLaKsWFhvm6RVpEL9P4KfRZSW7abD2ttkWP3SSQvnyA8FSVqNTEcYFgJS2UaFcxupHiYkro49S8yGasTvXEYBVPamhGW6cFJodrTHy",
        "xprvA41z7zogVVwxVSgdKUHDy1SKmdb533PjDz7J6N6mV6uS3ze1ai8FHa8kmHScGpWmj4WggLyQjgPie1rFSruoUihUZREPSL39UNdE3BBDu76",
    ),
];
const TV2_SEED: &str = "fffcf9f6f3f0edeae7e4e1dedbd8d5d2cfccc9c6c3c0bdbab7b4b1aeaba8a5a29f9c999693908d8a8784817e7b7875726f6c696663605d5a5754514e4b484542";
const TV2: &[(&str, &str, &str)] = &[
    (
        "m",
        "xpub661MyMwAqRbcFW31YEwpkMuc5THy2PSt5bDMsktWQcFF8syAmRUapSCGu8ED9W6oDMSgv6Zz8idoc4a6mr8BDzTJY47LJhkJ8UB7WEGuduB",
        "xprv9s21ZrQH143K31xYSDQpPDxsXRTUcvj2iNHm5NUtrGiGG5e2DtALGdso3pGz6ssrdK4PFmM8NSpSBHNqPqm55Qn3LqFtT2emdEXVYsCzC2U",
    ),
    (
        "m/0",
        "xpub69H7F5d8KSRgmmdJg2KhpAK8SR3DjMwAdkxj3ZuxV27CprR9LgpeyGmXUbC6wb7ERfvrnKZjXoUmmDznezpbZb7ap6r1D3tgFxHmwMkQTPH",
        "xprv9vHkqa6EV4sPZHYqZznhT2NPtPCjKuDKGY38FBWLvgaDx45zo9WQRUT3dKYnjwih2yJD9mkrocEZXo1ex8G81dwSM1fwqWpWkeS3v86pgKt",
    ),
];
const TV3_SEED: &str = "4b381541583be4423346c643850da4b320e46a87ae3d2a4e6da11eba819cd4acba45d239319ac14f863b8d5ab5a0d0c64d2e8a1e7d1457df2e5a3c51c73235be";
const TV3: &[(&str, &str, &str)] = &[
    (
        "m",
        "xpub661MyMwAqRbcEZVB4dScxMAdx6d4nFc9nvyvH3v4gJL378CSRZiYmhRoP7mBy6gSPSCYk6SzXPTf3ND1cZAceL7SfJ1Z3GC8vBgp2epUt13",
        "xprv9s21ZrQH143K25QhxbucbDDuQ4naNntJRi4KUfWT7xo4EKsHt2QJDu7KXp1A3u7Bi1j8ph3EGsZ9Xvz9dGuVrtHHs7pXeTzjuxBrCmmhgC6",
    ),
    (
        "m/0'",
        "xpub68NZiKmJWnxxS6aaHmn81bvJeTESw724CRDs6HbuccFQN9Ku14VQrADWgqbhhTHBaohPX4CjNLf9fq9MYo6oDaPPLPxSb7gwQN3ih19Zm4Y",
        "xprv9uPDJpEQgRQfDcW7BkF7eTya6RPxXeJCqCJGHuCJ4GiRVLzkTXBAJMu2qaMWPrS7AANYqdq6vcBcBUdJCVVFceUvJFjaPdGZ2y9WACViL4L",
    ),
];
const TV4_SEED: &str = "3ddd5602285899a946114506157c7997e5444528f3003f6134712147db19b678";
const TV4: &[(&str, &str, &str)] = &[
    (
        "m",
        "xpub661MyMwAqRbcGczjuMoRm6dXaLDEhW1u34gKenbeYqAix21mdUKJyuyu5F1rzYGVxyL6tmgBUAEPrEz92mBXjByMRiJdba9wpnN37RLLAXa",
        "xprv9s21ZrQH143K48vGoLGRPxgo2JNkJ3J3fqkirQC2zVdk5Dgd5w14S7fRDyHH4dWNHUgkvsvNDCkvAwcSHNAQwhwgNMgZhLtQC63zxwhQmRv",
    ),
    (
        "m/0'",
        "xpub69AUMk3qDBi3uW1sXgjCmVjJ2G6WQoYSnNHyzkmdCHEhSZ4tBok37xfFEqHd2AddP56Tqp4o56AePAgCjYdvpW2PU2jbUPFKsav5ut6Ch1m",
        "xprv9vB7xEWwNp9kh1wQRfCCQMnZUEG21LpbR9NPCNN1dwhiZkjjeGRnaALmPXCX7SgjFTiCTT6bXes17boXtjq3xLpcDjzEuGLQBM5ohqkao9G",
    ),
    (
        "m/0'/1'",
        "xpub6BJA1jSqiukeaesWfxe6sNK9CCGaujFFSJLomWHprUL9DePQ4JDkM5d88n49sMGJxrhpjazuXYWdMf17C9T5XnxkopaeS7jGk1GyyVziaMt",
        "xprv9xJocDuwtYCMNAo3Zw76WENQeAS6WGXQ55RCy7tDJ8oALr4FWkuVoHJeHVAcAqiZLE7Je3vZJHxspZdFHfnBEjHqU5hG1Jaj32dVoS6XLT1",
    ),
];

fn ref_path(master: &RefKey, path: &str) -> RefKey {
    let mut k = master.clone();
    for part in path.split('/').skip(1) {
        let hardened = part.ends_with('\'');
        let i: u32 = part.trim_end_matches('\'').parse().unwrap();
        k = k.ckd_priv(if hardened { i + 0x8000_0000 } else { i }).unwrap();
    }
    k
}

#[test]
fn e01_published_vectors() {
    for (seed, vectors) in [(TV1_SEED, TV1), (TV2_SEED, TV2), (TV3_SEED, TV3), (TV4_SEED, TV4)] {
        let seed = hx(seed);
        let rm = RefKey::master(&seed).unwrap();
        let lm = ExtendedPrivateKey::from_seed(&seed).unwrap();
        for (path, xpub, xprv) in vectors {
            // the transcribed vectors are self-consistent (checksum) and the reference reproduces them
            assert!(RefKey::from_string(xpub, false).is_some(), "vector xpub checksum {}", path);
            assert!(RefKey::from_string(xprv, true).is_some(), "vector xprv checksum {}", path);
            let r = ref_path(&rm, path);
            assert_eq!(&r.xprv(), xprv, "reference vs vector {}", path);
            assert_eq!(&r.xpub(), xpub, "reference vs vector {}", path);

            let l = if *path == "m" { ExtendedPrivateKey::from_string(&lm.to_string().unwrap()).unwrap() } else { lm.derive_from_path(path).unwrap() };
            assert_eq!(&l.to_string().unwrap(), xprv, "library xprv {}", path);
            assert_eq!(&ExtendedPublicKey::from_xpriv(&l).to_string().unwrap(), xpub, "library xpub {}", path);
            assert_priv_eq(&l, &r, path);
            // parse both strings, re-serialise
            assert_eq!(&ExtendedPrivateKey::from_string(xprv).unwrap().to_string().unwrap(), xprv);
            assert_eq!(&ExtendedPublicKey::from_string(xpub).unwrap().to_string().unwrap(), xpub);
        }
    }
}

// ---------------------------------------------------------------------------------------------
// E02: seeds of every length 0..=130 plus a few long ones: master key vs reference
// ---------------------------------------------------------------------------------------------
#[test]
fn e02_seed_lengths() {
    let mut rng = Rng(2);
    let mut lens: Vec<usize> = (0..=130).collect();
    lens.extend_from_slice(&[255, 256, 257, 1000, 4096]);
    for len in lens {
        let seed = rng.bytes(len);
        let r = RefKey::master(&seed);
        let l = ExtendedPrivateKey::from_seed(&seed);
        match (r, l) {
            (Some(r), Ok(l)) => {
                assert_priv_eq(&l, &r, &format!("seed len {}", len));
                let lp = ExtendedPublicKey::from_seed(&seed).unwrap();
                assert_pub_eq(&lp, &r.neuter(), &format!("seed len {} (xpub from seed)", len));
            }
            (None, Err(_)) => {}
            (r, l) => panic!("seed len {}: reference {:?} library ok={}", len, r.is_some(), l.is_ok()),
        }
    }
}

// ---------------------------------------------------------------------------------------------
// E03: random derivation chains, indices on both sides of 2^31, private and public side
// ---------------------------------------------------------------------------------------------
#[test]
fn e03_random_chains() {
    let mut rng = Rng(3);
    for round in 0..25 {
        let seed_len = 16 + (rng.next() % 49) as usize;
        let seed = rng.bytes(seed_len);
        let mut r = RefKey::master(&seed).unwrap();
        let mut l = ExtendedPrivateKey::from_seed(&seed).unwrap();
        let depth = 1 + rng.next() % 6;
        for d in 0..depth {
            let i = rng.index();
            let ctx = format!("round {} depth {} index {}", round, d, i);
            let rc = r.ckd_priv(i).unwrap();
            let lc = l.derive(i).unwrap();
            assert_priv_eq(&lc, &rc, &ctx);

            // public side
            let lpub_parent = ExtendedPublicKey::from_xpriv(&l);
            let lpub_child = lpub_parent.derive(i);
            if i >= 0x8000_0000 {
                assert!(lpub_child.is_err(), "hardened public derivation refused {}", ctx);
                // also from a parsed xpub
                assert!(ExtendedPublicKey::from_string(&r.xpub()).unwrap().derive(i).is_err());
            } else {
                let lpub_child = lpub_child.unwrap();
                let rpub_child = r.neuter().ckd_pub(i).unwrap();
                assert_eq!(rpub_child, rc.neuter(), "reference self check {}", ctx);
                assert_pub_eq(&lpub_child, &rpub_child, &ctx);
                // from a parsed xpub string
                let parsed = ExtendedPublicKey::from_string(&r.xpub()).unwrap();
                assert_pub_eq(&parsed.derive(i).unwrap(), &rpub_child, &format!("{} (parsed parent)", ctx));
            }
            // from a parsed xprv string
            let parsed = ExtendedPrivateKey::from_string(&r.xprv()).unwrap();
            assert_priv_eq(&parsed.derive(i).unwrap(), &rc, &format!("{} (parsed parent)", ctx));

            r = rc;
            l = lc;
        }
    }
}

// ---------------------------------------------------------------------------------------------
// E04: every boundary index from one parent
// ---------------------------------------------------------------------------------------------
#[test]
fn e04_boundary_indices() {
    let seed = hx("aa55aa55aa55aa55aa55aa55aa55aa55aa55");
    let r = RefKey::master(&seed).unwrap().ckd_priv(7).unwrap();
    let l = ExtendedPrivateKey::from_seed(&seed).unwrap().derive(7).unwrap();
    for i in [0u32, 1, 255, 256, 65535, 65536, 0x00FF_FFFF, 0x0100_0000, 0x7FFF_FFFE, 0x7FFF_FFFF, 0x8000_0000, 0x8000_0001, 0x8000_00FF, 0xFFFF_FFFE, 0xFFFF_FFFF] {
        let rc = r.ckd_priv(i).unwrap();
        assert_priv_eq(&l.derive(i).unwrap(), &rc, &format!("index {}", i));
        let lp = ExtendedPublicKey::from_xpriv(&l).derive(i);
        if i < 0x8000_0000 {
            assert_pub_eq(&lp.unwrap(), &rc.neuter(), &format!("index {}", i));
        } else {
            assert!(lp.is_err());
        }
    }
}

// ---------------------------------------------------------------------------------------------
// E05: path strings — m, /, ', h, H forms; the accepted forms give the reference's key
// ---------------------------------------------------------------------------------------------
#[test]
fn e05_path_forms() {
    let seed = hx("000102030405060708090a0b0c0d0e0f1011121314");
    let rm = RefKey::master(&seed).unwrap();
    let lm = ExtendedPrivateKey::from_seed(&seed).unwrap();
    let h = 0x8000_0000u32;
    let cases: Vec<(&str, Vec<u32>)> = vec![
        ("m/0", vec![0]),
        ("m/0'", vec![h]),
        ("m/0h", vec![h]),
        ("m/0H", vec![h]),
        ("M/0H", vec![h]),
        ("m/44'/236h/0H/1/2147483647", vec![h + 44, h + 236, h, 1, 0x7FFF_FFFF]),
        ("m/2147483647'", vec![0xFFFF_FFFF]),
        ("m/2147483647h/2147483647H/2147483647", vec![0xFFFF_FFFF, 0xFFFF_FFFF, 0x7FFF_FFFF]),
        ("m/1/2/3/4/5/6/7/8", vec![1, 2, 3, 4, 5, 6, 7, 8]),
        ("m/007", vec![7]),
    ];
    for (path, indices) in cases {
        let mut r = rm.clone();
        for i in &indices {
            r = r.ckd_priv(*i).unwrap();
        }
        let l = lm.derive_from_path(path).unwrap_or_else(|e| panic!("{} refused: {}", path, e));
        assert_priv_eq(&l, &r, path);
        let lp = ExtendedPublicKey::from_xpriv(&lm).derive_from_path(path);
        if indices.iter().any(|i| *i >= h) {
            assert!(lp.is_err(), "xpub path with a hardened step refused: {}", path);
        } else {
            assert_pub_eq(&lp.unwrap(), &r.neuter(), path);
        }
    }
    // paths that name no valid derivation must not yield a key
    for bad in [
        "", "0", "0/1", "/0", "x/0", "m/2147483648", "m/2147483648'", "m/4294967295", "m/4294967296", "m/-1", "m/0x1", "m/a", "m/1.0", "m/ 1", "m/1 ", "m/'", "m/h", "m/H", "m/0'1",
        "m/0h1", "m/1/2/x", "m/1,2", "n/0", "m/1e3", "m\\0",
    ] {
        assert!(lm.derive_from_path(bad).is_err(), "private path {:?} accepted", bad);
        assert!(ExtendedPublicKey::from_xpriv(&lm).derive_from_path(bad).is_err(), "public path {:?} accepted", bad);
    }
}

// leniencies of the path reader: recorded, never a different key for a path a reference would accept
#[test]
fn e06_path_leniencies_observed() {
    let seed = hx("000102030405060708090a0b0c0d0e0f1011121314");
    let lm = ExtendedPrivateKey::from_seed(&seed).unwrap();
    for odd in ["m", "m/", "M", "m0", "m0/1", "m//0", "m/0/", "m/+5", "m/0''", "m/0'h", "m/0hH", "m/0Hh", "mm/0", "m/0'/", "m/١"] {
        match lm.derive_from_path(odd) {
            Ok(k) => println!("observation: path {:?} accepted -> depth {} index {}", odd, k.get_depth(), k.get_index()),
            Err(e) => println!("observation: path {:?} refused: {}", odd, e),
        }
    }
}

// ---------------------------------------------------------------------------------------------
// E07: depth up to 255; a 255-step path from the master, no 256th step
// ---------------------------------------------------------------------------------------------
#[test]
fn e07_depth_255() {
    let seed = hx("0f0e0d0c0b0a09080706050403020100");
    let mut r = RefKey::master(&seed).unwrap();
    let lm = ExtendedPrivateKey::from_seed(&seed).unwrap();
    let mut path = String::from("m");
    let mut rng = Rng(7);
    for step in 0..255u32 {
        let hardened = rng.next() % 2 == 0;
        let i = step * 3 + 1;
        let markers = ["'", "h", "H"];
        if hardened {
            path.push_str(&format!("/{}{}", i, markers[(rng.next() % 3) as usize]));
            r = r.ckd_priv(i + 0x8000_0000).unwrap();
        } else {
            path.push_str(&format!("/{}", i));
            r = r.ckd_priv(i).unwrap();
        }
    }
    assert_eq!(r.depth, 255);
    let l = lm.derive_from_path(&path).unwrap();
    assert_priv_eq(&l, &r, "depth 255");
    // round trip at depth 255
    let back = ExtendedPrivateKey::from_string(&l.to_string().unwrap()).unwrap();
    assert_priv_eq(&back, &r, "depth 255 parsed");
    let backp = ExtendedPublicKey::from_string(&r.xpub()).unwrap();
    assert_pub_eq(&backp, &r.neuter(), "depth 255 parsed xpub");
    // no children
    assert!(l.derive(0).is_err());
    assert!(l.derive(0x8000_0000).is_err());
    assert!(back.derive(5).is_err());
    assert!(backp.derive(0).is_err());
    assert!(ExtendedPublicKey::from_xpriv(&l).derive(0).is_err());
    assert!(lm.derive_from_path(&format!("{}/0", path)).is_err());
    // a purely public path of 255 normal steps
    let mut rp = RefKey::master(&seed).unwrap().neuter();
    let mut ppath = String::from("m");
    for step in 0..255u32 {
        ppath.push_str(&format!("/{}", step));
        rp = rp.ckd_pub(step).unwrap();
    }
    let lp = ExtendedPublicKey::from_xpriv(&lm).derive_from_path(&ppath).unwrap();
    assert_pub_eq(&lp, &rp, "public depth 255");
    assert!(lp.derive(0).is_err());
}

// ---------------------------------------------------------------------------------------------
// E08: every single-character substitution, deletion and insertion of valid strings is rejected
// ---------------------------------------------------------------------------------------------
#[test]
fn e08_single_character_corruptions() {
    let seed = hx(TV1_SEED);
    let r = RefKey::master(&seed).unwrap().ckd_priv(0x8000_0000).unwrap().ckd_priv(1).unwrap();
    for (s, private) in [(r.xprv(), true), (r.xpub(), false), (TV3[0].2.to_string(), true), (TV3[0].1.to_string(), false)] {
        let parse = |t: &str| -> bool {
            if private {
                ExtendedPrivateKey::from_string(t).is_ok()
            } else {
                ExtendedPublicKey::from_string(t).is_ok()
            }
        };
        assert!(parse(&s));
        let bytes = s.as_bytes();
        let mut tried = 0;
        for pos in 0..bytes.len() {
            // substitutions: the whole printable ASCII range, not only the alphabet
            for c in 0x20u8..0x7f {
                if c == bytes[pos] {
                    continue;
                }
                let mut t = bytes.to_vec();
                t[pos] = c;
                let t = String::from_utf8(t).unwrap();
                assert!(!parse(&t), "substitution accepted: {}", t);
                assert!(RefKey::from_string(&t, private).is_none());
                tried += 1;
            }
            // deletion
            let mut t = bytes.to_vec();
            t.remove(pos);
            assert!(!parse(std::str::from_utf8(&t).unwrap()), "deletion at {} accepted", pos);
        }
        // insertions
        for pos in 0..=bytes.len() {
            for c in ALPHABET {
                let mut t = bytes.to_vec();
                t.insert(pos, *c);
                assert!(!parse(std::str::from_utf8(&t).unwrap()), "insertion at {} accepted", pos);
            }
        }
        // surrounding whitespace / terminators are not part of a key string
        for t in [format!(" {}", s), format!("{} ", s), format!("{}\n", s), format!("{}\0", s), format!("1{}", s)] {
            assert!(!parse(&t), "decorated string accepted: {:?}", t);
        }
        assert!(tried > 10000);
    }
}

// ---------------------------------------------------------------------------------------------
// E09: every single-byte change of the 82 decoded bytes (checksum left alone) is rejected
// ---------------------------------------------------------------------------------------------
#[test]
fn e09_single_byte_corruptions_raw() {
    let seed = hx(TV2_SEED);
    let r = RefKey::master(&seed).unwrap().ckd_priv(5).unwrap();
    for (s, private) in [(r.xprv(), true), (r.xpub(), false)] {
        let raw = b58dec(&s).unwrap();
        assert_eq!(raw.len(), 82);
        for pos in 0..82 {
            for v in 0..=255u8 {
                if v == raw[pos] {
                    continue;
                }
                let mut t = raw.clone();
                t[pos] = v;
                let t = b58enc(&t);
                let ok = if private { ExtendedPrivateKey::from_string(&t).is_ok() } else { ExtendedPublicKey::from_string(&t).is_ok() };
                assert!(!ok, "raw corruption at {} -> {} accepted", pos, v);
            }
        }
        // truncated and extended payloads
        for len in [0usize, 1, 3, 4, 5, 77, 78, 81] {
            let t = b58enc(&raw[0..len]);
            let ok = if private { ExtendedPrivateKey::from_string(&t).is_ok() } else { ExtendedPublicKey::from_string(&t).is_ok() };
            assert!(!ok, "truncated to {} accepted", len);
            // truncated with its own valid checksum
            let t = b58check(&raw[0..len.min(78)]);
            let ok = if private { ExtendedPrivateKey::from_string(&t).is_ok() } else { ExtendedPublicKey::from_string(&t).is_ok() };
            assert!(!ok || len >= 78, "truncated+checksummed {} accepted", len);
        }
        let mut longer = raw[0..78].to_vec();
        longer.push(0);
        assert!(!(if private { ExtendedPrivateKey::from_string(&b58check(&longer)).is_ok() } else { ExtendedPublicKey::from_string(&b58check(&longer)).is_ok() }));
    }
}

// ---------------------------------------------------------------------------------------------
// E10: single-byte changes of the payload WITH a recomputed checksum: the accept/reject decision and
// the parsed fields equal those of the strict reference decoder, and accepted strings round-trip
// ---------------------------------------------------------------------------------------------
#[test]
fn e10_payload_changes_with_valid_checksum() {
    let seed = hx(TV4_SEED);
    let deep = RefKey::master(&seed).unwrap().ckd_priv(0x8000_0002).unwrap();
    let master = RefKey::master(&seed).unwrap();
    let mut accepted = 0;
    let mut rejected = 0;
    for r in [&deep, &master] {
        for private in [true, false] {
            let payload = r.payload(private);
            for pos in 0..78 {
                for v in 0..=255u8 {
                    let mut t = payload.clone();
                    t[pos] = v;
                    let s = b58check(&t);
                    let expect = RefKey::from_payload_opt(&t, private, false);
                    if private {
                        match (ExtendedPrivateKey::from_string(&s), expect) {
                            (Ok(l), Some(e)) => {
                                accepted += 1;
                                // cheap field comparison (no point multiplication by the reference beyond from_payload)
                                assert_eq!(l.to_string().unwrap(), s, "xprv round trip pos {} v {}", pos, v);
                                assert_eq!(l.get_depth(), e.depth);
                                assert_eq!(l.get_index(), e.index);
                                assert_eq!(l.get_parent_fingerprint(), e.fp);
                                assert_eq!(l.get_chain_code(), e.c);
                                assert_eq!(l.get_private_key().to_bytes(), be32(e.k.as_ref().unwrap()).to_vec());
                            }
                            (Err(_), None) => rejected += 1,
                            (l, e) => panic!("xprv pos {} v {}: library ok={} reference ok={}", pos, v, l.is_ok(), e.is_some()),
                        }
                        // never readable as the other kind
                        assert!(ExtendedPublicKey::from_string(&s).is_err());
                    } else {
                        match (ExtendedPublicKey::from_string(&s), expect) {
                            (Ok(l), Some(e)) => {
                                accepted += 1;
                                assert_eq!(l.to_string().unwrap(), s, "xpub round trip pos {} v {}", pos, v);
                                assert_eq!(l.get_depth(), e.depth);
                                assert_eq!(l.get_index(), e.index);
                                assert_eq!(l.get_parent_fingerprint(), e.fp);
                                assert_eq!(l.get_chain_code(), e.c);
                                assert_eq!(l.get_public_key().to_bytes().unwrap(), ser_p(&e.pt));
                            }
                            (Err(_), None) => rejected += 1,
                            (l, e) => panic!("xpub pos {} v {}: library ok={} reference ok={}", pos, v, l.is_ok(), e.is_some()),
                        }
                        assert!(ExtendedPrivateKey::from_string(&s).is_err());
                    }
                }
            }
        }
    }
    println!("e10: accepted {} rejected {}", accepted, rejected);
}

// ---------------------------------------------------------------------------------------------
// E11: hand-built invalid keys in the spirit of BIP32 test vector 5, valid checksums
// ---------------------------------------------------------------------------------------------
#[test]
fn e11_invalid_key_material() {
    let base = RefKey::master(&hx(TV1_SEED)).unwrap().ckd_priv(3).unwrap();
    let with_key = |private: bool, key33: &[u8]| -> String {
        let mut pl = base.payload(private);
        pl[45..78].copy_from_slice(key33);
        b58check(&pl)
    };
    let mut k = vec![0u8; 33];
    // private key 0
    assert!(ExtendedPrivateKey::from_string(&with_key(true, &k)).is_err(), "private key 0");
    // private key n, n+1, 2^256-1
    k[1..].copy_from_slice(&be32(&n()));
    assert!(ExtendedPrivateKey::from_string(&with_key(true, &k)).is_err(), "private key n");
    k[1..].copy_from_slice(&be32(&(n() + one())));
    assert!(ExtendedPrivateKey::from_string(&with_key(true, &k)).is_err(), "private key n+1");
    k[1..].copy_from_slice(&[0xff; 32]);
    assert!(ExtendedPrivateKey::from_string(&with_key(true, &k)).is_err(), "private key 2^256-1");
    // private key n-1 and 1 are fine and round-trip
    for good in [n() - one(), one()] {
        k[1..].copy_from_slice(&be32(&good));
        let s = with_key(true, &k);
        let l = ExtendedPrivateKey::from_string(&s).unwrap();
        assert_eq!(l.to_string().unwrap(), s);
        assert_eq!(l.get_public_key().to_bytes().unwrap(), ser_p(&pt_mul(&good, &g())));
        // and derive like the reference
        let mut r = base.clone();
        r.k = Some(good.clone());
        r.pt = pt_mul(&good, &g());
        assert_priv_eq(&l.derive(1).unwrap(), &r.ckd_priv(1).unwrap(), "edge key child");
        assert_priv_eq(&l.derive(0x8000_0001).unwrap(), &r.ckd_priv(0x8000_0001).unwrap(), "edge key hardened child");
    }
    // public keys: prefixes 00 01 04 05 06 07 ff, x not on the curve, x >= p
    let good_pt = ser_p(&base.pt);
    for prefix in [0u8, 1, 4, 5, 6, 7, 0x80, 0xff] {
        let mut pk = good_pt.clone();
        pk[0] = prefix;
        assert!(ExtendedPublicKey::from_string(&with_key(false, &pk)).is_err(), "pubkey prefix {}", prefix);
    }
    let mut pk = vec![2u8; 1];
    pk.extend_from_slice(&be32(&BigUint::from(7u8)));
    assert!(parse_p(&pk).is_none());
    assert!(ExtendedPublicKey::from_string(&with_key(false, &pk)).is_err(), "x=7 is not on the curve");
    // x = x0 + p with x0 a small abscissa on the curve
    let mut x0 = one();
    loop {
        let mut cand = vec![2u8];
        cand.extend_from_slice(&be32(&x0));
        if parse_p(&cand).is_some() && (&x0 + p()).bits() <= 256 {
            break;
        }
        x0 += one();
    }
    for prefix in [2u8, 3] {
        let mut pk = vec![prefix];
        pk.extend_from_slice(&be32(&(&x0 + p())));
        assert!(ExtendedPublicKey::from_string(&with_key(false, &pk)).is_err(), "x >= p");
        let mut ok = vec![prefix];
        ok.extend_from_slice(&be32(&x0));
        let s = with_key(false, &ok);
        let l = ExtendedPublicKey::from_string(&s).unwrap();
        assert_eq!(l.to_string().unwrap(), s);
        let mut r = base.neuter();
        r.pt = parse_p(&ok);
        assert_pub_eq(&l.derive(9).unwrap(), &r.ckd_pub(9).unwrap(), "small abscissa child");
    }
    // all-zero and all-ff chain codes are legal
    for fill in [0u8, 0xff] {
        let mut r = base.clone();
        r.c = vec![fill; 32];
        let l = ExtendedPrivateKey::from_string(&r.xprv()).unwrap();
        assert_priv_eq(&l, &r, "chain code fill");
        assert_priv_eq(&l.derive(0).unwrap(), &r.ckd_priv(0).unwrap(), "chain code fill child");
        let lp = ExtendedPublicKey::from_string(&r.xpub()).unwrap();
        assert_pub_eq(&lp.derive(0).unwrap(), &r.neuter().ckd_pub(0).unwrap(), "chain code fill pub child");
    }
    // depth > 0 with an all-zero fingerprint and index 0 is legal (not listed invalid by BIP32)
    let mut r = base.clone();
    r.fp = vec![0; 4];
    r.index = 0;
    r.depth = 9;
    assert_priv_eq(&ExtendedPrivateKey::from_string(&r.xprv()).unwrap(), &r, "zero fp at depth 9");
}

// ---------------------------------------------------------------------------------------------
// E12: children whose private key, public abscissa or chain code start with zero bytes
// ---------------------------------------------------------------------------------------------
#[test]
fn e12_leading_zero_material() {
    let seed = hx("6c6561642d7a65726f2d73656172636821");
    let rm = RefKey::master(&seed).unwrap();
    let lm = ExtendedPrivateKey::from_seed(&seed).unwrap();
    let nn = n();
    let mut found_key = 0;
    let mut found_cc = 0;
    let mut found_il = 0;
    let k = rm.k.clone().unwrap();
    // hardened children need no point multiplication to search
    for i in 0x8000_0000u32..0x8000_0000 + 6000 {
        let mut data = vec![0u8];
        data.extend_from_slice(&be32(&k));
        data.extend_from_slice(&i.to_be_bytes());
        let out = hmac512(&rm.c, &data);
        let ck = (BigUint::from_bytes_be(&out[0..32]) + &k) % &nn;
        let key_zero = be32(&ck)[0] == 0;
        let cc_zero = out[32] == 0;
        let il_zero = out[0] == 0;
        if (key_zero && found_key < 4) || (cc_zero && found_cc < 4) || (il_zero && found_il < 4) {
            found_key += key_zero as u32;
            found_cc += cc_zero as u32;
            found_il += il_zero as u32;
            let r = rm.ckd_priv(i).unwrap();
            let l = lm.derive(i).unwrap();
            assert_priv_eq(&l, &r, &format!("leading zero child {}", i));
            let back = ExtendedPrivateKey::from_string(&r.xprv()).unwrap();
            assert_priv_eq(&back, &r, "leading zero child parsed");
            assert_priv_eq(&back.derive(1).unwrap(), &r.ckd_priv(1).unwrap(), "leading zero grandchild");
            assert_pub_eq(&ExtendedPublicKey::from_string(&r.xpub()).unwrap().derive(1).unwrap(), &r.neuter().ckd_pub(1).unwrap(), "leading zero grandchild pub");
        }
    }
    assert!(found_key >= 2 && found_cc >= 2 && found_il >= 2, "{} {} {}", found_key, found_cc, found_il);
    // public abscissa with a leading zero byte: search normal children of the neutered master by the library-free reference
    let mut found_x = 0;
    let mut i = 0u32;
    while found_x < 1 && i < 600 {
        let rc = rm.neuter().ckd_pub(i).unwrap();
        if ser_p(&rc.pt)[1] == 0 {
            found_x += 1;
            assert_pub_eq(&ExtendedPublicKey::from_xpriv(&lm).derive(i).unwrap(), &rc, "leading zero abscissa");
            assert_pub_eq(&ExtendedPublicKey::from_string(&rc.xpub()).unwrap().derive(3).unwrap(), &rc.ckd_pub(3).unwrap(), "leading zero abscissa child");
            assert_priv_eq(&lm.derive(i).unwrap().derive(3).unwrap(), &rm.ckd_priv(i).unwrap().ckd_priv(3).unwrap(), "leading zero abscissa priv child");
        }
        i += 1;
    }
    println!("e12: leading-zero abscissa cases found: {}", found_x);
}

// ---------------------------------------------------------------------------------------------
// E13: the `new` constructors: every field combination serialises and derives like the reference
// ---------------------------------------------------------------------------------------------
#[test]
fn e13_constructors() {
    let mut rng = Rng(13);
    for round in 0..12 {
        let kbytes = rng.bytes(32);
        let k = BigUint::from_bytes_be(&kbytes) % (n() - one()) + one();
        let depth = if round == 0 { 255 } else if round == 1 { 1 } else { (rng.next() % 255 + 1) as u8 };
        let index = rng.index();
        let fp = rng.bytes(4);
        let c = rng.bytes(32);
        let r = RefKey { pt: pt_mul(&k, &g()), k: Some(k.clone()), c: c.clone(), depth, index, fp: fp.clone() };
        let sk = PrivateKey::from_bytes(&be32(&k)).unwrap();
        for sk in [sk.clone(), sk.compress_public_key(false), PrivateKey::from_wif(&sk.to_wif().unwrap()).unwrap(), PrivateKey::from_wif(&sk.compress_public_key(false).to_wif().unwrap()).unwrap()] {
            let l = ExtendedPrivateKey::new(&sk, &c, &depth, &index, Some(&fp));
            assert_priv_eq(&l, &r, &format!("new round {}", round));
            if depth < 255 {
                let i = rng.index();
                assert_priv_eq(&l.derive(i).unwrap(), &r.ckd_priv(i).unwrap(), "new -> child");
                if depth < 254 {
                    assert_priv_eq(&l.derive_from_path("m/1/2'").unwrap(), &r.ckd_priv(1).unwrap().ckd_priv(0x8000_0002).unwrap(), "new -> path");
                }
            } else {
                assert!(l.derive(0).is_err());
            }
        }
        let pk = PublicKey::from_bytes(&ser_p(&r.pt)).unwrap();
        for pk in [pk.clone(), pk.to_decompressed().unwrap(), pk.to_decompressed().unwrap().to_compressed().unwrap(), PublicKey::from_private_key(&sk), sk.compress_public_key(false).to_public_key().unwrap()] {
            let l = ExtendedPublicKey::new(&pk, &c, &depth, &index, Some(&fp));
            assert_pub_eq(&l, &r.neuter(), &format!("xpub new round {}", round));
            if depth < 255 {
                let i = rng.index() & 0x7FFF_FFFF;
                assert_pub_eq(&l.derive(i).unwrap(), &r.neuter().ckd_pub(i).unwrap(), "xpub new -> child");
                assert!(l.derive(i | 0x8000_0000).is_err());
            }
        }
    }
    // None fingerprint: four zero bytes
    let sk = PrivateKey::from_bytes(&be32(&BigUint::from(12345u32))).unwrap();
    let c = vec![9u8; 32];
    let r = RefKey { pt: pt_mul(&BigUint::from(12345u32), &g()), k: Some(BigUint::from(12345u32)), c: c.clone(), depth: 0, index: 0, fp: vec![0; 4] };
    let l = ExtendedPrivateKey::new(&sk, &c, &0, &0, None);
    assert_priv_eq(&l, &r, "new master");
    assert_priv_eq(&ExtendedPrivateKey::from_string(&l.to_string().unwrap()).unwrap(), &r, "new master parsed");
    let lp = ExtendedPublicKey::new(&sk.to_public_key().unwrap(), &c, &0, &0, None);
    assert_pub_eq(&lp, &r.neuter(), "new master xpub");
    assert_pub_eq(&ExtendedPublicKey::from_string(&lp.to_string().unwrap()).unwrap(), &r.neuter(), "new master xpub parsed");
}

// ---------------------------------------------------------------------------------------------
// E14: objects are not disturbed by use: deriving, serialising and neutering leave the parent as it was,
// and the same call twice gives the same answer
// ---------------------------------------------------------------------------------------------
#[test]
fn e14_reuse_and_idempotence() {
    let seed = hx("11223344556677889900aabbccddeeff");
    let r = RefKey::master(&seed).unwrap();
    let l = ExtendedPrivateKey::from_seed(&seed).unwrap();
    let before = l.to_string().unwrap();
    let a = l.derive(5).unwrap().to_string().unwrap();
    let _ = l.derive(0x8000_0005).unwrap();
    let _ = l.derive_from_path("m/1/2/3").unwrap();
    let _ = l.derive_from_path("garbage");
    let p = ExtendedPublicKey::from_xpriv(&l);
    let _ = p.derive(0x8000_0000);
    let pa = p.derive(5).unwrap().to_string().unwrap();
    assert_eq!(l.derive(5).unwrap().to_string().unwrap(), a);
    assert_eq!(p.derive(5).unwrap().to_string().unwrap(), pa);
    assert_eq!(l.to_string().unwrap(), before);
    assert_priv_eq(&l, &r, "after use");
    assert_pub_eq(&p, &r.neuter(), "after use");
    // a key taken out of an extended key and changed does not change the extended key
    let taken = l.get_private_key().compress_public_key(false);
    assert_eq!(taken.to_public_key().unwrap().to_bytes().unwrap().len(), 65);
    assert_eq!(l.to_string().unwrap(), before);
    let _ = l.get_public_key().to_decompressed().unwrap();
    assert_priv_eq(&l, &r, "after getters");
    // the public key handed out by an extended key is the compressed one a BIP32 user expects
    assert_eq!(l.get_public_key().to_bytes().unwrap(), ser_p(&r.pt));
    assert_eq!(l.derive(1).unwrap().get_public_key().to_bytes().unwrap(), ser_p(&r.ckd_priv(1).unwrap().pt));
}

// ---------------------------------------------------------------------------------------------
// E15: relative paths from a non-master key, and path vs step-by-step equivalence
// ---------------------------------------------------------------------------------------------
#[test]
fn e15_relative_paths() {
    let seed = hx("ffeeddccbbaa99887766554433221100ffeeddccbbaa99887766554433221100");
    let r = RefKey::master(&seed).unwrap().ckd_priv(0x8000_002c).unwrap().ckd_priv(0x8000_00ec).unwrap();
    let l = ExtendedPrivateKey::from_seed(&seed).unwrap().derive_from_path("m/44'/236'").unwrap();
    assert_priv_eq(&l, &r, "account parent");
    let rr = r.ckd_priv(0x8000_0000).unwrap().ckd_priv(0).unwrap().ckd_priv(17).unwrap();
    assert_priv_eq(&l.derive_from_path("m/0'/0/17").unwrap(), &rr, "relative path");
    assert_priv_eq(&l.derive(0x8000_0000).unwrap().derive(0).unwrap().derive(17).unwrap(), &rr, "stepwise");
    let account = r.ckd_priv(0x8000_0000).unwrap();
    let lp = ExtendedPublicKey::from_string(&account.xpub()).unwrap();
    assert_pub_eq(&lp.derive_from_path("m/0/17").unwrap(), &rr.neuter(), "public relative path");
    assert_pub_eq(&lp.derive(0).unwrap().derive(17).unwrap(), &rr.neuter(), "public stepwise");
}

// ---------------------------------------------------------------------------------------------
// E16: strings of the other network / other kinds (not an extended key at all) are refused
// ---------------------------------------------------------------------------------------------
#[test]
fn e16_foreign_strings() {
    let r = RefKey::master(&hx(TV1_SEED)).unwrap();
    for version in [0x0488ADE3u32, 0x0488ADE5, 0x0488B21D, 0x0488B21F, 0x04358394, 0x043587CF, 0, 0xFFFF_FFFF, 0xE4AD8804, 0x1EB28804] {
        for private in [true, false] {
            let mut pl = r.payload(private);
            pl[0..4].copy_from_slice(&version.to_be_bytes());
            let s = b58check(&pl);
            assert!(ExtendedPrivateKey::from_string(&s).is_err(), "version {:08x} as xprv", version);
            assert!(ExtendedPublicKey::from_string(&s).is_err(), "version {:08x} as xpub", version);
        }
    }
    let sk = PrivateKey::from_bytes(&be32(r.k.as_ref().unwrap())).unwrap();
    for s in [sk.to_wif().unwrap(), sk.to_public_key().unwrap().to_p2pkh_address().unwrap().to_string().unwrap(), String::new(), "xprv".into(), "xpub".into(), "0".into(), "l".into()] {
        assert!(ExtendedPrivateKey::from_string(&s).is_err(), "{:?}", s);
        assert!(ExtendedPublicKey::from_string(&s).is_err(), "{:?}", s);
    }
    // non-ASCII text
    for s in ["xprv9s21ZrQH143K3QTDL4LXw2F7HEK3wJUD2nW2nRk4stbPy6cq3jPPqjiChkVvvNKmPGJxWUtg6LnF5kejMRNNU3TGtRBeJgk33yuGBxrMPH\u{0131}", "\u{ff58}prv"] {
        assert!(ExtendedPrivateKey::from_string(s).is_err());
        assert!(ExtendedPublicKey::from_string(s).is_err());
    }
}

// ---------------------------------------------------------------------------------------------
// E17: many parents, public derivation == neutered private derivation (invariant, 300 cases, library only + reference spot checks)
// ---------------------------------------------------------------------------------------------
#[test]
fn e17_neuter_commutes() {
    let mut rng = Rng(17);
    for round in 0..300 {
        let seed = rng.bytes(16 + (round % 49));
        let m = ExtendedPrivateKey::from_seed(&seed).unwrap();
        let parent = if round % 2 == 0 { m } else { m.derive(rng.index()).unwrap() };
        let i = rng.index() & 0x7FFF_FFFF;
        let via_priv = ExtendedPublicKey::from_xpriv(&parent.derive(i).unwrap());
        let via_pub = ExtendedPublicKey::from_xpriv(&parent).derive(i).unwrap();
        assert_eq!(via_priv.to_string().unwrap(), via_pub.to_string().unwrap(), "round {}", round);
        assert_eq!(via_priv.get_public_key().to_bytes().unwrap(), via_pub.get_public_key().to_bytes().unwrap());
        assert_eq!(via_priv.get_parent_fingerprint(), via_pub.get_parent_fingerprint());
        assert_eq!(via_priv.get_chain_code(), via_pub.get_chain_code());
        if round % 30 == 0 {
            let r = RefKey::from_string(&parent.to_string().unwrap(), true).unwrap().ckd_priv(i).unwrap();
            assert_pub_eq(&via_pub, &r.neuter(), "spot check");
        }
    }
}

// ---------------------------------------------------------------------------------------------
// E18 (observation, BIP39 not BIP32): from_mnemonic with a passphrase
// ---------------------------------------------------------------------------------------------
#[test]
fn e18_mnemonic_passphrase_observed() {
    let mnemonic = b"abandon abandon abandon abandon abandon abandon abandon abandon abandon abandon abandon about";
    // BIP39 test vector (passphrase TREZOR)
    let expected = "xprv9s21ZrQH143K3h3fDYiay8mocZ3afhfULfb5GX8kCBdno77K4HiA15Tg23wpbeF1pLfs1c5SPmYHrEpTuuRhxMwvKDwqdKiGJS9XFKzUsAF";
    let seed = hx("c55257c360c07c72029aebc1b53c05ed0362ada38ead3e3e9efa3708e53495531f09a6987599d18264c1e1c92f2cf141630c7a3c4ab7c81b2f001698e7463b04");
    assert_eq!(RefKey::master(&seed).unwrap().xprv(), expected, "vector transcribed correctly");
    assert_eq!(ExtendedPrivateKey::from_seed(&seed).unwrap().to_string().unwrap(), expected);
    let got = ExtendedPrivateKey::from_mnemonic(mnemonic, Some(b"TREZOR".to_vec())).unwrap().to_string().unwrap();
    let got_prefixed = ExtendedPrivateKey::from_mnemonic(mnemonic, Some(b"mnemonicTREZOR".to_vec())).unwrap().to_string().unwrap();
    println!("observation: from_mnemonic(.., Some(\"TREZOR\")) == BIP39 vector: {}", got == expected);
    println!("observation: from_mnemonic(.., Some(\"mnemonicTREZOR\")) == BIP39 vector: {}", got_prefixed == expected);
}

// ---------------------------------------------------------------------------------------------
// E19 (observation): `new` does not validate field lengths / depth-0 consistency
// ---------------------------------------------------------------------------------------------
#[test]
fn e19_constructor_lengths_observed() {
    let sk = PrivateKey::from_bytes(&be32(&BigUint::from(77u32))).unwrap();
    for (cc_len, fp_len) in [(31usize, 4usize), (33, 4), (32, 3), (32, 5), (0, 0)] {
        let l = ExtendedPrivateKey::new(&sk, &vec![1u8; cc_len], &1, &0, Some(&vec![2u8; fp_len]));
        let s = l.to_string();
        let reread = s.as_ref().ok().map(|s| ExtendedPrivateKey::from_string(s).is_ok());
        println!("observation: new(chain code {} bytes, fingerprint {} bytes): to_string ok={} string re-read ok={:?}", cc_len, fp_len, s.is_ok(), reread);
    }
}

// ---------------------------------------------------------------------------------------------
// E20: random full payloads (right version, valid checksum): accept/reject and fields vs the strict reference
// ---------------------------------------------------------------------------------------------
#[test]
fn e20_random_payloads() {
    let mut rng = Rng(20);
    let mut accepted = 0;
    for round in 0..6000 {
        let private = round % 2 == 0;
        let mut pl = rng.bytes(78);
        pl[0..4].copy_from_slice(&(if private { 0x0488ADE4u32 } else { 0x0488B21Eu32 }).to_be_bytes());
        match rng.next() % 4 {
            0 => pl[4] = 0,
            1 => {
                pl[4] = 0;
                for b in &mut pl[5..13] {
                    *b = 0;
                }
            }
            _ => {}
        }
        if private {
            if rng.next() % 8 != 0 {
                pl[45] = 0;
            }
            if rng.next() % 16 == 0 {
                for b in &mut pl[46..62] {
                    *b = 0xff;
                }
            }
        } else if rng.next() % 8 != 0 {
            pl[45] = 2 + (rng.next() % 2) as u8;
        }
        let s = b58check(&pl);
        let expect = RefKey::from_payload_opt(&pl, private, false);
        if private {
            let l = ExtendedPrivateKey::from_string(&s);
            assert_eq!(l.is_ok(), expect.is_some(), "xprv decision for payload {}", hex::encode(&pl));
            if let Ok(l) = l {
                accepted += 1;
                assert_eq!(l.to_string().unwrap(), s);
            }
        } else {
            let l = ExtendedPublicKey::from_string(&s);
            assert_eq!(l.is_ok(), expect.is_some(), "xpub decision for payload {}", hex::encode(&pl));
            if let Ok(l) = l {
                accepted += 1;
                assert_eq!(l.to_string().unwrap(), s);
                assert_eq!(l.get_public_key().to_bytes().unwrap(), pl[45..78].to_vec());
            }
        }
    }
    println!("e20: accepted {} of 6000", accepted);
    assert!(accepted > 1000);
}

// ---------------------------------------------------------------------------------------------
// E21: transpositions of neighbouring characters and double substitutions are rejected
// ---------------------------------------------------------------------------------------------
#[test]
fn e21_transpositions() {
    let r = RefKey::master(&hx(TV4_SEED)).unwrap().ckd_priv(44).unwrap();
    let mut rng = Rng(21);
    for (s, private) in [(r.xprv(), true), (r.xpub(), false)] {
        let parse = |t: &str| if private { ExtendedPrivateKey::from_string(t).is_ok() } else { ExtendedPublicKey::from_string(t).is_ok() };
        let b = s.as_bytes().to_vec();
        for i in 0..b.len() - 1 {
            if b[i] == b[i + 1] {
                continue;
            }
            let mut t = b.clone();
            t.swap(i, i + 1);
            assert!(!parse(std::str::from_utf8(&t).unwrap()), "transposition at {}", i);
        }
        for _ in 0..20000 {
            let mut t = b.clone();
            let i = (rng.next() % b.len() as u64) as usize;
            let j = (rng.next() % b.len() as u64) as usize;
            t[i] = ALPHABET[(rng.next() % 58) as usize];
            t[j] = ALPHABET[(rng.next() % 58) as usize];
            if t == b {
                continue;
            }
            assert!(!parse(std::str::from_utf8(&t).unwrap()), "double substitution {} {}", i, j);
        }
        // case-folded strings
        assert!(!parse(&s.to_uppercase()));
        assert!(!parse(&s.to_lowercase()));
    }
}

// ---------------------------------------------------------------------------------------------
// E22: a string of one kind with the other kind's version bytes (valid checksum) is refused by both readers
// ---------------------------------------------------------------------------------------------
#[test]
fn e22_cross_kind_payloads() {
    let r = RefKey::master(&hx(TV3_SEED)).unwrap().ckd_priv(0x8000_0000).unwrap();
    let mut as_pub = r.payload(true);
    as_pub[0..4].copy_from_slice(&0x0488B21Eu32.to_be_bytes());
    let mut as_priv = r.payload(false);
    as_priv[0..4].copy_from_slice(&0x0488ADE4u32.to_be_bytes());
    for pl in [as_pub, as_priv] {
        let s = b58check(&pl);
        assert!(ExtendedPrivateKey::from_string(&s).is_err());
        assert!(ExtendedPublicKey::from_string(&s).is_err());
    }
    // the right strings are only readable as their own kind
    assert!(ExtendedPrivateKey::from_string(&r.xpub()).is_err());
    assert!(ExtendedPublicKey::from_string(&r.xprv()).is_err());
}

// ---------------------------------------------------------------------------------------------
// E23 (observation): objects built by `new` at depth 0 with a child number / fingerprint
// ---------------------------------------------------------------------------------------------
#[test]
fn e23_constructor_depth0_observed() {
    let sk = PrivateKey::from_bytes(&be32(&BigUint::from(77u32))).unwrap();
    let l = ExtendedPrivateKey::new(&sk, &[3u8; 32], &0, &5, Some(&[1, 2, 3, 4]));
    let s = l.to_string().unwrap();
    println!("observation: new(depth 0, index 5, fingerprint 01020304).to_string() re-read ok = {}", ExtendedPrivateKey::from_string(&s).is_ok());
    let p = ExtendedPublicKey::from_xpriv(&l).to_string().unwrap();
    println!("observation: its xpub re-read ok = {}", ExtendedPublicKey::from_string(&p).is_ok());
}
