//! C04 hunt: sighash depends only on the current transaction contents, never on call history.
//!
//! Oracle: a small reference model of a transaction (`MTx`) that is mutated in lockstep with the library's
//! `Transaction`, with its own wire serialiser and its own implementation of the BIP143/FORKID digest
//! preimage and of the original (legacy) signature-hash algorithm, written from the specifications.
//! Every comparison is three-way: library on the object with history, library on a freshly parsed copy of
//! the *model's* serialisation, and the reference preimage.
#![allow(clippy::needless_range_loop)]

use bsv::*;
use rayon::prelude::*;
use sha2::{Digest, Sha256};
use std::convert::TryFrom;

// ---------------------------------------------------------------------------------------------
// Reference model
// ---------------------------------------------------------------------------------------------

fn sha256d(b: &[u8]) -> Vec<u8> {
    Sha256::digest(&Sha256::digest(b)).to_vec()
}

fn varint(n: u64) -> Vec<u8> {
    if n < 0xfd {
        vec![n as u8]
    } else if n <= 0xffff {
        let mut v = vec![0xfd];
        v.extend_from_slice(&(n as u16).to_le_bytes());
        v
    } else if n <= 0xffff_ffff {
        let mut v = vec![0xfe];
        v.extend_from_slice(&(n as u32).to_le_bytes());
        v
    } else {
        let mut v = vec![0xff];
        v.extend_from_slice(&n.to_le_bytes());
        v
    }
}

#[derive(Clone, Debug, PartialEq, Eq)]
struct MIn {
    /// display order (what TxIn::new takes); the wire carries it reversed
    txid: Vec<u8>,
    vout: u32,
    script: Vec<u8>,
    seq: u32,
}

#[derive(Clone, Debug, PartialEq, Eq)]
struct MOut {
    value: u64,
    script: Vec<u8>,
}

#[derive(Clone, Debug, PartialEq, Eq)]
struct MTx {
    version: u32,
    ins: Vec<MIn>,
    outs: Vec<MOut>,
    lock: u32,
}

impl MIn {
    fn outpoint(&self) -> Vec<u8> {
        let mut v: Vec<u8> = self.txid.iter().rev().cloned().collect();
        v.extend_from_slice(&self.vout.to_le_bytes());
        v
    }
    fn ser(&self) -> Vec<u8> {
        let mut v = self.outpoint();
        v.extend(varint(self.script.len() as u64));
        v.extend_from_slice(&self.script);
        v.extend_from_slice(&self.seq.to_le_bytes());
        v
    }
}

impl MOut {
    fn ser(&self) -> Vec<u8> {
        let mut v = self.value.to_le_bytes().to_vec();
        v.extend(varint(self.script.len() as u64));
        v.extend_from_slice(&self.script);
        v
    }
}

impl MTx {
    fn ser(&self) -> Vec<u8> {
        let mut v = self.version.to_le_bytes().to_vec();
        v.extend(varint(self.ins.len() as u64));
        for i in &self.ins {
            v.extend(i.ser());
        }
        v.extend(varint(self.outs.len() as u64));
        for o in &self.outs {
            v.extend(o.ser());
        }
        v.extend_from_slice(&self.lock.to_le_bytes());
        v
    }
}

/// Removes OP_CODESEPARATOR (0xab) opcodes, walking pushes so that data bytes are never touched.
fn strip_codeseps(s: &[u8]) -> Vec<u8> {
    let mut out = vec![];
    let mut i = 0;
    while i < s.len() {
        let op = s[i];
        let (hdr, len) = match op {
            1..=0x4b => (1, op as usize),
            0x4c => (2, s[i + 1] as usize),
            0x4d => (3, u16::from_le_bytes([s[i + 1], s[i + 2]]) as usize),
            0x4e => (5, u32::from_le_bytes([s[i + 1], s[i + 2], s[i + 3], s[i + 4]]) as usize),
            _ => (1, 0),
        };
        if op != 0xab {
            out.extend_from_slice(&s[i..i + hdr + len]);
        }
        i += hdr + len;
    }
    out
}

/// Reference preimage. `None` where the library documents that it declines (input index out of range,
/// SIGHASH_SINGLE without a matching output). Dispatch follows the library's documentation: the six
/// named FORKID combinations use the BIP143-style digest, every other flag the original algorithm.
fn ref_preimage(m: &MTx, flag: u8, idx: usize, sub: &[u8], value: u64) -> Option<Vec<u8>> {
    if idx >= m.ins.len() {
        return None;
    }
    let base = flag & 0x1f;
    let acp = flag & 0x80 != 0;
    let fork = flag & 0x40 != 0 && base != 0;
    if base == 3 && idx >= m.outs.len() {
        return None;
    }
    let mut b = vec![];
    if fork {
        b.extend_from_slice(&m.version.to_le_bytes());
        if !acp {
            let all: Vec<u8> = m.ins.iter().flat_map(|i| i.outpoint()).collect();
            b.extend(sha256d(&all));
        } else {
            b.extend([0u8; 32]);
        }
        if !acp && base == 1 {
            let all: Vec<u8> = m.ins.iter().flat_map(|i| i.seq.to_le_bytes().to_vec()).collect();
            b.extend(sha256d(&all));
        } else {
            b.extend([0u8; 32]);
        }
        b.extend(m.ins[idx].outpoint());
        b.extend(varint(sub.len() as u64));
        b.extend_from_slice(sub);
        b.extend_from_slice(&value.to_le_bytes());
        b.extend_from_slice(&m.ins[idx].seq.to_le_bytes());
        match base {
            1 => {
                let all: Vec<u8> = m.outs.iter().flat_map(|o| o.ser()).collect();
                b.extend(sha256d(&all));
            }
            3 => b.extend(sha256d(&m.outs[idx].ser())),
            _ => b.extend([0u8; 32]),
        }
        b.extend_from_slice(&m.lock.to_le_bytes());
        b.extend_from_slice(&(flag as u32).to_le_bytes());
    } else {
        let sub = strip_codeseps(sub);
        let mut t = m.clone();
        for (i, inp) in t.ins.iter_mut().enumerate() {
            inp.script = if i == idx { sub.clone() } else { vec![] };
        }
        if base == 2 || base == 3 {
            for (i, inp) in t.ins.iter_mut().enumerate() {
                if i != idx {
                    inp.seq = 0;
                }
            }
        }
        if base == 2 {
            t.outs.clear();
        }
        if base == 3 {
            t.outs.truncate(idx + 1);
            for i in 0..idx {
                t.outs[i] = MOut { value: u64::MAX, script: vec![] };
            }
        }
        if acp {
            t.ins = vec![t.ins[idx].clone()];
        }
        b = t.ser();
        b.extend_from_slice(&(flag as u32).to_le_bytes());
    }
    Some(b)
}

// ---------------------------------------------------------------------------------------------
// Library side helpers
// ---------------------------------------------------------------------------------------------

const FLAGS: [u8; 14] = [0x40, 0x01, 0x02, 0x03, 0x80, 0x41, 0x42, 0x43, 0xc1, 0xc2, 0xc3, 0x81, 0x82, 0x83];

fn sh(f: u8) -> SigHash {
    SigHash::try_from(f).unwrap()
}

fn mk_in(m: &MIn) -> TxIn {
    TxIn::new(&m.txid, m.vout, &Script::from_bytes(&m.script).unwrap(), Some(m.seq))
}

fn mk_out(m: &MOut) -> TxOut {
    TxOut::new(m.value, &Script::from_bytes(&m.script).unwrap())
}

fn gen_in(n: u64) -> MIn {
    let txid = Sha256::digest(&n.to_le_bytes()).to_vec();
    let script = match n % 3 {
        0 => vec![],
        1 => vec![0x02, n as u8, (n >> 8) as u8],
        _ => {
            let mut s = vec![0x14];
            s.extend_from_slice(&txid[..20]);
            s.push(0x51);
            s
        }
    };
    let seq = match n % 4 {
        0 => 0xffff_ffff,
        1 => 0xffff_fffe,
        2 => 0,
        _ => (n as u32).wrapping_mul(0x9e37_79b1),
    };
    MIn { txid, vout: (n % 5) as u32, script, seq }
}

fn gen_out(n: u64) -> MOut {
    let h = Sha256::digest(&(n ^ 0xdead_beef).to_le_bytes()).to_vec();
    let mut script = vec![0x76, 0xa9, 0x14];
    script.extend_from_slice(&h[..20]);
    script.extend_from_slice(&[0x88, 0xac]);
    MOut { value: n.wrapping_mul(1000) + 1, script }
}

fn subscript_for(idx: usize) -> Vec<u8> {
    let h = Sha256::digest(&(idx as u64 + 77).to_le_bytes()).to_vec();
    let mut script = vec![0x76, 0xa9, 0x14];
    script.extend_from_slice(&h[..20]);
    script.extend_from_slice(&[0x88, 0xac]);
    script
}

fn value_for(idx: usize) -> u64 {
    5000 + idx as u64 * 13
}

#[derive(Clone)]
struct Pair {
    tx: Transaction,
    m: MTx,
    ctr: u64,
}

impl Pair {
    fn empty() -> Pair {
        Pair {
            tx: Transaction::new(1, 0),
            m: MTx { version: 1, ins: vec![], outs: vec![], lock: 0 },
            ctr: 1000,
        }
    }
    /// two inputs, two outputs, reached by parsing bytes
    fn parsed22() -> Pair {
        let m = MTx {
            version: 2,
            ins: vec![gen_in(1), gen_in(2)],
            outs: vec![gen_out(1), gen_out(2)],
            lock: 7,
        };
        Pair { tx: Transaction::from_bytes(&m.ser()).unwrap(), m, ctr: 2000 }
    }
    /// one input, three outputs, built through setters, every cache class filled
    fn built13_warm() -> Pair {
        let mut p = Pair::empty();
        p.ctr = 3000;
        for op in [0usize, 5, 5, 5, 15, 16, 18] {
            p.apply(op).unwrap();
        }
        p
    }
    fn next(&mut self) -> u64 {
        self.ctr += 1;
        self.ctr
    }
}

const N_OPS: usize = 25;

fn op_name(op: usize) -> &'static str {
    [
        "add_input",
        "prepend_input",
        "insert_input@1",
        "set_input(0) sequence only",
        "set_input(last) outpoint only",
        "add_output",
        "prepend_output",
        "insert_output@1",
        "set_output(0) value only",
        "set_output(last) script only",
        "set_version",
        "set_nlocktime",
        "tx = tx.clone()",
        "tx = tx.set_version(..)",
        "tx = tx.set_nlocktime(..)",
        "preimage 0x41 @0",
        "preimage 0x42 @last",
        "preimage 0x43 @0",
        "preimage 0xc1 @last",
        "preimage 0xc3 @0",
        "preimage 0x01 @0",
        "preimage 0x83 @last",
        "sign 0x41 @0",
        "add_inputs(2)+add_outputs(2)",
        "tx = from_bytes(to_bytes)",
    ][op]
}

fn test_key() -> PrivateKey {
    PrivateKey::from_hex("e9873d79c6d87dc0fb6a5778633389f4453213303da61f20bd67fc233aa33262").unwrap()
}

/// Independent ECDSA verification of a DER signature over a 32 byte digest with k256 directly
fn k256_verify(pubkey_sec1: &[u8], digest32: &[u8], der: &[u8]) -> bool {
    use ::ecdsa::hazmat::VerifyPrimitive;
    use elliptic_curve::ops::Reduce;
    use elliptic_curve::sec1::FromEncodedPoint;
    use k256::{AffinePoint, EncodedPoint, FieldBytes, Scalar, U256};
    let sig = match k256::ecdsa::Signature::from_der(der) {
        Ok(s) => s,
        Err(_) => return false,
    };
    let z = <Scalar as Reduce<U256>>::from_be_bytes_reduced(FieldBytes::clone_from_slice(digest32));
    let point = EncodedPoint::from_bytes(pubkey_sec1).unwrap();
    let key: AffinePoint = Option::from(AffinePoint::from_encoded_point(&point)).unwrap();
    key.verify_prehashed(z, &sig).is_ok()
}

impl Pair {
    fn preimage_op(&mut self, flag: u8, idx: usize) -> Result<(), String> {
        let sub = subscript_for(idx);
        let got = self.tx.sighash_preimage(sh(flag), idx, &Script::from_bytes(&sub).unwrap(), value_for(idx)).ok();
        let exp = ref_preimage(&self.m, flag, idx, &sub, value_for(idx));
        if got != exp {
            return Err(format!(
                "in-history preimage flag {:#x} idx {}: got {:?} expected {:?}",
                flag,
                idx,
                got.map(hex::encode),
                exp.map(hex::encode)
            ));
        }
        Ok(())
    }

    fn apply(&mut self, op: usize) -> Result<(), String> {
        let last_in = self.m.ins.len().saturating_sub(1);
        match op {
            0 => {
                let i = gen_in(self.next());
                self.tx.add_input(&mk_in(&i));
                self.m.ins.push(i);
            }
            1 => {
                let i = gen_in(self.next());
                self.tx.prepend_input(&mk_in(&i));
                self.m.ins.insert(0, i);
            }
            2 => {
                let i = gen_in(self.next());
                let at = self.m.ins.len().min(1);
                self.tx.insert_input(at, &mk_in(&i));
                self.m.ins.insert(at, i);
            }
            3 => {
                if !self.m.ins.is_empty() {
                    let n = self.next();
                    let mut i = self.m.ins[0].clone();
                    i.seq = i.seq.wrapping_add(n as u32 | 1);
                    // route: take the input out of the transaction, change it, put it back
                    let mut t = self.tx.get_input(0).unwrap();
                    t.set_sequence(i.seq);
                    self.tx.set_input(0, &t);
                    self.m.ins[0] = i;
                }
            }
            4 => {
                if !self.m.ins.is_empty() {
                    let n = self.next();
                    let mut i = self.m.ins[last_in].clone();
                    i.txid = Sha256::digest(&n.to_be_bytes()).to_vec();
                    i.vout = i.vout.wrapping_add(1);
                    self.tx.set_input(last_in, &mk_in(&i));
                    self.m.ins[last_in] = i;
                }
            }
            5 => {
                let o = gen_out(self.next());
                self.tx.add_output(&mk_out(&o));
                self.m.outs.push(o);
            }
            6 => {
                let o = gen_out(self.next());
                self.tx.prepend_output(&mk_out(&o));
                self.m.outs.insert(0, o);
            }
            7 => {
                let o = gen_out(self.next());
                let at = self.m.outs.len().min(1);
                self.tx.insert_output(at, &mk_out(&o));
                self.m.outs.insert(at, o);
            }
            8 => {
                if !self.m.outs.is_empty() {
                    let mut o = self.m.outs[0].clone();
                    o.value = o.value.wrapping_add(self.next());
                    self.tx.set_output(0, &mk_out(&o));
                    self.m.outs[0] = o;
                }
            }
            9 => {
                if !self.m.outs.is_empty() {
                    let l = self.m.outs.len() - 1;
                    let mut o = self.m.outs[l].clone();
                    o.script = gen_out(self.next()).script;
                    self.tx.set_output(l, &mk_out(&o));
                    self.m.outs[l] = o;
                }
            }
            10 => {
                let v = self.next() as u32;
                let _ = self.tx.set_version(v);
                self.m.version = v;
            }
            11 => {
                let v = (self.next() as u32).wrapping_mul(77);
                let _ = self.tx.set_nlocktime(v);
                self.m.lock = v;
            }
            12 => {
                self.tx = self.tx.clone();
            }
            13 => {
                let v = self.next() as u32;
                self.tx = self.tx.set_version(v);
                self.m.version = v;
            }
            14 => {
                let v = (self.next() as u32).wrapping_mul(31);
                self.tx = self.tx.set_nlocktime(v);
                self.m.lock = v;
            }
            15 => self.preimage_op(0x41, 0)?,
            16 => self.preimage_op(0x42, last_in)?,
            17 => self.preimage_op(0x43, 0)?,
            18 => self.preimage_op(0xc1, last_in)?,
            19 => self.preimage_op(0xc3, 0)?,
            20 => self.preimage_op(0x01, 0)?,
            21 => self.preimage_op(0x83, last_in)?,
            22 => {
                let sub = subscript_for(0);
                let key = test_key();
                let got = self.tx.sign(&key, sh(0x41), 0, &Script::from_bytes(&sub).unwrap(), value_for(0)).ok();
                let exp = ref_preimage(&self.m, 0x41, 0, &sub, value_for(0));
                match (got, exp) {
                    (None, None) => {}
                    (Some(sig), Some(pre)) => {
                        let bytes = sig.to_bytes().unwrap();
                        let (der, flag) = bytes.split_at(bytes.len() - 1);
                        let pk = key.to_public_key().unwrap().to_bytes().unwrap();
                        if flag != [0x41] || !k256_verify(&pk, &sha256d(&pre), der) {
                            return Err("in-history signature does not verify against the reference digest".into());
                        }
                    }
                    (g, e) => return Err(format!("sign: lib {:?} reference {:?}", g.is_some(), e.is_some())),
                }
            }
            23 => {
                let a = gen_in(self.next());
                let b = gen_in(self.next());
                self.tx.add_inputs(vec![mk_in(&a), mk_in(&b)]);
                self.m.ins.push(a);
                self.m.ins.push(b);
                let a = gen_out(self.next());
                let b = gen_out(self.next());
                self.tx.add_outputs(vec![mk_out(&a), mk_out(&b)]);
                self.m.outs.push(a);
                self.m.outs.push(b);
            }
            24 => {
                self.tx = Transaction::from_bytes(&self.tx.to_bytes().unwrap()).map_err(|e| e.to_string())?;
            }
            _ => unreachable!(),
        }
        Ok(())
    }
}

/// Three-way check of every flag at every input index (and one index past the end).
/// `in_place`: run the calls on the object itself (so later calls see caches filled by earlier ones)
/// instead of on a clone per call.
fn check_all(tx: &mut Transaction, m: &MTx, in_place: bool) -> Result<(), String> {
    let ser = m.ser();
    let lib_ser = tx.to_bytes().map_err(|e| e.to_string())?;
    if lib_ser != ser {
        return Err(format!("serialisation differs from model: lib {} model {}", hex::encode(lib_ser), hex::encode(ser)));
    }
    let fresh0 = Transaction::from_bytes(&ser).map_err(|e| format!("fresh parse failed: {}", e))?;
    for idx in 0..=m.ins.len() {
        let sub = subscript_for(idx);
        let sub_script = Script::from_bytes(&sub).unwrap();
        for &f in FLAGS.iter() {
            let exp = ref_preimage(m, f, idx, &sub, value_for(idx));
            let got_h = if in_place {
                tx.sighash_preimage(sh(f), idx, &sub_script, value_for(idx)).ok()
            } else {
                tx.clone().sighash_preimage(sh(f), idx, &sub_script, value_for(idx)).ok()
            };
            let got_f = fresh0.clone().sighash_preimage(sh(f), idx, &sub_script, value_for(idx)).ok();
            if got_h != got_f || got_h != exp {
                return Err(format!(
                    "flag {:#x} idx {} in_place {}:\n  history  {:?}\n  fresh    {:?}\n  expected {:?}",
                    f,
                    idx,
                    in_place,
                    got_h.map(hex::encode),
                    got_f.map(hex::encode),
                    exp.map(hex::encode)
                ));
            }
        }
    }
    Ok(())
}

fn run_sequence(start: &Pair, seq: &[usize]) -> Result<(), String> {
    let mut p = start.clone();
    for &op in seq {
        p.apply(op)?;
    }
    check_all(&mut p.tx, &p.m, false)?;
    check_all(&mut p.tx, &p.m, true)?;
    Ok(())
}

fn describe(seq: &[usize]) -> String {
    seq.iter().map(|o| op_name(*o)).collect::<Vec<_>>().join(" ; ")
}

fn all_sequences(alphabet: &[usize], depth: usize) -> Vec<Vec<usize>> {
    let mut out: Vec<Vec<usize>> = vec![vec![]];
    let mut frontier: Vec<Vec<usize>> = vec![vec![]];
    for _ in 0..depth {
        let mut next = vec![];
        for s in &frontier {
            for &a in alphabet {
                let mut t = s.clone();
                t.push(a);
                next.push(t);
            }
        }
        out.extend(next.iter().cloned());
        frontier = next;
    }
    out
}

fn exhaustive(starts: &[(&str, Pair)], alphabet: &[usize], depth: usize) -> (usize, Vec<String>) {
    let seqs = all_sequences(alphabet, depth);
    let mut failures = vec![];
    for (name, start) in starts {
        let f: Vec<String> = seqs
            .par_iter()
            .filter_map(|s| run_sequence(start, s).err().map(|e| format!("start {} ; {} => {}", name, describe(s), e)))
            .collect();
        failures.extend(f);
    }
    (seqs.len() * starts.len(), failures)
}

struct Rng(u64);
impl Rng {
    fn next(&mut self) -> u64 {
        self.0 ^= self.0 << 13;
        self.0 ^= self.0 >> 7;
        self.0 ^= self.0 << 17;
        self.0
    }
    fn below(&mut self, n: usize) -> usize {
        (self.next() % n as u64) as usize
    }
}

// ---------------------------------------------------------------------------------------------
// E00: the reference model itself is anchored in published data
// ---------------------------------------------------------------------------------------------

const REAL_TX: &str = "01000000029e8d016a7b0dc49a325922d05da1f916d1e4d4f0cb840c9727f3d22ce8d1363f000000008c493046022100e9318720bee5425378b4763b0427158b1051eec8b08442ce3fbfbf7b30202a44022100d4172239ebd701dae2fbaaccd9f038e7ca166707333427e3fb2a2865b19a7f27014104510c67f46d2cbb29476d1f0b794be4cb549ea59ab9cc1e731969a7bf5be95f7ad5e7f904e5ccf50a9dc1714df00fbeb794aa27aaff33260c1032d931a75c56f2ffffffffa3195e7a1ab665473ff717814f6881485dc8759bebe97e31c301ffe7933a656f020000008b48304502201c282f35f3e02a1f32d2089265ad4b561f07ea3c288169dedcf2f785e6065efa022100e8db18aadacb382eed13ee04708f00ba0a9c40e3b21cf91da8859d0f7d99e0c50141042b409e1ebbb43875be5edde9c452c82c01e3903d38fa4fd89f3887a52cb8aea9dc8aec7e2c9d5b3609c03eb16259a2537135a1bf0f9c5fbbcbdbaf83ba402442ffffffff02206b1000000000001976a91420bb5c3bfaef0231dc05190e7f1c8e22e098991e88acf0ca0100000000001976a9149e3e2d23973a04ec1b02be97c30ab9f2f27c3b2c88ac00000000";

fn model_of(tx: &Transaction) -> MTx {
    MTx {
        version: tx.get_version(),
        ins: (0..tx.get_ninputs())
            .map(|i| {
                let t = tx.get_input(i).unwrap();
                MIn { txid: t.get_prev_tx_id(None), vout: t.get_vout(), script: t.get_unlocking_script().to_bytes(), seq: t.get_sequence() }
            })
            .collect(),
        outs: (0..tx.get_noutputs())
            .map(|i| {
                let t = tx.get_output(i).unwrap();
                MOut { value: t.get_satoshis(), script: t.get_script_pub_key().to_bytes() }
            })
            .collect(),
        lock: tx.get_n_locktime(),
    }
}

#[test]
fn e00_reference_model_is_anchored() {
    // wire format: model serialisation of a real mainnet transaction reproduces its bytes and its txid
    let tx = Transaction::from_hex(REAL_TX).unwrap();
    let m = model_of(&tx);
    assert_eq!(hex::encode(m.ser()), REAL_TX);
    let mut id = sha256d(&m.ser());
    id.reverse();
    assert_eq!(hex::encode(&m.ins[0].txid), "3f36d1e82cd2f327970c84cbf0d4e4d116f9a15dd02259329ac40d7b6a018d9e");
    assert_eq!(m.ins[1].vout, 2);
    // BIP143 worked example (native P2WPKH, second input, SIGHASH_ALL): with the fork bit the layout is
    // the same, so only the last four bytes (hash type) differ from the published preimage.
    let bip143_unsigned = "0100000002fff7f7881a8099afa6940d42d1e7f6362bec38171ea3edf433541db4e4ad969f0000000000eeffffffef51e1b804cc89d182d279655c3aa89e815b1b309fe287d9b2b55d57b90ec68a0100000000ffffffff02202cb206000000001976a9148280b37df378db99f66f85c95a783a76ac7a6d5988ac9093510d000000001976a9143bde42dbee7e4dbe6a21b2d50ce2f0167faa815988ac11000000";
    let published = "0100000096b827c8483d4e9b96712b6713a7b68d6e8003a781feba36c31143470b4efd3752b0a642eea2fb7ae638c36f6252b6750293dbe574a806984b8e4d8548339a3bef51e1b804cc89d182d279655c3aa89e815b1b309fe287d9b2b55d57b90ec68a010000001976a9141d0f172a0ecb48aee1be1f2687d2963ae33f71a188ac0046c32300000000ffffffff863ef3e1a92afbfdb97f31ad0fc7683ee943e9abcf2501590ff8f6551f47e5e51100000001000000";
    let m = model_of(&Transaction::from_hex(bip143_unsigned).unwrap());
    assert_eq!(hex::encode(m.ser()), bip143_unsigned);
    let sub = hex::decode("76a9141d0f172a0ecb48aee1be1f2687d2963ae33f71a188ac").unwrap();
    let mut exp = hex::decode(published).unwrap();
    let n = exp.len();
    exp[n - 4] = 0x41;
    assert_eq!(hex::encode(ref_preimage(&m, 0x41, 1, &sub, 600_000_000).unwrap()), hex::encode(exp));
    // legacy: preimages pinned in the repository's own tests for the real transaction above
    let tx_m = model_of(&Transaction::from_hex(REAL_TX).unwrap());
    assert_eq!(
        hex::encode(ref_preimage(&tx_m, 0x82, 0, &[0x00, 0x6a], 0).unwrap()),
        "01000000019e8d016a7b0dc49a325922d05da1f916d1e4d4f0cb840c9727f3d22ce8d1363f0000000002006affffffff000000000082000000"
    );
    assert_eq!(strip_codeseps(&[0xab, 0x02, 0xab, 0xab, 0x63, 0xab, 0x68, 0x4c, 0x01, 0xab]), vec![0x02, 0xab, 0xab, 0x63, 0x68, 0x4c, 0x01, 0xab]);
}

// ---------------------------------------------------------------------------------------------
// E01..E03: bounded-exhaustive interleavings
// ---------------------------------------------------------------------------------------------

#[test]
fn e01_exhaustive_depth3_full_alphabet_three_starts() {
    let alphabet: Vec<usize> = (0..N_OPS).collect();
    let starts = [("empty", Pair::empty()), ("parsed 2in/2out", Pair::parsed22()), ("built 1in/3out warm caches", Pair::built13_warm())];
    let (n, failures) = exhaustive(&starts, &alphabet, 3);
    println!("e01: {} sequences, {} failures", n, failures.len());
    for f in failures.iter().take(5) {
        println!("{}", f);
    }
    assert!(failures.is_empty());
}

#[test]
fn e02_exhaustive_depth4_full_alphabet_parsed_start() {
    let alphabet: Vec<usize> = (0..N_OPS).collect();
    let starts = [("parsed 2in/2out", Pair::parsed22())];
    let (n, failures) = exhaustive(&starts, &alphabet, 4);
    println!("e02: {} sequences, {} failures", n, failures.len());
    for f in failures.iter().take(5) {
        println!("{}", f);
    }
    assert!(failures.is_empty());
}

#[test]
fn e03_exhaustive_depth6_core_alphabet_warm_start() {
    // every mutator class that touches a cached quantity, every cache-filling class, clone
    let alphabet = [3usize, 4, 2, 8, 7, 12, 15, 18];
    let starts = [("built 1in/3out warm caches", Pair::built13_warm())];
    let (n, failures) = exhaustive(&starts, &alphabet, 6);
    println!("e03: {} sequences, {} failures", n, failures.len());
    for f in failures.iter().take(5) {
        println!("{}", f);
    }
    assert!(failures.is_empty());
}

// ---------------------------------------------------------------------------------------------
// E04: long random histories with serde round trips in the middle
// ---------------------------------------------------------------------------------------------

#[test]
fn e04_long_random_histories() {
    let failures: Vec<String> = (0..400u64)
        .into_par_iter()
        .filter_map(|seed| {
            let mut rng = Rng(0x9e37_79b9_7f4a_7c15 ^ (seed.wrapping_mul(0x1234_5678_9abc_def1) | 1));
            let mut p = match seed % 3 {
                0 => Pair::empty(),
                1 => Pair::parsed22(),
                _ => Pair::built13_warm(),
            };
            let mut trace = vec![];
            for step in 0..150 {
                let mut op = rng.below(N_OPS + 2);
                // keep the transaction small: when it grows, turn growth into replacement
                if p.m.ins.len() > 6 && [0, 1, 2, 23].contains(&op) {
                    op = 3 + rng.below(2);
                }
                if p.m.outs.len() > 6 && [5, 6, 7, 23].contains(&op) {
                    op = 8 + rng.below(2);
                }
                trace.push(op);
                let r = if op == N_OPS {
                    Transaction::from_json_string(&p.tx.to_json_string().unwrap()).map(|t| p.tx = t).map_err(|e| e.to_string())
                } else if op == N_OPS + 1 {
                    Transaction::from_compact_bytes(&p.tx.to_compact_bytes().unwrap()).map(|t| p.tx = t).map_err(|e| e.to_string())
                } else {
                    p.apply(op)
                };
                if let Err(e) = r {
                    return Some(format!("seed {} step {} trace {:?}: {}", seed, step, trace, e));
                }
                let full = step % 10 == 9;
                let r = if full {
                    check_all(&mut p.tx, &p.m, false)
                } else {
                    // a few random probes on a clone
                    let mut r = Ok(());
                    for _ in 0..3 {
                        let f = FLAGS[rng.below(FLAGS.len())];
                        let idx = rng.below(p.m.ins.len() + 1);
                        let sub = subscript_for(idx);
                        let got = p.tx.clone().sighash_preimage(sh(f), idx, &Script::from_bytes(&sub).unwrap(), value_for(idx)).ok();
                        if got != ref_preimage(&p.m, f, idx, &sub, value_for(idx)) {
                            r = Err(format!("probe flag {:#x} idx {}", f, idx));
                        }
                    }
                    r
                };
                if let Err(e) = r {
                    return Some(format!("seed {} step {} trace {:?}: {}", seed, step, trace, e));
                }
            }
            check_all(&mut p.tx, &p.m, true).err().map(|e| format!("seed {} final in-place: {}", seed, e))
        })
        .collect();
    for f in failures.iter().take(5) {
        println!("{}", f);
    }
    assert!(failures.is_empty());
}

// ---------------------------------------------------------------------------------------------
// E05: caches and clones do not alias
// ---------------------------------------------------------------------------------------------

#[test]
fn e05_clone_then_diverge() {
    let mut a = Pair::parsed22();
    for op in [15, 16, 18] {
        a.apply(op).unwrap();
    }
    let mut b = a.clone(); // clones the library object with all caches filled
    a.apply(4).unwrap(); // outpoint of last input
    a.apply(8).unwrap(); // value of first output
    b.apply(3).unwrap(); // sequence of first input
    b.apply(7).unwrap(); // insert output
    check_all(&mut a.tx, &a.m, false).unwrap();
    check_all(&mut b.tx, &b.m, false).unwrap();
    check_all(&mut a.tx, &a.m, true).unwrap();
    check_all(&mut b.tx, &b.m, true).unwrap();
    // the clone returned by set_version / set_nlocktime and the receiver stay independent too
    let mut c = Pair::built13_warm();
    let mut ret = c.tx.set_version(9);
    c.m.version = 9;
    let mut ret_m = c.m.clone();
    let i = gen_in(424242);
    ret.add_input(&mk_in(&i));
    ret_m.ins.push(i);
    let o = gen_out(434343);
    c.tx.set_output(0, &mk_out(&o));
    c.m.outs[0] = o;
    check_all(&mut ret, &ret_m, true).unwrap();
    check_all(&mut c.tx, &c.m, true).unwrap();
}

// ---------------------------------------------------------------------------------------------
// E06: a TxIn/TxOut taken out of the transaction is a copy; changing it changes nothing until put back
// ---------------------------------------------------------------------------------------------

#[test]
fn e06_taken_out_elements_are_copies() {
    let mut p = Pair::parsed22();
    p.apply(15).unwrap();
    let mut t = p.tx.get_input(0).unwrap();
    t.set_sequence(12345);
    t.set_vout(99);
    t.set_prev_tx_id(&[7u8; 32]);
    t.set_unlocking_script(&Script::from_asm_string("OP_1").unwrap());
    t.set_satoshis(5);
    t.set_locking_script(&Script::from_asm_string("OP_2").unwrap());
    check_all(&mut p.tx, &p.m, true).unwrap();
    // the same TxIn object added twice and changed in between
    let mut p = Pair::built13_warm();
    let mut i = gen_in(5150);
    let mut t = mk_in(&i);
    p.tx.add_input(&t);
    p.m.ins.push(i.clone());
    p.apply(15).unwrap();
    t.set_sequence(1);
    i.seq = 1;
    check_all(&mut p.tx, &p.m, false).unwrap();
    p.tx.add_input(&t);
    p.m.ins.push(i);
    check_all(&mut p.tx, &p.m, true).unwrap();
}

// ---------------------------------------------------------------------------------------------
// E07: a call that fails leaves nothing behind
// ---------------------------------------------------------------------------------------------

#[test]
fn e07_failed_calls_leave_no_trace() {
    // no outputs: SINGLE classes fail, ALL classes hash the empty output list
    let mut p = Pair::empty();
    p.apply(0).unwrap();
    p.apply(0).unwrap();
    for f in FLAGS.iter() {
        let _ = p.tx.sighash_preimage(sh(*f), 1, &Script::default(), 0); // some fail (SINGLE), some succeed
        let _ = p.tx.sighash_preimage(sh(*f), 2, &Script::default(), 0); // all fail (index out of range)
        let _ = p.tx.sign(&test_key(), sh(*f), 7, &Script::default(), 0);
    }
    check_all(&mut p.tx, &p.m, false).unwrap();
    p.apply(5).unwrap(); // one output: SINGLE works at 0, fails at 1
    for f in FLAGS.iter() {
        let _ = p.tx.sighash_preimage(sh(*f), 1, &Script::default(), 0);
    }
    check_all(&mut p.tx, &p.m, false).unwrap();
    p.apply(5).unwrap();
    check_all(&mut p.tx, &p.m, true).unwrap();
    // mutators that panic (index out of range) leave the object and its caches as they were
    let mut p = Pair::built13_warm();
    let before = p.tx.to_bytes().unwrap();
    let i = mk_in(&gen_in(1));
    let o = mk_out(&gen_out(1));
    let mut t = p.tx.clone();
    assert!(std::panic::catch_unwind(std::panic::AssertUnwindSafe(|| t.set_input(5, &i))).is_err());
    assert!(std::panic::catch_unwind(std::panic::AssertUnwindSafe(|| t.set_output(5, &o))).is_err());
    assert!(std::panic::catch_unwind(std::panic::AssertUnwindSafe(|| t.insert_input(5, &i))).is_err());
    assert!(std::panic::catch_unwind(std::panic::AssertUnwindSafe(|| t.insert_output(5, &o))).is_err());
    assert_eq!(t.to_bytes().unwrap(), before);
    check_all(&mut t, &p.m, true).unwrap();
}

// ---------------------------------------------------------------------------------------------
// E08: boundary values of every field, compact-size boundaries of the counts and of the script length
// ---------------------------------------------------------------------------------------------

#[test]
fn e08_field_extremes() {
    let mut p = Pair::empty();
    p.apply(15).unwrap_or(()); // fails: no input yet
    let extremes_in = [
        MIn { txid: vec![0xff; 32], vout: 0xffff_ffff, script: vec![], seq: 0xffff_ffff },
        MIn { txid: vec![0x00; 32], vout: 0, script: vec![0x51], seq: 0 },
        MIn { txid: (0u8..32).collect(), vout: 0x8000_0000, script: vec![0x01, 0x80], seq: 0x8000_0000 },
        MIn { txid: vec![0x00; 32], vout: 0xffff_fffe, script: vec![], seq: 1 },
    ];
    let extremes_out = [
        MOut { value: u64::MAX, script: vec![] },
        MOut { value: 0, script: vec![0x6a] },
        MOut { value: 0x8000_0000_0000_0000, script: vec![0x00, 0x6a, 0x4c, 0x00] },
        MOut { value: 21_000_000 * 100_000_000, script: gen_out(3).script },
    ];
    for (i, o) in extremes_in.iter().zip(extremes_out.iter()) {
        p.tx.add_input(&mk_in(i));
        p.m.ins.push(i.clone());
        p.apply(15).unwrap();
        p.tx.prepend_output(&mk_out(o));
        p.m.outs.insert(0, o.clone());
        p.apply(18).unwrap();
        check_all(&mut p.tx, &p.m, false).unwrap();
    }
    for v in [0u32, 1, 0x7fff_ffff, 0x8000_0000, 0xffff_ffff] {
        let _ = p.tx.set_version(v);
        p.m.version = v;
        let _ = p.tx.set_nlocktime(!v);
        p.m.lock = !v;
        check_all(&mut p.tx, &p.m, true).unwrap();
    }
}

fn check_some(tx: &mut Transaction, m: &MTx, idxs: &[usize], sub: &[u8], value: u64) {
    assert_eq!(tx.to_bytes().unwrap(), m.ser());
    let fresh0 = Transaction::from_bytes(&m.ser()).unwrap();
    let s = Script::from_bytes(sub).unwrap();
    for &idx in idxs {
        for &f in FLAGS.iter() {
            let exp = ref_preimage(m, f, idx, sub, value);
            let h = tx.sighash_preimage(sh(f), idx, &s, value).ok();
            let fr = fresh0.clone().sighash_preimage(sh(f), idx, &s, value).ok();
            assert_eq!(h.as_ref().map(hex::encode), exp.as_ref().map(hex::encode), "history vs reference, flag {:#x} idx {}", f, idx);
            assert_eq!(fr.map(hex::encode), exp.map(hex::encode), "fresh vs reference, flag {:#x} idx {}", f, idx);
        }
    }
}

#[test]
fn e09_count_boundaries_252_253_and_long_scripts() {
    // 252 -> 253 inputs and outputs with the caches warm across the boundary
    let mut p = Pair::empty();
    for _ in 0..252 {
        p.apply(0).unwrap();
        p.apply(5).unwrap();
    }
    p.apply(15).unwrap();
    p.apply(18).unwrap();
    check_some(&mut p.tx, &p.m, &[0, 251, 252], &subscript_for(0), 1);
    p.apply(0).unwrap();
    p.apply(15).unwrap();
    p.apply(5).unwrap();
    check_some(&mut p.tx, &p.m, &[0, 251, 252, 253], &subscript_for(0), 1);
    p.apply(1).unwrap();
    p.apply(6).unwrap();
    check_some(&mut p.tx, &p.m, &[0, 253, 254], &subscript_for(0), 1);
    // subscripts of 252, 253, 65535 and 65536 bytes (compact size in the preimage), outputs with long scripts
    let mut p = Pair::parsed22();
    for n in [252usize, 253, 0xffff, 0x10000] {
        let mut sub = vec![0x6a];
        let body = n - 1;
        // one push that fills the script exactly
        let data_len = if body - 2 <= 0xff { body - 2 } else { body - 3 };
        if body - data_len == 2 {
            sub.extend([0x4c, data_len as u8]);
        } else {
            sub.push(0x4d);
            sub.extend((data_len as u16).to_le_bytes());
        }
        sub.extend(std::iter::repeat(0xab).take(data_len)); // data that looks like code separators
        assert_eq!(sub.len(), n);
        let o = MOut { value: n as u64, script: sub.clone() };
        p.apply(18).unwrap();
        p.tx.insert_output(1, &mk_out(&o));
        p.m.outs.insert(1, o);
        check_some(&mut p.tx, &p.m, &[0, 1], &sub, u64::MAX);
    }
}

// ---------------------------------------------------------------------------------------------
// E10: subscripts with code separators (top level and inside conditionals): same result whatever the history
// ---------------------------------------------------------------------------------------------

#[test]
fn e10_code_separators_in_subscript() {
    let subs: Vec<Vec<u8>> = vec![
        vec![0xab],
        vec![0xab, 0xab, 0xac],
        vec![0x76, 0xab, 0xa9, 0x01, 0xab, 0x88, 0xab, 0xac],
        vec![0x63, 0xab, 0x51, 0x67, 0xab, 0x63, 0xab, 0x68, 0x68, 0xab, 0xac],
        vec![0x64, 0x67, 0xab, 0x68, 0x02, 0xab, 0xab, 0xab],
        vec![0x4c, 0x02, 0xab, 0xab, 0xab, 0x4d, 0x01, 0x00, 0xab, 0xab],
    ];
    let mut p = Pair::parsed22();
    let mut rng = Rng(42);
    for sub in &subs {
        for _ in 0..5 {
            let op = rng.below(N_OPS);
            p.apply(op).unwrap();
        }
        check_some(&mut p.tx, &p.m, &[0, p.m.ins.len() - 1], sub, 9);
    }
}

// ---------------------------------------------------------------------------------------------
// E11: every construction route, then mutation, then comparison
// ---------------------------------------------------------------------------------------------

#[test]
fn e11_construction_routes() {
    let base = Pair::parsed22();
    let ser = base.m.ser();
    let via_bytes = Transaction::from_bytes(&ser).unwrap();
    let routes: Vec<(&str, Transaction)> = vec![
        ("bytes", via_bytes.clone()),
        ("hex", Transaction::from_hex(&hex::encode(&ser)).unwrap()),
        ("HEX", Transaction::from_hex(&hex::encode_upper(&ser)).unwrap()),
        ("json", Transaction::from_json_string(&via_bytes.to_json_string().unwrap()).unwrap()),
        ("json value", serde_json::from_value(via_bytes.to_json().unwrap()).unwrap()),
        ("cbor", Transaction::from_compact_bytes(&via_bytes.to_compact_bytes().unwrap()).unwrap()),
        ("cbor hex", Transaction::from_compact_hex(&via_bytes.to_compact_hex().unwrap()).unwrap()),
        ("setters", {
            let mut t = Transaction::default();
            let _ = t.set_version(base.m.version);
            let _ = t.set_nlocktime(base.m.lock);
            t.add_inputs(base.m.ins.iter().map(mk_in).collect());
            t.add_outputs(base.m.outs.iter().map(mk_out).collect());
            t
        }),
        ("json after caches were filled", {
            let mut t = via_bytes.clone();
            for f in FLAGS.iter() {
                t.sighash_preimage(sh(*f), 0, &Script::default(), 0).unwrap();
            }
            Transaction::from_json_string(&t.to_json_string().unwrap()).unwrap()
        }),
        ("interpreter round trip", {
            let mut t = via_bytes.clone();
            t.sighash_preimage(sh(0x41), 0, &Script::default(), 0).unwrap();
            let i = Interpreter::from_transaction_and_script_bits(t, 0, vec![]);
            let j = serde_json::to_string(&i).unwrap();
            let _back: Interpreter = serde_json::from_str(&j).unwrap();
            Transaction::from_bytes(&ser).unwrap()
        }),
    ];
    for (name, tx) in routes {
        let mut p = Pair { tx, m: base.m.clone(), ctr: 7000 };
        check_all(&mut p.tx, &p.m, false).unwrap_or_else(|e| panic!("route {}: {}", name, e));
        for op in [15, 4, 18, 8, 3, 16, 7, 2, 21, 22] {
            p.apply(op).unwrap_or_else(|e| panic!("route {}: {}", name, e));
        }
        check_all(&mut p.tx, &p.m, true).unwrap_or_else(|e| panic!("route {}: {}", name, e));
    }
}

// ---------------------------------------------------------------------------------------------
// E12: coinbase-shaped inputs (parsed as an opaque coinbase script) inside histories
// ---------------------------------------------------------------------------------------------

#[test]
fn e12_coinbase_input() {
    let cb = MIn { txid: vec![0; 32], vout: 0xffff_ffff, script: vec![0x03, 0x4e, 0x01, 0x05, 0xff, 0xfe], seq: 0xffff_ffff };
    let m = MTx { version: 1, ins: vec![cb.clone()], outs: vec![gen_out(1)], lock: 0 };
    let mut p = Pair { tx: Transaction::from_bytes(&m.ser()).unwrap(), m, ctr: 8000 };
    assert!(p.tx.is_coinbase());
    check_all(&mut p.tx, &p.m, false).unwrap();
    p.apply(15).unwrap();
    p.apply(0).unwrap(); // no longer a coinbase transaction, the first input still has the coinbase outpoint
    p.apply(7).unwrap();
    check_all(&mut p.tx, &p.m, true).unwrap();
    // same input built through the constructor with an ordinary script (not parseable as a script: 0xff)
    let mut q = Pair::empty();
    q.tx.add_input(&TxIn::new(&cb.txid, cb.vout, &Script::from_coinbase_bytes(&cb.script).unwrap(), Some(cb.seq)));
    q.m.ins.push(cb);
    q.apply(5).unwrap();
    q.apply(15).unwrap();
    q.apply(1).unwrap();
    check_all(&mut q.tx, &q.m, true).unwrap();
}

// ---------------------------------------------------------------------------------------------
// E13: signatures (deterministic nonce and explicit nonce) after histories, checked with k256 directly
// ---------------------------------------------------------------------------------------------

#[test]
fn e13_signatures_after_history() {
    let key = test_key();
    let eph = PrivateKey::from_hex("0000000000000000000000000000000000000000000000000000000000000abc").unwrap();
    let pk = key.to_public_key().unwrap().to_bytes().unwrap();
    let mut rng = Rng(7);
    let mut p = Pair::parsed22();
    for round in 0..30 {
        for _ in 0..4 {
            let op = rng.below(N_OPS);
            p.apply(op).unwrap();
        }
        let mut fresh = Transaction::from_bytes(&p.m.ser()).unwrap();
        let idx = rng.below(p.m.ins.len());
        let sub = subscript_for(idx);
        let s = Script::from_bytes(&sub).unwrap();
        for &f in FLAGS.iter() {
            let exp = ref_preimage(&p.m, f, idx, &sub, 31337);
            let a = p.tx.sign(&key, sh(f), idx, &s, 31337).ok().map(|x| x.to_bytes().unwrap());
            let b = fresh.sign(&key, sh(f), idx, &s, 31337).ok().map(|x| x.to_bytes().unwrap());
            assert_eq!(a, b, "round {} flag {:#x}: signature differs between history and fresh copy", round, f);
            let ak = p.tx.sign_with_k(&key, &eph, sh(f), idx, &s, 31337).ok().map(|x| x.to_hex().unwrap());
            let bk = fresh.sign_with_k(&key, &eph, sh(f), idx, &s, 31337).ok().map(|x| x.to_hex().unwrap());
            assert_eq!(ak, bk);
            assert_eq!(a.is_some(), exp.is_some());
            if let (Some(sig), Some(pre)) = (a, exp) {
                let (der, flag) = sig.split_at(sig.len() - 1);
                assert_eq!(flag, [f]);
                assert!(k256_verify(&pk, &sha256d(&pre), der), "round {} flag {:#x}: signature does not commit to the reference preimage", round, f);
                let sigk = hex::decode(ak.unwrap()).unwrap();
                assert!(k256_verify(&pk, &sha256d(&pre), &sigk[..sigk.len() - 1]));
            }
        }
    }
}

// ---------------------------------------------------------------------------------------------
// E14: the script interpreter's OP_CHECKSIG on an object with history (stale caches would flip the verdict)
// ---------------------------------------------------------------------------------------------

fn p2pkh_run(tx: &Transaction, idx: usize, sig: &[u8], pk: &[u8], lock: &Script, sats: u64) -> Result<bool, String> {
    let mut t = tx.clone();
    let mut i = t.get_input(idx).unwrap();
    let mut unlock = vec![sig.len() as u8];
    unlock.extend_from_slice(sig);
    unlock.push(pk.len() as u8);
    unlock.extend_from_slice(pk);
    i.set_unlocking_script(&Script::from_bytes(&unlock).unwrap());
    i.set_locking_script(lock);
    i.set_satoshis(sats);
    // deliberately bypass set_input on a *clone* of the warm object: the clone keeps the warm caches
    t.set_input(idx, &i);
    let mut interp = Interpreter::from_transaction(&t, idx).map_err(|e| e.to_string())?;
    interp.run().map_err(|e| e.to_string())?;
    Ok(interp.state().stack().last().map(|v| v.iter().any(|b| *b != 0)).unwrap_or(false))
}

#[test]
fn e14_interpreter_checksig_after_history() {
    let key = test_key();
    let pubkey = key.to_public_key().unwrap();
    let pk = pubkey.to_bytes().unwrap();
    let lock = P2PKHAddress::from_pubkey(&pubkey).unwrap().get_locking_script().unwrap();
    let sub = lock.to_bytes();
    for &f in &[0x41u8, 0x42, 0x43, 0xc1, 0xc2, 0xc3, 0x01, 0x02, 0x03, 0x81, 0x82, 0x83] {
        let mut p = Pair::parsed22();
        // fill every cache, then change everything a cache covers
        for op in [15, 16, 18, 22] {
            p.apply(op).unwrap();
        }
        let old_m = p.m.clone();
        for op in [3, 4, 8, 9, 2, 7] {
            p.apply(op).unwrap();
        }
        // signatures made outside the library's transaction code: reference preimage + raw ECDSA over its digest
        let sign_ref = |m: &MTx| {
            let pre = ref_preimage(m, f, 0, &sub, 1234).unwrap();
            let d = sha256d(&pre);
            let mut s = ECDSA::sign_digest_with_deterministic_k(&key, &d).unwrap().to_der_bytes();
            assert!(k256_verify(&pk, &d, &s));
            s.push(f);
            s
        };
        let good = sign_ref(&p.m);
        let stale = sign_ref(&old_m);
        let fresh = Transaction::from_bytes(&p.m.ser()).unwrap();
        assert_eq!(p2pkh_run(&p.tx, 0, &good, &pk, &lock, 1234), Ok(true), "flag {:#x}: history object rejects a valid signature", f);
        assert_eq!(p2pkh_run(&fresh, 0, &good, &pk, &lock, 1234), Ok(true), "flag {:#x}: fresh object rejects a valid signature", f);
        assert_eq!(p2pkh_run(&p.tx, 0, &stale, &pk, &lock, 1234), Ok(false), "flag {:#x}: history object accepts a signature over its earlier contents", f);
        assert_eq!(p2pkh_run(&fresh, 0, &stale, &pk, &lock, 1234), Ok(false));
    }
}

// ---------------------------------------------------------------------------------------------
// E15: hash_inputs is public: calling it directly is part of the history too
// ---------------------------------------------------------------------------------------------

#[test]
fn e15_public_hash_inputs() {
    let mut p = Pair::parsed22();
    for round in 0..6 {
        let exp: Vec<u8> = p.m.ins.iter().flat_map(|i| i.outpoint()).collect();
        for &f in FLAGS.iter() {
            let acp = f & 0x80 != 0;
            let got = p.tx.hash_inputs(sh(f));
            let want = if acp { vec![0u8; 32] } else { sha256d(&exp) };
            if f == 0x81 {
                // observation only: the legacy digest never uses this value
                if got != want && round == 0 {
                    println!("e15: hash_inputs(Legacy_InputOutputs) is not zero although the flag contains ANYONECANPAY (unused by the legacy digest)");
                }
                assert!(got == want || got == sha256d(&exp));
                continue;
            }
            assert_eq!(got, want, "round {} flag {:#x}", round, f);
        }
        p.apply([4usize, 0, 1, 2, 23, 3][round]).unwrap();
        check_all(&mut p.tx, &p.m, false).unwrap();
    }
}

// ---------------------------------------------------------------------------------------------
// E16: concurrent readers of clones (no shared mutable cache)
// ---------------------------------------------------------------------------------------------

#[test]
fn e16_parallel_clones() {
    let mut p = Pair::built13_warm();
    p.apply(23).unwrap();
    let tx = p.tx.clone();
    let m = p.m.clone();
    (0..64).into_par_iter().for_each(|i| {
        let mut t = tx.clone();
        let mut mm = m.clone();
        if i % 2 == 0 {
            let o = gen_out(i as u64);
            t.set_output(0, &mk_out(&o));
            mm.outs[0] = o;
        }
        check_all(&mut t, &mm, true).unwrap();
    });
}

// ---------------------------------------------------------------------------------------------
// E17 (observation, outside the property): equality of transactions looks at the cache
// ---------------------------------------------------------------------------------------------

#[test]
fn e17_observation_equality_sees_the_cache() {
    let p = Pair::parsed22();
    let mut a = p.tx.clone();
    let b = p.tx.clone();
    assert!(a == b);
    a.sighash_preimage(sh(0x41), 0, &Script::default(), 0).unwrap();
    println!("e17: equal contents, one object has signed before: a == b is {}", a == b);
    assert_eq!(a.to_bytes().unwrap(), b.to_bytes().unwrap());
}

// ---------------------------------------------------------------------------------------------
// E18 (observation, outside the property): an outpoint whose txid is not 32 bytes long
// ---------------------------------------------------------------------------------------------

#[test]
fn e18_observation_txid_of_wrong_length() {
    let mut tx = Transaction::new(1, 0);
    tx.add_input(&TxIn::default()); // empty prev_tx_id
    tx.add_output(&mk_out(&gen_out(1)));
    let pre = tx.sighash_preimage(sh(0x41), 0, &Script::default(), 0).unwrap();
    let reparsed = Transaction::from_bytes(&tx.to_bytes().unwrap());
    println!("e18: preimage length with an empty txid {} (a well-formed one is 157); serialisation re-parses: {}", pre.len(), reparsed.is_ok());
}

// ---------------------------------------------------------------------------------------------
// E19: 65535 -> 65536 inputs and outputs (count grows from three to five bytes) with warm caches
// ---------------------------------------------------------------------------------------------

#[test]
fn e19_count_boundary_65535_65536() {
    let mut p = Pair::empty();
    let ins: Vec<MIn> = (0..65535u64).map(|n| MIn { script: vec![], ..gen_in(n + 10) }).collect();
    let outs: Vec<MOut> = (0..65535u64).map(|n| MOut { value: n, script: vec![0x51] }).collect();
    p.tx.add_inputs(ins.iter().map(mk_in).collect());
    p.tx.add_outputs(outs.iter().map(mk_out).collect());
    p.m.ins = ins;
    p.m.outs = outs;
    p.apply(15).unwrap();
    p.apply(18).unwrap();
    p.apply(0).unwrap();
    p.apply(15).unwrap();
    p.apply(5).unwrap();
    assert_eq!(p.m.ins.len(), 65536);
    check_some(&mut p.tx, &p.m, &[0, 65535], &subscript_for(0), 1);
    p.apply(3).unwrap();
    p.apply(9).unwrap();
    check_some(&mut p.tx, &p.m, &[65535], &subscript_for(0), 1);
}

// ---------------------------------------------------------------------------------------------
// E20/E21: output and input scripts that reach the transaction as objects (ASM text, script bits, address),
// never through bytes; the model holds the bytes produced by an encoder written here
// ---------------------------------------------------------------------------------------------

fn enc_bits(bits: &[ScriptBit]) -> Vec<u8> {
    let mut v = vec![];
    for b in bits {
        match b {
            ScriptBit::OpCode(c) => v.push(*c as u8),
            ScriptBit::Push(d) => {
                assert!(!d.is_empty() && d.len() <= 75);
                v.push(d.len() as u8);
                v.extend_from_slice(d);
            }
            ScriptBit::PushData(c, d) => {
                v.push(*c as u8);
                match *c as u8 {
                    0x4c => v.push(u8::try_from(d.len()).unwrap()),
                    0x4d => v.extend(u16::try_from(d.len()).unwrap().to_le_bytes()),
                    0x4e => v.extend(u32::try_from(d.len()).unwrap().to_le_bytes()),
                    _ => panic!("not a pushdata opcode"),
                }
                v.extend_from_slice(d);
            }
            ScriptBit::If { code, pass, fail } => {
                v.push(*code as u8);
                v.extend(enc_bits(pass));
                if let Some(f) = fail {
                    v.push(0x67);
                    v.extend(enc_bits(f));
                }
                v.push(0x68);
            }
            ScriptBit::Coinbase(_) => panic!("not generated"),
        }
    }
    v
}

fn random_bits(rng: &mut Rng, depth: usize, budget: &mut usize) -> Vec<ScriptBit> {
    use OpCodes::*;
    let plain = [
        OP_0, OP_1NEGATE, OP_1, OP_16, OP_NOP, OP_VERIFY, OP_RETURN, OP_DUP, OP_CODESEPARATOR, OP_CHECKSIG, OP_CHECKMULTISIG, OP_HASH160, OP_EQUALVERIFY, OP_CAT, OP_SPLIT, OP_RESERVED, OP_VER,
        OP_NOP10, OP_INVALIDOPCODE,
    ];
    let n = rng.below(6);
    let mut out = vec![];
    for _ in 0..n {
        if *budget == 0 {
            break;
        }
        *budget -= 1;
        let data = |rng: &mut Rng, len: usize| -> Vec<u8> { (0..len).map(|_| [0xab, 0x6a, 0x63, 0x68, 0x4c, 0x00, 0xff][rng.below(7)]).collect() };
        match rng.below(10) {
            0..=3 => out.push(ScriptBit::OpCode(plain[rng.below(plain.len())])),
            4 | 5 => {
                let len = 1 + rng.below(75);
                out.push(ScriptBit::Push(data(rng, len)));
            }
            6 => {
                let len = rng.below(256);
                out.push(ScriptBit::PushData(OP_PUSHDATA1, data(rng, len)));
            }
            7 => {
                let len = [0, 1, 75, 76, 255, 256, 300][rng.below(7)];
                out.push(ScriptBit::PushData(OP_PUSHDATA2, data(rng, len)));
            }
            8 => {
                let len = [0, 3, 80][rng.below(3)];
                out.push(ScriptBit::PushData(OP_PUSHDATA4, data(rng, len)));
            }
            _ => {
                if depth < 4 {
                    let code = [OP_IF, OP_NOTIF, OP_VERIF, OP_VERNOTIF][rng.below(4)];
                    let pass = random_bits(rng, depth + 1, budget);
                    let fail = if rng.below(2) == 0 { Some(random_bits(rng, depth + 1, budget)) } else { None };
                    out.push(ScriptBit::If { code, pass, fail });
                }
            }
        }
    }
    out
}

#[test]
fn e20_scripts_from_text_and_address() {
    let d76 = "11".repeat(76);
    let d256 = "22".repeat(256);
    let cases: Vec<(String, Vec<u8>)> = vec![
        ("OP_IF OP_1 OP_ELSE OP_2 OP_ENDIF".into(), vec![0x63, 0x51, 0x67, 0x52, 0x68]),
        ("OP_NOTIF OP_IF OP_ENDIF OP_ELSE OP_ELSE OP_ENDIF OP_CODESEPARATOR".into(), vec![0x64, 0x63, 0x68, 0x67, 0x67, 0x68, 0xab]),
        ("OP_0 OP_RETURN 6a6b 00".into(), vec![0x00, 0x6a, 0x02, 0x6a, 0x6b, 0x01, 0x00]),
        (format!("OP_RETURN {}", d76), [vec![0x6a, 0x4c, 76], vec![0x11; 76]].concat()),
        (format!("{} OP_DROP", d256), [vec![0x4d, 0x00, 0x01], vec![0x22; 256], vec![0x75]].concat()),
        ("0 1 16 OP_1NEGATE ab".into(), vec![0x00, 0x51, 0x60, 0x4f, 0x01, 0xab]),
    ];
    let mut p = Pair::parsed22();
    p.apply(15).unwrap();
    for (asm, bytes) in &cases {
        let s = Script::from_asm_string(asm).unwrap();
        p.tx.add_output(&TxOut::new(bytes.len() as u64, &s));
        p.m.outs.push(MOut { value: bytes.len() as u64, script: bytes.clone() });
        p.apply(18).unwrap();
        let mut i = gen_in(p.next());
        i.script = bytes.clone();
        p.tx.prepend_input(&TxIn::new(&i.txid, i.vout, &s, Some(i.seq)));
        p.m.ins.insert(0, i);
        check_all(&mut p.tx, &p.m, false).unwrap_or_else(|e| panic!("{}: {}", asm, e));
        // the same text as the signed script
        check_some(&mut p.tx, &p.m, &[0], bytes, 3);
        let got = p.tx.sighash_preimage(sh(0x41), 0, &s, 3).unwrap();
        assert_eq!(got, ref_preimage(&p.m, 0x41, 0, bytes, 3).unwrap());
        let got = p.tx.sighash_preimage(sh(0x01), 0, &s, 3).unwrap();
        assert_eq!(got, ref_preimage(&p.m, 0x01, 0, bytes, 3).unwrap(), "legacy, script from text: {}", asm);
    }
    // P2PKH locking script from an address (hash160 of the generator point's compressed encoding, a published constant)
    let addr = P2PKHAddress::from_pubkey_hash(&hex::decode("751e76e8199196d454941c45d1b3a323f1433bd6").unwrap()).unwrap();
    let s = addr.get_locking_script().unwrap();
    let bytes = hex::decode("76a914751e76e8199196d454941c45d1b3a323f1433bd688ac").unwrap();
    p.tx.set_output(0, &TxOut::new(1, &s));
    p.m.outs[0] = MOut { value: 1, script: bytes };
    check_all(&mut p.tx, &p.m, true).unwrap();
}

#[test]
fn e21_random_script_objects_in_outputs_and_as_signed_script() {
    let failures: Vec<String> = (0..3000u64)
        .into_par_iter()
        .filter_map(|seed| {
            let mut rng = Rng(0xabcdef12345 ^ (seed.wrapping_mul(0x9e3779b97f4a7c15) | 1));
            let mut p = if seed % 2 == 0 { Pair::parsed22() } else { Pair::built13_warm() };
            for step in 0..4 {
                let mut budget = 12;
                let bits = random_bits(&mut rng, 0, &mut budget);
                let bytes = enc_bits(&bits);
                let s = Script::from_script_bits(bits.clone());
                // only scripts the parser accepts have a "freshly parsed copy"
                if Script::from_bytes(&bytes).is_err() {
                    continue;
                }
                let at = rng.below(p.m.outs.len() + 1);
                p.tx.insert_output(at, &TxOut::new(seed, &s));
                p.m.outs.insert(at, MOut { value: seed, script: bytes.clone() });
                if let Err(e) = p.apply(15 + rng.below(7)) {
                    return Some(format!("seed {} step {}: {}", seed, step, e));
                }
                if let Err(e) = check_all(&mut p.tx, &p.m, false) {
                    return Some(format!("seed {} step {} bits {:?}: {}", seed, step, bits, e));
                }
                // as the signed script: object built from bits versus the object parsed from its bytes
                let parsed = Script::from_bytes(&bytes).unwrap();
                for &f in FLAGS.iter() {
                    let a = p.tx.sighash_preimage(sh(f), 0, &s, 1).ok();
                    let b = p.tx.sighash_preimage(sh(f), 0, &parsed, 1).ok();
                    let exp = ref_preimage(&p.m, f, 0, &bytes, 1);
                    if a != exp || b != exp {
                        return Some(format!(
                            "seed {} flag {:#x} signed script {:?} ({}):\n  built  {:?}\n  parsed {:?}\n  expect {:?}",
                            seed,
                            f,
                            bits,
                            hex::encode(&bytes),
                            a.map(hex::encode),
                            b.map(hex::encode),
                            exp.map(hex::encode)
                        ));
                    }
                }
            }
            None
        })
        .collect();
    println!("e21: {} failures", failures.len());
    for f in failures.iter().take(3) {
        println!("{}", f);
    }
    assert!(failures.is_empty());
}

// ---------------------------------------------------------------------------------------------
// E22: the flag reaches the call through every conversion the crate offers
// ---------------------------------------------------------------------------------------------

#[test]
fn e22_flag_construction_routes() {
    use std::str::FromStr;
    let names = [
        (0x40u8, "FORKID"),
        (0x01, "ALL"),
        (0x02, "NONE"),
        (0x03, "SINGLE"),
        (0x80, "ANYONECANPAY"),
        (0x41, "InputsOutputs"),
        (0x42, "Inputs"),
        (0x43, "InputsOutput"),
        (0xc1, "InputOutputs"),
        (0xc2, "Input"),
        (0xc3, "InputOutput"),
        (0x81, "Legacy_InputOutputs"),
        (0x82, "Legacy_Input"),
        (0x83, "Legacy_InputOutput"),
    ];
    let mut p = Pair::built13_warm();
    p.apply(4).unwrap();
    let sub = subscript_for(0);
    let s = Script::from_bytes(&sub).unwrap();
    for (v, name) in names {
        let exp = ref_preimage(&p.m, v, 0, &sub, 5);
        let routes = [SigHash::try_from(v).unwrap(), SigHash::from_str(name).unwrap(), num_traits::FromPrimitive::from_u8(v).unwrap()];
        for r in routes {
            assert_eq!(p.tx.sighash_preimage(r, 0, &s, 5).ok(), exp, "{}", name);
        }
    }
    assert_eq!(SigHash::ALL | SigHash::FORKID, 0x41);
    assert_eq!(SigHash::SINGLE | SigHash::ANYONECANPAY, 0x83);
    for v in 0..=255u8 {
        assert_eq!(SigHash::try_from(v).is_ok(), FLAGS.contains(&v), "{:#x}", v);
    }
}

// ---------------------------------------------------------------------------------------------
// E23: extended-format fields on inputs (satoshis, locking script) never leak into the preimage
// ---------------------------------------------------------------------------------------------

#[test]
fn e23_extended_input_fields() {
    let mut p = Pair::parsed22();
    p.apply(15).unwrap();
    for idx in 0..2 {
        let mut t = p.tx.get_input(idx).unwrap();
        t.set_satoshis(777 + idx as u64);
        t.set_locking_script(&Script::from_asm_string("OP_DUP OP_CODESEPARATOR OP_CHECKSIG").unwrap());
        p.tx.set_input(idx, &t);
    }
    check_all(&mut p.tx, &p.m, false).unwrap();
    let via_cbor = Transaction::from_compact_bytes(&p.tx.to_compact_bytes().unwrap()).unwrap();
    assert_eq!(via_cbor.get_input(1).unwrap().get_satoshis(), Some(778));
    let via_json = Transaction::from_json_string(&p.tx.to_json_string().unwrap()).unwrap();
    assert_eq!(via_json.get_input(0).unwrap().get_locking_script_bytes(), Some(vec![0x76, 0xab, 0xac]));
    for mut t in [via_cbor, via_json] {
        check_all(&mut t, &p.m, true).unwrap();
    }
}

// ---------------------------------------------------------------------------------------------
// E24 (observation, outside the property's wording): Transaction::verify never looks at the transaction
// ---------------------------------------------------------------------------------------------

#[test]
fn e24_observation_verify_ignores_the_transaction() {
    let key = test_key();
    let pk = key.to_public_key().unwrap();
    let mut p = Pair::parsed22();
    let s = Script::from_bytes(&subscript_for(0)).unwrap();
    let sig = p.tx.sign(&key, sh(0x41), 0, &s, 1).unwrap();
    assert!(p.tx.verify(&pk, &sig));
    p.apply(8).unwrap(); // the signed output changes
    p.apply(4).unwrap();
    let unrelated = Transaction::new(9, 9);
    println!(
        "e24: signature made before the mutation: verify on the mutated transaction = {}, on an unrelated empty transaction = {}",
        p.tx.verify(&pk, &sig),
        unrelated.verify(&pk, &sig)
    );
    // what the property does promise: a new signature commits to the new contents
    let sig2 = p.tx.sign(&key, sh(0x41), 0, &s, 1).unwrap().to_bytes().unwrap();
    let pre = ref_preimage(&p.m, 0x41, 0, &subscript_for(0), 1).unwrap();
    assert!(k256_verify(&pk.to_bytes().unwrap(), &sha256d(&pre), &sig2[..sig2.len() - 1]));
    assert_ne!(sig.to_bytes().unwrap(), sig2);
}

#[test]
fn e25_observation_short_txid_through_json() {
    let tx = Transaction::from_bytes(&Pair::parsed22().m.ser()).unwrap();
    let mut v = tx.to_json().unwrap();
    v["inputs"][0]["prev_tx_id"] = serde_json::Value::String("00ff".into());
    let r: Result<Transaction, _> = serde_json::from_value(v);
    println!("e25: JSON with a two byte prev_tx_id is accepted: {}", r.is_ok());
    if let Ok(mut t) = r {
        let ser = t.to_bytes().unwrap();
        println!("e25: its serialisation re-parses: {}", Transaction::from_bytes(&ser).is_ok());
        let _ = t.sighash_preimage(sh(0x41), 0, &Script::default(), 0);
    }
}
