// C04 — sighash depends only on current transaction contents, never on call history.
//
// Oracles used here:
//   (R) a small reference implementation of both signature-hash algorithms written below; it works on the
//       raw serialised bytes with its own parser and its own SHA-256 (crate sha2), not on the library's objects;
//   (F) the library run on a freshly parsed copy of the current serialisation (the property's own wording).
use bsv::*;
use sha2::{Digest, Sha256};
use std::convert::TryFrom;

// ---------------------------------------------------------------------------------------------
// reference implementation
// ---------------------------------------------------------------------------------------------
fn sha256d(b: &[u8]) -> Vec<u8> {
    Sha256::digest(&Sha256::digest(b)).to_vec()
}

fn wr_varint(out: &mut Vec<u8>, n: u64) {
    if n < 0xfd {
        out.push(n as u8)
    } else if n <= 0xffff {
        out.push(0xfd);
        out.extend_from_slice(&(n as u16).to_le_bytes())
    } else if n <= 0xffff_ffff {
        out.push(0xfe);
        out.extend_from_slice(&(n as u32).to_le_bytes())
    } else {
        out.push(0xff);
        out.extend_from_slice(&n.to_le_bytes())
    }
}

struct Rd<'a> {
    b: &'a [u8],
    p: usize,
}
impl<'a> Rd<'a> {
    fn take(&mut self, n: usize) -> &'a [u8] {
        let s = &self.b[self.p..self.p + n];
        self.p += n;
        s
    }
    fn u32(&mut self) -> u32 {
        let s = self.take(4);
        u32::from_le_bytes([s[0], s[1], s[2], s[3]])
    }
    fn u64(&mut self) -> u64 {
        let s = self.take(8);
        let mut a = [0u8; 8];
        a.copy_from_slice(s);
        u64::from_le_bytes(a)
    }
    fn varint(&mut self) -> u64 {
        let f = self.take(1)[0];
        match f {
            0xfd => {
                let s = self.take(2);
                u16::from_le_bytes([s[0], s[1]]) as u64
            }
            0xfe => self.u32() as u64,
            0xff => self.u64(),
            x => x as u64,
        }
    }
}

#[derive(Clone, Debug)]
struct RIn {
    outpoint: Vec<u8>, // 36 bytes as serialised
    script: Vec<u8>,
    seq: u32,
}
#[derive(Clone, Debug)]
struct ROut {
    value: u64,
    script: Vec<u8>,
}
#[derive(Clone, Debug)]
struct RTx {
    version: u32,
    ins: Vec<RIn>,
    outs: Vec<ROut>,
    lock: u32,
}

fn rparse(b: &[u8]) -> RTx {
    let mut r = Rd { b, p: 0 };
    let version = r.u32();
    let ni = r.varint();
    let mut ins = vec![];
    for _ in 0..ni {
        let outpoint = r.take(36).to_vec();
        let l = r.varint() as usize;
        let script = r.take(l).to_vec();
        let seq = r.u32();
        ins.push(RIn { outpoint, script, seq });
    }
    let no = r.varint();
    let mut outs = vec![];
    for _ in 0..no {
        let value = r.u64();
        let l = r.varint() as usize;
        let script = r.take(l).to_vec();
        outs.push(ROut { value, script });
    }
    let lock = r.u32();
    assert_eq!(r.p, b.len(), "reference parser: trailing bytes");
    RTx { version, ins, outs, lock }
}

fn rser_out(o: &ROut) -> Vec<u8> {
    let mut v = vec![];
    v.extend_from_slice(&o.value.to_le_bytes());
    wr_varint(&mut v, o.script.len() as u64);
    v.extend_from_slice(&o.script);
    v
}

/// Removes OP_CODESEPARATOR (0xab) at opcode positions. None if the script does not tokenise.
fn strip_codesep(s: &[u8]) -> Option<Vec<u8>> {
    let mut out = vec![];
    let mut i = 0;
    while i < s.len() {
        let op = s[i];
        let (hdr, len) = match op {
            1..=0x4b => (1, op as usize),
            0x4c => (2, *s.get(i + 1)? as usize),
            0x4d => (3, u16::from_le_bytes([*s.get(i + 1)?, *s.get(i + 2)?]) as usize),
            0x4e => (5, u32::from_le_bytes([*s.get(i + 1)?, *s.get(i + 2)?, *s.get(i + 3)?, *s.get(i + 4)?]) as usize),
            _ => (1, 0),
        };
        if i + hdr + len > s.len() {
            return None;
        }
        if op != 0xab {
            out.extend_from_slice(&s[i..i + hdr + len]);
        }
        i += hdr + len;
    }
    Some(out)
}

/// The reference preimage. None = "there is no preimage" (index out of range / SINGLE without a matching output,
/// which the library is documented to refuse).
fn ref_preimage(raw: &[u8], flag: u8, idx: usize, script_code: &[u8], value: u64) -> Option<Vec<u8>> {
    let tx = rparse(raw);
    if idx >= tx.ins.len() {
        return None;
    }
    let base = flag & 0x1f;
    let acp = flag & 0x80 != 0;
    // The library only takes the replay-protected algorithm for 0x41..0x43 / 0xc1..0xc3; a bare 0x40 runs the original one.
    let forkid = flag & 0x40 != 0 && base != 0;
    let single = base == 3;
    let none = base == 2;
    if single && idx >= tx.outs.len() {
        return None;
    }
    let mut p = vec![];
    if forkid {
        p.extend_from_slice(&tx.version.to_le_bytes());
        if !acp {
            let mut all = vec![];
            for i in &tx.ins {
                all.extend_from_slice(&i.outpoint);
            }
            p.extend(sha256d(&all));
        } else {
            p.extend([0u8; 32]);
        }
        if !acp && !single && !none {
            let mut all = vec![];
            for i in &tx.ins {
                all.extend_from_slice(&i.seq.to_le_bytes());
            }
            p.extend(sha256d(&all));
        } else {
            p.extend([0u8; 32]);
        }
        p.extend_from_slice(&tx.ins[idx].outpoint);
        wr_varint(&mut p, script_code.len() as u64);
        p.extend_from_slice(script_code);
        p.extend_from_slice(&value.to_le_bytes());
        p.extend_from_slice(&tx.ins[idx].seq.to_le_bytes());
        if single {
            p.extend(sha256d(&rser_out(&tx.outs[idx])));
        } else if none {
            p.extend([0u8; 32]);
        } else {
            let mut all = vec![];
            for o in &tx.outs {
                all.extend(rser_out(o));
            }
            p.extend(sha256d(&all));
        }
        p.extend_from_slice(&tx.lock.to_le_bytes());
        p.extend_from_slice(&(flag as u32).to_le_bytes());
    } else {
        let code = strip_codesep(script_code)?;
        p.extend_from_slice(&tx.version.to_le_bytes());
        let ins: Vec<(usize, &RIn)> = if acp { vec![(idx, &tx.ins[idx])] } else { tx.ins.iter().enumerate().collect() };
        wr_varint(&mut p, ins.len() as u64);
        for (i, inp) in ins {
            p.extend_from_slice(&inp.outpoint);
            if i == idx {
                wr_varint(&mut p, code.len() as u64);
                p.extend_from_slice(&code);
                p.extend_from_slice(&inp.seq.to_le_bytes());
            } else {
                p.push(0);
                let s = if single || none { 0 } else { inp.seq };
                p.extend_from_slice(&s.to_le_bytes());
            }
        }
        if none {
            p.push(0);
        } else if single {
            wr_varint(&mut p, (idx + 1) as u64);
            for _ in 0..idx {
                p.extend_from_slice(&u64::MAX.to_le_bytes());
                p.push(0);
            }
            p.extend(rser_out(&tx.outs[idx]));
        } else {
            wr_varint(&mut p, tx.outs.len() as u64);
            for o in &tx.outs {
                p.extend(rser_out(o));
            }
        }
        p.extend_from_slice(&tx.lock.to_le_bytes());
        p.extend_from_slice(&(flag as u32).to_le_bytes());
    }
    Some(p)
}

// ---------------------------------------------------------------------------------------------
// helpers
// ---------------------------------------------------------------------------------------------
const FLAGS: [u8; 15] = [0x01, 0x02, 0x03, 0x40, 0x80, 0x41, 0x42, 0x43, 0xc1, 0xc2, 0xc3, 0x81, 0x82, 0x83, 0x41];

fn flag(f: u8) -> SigHash {
    SigHash::try_from(f).unwrap()
}

fn code() -> Script {
    Script::from_hex("76a914000102030405060708090a0b0c0d0e0f1011121388ac").unwrap()
}

struct Gen(u64);
impl Gen {
    fn next(&mut self) -> u64 {
        // splitmix64
        self.0 = self.0.wrapping_add(0x9E3779B97F4A7C15);
        let mut z = self.0;
        z = (z ^ (z >> 30)).wrapping_mul(0xBF58476D1CE4E5B9);
        z = (z ^ (z >> 27)).wrapping_mul(0x94D049BB133111EB);
        z ^ (z >> 31)
    }
    fn below(&mut self, n: usize) -> usize {
        (self.next() % n as u64) as usize
    }
    fn txin(&mut self) -> TxIn {
        let mut id = vec![];
        for _ in 0..4 {
            id.extend_from_slice(&self.next().to_le_bytes());
        }
        let n = self.next();
        let us = match n % 3 {
            0 => Script::default(),
            1 => Script::from_hex("0201020151").unwrap(),
            _ => Script::from_script_bits(vec![ScriptBit::Push(vec![0x30; 72]), ScriptBit::Push(vec![0x02; 33])]),
        };
        let seq = match (n >> 8) % 4 {
            0 => None,
            1 => Some(0),
            2 => Some(1),
            _ => Some((n >> 16) as u32),
        };
        let mut i = TxIn::new(&id, (n >> 40) as u32 % 5, &us, seq);
        if (n >> 50) % 2 == 0 {
            i.set_satoshis(n >> 20);
            i.set_locking_script(&code());
        }
        i
    }
    fn txout(&mut self) -> TxOut {
        let n = self.next();
        let s = match n % 4 {
            0 => Script::default(),
            1 => code(),
            2 => Script::from_hex("006a0401020304").unwrap(),
            _ => Script::from_asm_string("OP_IF OP_1 OP_ELSE OP_2 OP_ENDIF OP_CODESEPARATOR OP_CHECKSIG").unwrap(),
        };
        TxOut::new(n >> 11, &s)
    }
}

/// The heart of every experiment: for every flag and every input index (one past the end included), the value computed
/// on `tx` in its present state (on a clone, which carries the memoised state with it, so the state under test is not
/// perturbed between flags) must equal (F) the value on a fresh parse and (R) the reference.
fn check_state(tx: &Transaction, ctx: &dyn Fn() -> String) -> Result<(), String> {
    let raw = tx.to_bytes().map_err(|e| format!("{}: to_bytes failed {}", ctx(), e))?;
    let sc = code();
    let scb = sc.to_bytes();
    let value = 0x0102_0304_0506u64;
    for &f in FLAGS.iter() {
        for idx in 0..=tx.get_ninputs() {
            let mut hist = tx.clone();
            let got = hist.sighash_preimage(flag(f), idx, &sc, value).ok();
            let mut fresh = Transaction::from_bytes(&raw).map_err(|e| format!("{}: fresh parse failed {}", ctx(), e))?;
            let want_f = fresh.sighash_preimage(flag(f), idx, &sc, value).ok();
            let want_r = ref_preimage(&raw, f, idx, &scb, value);
            if got != want_f || got != want_r {
                return Err(format!(
                    "{}\n flag {:#x} idx {}\n history: {:?}\n fresh  : {:?}\n ref    : {:?}\n raw {}",
                    ctx(),
                    f,
                    idx,
                    got.map(hex::encode),
                    want_f.map(hex::encode),
                    want_r.map(hex::encode),
                    hex::encode(&raw)
                ));
            }
        }
    }
    Ok(())
}

/// The same, but run directly on the object (so the checks themselves become part of the history).
fn check_state_in_place(tx: &mut Transaction, ctx: &dyn Fn() -> String) -> Result<(), String> {
    let raw = tx.to_bytes().unwrap();
    let sc = code();
    let scb = sc.to_bytes();
    for &f in FLAGS.iter() {
        for idx in 0..=tx.get_ninputs() {
            let got = tx.sighash_preimage(flag(f), idx, &sc, 7).ok();
            let want_r = ref_preimage(&raw, f, idx, &scb, 7);
            if got != want_r {
                return Err(format!("{} flag {:#x} idx {}: {:?} vs ref {:?}", ctx(), f, idx, got.map(hex::encode), want_r.map(hex::encode)));
            }
        }
    }
    Ok(())
}

// ---------------------------------------------------------------------------------------------
// operation alphabet
// ---------------------------------------------------------------------------------------------
#[derive(Clone, Copy, Debug, PartialEq)]
enum Op {
    AddIn,
    PrependIn,
    InsertInMid,
    InsertInEnd,
    SetIn0,
    SetInLast,
    AddIns2,
    AddOut,
    PrependOut,
    InsertOutMid,
    InsertOutEnd,
    SetOut0,
    SetOutLast,
    AddOuts2,
    SetVersion,
    SetVersionTakeReturned,
    SetLocktime,
    SetLocktimeTakeReturned,
    CloneReplace,
    JsonRoundTrip,
    CborRoundTrip,
    Sig(u8, bool), // flag, last index?
    Sign(u8),
    SignWithK(u8),
    HashInputsPub(u8),
    FailingSig(u8), // index out of range
}

fn apply(tx: &mut Transaction, op: Op, g: &mut Gen) {
    let sc = code();
    let key = PrivateKey::from_hex("0000000000000000000000000000000000000000000000000000000000000007").unwrap();
    match op {
        Op::AddIn => tx.add_input(&g.txin()),
        Op::PrependIn => tx.prepend_input(&g.txin()),
        Op::InsertInMid => {
            let n = tx.get_ninputs();
            tx.insert_input(n / 2, &g.txin())
        }
        Op::InsertInEnd => {
            let n = tx.get_ninputs();
            tx.insert_input(n, &g.txin())
        }
        Op::SetIn0 => {
            if tx.get_ninputs() > 0 {
                tx.set_input(0, &g.txin())
            }
        }
        Op::SetInLast => {
            let n = tx.get_ninputs();
            if n > 0 {
                // only the sequence changes: hashPrevouts stays, hashSequence must not
                let mut i = tx.get_input(n - 1).unwrap();
                i.set_sequence(i.get_sequence().wrapping_add(1));
                tx.set_input(n - 1, &i)
            }
        }
        Op::AddIns2 => tx.add_inputs(vec![g.txin(), g.txin()]),
        Op::AddOut => tx.add_output(&g.txout()),
        Op::PrependOut => tx.prepend_output(&g.txout()),
        Op::InsertOutMid => {
            let n = tx.get_noutputs();
            tx.insert_output(n / 2, &g.txout())
        }
        Op::InsertOutEnd => {
            let n = tx.get_noutputs();
            tx.insert_output(n, &g.txout())
        }
        Op::SetOut0 => {
            if tx.get_noutputs() > 0 {
                tx.set_output(0, &g.txout())
            }
        }
        Op::SetOutLast => {
            let n = tx.get_noutputs();
            if n > 0 {
                let o = tx.get_output(n - 1).unwrap();
                tx.set_output(n - 1, &TxOut::new(o.get_satoshis().wrapping_add(1), &o.get_script_pub_key()))
            }
        }
        Op::AddOuts2 => tx.add_outputs(vec![g.txout(), g.txout()]),
        Op::SetVersion => {
            tx.set_version(g.next() as u32);
        }
        Op::SetVersionTakeReturned => {
            *tx = tx.set_version(g.next() as u32);
        }
        Op::SetLocktime => {
            tx.set_nlocktime(g.next() as u32);
        }
        Op::SetLocktimeTakeReturned => {
            *tx = tx.set_nlocktime(g.next() as u32);
        }
        Op::CloneReplace => {
            let c = tx.clone();
            *tx = c;
        }
        Op::JsonRoundTrip => {
            *tx = Transaction::from_json_string(&tx.to_json_string().unwrap()).unwrap();
        }
        Op::CborRoundTrip => {
            *tx = Transaction::from_compact_bytes(&tx.to_compact_bytes().unwrap()).unwrap();
        }
        Op::Sig(f, last) => {
            let idx = if last { tx.get_ninputs().saturating_sub(1) } else { 0 };
            let _ = tx.sighash_preimage(flag(f), idx, &sc, 1);
        }
        Op::Sign(f) => {
            let _ = tx.sign(&key, flag(f), 0, &sc, 2);
        }
        Op::SignWithK(f) => {
            let _ = tx.sign_with_k(&key, &key, flag(f), 0, &sc, 2);
        }
        Op::HashInputsPub(f) => {
            let _ = tx.hash_inputs(flag(f));
        }
        Op::FailingSig(f) => {
            let n = tx.get_ninputs();
            let _ = tx.sighash_preimage(flag(f), n + 3, &sc, 1);
        }
    }
}

fn mutators() -> Vec<Op> {
    vec![
        Op::AddIn,
        Op::PrependIn,
        Op::InsertInMid,
        Op::InsertInEnd,
        Op::SetIn0,
        Op::SetInLast,
        Op::AddIns2,
        Op::AddOut,
        Op::PrependOut,
        Op::InsertOutMid,
        Op::InsertOutEnd,
        Op::SetOut0,
        Op::SetOutLast,
        Op::AddOuts2,
        Op::SetVersion,
        Op::SetVersionTakeReturned,
        Op::SetLocktime,
        Op::SetLocktimeTakeReturned,
        Op::CloneReplace,
        Op::JsonRoundTrip,
        Op::CborRoundTrip,
    ]
}

fn fillers() -> Vec<Op> {
    vec![
        Op::Sig(0x41, false),
        Op::Sig(0x41, true),
        Op::Sig(0x42, false),
        Op::Sig(0x43, true),
        Op::Sig(0xc1, false),
        Op::Sig(0xc2, false),
        Op::Sig(0xc3, true),
        Op::Sig(0x01, false),
        Op::Sig(0x03, true),
        Op::Sig(0x81, false),
        Op::Sig(0x40, false),
        Op::Sig(0x80, false),
        Op::Sign(0x41),
        Op::Sign(0xc1),
        Op::SignWithK(0x41),
        Op::HashInputsPub(0x41),
        Op::HashInputsPub(0x01),
        Op::HashInputsPub(0x03),
        Op::FailingSig(0x41),
        Op::FailingSig(0x43),
    ]
}

fn seed_tx(g: &mut Gen) -> Transaction {
    let mut tx = Transaction::new(1, 0);
    tx.add_input(&g.txin());
    tx.add_input(&g.txin());
    tx.add_output(&g.txout());
    tx.add_output(&g.txout());
    tx
}

fn run_seq(start: &Transaction, seq: &[Op], seed: u64) -> Result<(), String> {
    let mut g = Gen(seed);
    let mut tx = start.clone();
    for (k, op) in seq.iter().enumerate() {
        apply(&mut tx, *op, &mut g);
        let _ = k;
    }
    check_state(&tx, &|| format!("sequence {:?}", seq))
}

// ---------------------------------------------------------------------------------------------
// E01: the reference implementation itself reproduces the crate's published vectors (sanity of the oracle)
// ---------------------------------------------------------------------------------------------
const VEC_TX: &str = "01000000029e8d016a7b0dc49a325922d05da1f916d1e4d4f0cb840c9727f3d22ce8d1363f000000008c493046022100e9318720bee5425378b4763b0427158b1051eec8b08442ce3fbfbf7b30202a44022100d4172239ebd701dae2fbaaccd9f038e7ca166707333427e3fb2a2865b19a7f27014104510c67f46d2cbb29476d1f0b794be4cb549ea59ab9cc1e731969a7bf5be95f7ad5e7f904e5ccf50a9dc1714df00fbeb794aa27aaff33260c1032d931a75c56f2ffffffffa3195e7a1ab665473ff717814f6881485dc8759bebe97e31c301ffe7933a656f020000008b48304502201c282f35f3e02a1f32d2089265ad4b561f07ea3c288169dedcf2f785e6065efa022100e8db18aadacb382eed13ee04708f00ba0a9c40e3b21cf91da8859d0f7d99e0c50141042b409e1ebbb43875be5edde9c452c82c01e3903d38fa4fd89f3887a52cb8aea9dc8aec7e2c9d5b3609c03eb16259a2537135a1bf0f9c5fbbcbdbaf83ba402442ffffffff02206b1000000000001976a91420bb5c3bfaef0231dc05190e7f1c8e22e098991e88acf0ca0100000000001976a9149e3e2d23973a04ec1b02be97c30ab9f2f27c3b2c88ac00000000";

#[test]
fn e01_reference_matches_known_vectors() {
    let raw = hex::decode(VEC_TX).unwrap();
    // vectors taken from tests/sighash.rs of the crate (themselves from other BSV libraries)
    let p = ref_preimage(&raw, 0x43, 0, &[0x00, 0x6a], 0).unwrap();
    assert_eq!(hex::encode(p), "010000008bf38a2d3f477a28aba2fe171260ffb0315c7371617ba6e39aea4ed97558c35800000000000000000000000000000000000000000000000000000000000000009e8d016a7b0dc49a325922d05da1f916d1e4d4f0cb840c9727f3d22ce8d1363f0000000002006a0000000000000000ffffffffc7732d98e887792b43e5dae92a159010d22e47d60ed48b88ba7b6c12a3c9e7560000000043000000");
    let p = ref_preimage(&raw, 0x82, 0, &[0x00, 0x6a], 0).unwrap();
    assert_eq!(hex::encode(p), "01000000019e8d016a7b0dc49a325922d05da1f916d1e4d4f0cb840c9727f3d22ce8d1363f0000000002006affffffff000000000082000000");
    let p = ref_preimage(&raw, 0x02, 0, &[0x00, 0x6a], 0).unwrap();
    assert_eq!(hex::encode(p), "01000000029e8d016a7b0dc49a325922d05da1f916d1e4d4f0cb840c9727f3d22ce8d1363f0000000002006affffffffa3195e7a1ab665473ff717814f6881485dc8759bebe97e31c301ffe7933a656f020000000000000000000000000002000000");
}

// ---------------------------------------------------------------------------------------------
// E02: bounded-exhaustive, depth 3 over the whole alphabet (mutators + cache fillers), from a seed tx whose caches
// were all filled beforehand
// ---------------------------------------------------------------------------------------------
#[test]
fn e02_exhaustive_depth3_full_alphabet() {
    use rayon::prelude::*;
    let mut g = Gen(1);
    let mut start = seed_tx(&mut g);
    let sc = code();
    start.sighash_preimage(SigHash::InputsOutputs, 0, &sc, 5).unwrap(); // fills all three slots
    let mut alpha = mutators();
    alpha.extend(fillers());
    let n = alpha.len();
    let total = n * n * n;
    let errs: Vec<String> = (0..total)
        .into_par_iter()
        .filter_map(|k| {
            let seq = [alpha[k / (n * n)], alpha[(k / n) % n], alpha[k % n]];
            run_seq(&start, &seq, k as u64).err()
        })
        .collect();
    println!("e02: {} sequences, {} failures", total, errs.len());
    assert!(errs.is_empty(), "{}", errs[0]);
}

// ---------------------------------------------------------------------------------------------
// E03: bounded-exhaustive, depth 5 over a reduced alphabet with one representative per mutator class and per
// cache-filling class
// ---------------------------------------------------------------------------------------------
#[test]
fn e03_exhaustive_depth5_reduced_alphabet() {
    use rayon::prelude::*;
    let alpha = vec![
        Op::SetIn0,
        Op::SetInLast,
        Op::InsertInMid,
        Op::SetOutLast,
        Op::PrependOut,
        Op::SetVersionTakeReturned,
        Op::CloneReplace,
        Op::Sig(0x41, false),
        Op::Sig(0xc1, false),
        Op::Sig(0x42, true),
        Op::HashInputsPub(0x01),
    ];
    let n = alpha.len();
    let total = n.pow(5);
    let mut g = Gen(2);
    let start = seed_tx(&mut g);
    let errs: Vec<String> = (0..total)
        .into_par_iter()
        .filter_map(|k| {
            let mut seq = vec![];
            let mut r = k;
            for _ in 0..5 {
                seq.push(alpha[r % n]);
                r /= n;
            }
            run_seq(&start, &seq, k as u64).err()
        })
        .collect();
    println!("e03: {} sequences, {} failures", total, errs.len());
    assert!(errs.is_empty(), "{}", errs[0]);
}

// ---------------------------------------------------------------------------------------------
// E04: long random histories, checked in place after every step (checks are part of the history)
// ---------------------------------------------------------------------------------------------
#[test]
fn e04_long_random_histories() {
    use rayon::prelude::*;
    let mut alpha = mutators();
    alpha.extend(fillers());
    let errs: Vec<String> = (0..64u64)
        .into_par_iter()
        .filter_map(|seed| {
            let mut g = Gen(seed * 7919 + 11);
            let mut tx = if seed % 2 == 0 { Transaction::new(2, 0) } else { Transaction::from_hex(VEC_TX).unwrap() };
            let mut hist = vec![];
            for step in 0..300 {
                let op = alpha[g.below(alpha.len())];
                hist.push(op);
                apply(&mut tx, op, &mut g);
                if tx.get_ninputs() > 12 || tx.get_noutputs() > 12 {
                    // keep sizes bounded: rebuild from bytes (a construction route too)
                    let raw = tx.to_bytes().unwrap();
                    let mut small = Transaction::from_bytes(&raw).unwrap();
                    while small.get_ninputs() > 3 {
                        // there is no remove API; start again from a parsed prefix
                        let mut t = Transaction::new(small.get_version(), small.get_n_locktime());
                        for i in 0..3 {
                            t.add_input(&small.get_input(i).unwrap());
                        }
                        for i in 0..small.get_noutputs().min(3) {
                            t.add_output(&small.get_output(i).unwrap());
                        }
                        small = t;
                    }
                    tx = small;
                }
                let r = if step % 3 == 0 {
                    check_state_in_place(&mut tx, &|| format!("seed {} step {} history tail {:?}", seed, step, &hist[hist.len().saturating_sub(8)..]))
                } else {
                    check_state(&tx, &|| format!("seed {} step {} history tail {:?}", seed, step, &hist[hist.len().saturating_sub(8)..]))
                };
                if let Err(e) = r {
                    return Some(e);
                }
            }
            None
        })
        .collect();
    assert!(errs.is_empty(), "{}", errs[0]);
}

// ---------------------------------------------------------------------------------------------
// E05: signatures (sign / sign_with_k) after a history equal those on a fresh parse, and verify against the
// REFERENCE preimage
// ---------------------------------------------------------------------------------------------
#[test]
fn e05_signatures_after_history() {
    let key = PrivateKey::from_hex("00000000000000000000000000000000000000000000000000000000000000a7").unwrap();
    let k = PrivateKey::from_hex("00000000000000000000000000000000000000000000000000000000000000b9").unwrap();
    let pubkey = PublicKey::from_private_key(&key);
    let sc = code();
    let mut g = Gen(99);
    let mut tx = seed_tx(&mut g);
    for &f in FLAGS.iter() {
        // fill, mutate everything, sign
        let _ = tx.sign(&key, flag(f), 0, &sc, 10);
        apply(&mut tx, Op::SetIn0, &mut g);
        apply(&mut tx, Op::SetOutLast, &mut g);
        apply(&mut tx, Op::SetInLast, &mut g);
        apply(&mut tx, Op::SetLocktime, &mut g);
        let raw = tx.to_bytes().unwrap();
        let mut fresh = Transaction::from_bytes(&raw).unwrap();
        for idx in 0..tx.get_ninputs() {
            let a = tx.sign(&key, flag(f), idx, &sc, 10).unwrap();
            let b = fresh.sign(&key, flag(f), idx, &sc, 10).unwrap();
            assert_eq!(a.to_bytes().unwrap(), b.to_bytes().unwrap(), "sign flag {:#x}", f);
            let a2 = tx.sign_with_k(&key, &k, flag(f), idx, &sc, 10).unwrap();
            let b2 = fresh.sign_with_k(&key, &k, flag(f), idx, &sc, 10).unwrap();
            assert_eq!(a2.to_bytes().unwrap(), b2.to_bytes().unwrap(), "sign_with_k flag {:#x}", f);
            // verify against the reference preimage
            let pre = ref_preimage(&raw, f, idx, &sc.to_bytes(), 10).unwrap();
            let ab = a.to_bytes().unwrap();
            let sig = Signature::from_der(&ab[..ab.len() - 1]).unwrap();
            assert_eq!(*ab.last().unwrap(), f);
            let ss = SighashSignature::new(&sig, flag(f), &pre);
            assert!(tx.verify(&pubkey, &ss), "signature after history does not verify against reference preimage, flag {:#x}", f);
            let ab2 = a2.to_bytes().unwrap();
            let sig2 = Signature::from_der(&ab2[..ab2.len() - 1]).unwrap();
            assert!(tx.verify(&pubkey, &SighashSignature::new(&sig2, flag(f), &pre)), "sign_with_k flag {:#x}", f);
        }
    }
}

// ---------------------------------------------------------------------------------------------
// E06: boundaries of counts: 0 inputs / 0 outputs, SINGLE at idx == noutputs after the outputs shrank relative to
// inputs, 252/253/254 inputs and outputs (compact-size boundary), all reached through mutators with filled caches
// ---------------------------------------------------------------------------------------------
#[test]
fn e06_count_boundaries() {
    let sc = code();
    let mut g = Gen(6);
    // empty transaction: every call must fail the same way before and after
    let mut tx = Transaction::new(1, 0);
    check_state(&tx, &|| "empty".into()).unwrap();
    tx.add_output(&g.txout());
    check_state(&tx, &|| "no inputs, one output".into()).unwrap();
    tx.add_input(&g.txin());
    let _ = tx.sighash_preimage(SigHash::InputsOutputs, 0, &sc, 1).unwrap();
    check_state(&tx, &|| "1/1".into()).unwrap();
    // inputs now outnumber outputs: SINGLE at index 1 == noutputs
    tx.add_input(&g.txin());
    check_state(&tx, &|| "2/1".into()).unwrap();
    tx.add_input(&g.txin());
    check_state(&tx, &|| "3/1".into()).unwrap();

    // grow through the compact-size boundary, with the caches refilled at each size
    let mut tx = Transaction::new(1, 0);
    for n in 0..256usize {
        if n % 2 == 0 {
            tx.add_input(&g.txin());
            tx.prepend_output(&g.txout());
        } else {
            tx.prepend_input(&g.txin());
            tx.add_output(&g.txout());
        }
        let _ = tx.sighash_preimage(SigHash::InputsOutputs, 0, &sc, 1).unwrap();
        if (250..=255).contains(&n) {
            let raw = tx.to_bytes().unwrap();
            let mut fresh = Transaction::from_bytes(&raw).unwrap();
            for &f in FLAGS.iter() {
                for idx in [0usize, 1, n / 2, n] {
                    let a = tx.clone().sighash_preimage(flag(f), idx, &sc, 3).ok();
                    let b = fresh.sighash_preimage(flag(f), idx, &sc, 3).ok();
                    let r = ref_preimage(&raw, f, idx, &sc.to_bytes(), 3);
                    assert_eq!(a, b, "n {} flag {:#x} idx {}", n, f, idx);
                    assert_eq!(a, r, "ref n {} flag {:#x} idx {}", n, f, idx);
                }
            }
        }
    }
}

// ---------------------------------------------------------------------------------------------
// E07: clones are independent — mutate the original after cloning (and vice versa), including the clones that
// set_version / set_nlocktime hand back
// ---------------------------------------------------------------------------------------------
#[test]
fn e07_clone_independence() {
    let sc = code();
    let mut g = Gen(7);
    let mut a = seed_tx(&mut g);
    let _ = a.sighash_preimage(SigHash::InputsOutputs, 1, &sc, 1).unwrap();
    let mut b = a.clone();
    let mut c = a.set_version(77);
    let mut d = a.set_nlocktime(500_000_001);
    apply(&mut a, Op::SetIn0, &mut g);
    apply(&mut b, Op::SetOut0, &mut g);
    apply(&mut c, Op::PrependIn, &mut g);
    apply(&mut d, Op::InsertOutMid, &mut g);
    for (n, t) in [("a", &a), ("b", &b), ("c", &c), ("d", &d)] {
        check_state(t, &|| format!("clone {}", n)).unwrap();
    }
    assert_eq!(c.get_version(), 77);
    assert_eq!(c.get_n_locktime(), 0);
    assert_eq!(d.get_version(), 77);
    assert_eq!(d.get_n_locktime(), 500_000_001);
    // fill in one, mutate, then compare with sibling
    let _ = c.sighash_preimage(SigHash::InputsOutputs, 0, &sc, 1).unwrap();
    let mut e = c.clone();
    apply(&mut c, Op::SetInLast, &mut g);
    check_state(&c, &|| "c after".into()).unwrap();
    check_state(&e, &|| "e".into()).unwrap();
    apply(&mut e, Op::SetInLast, &mut g);
    check_state(&e, &|| "e after".into()).unwrap();
}

// ---------------------------------------------------------------------------------------------
// E08: other construction routes (JSON, CBOR, hex, TxIn::from_outpoint_bytes, TxIn/TxOut::from_hex, extended fields)
// give objects whose sighash matches a fresh parse
// ---------------------------------------------------------------------------------------------
#[test]
fn e08_construction_routes() {
    let sc = code();
    let mut tx = Transaction::from_hex(VEC_TX).unwrap();
    let _ = tx.sighash_preimage(SigHash::InputsOutputs, 0, &sc, 1).unwrap();
    let j = Transaction::from_json_string(&tx.to_json_string().unwrap()).unwrap();
    check_state(&j, &|| "json".into()).unwrap();
    assert_eq!(j.to_bytes().unwrap(), tx.to_bytes().unwrap());
    let c = Transaction::from_compact_bytes(&tx.to_compact_bytes().unwrap()).unwrap();
    check_state(&c, &|| "cbor".into()).unwrap();
    let c2 = Transaction::from_compact_hex(&tx.to_compact_hex().unwrap()).unwrap();
    check_state(&c2, &|| "cbor hex".into()).unwrap();
    assert_eq!(c.to_bytes().unwrap(), tx.to_bytes().unwrap());

    let mut op = vec![0x11u8; 32];
    op.extend_from_slice(&7u32.to_le_bytes());
    let mut i = TxIn::from_outpoint_bytes(&op).unwrap();
    i.set_sequence(0x01020304);
    i.set_satoshis(5);
    i.set_locking_script(&sc);
    tx.set_input(1, &i);
    let i2 = TxIn::from_hex(&tx.get_input(0).unwrap().to_hex().unwrap()).unwrap();
    tx.insert_input(1, &i2);
    let o = TxOut::from_hex("0100000000000000026a00").unwrap();
    tx.set_output(0, &o);
    check_state(&tx, &|| "mixed routes".into()).unwrap();
    let j = Transaction::from_json_string(&tx.to_json_string().unwrap()).unwrap();
    check_state(&j, &|| "json 2".into()).unwrap();
    assert_eq!(j.to_bytes().unwrap(), tx.to_bytes().unwrap());
    let c = Transaction::from_compact_bytes(&tx.to_compact_bytes().unwrap()).unwrap();
    check_state(&c, &|| "cbor 2".into()).unwrap();
    assert_eq!(c.to_bytes().unwrap(), tx.to_bytes().unwrap());
}

// ---------------------------------------------------------------------------------------------
// E09: coinbase input route (parsed coinbase keeps its script as an opaque blob) mixed with mutation
// ---------------------------------------------------------------------------------------------
#[test]
fn e09_coinbase_inputs() {
    let sc = code();
    let cb = "01000000010000000000000000000000000000000000000000000000000000000000000000ffffffff0704ffff001d0104ffffffff0100f2052a0100000043410496b538e853519c726a2c91e61ec11600ae1390813a627c66fb8be7947be63c52da7589379515d4e0a604f8141781e62294721166bf621e73a82cbf2342c858eeac00000000";
    let mut tx = Transaction::from_hex(cb).unwrap();
    assert!(tx.is_coinbase());
    check_state(&tx, &|| "coinbase".into()).unwrap();
    let _ = tx.sighash_preimage(SigHash::InputsOutputs, 0, &sc, 1).unwrap();
    let mut g = Gen(9);
    tx.add_input(&g.txin());
    check_state(&tx, &|| "coinbase + 1".into()).unwrap();
    let cbin = tx.get_input(0).unwrap();
    tx.set_input(1, &cbin);
    tx.prepend_input(&g.txin());
    check_state(&tx, &|| "coinbase x2 moved".into()).unwrap();
    // a coinbase-looking outpoint built by hand with an ordinary script
    let manual = TxIn::new(&[0u8; 32], 0xffff_ffff, &Script::from_hex("0151").unwrap(), Some(5));
    tx.set_input(0, &manual);
    check_state(&tx, &|| "manual coinbase outpoint".into()).unwrap();
}

// ---------------------------------------------------------------------------------------------
// E10: element-built scripts in outputs and as script code (raw opcodes for conditionals, oversized direct push element,
// PUSHDATA elements with a non-minimal opcode, nested If elements) — the sighash is over bytes, whatever the elements
// ---------------------------------------------------------------------------------------------
#[test]
fn e10_element_built_scripts() {
    let mut g = Gen(10);
    let mut tx = seed_tx(&mut g);
    let sc = code();
    let _ = tx.sighash_preimage(SigHash::InputsOutputs, 0, &sc, 1).unwrap();
    let flat = Script::from_script_bits(vec![
        ScriptBit::OpCode(OpCodes::OP_IF),
        ScriptBit::Push(vec![1, 2, 3]),
        ScriptBit::OpCode(OpCodes::OP_ELSE),
        ScriptBit::PushData(OpCodes::OP_PUSHDATA2, vec![9; 3]),
        ScriptBit::OpCode(OpCodes::OP_ENDIF),
        ScriptBit::Push(vec![]),
        ScriptBit::PushData(OpCodes::OP_PUSHDATA4, vec![]),
    ]);
    let nested = Script::from_script_bits(vec![ScriptBit::If {
        code: OpCodes::OP_NOTIF,
        pass: vec![ScriptBit::If { code: OpCodes::OP_IF, pass: vec![], fail: Some(vec![ScriptBit::OpCode(OpCodes::OP_CODESEPARATOR)]) }],
        fail: None,
    }]);
    tx.set_output(0, &TxOut::new(1, &flat));
    tx.add_output(&TxOut::new(2, &nested));
    check_state(&tx, &|| "element-built outputs".into()).unwrap();
    let mut i = tx.get_input(0).unwrap();
    i.set_unlocking_script(&flat);
    tx.set_input(0, &i);
    check_state(&tx, &|| "element-built unlocking".into()).unwrap();

    // element-built script code: history vs fresh vs reference, for every flag
    let raw = tx.to_bytes().unwrap();
    let mut fresh = Transaction::from_bytes(&raw).unwrap();
    for scode in [&flat, &nested] {
        for &f in FLAGS.iter() {
            for idx in 0..tx.get_ninputs() {
                let a = tx.sighash_preimage(flag(f), idx, scode, 9).ok();
                let b = fresh.sighash_preimage(flag(f), idx, scode, 9).ok();
                assert_eq!(a, b);
                assert_eq!(a, ref_preimage(&raw, f, idx, &scode.to_bytes(), 9), "flag {:#x} idx {}", f, idx);
            }
        }
    }
}

// ---------------------------------------------------------------------------------------------
// E11: the repaired legacy SINGLE (truncate + blank) does not disturb the object it was called on, nor its caches
// ---------------------------------------------------------------------------------------------
#[test]
fn e11_legacy_calls_leave_object_alone() {
    let mut g = Gen(11);
    let mut tx = seed_tx(&mut g);
    tx.add_input(&g.txin());
    tx.add_output(&g.txout());
    let sc = Script::from_asm_string("OP_1 OP_CODESEPARATOR OP_IF OP_CODESEPARATOR OP_ENDIF OP_CHECKSIG").unwrap();
    let before = tx.to_bytes().unwrap();
    let _ = tx.sighash_preimage(SigHash::InputsOutputs, 0, &sc, 1).unwrap();
    for &f in [0x03u8, 0x83, 0x02, 0x82, 0x01, 0x81, 0x80, 0x40].iter() {
        for idx in 0..3 {
            let raw = tx.to_bytes().unwrap();
            let p = tx.sighash_preimage(flag(f), idx, &sc, 1).unwrap();
            assert_eq!(Some(p), ref_preimage(&raw, f, idx, &sc.to_bytes(), 1), "flag {:#x} idx {}", f, idx);
            assert_eq!(tx.to_bytes().unwrap(), before);
            assert_eq!(sc.to_asm_string(), "OP_1 OP_CODESEPARATOR OP_IF OP_CODESEPARATOR OP_ENDIF OP_CHECKSIG");
        }
    }
    check_state(&tx, &|| "after legacy calls".into()).unwrap();
    apply(&mut tx, Op::SetOut0, &mut g);
    apply(&mut tx, Op::SetIn0, &mut g);
    check_state(&tx, &|| "after legacy calls + set".into()).unwrap();
}

// ---------------------------------------------------------------------------------------------
// E12: the interpreter route: OP_CHECKSIG run through Interpreter::from_transaction on a transaction with a history
// accepts exactly the signature made over the reference preimage of the current contents and rejects the one made
// before the mutation
// ---------------------------------------------------------------------------------------------
#[test]
fn e12_interpreter_checksig_after_history() {
    let key = PrivateKey::from_hex("00000000000000000000000000000000000000000000000000000000000000c3").unwrap();
    let pubkey = PublicKey::from_private_key(&key);
    let lock = Script::from_asm_string(&format!("{} OP_CHECKSIG", pubkey.to_hex().unwrap())).unwrap();
    let mut g = Gen(12);
    for &f in [0x41u8, 0x42, 0x43, 0xc1, 0xc2, 0xc3, 0x01, 0x02, 0x03, 0x81, 0x82, 0x83].iter() {
        let mut tx = seed_tx(&mut g);
        let value = 4242u64;
        // stale candidate: signature over the contents BEFORE the mutations
        let old_sig = tx.sign(&key, flag(f), 0, &lock, value).unwrap();
        // mutate every part a flag can commit to
        let mut i0 = tx.get_input(0).unwrap();
        i0.set_sequence(i0.get_sequence() ^ 0x55);
        i0.set_vout(i0.get_vout() + 1);
        tx.set_input(0, &i0);
        let o0 = tx.get_output(0).unwrap();
        tx.set_output(0, &TxOut::new(o0.get_satoshis() + 1, &o0.get_script_pub_key()));
        let new_sig = tx.sign(&key, flag(f), 0, &lock, value).unwrap();
        assert_ne!(old_sig.to_bytes().unwrap(), new_sig.to_bytes().unwrap(), "flag {:#x}", f);

        let run = |tx: &Transaction, sig: &SighashSignature| -> bool {
            let mut t = tx.clone();
            let mut i = t.get_input(0).unwrap();
            let mut us = Script::default();
            us.push(ScriptBit::Push(sig.to_bytes().unwrap()));
            i.set_unlocking_script(&us);
            i.set_locking_script(&lock);
            i.set_satoshis(value);
            t.set_input(0, &i);
            let mut interp = Interpreter::from_transaction(&t, 0).unwrap();
            match interp.run() {
                Ok(()) => interp.state().stack().last().map(|x| !x.is_empty() && x.iter().any(|b| *b != 0)).unwrap_or(false),
                Err(_) => false,
            }
        };
        assert!(run(&tx, &new_sig), "current signature rejected, flag {:#x}", f);
        assert!(!run(&tx, &old_sig), "stale signature accepted, flag {:#x}", f);
        // and on a fresh parse
        let fresh = Transaction::from_bytes(&tx.to_bytes().unwrap()).unwrap();
        assert!(run(&fresh, &new_sig));
        assert!(!run(&fresh, &old_sig));
    }
}

// ---------------------------------------------------------------------------------------------
// E13: the public hash_inputs helper: after a history it equals sha256d of the current outpoints (reference) or zeros
// ---------------------------------------------------------------------------------------------
#[test]
fn e13_public_hash_inputs() {
    let mut g = Gen(13);
    let mut tx = seed_tx(&mut g);
    for round in 0..6 {
        for &f in FLAGS.iter() {
            let raw = tx.to_bytes().unwrap();
            let r = rparse(&raw);
            let mut all = vec![];
            for i in &r.ins {
                all.extend_from_slice(&i.outpoint);
            }
            let want = sha256d(&all);
            let got = tx.hash_inputs(flag(f));
            assert!(got == want || got == vec![0u8; 32], "round {} flag {:#x}", round, f);
            if f == 0x41 || f == 0x42 || f == 0x43 {
                assert_eq!(got, want);
            }
            let op = [Op::SetIn0, Op::InsertInMid, Op::PrependIn, Op::AddIn, Op::InsertInEnd, Op::AddIns2][round];
            apply(&mut tx, op, &mut g);
        }
    }
}

// ---------------------------------------------------------------------------------------------
// E14: failing calls in between (index out of range, SINGLE without output) leave nothing behind
// ---------------------------------------------------------------------------------------------
#[test]
fn e14_failed_calls_leave_nothing() {
    let sc = code();
    let mut g = Gen(14);
    let mut tx = Transaction::new(1, 0);
    tx.add_input(&g.txin());
    tx.add_input(&g.txin());
    tx.add_output(&g.txout());
    for &f in FLAGS.iter() {
        assert!(tx.sighash_preimage(flag(f), 2, &sc, 1).is_err());
        assert!(tx.sighash_preimage(flag(f), usize::MAX, &sc, 1).is_err());
    }
    for &f in [0x03u8, 0x43, 0x83, 0xc3].iter() {
        assert!(tx.sighash_preimage(flag(f), 1, &sc, 1).is_err(), "SINGLE without output must be refused (accepted behaviour)");
    }
    check_state(&tx, &|| "after failures".into()).unwrap();
    tx.add_output(&g.txout());
    check_state(&tx, &|| "after failures + output".into()).unwrap();
    for &f in [0x03u8, 0x43, 0x83, 0xc3].iter() {
        assert!(tx.sighash_preimage(flag(f), 1, &sc, 1).is_ok());
    }
}

// ---------------------------------------------------------------------------------------------
// E15: equality of two objects with the same contents but different histories (observation, not in the property)
// ---------------------------------------------------------------------------------------------
#[test]
fn e15_observation_equality_depends_on_history() {
    let sc = code();
    let mut a = Transaction::from_hex(VEC_TX).unwrap();
    let b = Transaction::from_hex(VEC_TX).unwrap();
    assert!(a == b);
    let _ = a.sighash_preimage(SigHash::InputsOutputs, 0, &sc, 1).unwrap();
    println!("e15 observation: tx == fresh parse after a sighash call: {}", a == b);
    assert_eq!(a.to_bytes().unwrap(), b.to_bytes().unwrap());
}

// ---------------------------------------------------------------------------------------------
// E16: a TxIn whose outpoint id is not 32 bytes long (TxIn::default(), short ids) — what the serialisation does
// (observation: outside the domain, there is no well-formed current serialisation)
// ---------------------------------------------------------------------------------------------
#[test]
fn e16_observation_short_txid() {
    let sc = code();
    let mut tx = Transaction::new(1, 0);
    tx.add_input(&TxIn::default());
    tx.add_output(&TxOut::new(1, &sc));
    let raw = tx.to_bytes().unwrap();
    let fresh = Transaction::from_bytes(&raw);
    println!("e16 observation: tx with TxIn::default() serialises to {} bytes; fresh parse ok = {}", raw.len(), fresh.is_ok());
    let p = tx.sighash_preimage(SigHash::InputsOutputs, 0, &sc, 1);
    println!("e16 observation: sighash on it ok = {}", p.is_ok());
}

// ---------------------------------------------------------------------------------------------
// E17: extreme field values and script lengths on the compact-size boundaries (script code and output scripts of
// 252 / 253 / 65535 / 65536 bytes), installed through set_* on an object with filled caches
// ---------------------------------------------------------------------------------------------
#[test]
fn e17_extreme_values_and_lengths() {
    let mut g = Gen(17);
    let mut tx = seed_tx(&mut g);
    let sc = code();
    let _ = tx.sighash_preimage(SigHash::InputsOutputs, 0, &sc, 1).unwrap();
    tx.set_version(u32::MAX);
    tx.set_nlocktime(u32::MAX);
    let i = TxIn::new(&[0xffu8; 32], u32::MAX, &Script::default(), Some(0x80000000));
    tx.set_input(1, &i);
    tx.set_output(0, &TxOut::new(u64::MAX, &Script::default()));
    tx.set_output(1, &TxOut::new(0, &Script::default()));
    check_state(&tx, &|| "extreme values".into()).unwrap();

    for len in [252usize, 253, 65535, 65536] {
        // a script of exactly `len` bytes: OP_NOPs
        let big = Script::from_bytes(&vec![0x61u8; len]).unwrap();
        assert_eq!(big.to_bytes().len(), len);
        let _ = tx.sighash_preimage(SigHash::InputsOutputs, 0, &sc, 1).unwrap();
        tx.set_output(1, &TxOut::new(len as u64, &big));
        let raw = tx.to_bytes().unwrap();
        let mut fresh = Transaction::from_bytes(&raw).unwrap();
        for &f in FLAGS.iter() {
            for idx in 0..2 {
                for v in [0u64, u64::MAX] {
                    let a = tx.clone().sighash_preimage(flag(f), idx, &big, v).ok();
                    let b = fresh.sighash_preimage(flag(f), idx, &big, v).ok();
                    let r = ref_preimage(&raw, f, idx, &big.to_bytes(), v);
                    assert_eq!(a, b, "len {} flag {:#x}", len, f);
                    assert!(a == r, "ref: len {} flag {:#x} idx {}", len, f, idx);
                }
            }
        }
    }
}

// ---------------------------------------------------------------------------------------------
// E18 (observation): the public helper hash_inputs answers a non-zero hash for the ANYONECANPAY flag 0x81 although its
// documentation says "else 32 bytes of zeroes"; no signature-hash path reaches it with that flag, and the answer does
// not depend on history
// ---------------------------------------------------------------------------------------------
#[test]
fn e18_observation_hash_inputs_legacy_acp() {
    let mut tx = Transaction::from_hex(VEC_TX).unwrap();
    let a = tx.hash_inputs(SigHash::Legacy_InputOutputs);
    let mut fresh = Transaction::from_hex(VEC_TX).unwrap();
    let _ = fresh.sighash_preimage(SigHash::InputsOutputs, 0, &code(), 1).unwrap();
    let b = fresh.hash_inputs(SigHash::Legacy_InputOutputs);
    assert_eq!(a, b);
    println!("e18 observation: hash_inputs(0x81) is all zero: {}", a == vec![0u8; 32]);
}
