// Hunt for violations of property C11 (ECIES / BIE1).
// The reference (curve arithmetic, SHA-256, SHA-512, HMAC, AES-128-CBC, PKCS#7) is written here from the specifications.
#![allow(dead_code)]
#![allow(clippy::needless_range_loop)]

use bsv::{ECIESCiphertext, PrivateKey, PublicKey, ECIES};
use num_bigint::BigUint;

// ---------------------------------------------------------------- reference: SHA-256 / SHA-512 / HMAC

fn is_prime(n: u64) -> bool {
    if n < 2 {
        return false;
    }
    let mut i = 2;
    while i * i <= n {
        if n % i == 0 {
            return false;
        }
        i += 1;
    }
    true
}

fn first_primes(count: usize) -> Vec<u64> {
    let mut v = vec![];
    let mut n = 2;
    while v.len() < count {
        if is_prime(n) {
            v.push(n);
        }
        n += 1;
    }
    v
}

// floor(frac(p^(1/root)) * 2^bits) by integer root of p << (root*bits)
fn frac_root_bits(p: u64, root: u32, bits: u32) -> BigUint {
    let shifted = BigUint::from(p) << (root * bits) as usize;
    let r = shifted.nth_root(root);
    r & ((BigUint::from(1u8) << bits as usize) - 1u8)
}

fn big_to_u64(b: &BigUint) -> u64 {
    let d = b.to_u64_digits();
    if d.is_empty() {
        0
    } else {
        d[0]
    }
}

fn ref_sha256(msg: &[u8]) -> [u8; 32] {
    let primes = first_primes(64);
    let k: Vec<u32> = primes.iter().map(|p| big_to_u64(&frac_root_bits(*p, 3, 32)) as u32).collect();
    let mut h: Vec<u32> = primes[..8].iter().map(|p| big_to_u64(&frac_root_bits(*p, 2, 32)) as u32).collect();
    let mut data = msg.to_vec();
    let bitlen = (msg.len() as u64) * 8;
    data.push(0x80);
    while data.len() % 64 != 56 {
        data.push(0);
    }
    data.extend_from_slice(&bitlen.to_be_bytes());
    for chunk in data.chunks(64) {
        let mut w = [0u32; 64];
        for i in 0..16 {
            w[i] = u32::from_be_bytes([chunk[4 * i], chunk[4 * i + 1], chunk[4 * i + 2], chunk[4 * i + 3]]);
        }
        for i in 16..64 {
            let s0 = w[i - 15].rotate_right(7) ^ w[i - 15].rotate_right(18) ^ (w[i - 15] >> 3);
            let s1 = w[i - 2].rotate_right(17) ^ w[i - 2].rotate_right(19) ^ (w[i - 2] >> 10);
            w[i] = w[i - 16].wrapping_add(s0).wrapping_add(w[i - 7]).wrapping_add(s1);
        }
        let (mut a, mut b, mut c, mut d, mut e, mut f, mut g, mut hh) = (h[0], h[1], h[2], h[3], h[4], h[5], h[6], h[7]);
        for i in 0..64 {
            let s1 = e.rotate_right(6) ^ e.rotate_right(11) ^ e.rotate_right(25);
            let ch = (e & f) ^ (!e & g);
            let t1 = hh.wrapping_add(s1).wrapping_add(ch).wrapping_add(k[i]).wrapping_add(w[i]);
            let s0 = a.rotate_right(2) ^ a.rotate_right(13) ^ a.rotate_right(22);
            let maj = (a & b) ^ (a & c) ^ (b & c);
            let t2 = s0.wrapping_add(maj);
            hh = g;
            g = f;
            f = e;
            e = d.wrapping_add(t1);
            d = c;
            c = b;
            b = a;
            a = t1.wrapping_add(t2);
        }
        for (i, v) in [a, b, c, d, e, f, g, hh].iter().enumerate() {
            h[i] = h[i].wrapping_add(*v);
        }
    }
    let mut out = [0u8; 32];
    for i in 0..8 {
        out[4 * i..4 * i + 4].copy_from_slice(&h[i].to_be_bytes());
    }
    out
}

fn ref_sha512(msg: &[u8]) -> [u8; 64] {
    let primes = first_primes(80);
    let k: Vec<u64> = primes.iter().map(|p| big_to_u64(&frac_root_bits(*p, 3, 64))).collect();
    let mut h: Vec<u64> = primes[..8].iter().map(|p| big_to_u64(&frac_root_bits(*p, 2, 64))).collect();
    let mut data = msg.to_vec();
    let bitlen = (msg.len() as u128) * 8;
    data.push(0x80);
    while data.len() % 128 != 112 {
        data.push(0);
    }
    data.extend_from_slice(&bitlen.to_be_bytes());
    for chunk in data.chunks(128) {
        let mut w = [0u64; 80];
        for i in 0..16 {
            let mut b = [0u8; 8];
            b.copy_from_slice(&chunk[8 * i..8 * i + 8]);
            w[i] = u64::from_be_bytes(b);
        }
        for i in 16..80 {
            let s0 = w[i - 15].rotate_right(1) ^ w[i - 15].rotate_right(8) ^ (w[i - 15] >> 7);
            let s1 = w[i - 2].rotate_right(19) ^ w[i - 2].rotate_right(61) ^ (w[i - 2] >> 6);
            w[i] = w[i - 16].wrapping_add(s0).wrapping_add(w[i - 7]).wrapping_add(s1);
        }
        let (mut a, mut b, mut c, mut d, mut e, mut f, mut g, mut hh) = (h[0], h[1], h[2], h[3], h[4], h[5], h[6], h[7]);
        for i in 0..80 {
            let s1 = e.rotate_right(14) ^ e.rotate_right(18) ^ e.rotate_right(41);
            let ch = (e & f) ^ (!e & g);
            let t1 = hh.wrapping_add(s1).wrapping_add(ch).wrapping_add(k[i]).wrapping_add(w[i]);
            let s0 = a.rotate_right(28) ^ a.rotate_right(34) ^ a.rotate_right(39);
            let maj = (a & b) ^ (a & c) ^ (b & c);
            let t2 = s0.wrapping_add(maj);
            hh = g;
            g = f;
            f = e;
            e = d.wrapping_add(t1);
            d = c;
            c = b;
            b = a;
            a = t1.wrapping_add(t2);
        }
        for (i, v) in [a, b, c, d, e, f, g, hh].iter().enumerate() {
            h[i] = h[i].wrapping_add(*v);
        }
    }
    let mut out = [0u8; 64];
    for i in 0..8 {
        out[8 * i..8 * i + 8].copy_from_slice(&h[i].to_be_bytes());
    }
    out
}

fn ref_hmac_sha256(key: &[u8], msg: &[u8]) -> [u8; 32] {
    let mut k = if key.len() > 64 { ref_sha256(key).to_vec() } else { key.to_vec() };
    k.resize(64, 0);
    let mut inner: Vec<u8> = k.iter().map(|b| b ^ 0x36).collect();
    inner.extend_from_slice(msg);
    let ih = ref_sha256(&inner);
    let mut outer: Vec<u8> = k.iter().map(|b| b ^ 0x5c).collect();
    outer.extend_from_slice(&ih);
    ref_sha256(&outer)
}

// ---------------------------------------------------------------- reference: AES-128 (FIPS-197), CBC, PKCS#7

fn gmul(mut a: u8, mut b: u8) -> u8 {
    let mut p = 0u8;
    for _ in 0..8 {
        if b & 1 != 0 {
            p ^= a;
        }
        let hi = a & 0x80;
        a <<= 1;
        if hi != 0 {
            a ^= 0x1b;
        }
        b >>= 1;
    }
    p
}

fn sbox_tables() -> ([u8; 256], [u8; 256]) {
    let mut sbox = [0u8; 256];
    let mut inv = [0u8; 256];
    for x in 0..256usize {
        // multiplicative inverse in GF(2^8)
        let mut invx = 0u8;
        if x != 0 {
            for y in 1..256usize {
                if gmul(x as u8, y as u8) == 1 {
                    invx = y as u8;
                    break;
                }
            }
        }
        let b = invx;
        let s = b ^ b.rotate_left(1) ^ b.rotate_left(2) ^ b.rotate_left(3) ^ b.rotate_left(4) ^ 0x63;
        sbox[x] = s;
        inv[s as usize] = x as u8;
    }
    (sbox, inv)
}

struct RefAes128 {
    sbox: [u8; 256],
    inv: [u8; 256],
    rk: [[u8; 16]; 11],
}

impl RefAes128 {
    fn new(key: &[u8]) -> RefAes128 {
        assert_eq!(key.len(), 16);
        let (sbox, inv) = sbox_tables();
        let mut w = [[0u8; 4]; 44];
        for i in 0..4 {
            w[i].copy_from_slice(&key[4 * i..4 * i + 4]);
        }
        let mut rcon = 1u8;
        for i in 4..44 {
            let mut t = w[i - 1];
            if i % 4 == 0 {
                t = [sbox[t[1] as usize] ^ rcon, sbox[t[2] as usize], sbox[t[3] as usize], sbox[t[0] as usize]];
                rcon = gmul(rcon, 2);
            }
            for j in 0..4 {
                w[i][j] = w[i - 4][j] ^ t[j];
            }
        }
        let mut rk = [[0u8; 16]; 11];
        for r in 0..11 {
            for c in 0..4 {
                rk[r][4 * c..4 * c + 4].copy_from_slice(&w[4 * r + c]);
            }
        }
        RefAes128 { sbox, inv, rk }
    }

    // state is column-major: byte index 4*c + r
    fn encrypt_block(&self, block: &[u8]) -> [u8; 16] {
        let mut s = [0u8; 16];
        s.copy_from_slice(block);
        for i in 0..16 {
            s[i] ^= self.rk[0][i];
        }
        for round in 1..=10 {
            for b in s.iter_mut() {
                *b = self.sbox[*b as usize];
            }
            let mut t = [0u8; 16];
            for c in 0..4 {
                for r in 0..4 {
                    t[4 * c + r] = s[4 * ((c + r) % 4) + r];
                }
            }
            s = t;
            if round != 10 {
                for c in 0..4 {
                    let a = [s[4 * c], s[4 * c + 1], s[4 * c + 2], s[4 * c + 3]];
                    s[4 * c] = gmul(a[0], 2) ^ gmul(a[1], 3) ^ a[2] ^ a[3];
                    s[4 * c + 1] = a[0] ^ gmul(a[1], 2) ^ gmul(a[2], 3) ^ a[3];
                    s[4 * c + 2] = a[0] ^ a[1] ^ gmul(a[2], 2) ^ gmul(a[3], 3);
                    s[4 * c + 3] = gmul(a[0], 3) ^ a[1] ^ a[2] ^ gmul(a[3], 2);
                }
            }
            for i in 0..16 {
                s[i] ^= self.rk[round][i];
            }
        }
        s
    }

    fn decrypt_block(&self, block: &[u8]) -> [u8; 16] {
        let mut s = [0u8; 16];
        s.copy_from_slice(block);
        for round in (1..=10).rev() {
            for i in 0..16 {
                s[i] ^= self.rk[round][i];
            }
            if round != 10 {
                for c in 0..4 {
                    let a = [s[4 * c], s[4 * c + 1], s[4 * c + 2], s[4 * c + 3]];
                    s[4 * c] = gmul(a[0], 14) ^ gmul(a[1], 11) ^ gmul(a[2], 13) ^ gmul(a[3], 9);
                    s[4 * c + 1] = gmul(a[0], 9) ^ gmul(a[1], 14) ^ gmul(a[2], 11) ^ gmul(a[3], 13);
                    s[4 * c + 2] = gmul(a[0], 13) ^ gmul(a[1], 9) ^ gmul(a[2], 14) ^ gmul(a[3], 11);
                    s[4 * c + 3] = gmul(a[0], 11) ^ gmul(a[1], 13) ^ gmul(a[2], 9) ^ gmul(a[3], 14);
                }
            }
            let mut t = [0u8; 16];
            for c in 0..4 {
                for r in 0..4 {
                    t[4 * ((c + r) % 4) + r] = s[4 * c + r];
                }
            }
            s = t;
            for b in s.iter_mut() {
                *b = self.inv[*b as usize];
            }
        }
        for i in 0..16 {
            s[i] ^= self.rk[0][i];
        }
        s
    }
}

// CBC over already padded data (length multiple of 16)
fn ref_cbc_encrypt_raw(key: &[u8], iv: &[u8], padded: &[u8]) -> Vec<u8> {
    assert_eq!(padded.len() % 16, 0);
    let aes = RefAes128::new(key);
    let mut prev = [0u8; 16];
    prev.copy_from_slice(iv);
    let mut out = vec![];
    for chunk in padded.chunks(16) {
        let mut x = [0u8; 16];
        for i in 0..16 {
            x[i] = chunk[i] ^ prev[i];
        }
        prev = aes.encrypt_block(&x);
        out.extend_from_slice(&prev);
    }
    out
}

fn ref_cbc_encrypt_pkcs7(key: &[u8], iv: &[u8], msg: &[u8]) -> Vec<u8> {
    let pad = 16 - msg.len() % 16;
    let mut padded = msg.to_vec();
    padded.extend(std::iter::repeat(pad as u8).take(pad));
    ref_cbc_encrypt_raw(key, iv, &padded)
}

fn ref_cbc_decrypt_raw(key: &[u8], iv: &[u8], ct: &[u8]) -> Vec<u8> {
    assert_eq!(ct.len() % 16, 0);
    let aes = RefAes128::new(key);
    let mut prev = [0u8; 16];
    prev.copy_from_slice(iv);
    let mut out = vec![];
    for chunk in ct.chunks(16) {
        let d = aes.decrypt_block(chunk);
        for i in 0..16 {
            out.push(d[i] ^ prev[i]);
        }
        prev.copy_from_slice(chunk);
    }
    out
}

fn ref_unpad(mut plain: Vec<u8>) -> Option<Vec<u8>> {
    let n = *plain.last()? as usize;
    if n == 0 || n > 16 || n > plain.len() {
        return None;
    }
    if plain[plain.len() - n..].iter().any(|b| *b as usize != n) {
        return None;
    }
    plain.truncate(plain.len() - n);
    Some(plain)
}

// ---------------------------------------------------------------- reference: secp256k1 (SEC 2), Jacobian coordinates

fn hexbig(s: &str) -> BigUint {
    BigUint::parse_bytes(s.as_bytes(), 16).unwrap()
}

struct Curve {
    p: BigUint,
    n: BigUint,
    gx: BigUint,
    gy: BigUint,
}

fn curve() -> Curve {
    Curve {
        p: hexbig("FFFFFFFFFFFFFFFFFFFFFFFFFFFFFFFFFFFFFFFFFFFFFFFFFFFFFFFEFFFFFC2F"),
        n: hexbig("FFFFFFFFFFFFFFFFFFFFFFFFFFFFFFFEBAAEDCE6AF48A03BBFD25E8CD0364141"),
        gx: hexbig("79BE667EF9DCBBAC55A06295CE870B07029BFCDB2DCE28D959F2815B16F81798"),
        gy: hexbig("483ADA7726A3C4655DA4FBFC0E1108A8FD17B448A68554199C47D08FFB10D4B8"),
    }
}

type Jac = (BigUint, BigUint, BigUint); // Z = 0 is infinity

fn zero() -> BigUint {
    BigUint::from(0u8)
}
fn one() -> BigUint {
    BigUint::from(1u8)
}

fn submod(a: &BigUint, b: &BigUint, p: &BigUint) -> BigUint {
    ((a + p) - (b % p)) % p
}

fn jac_double(c: &Curve, pt: &Jac) -> Jac {
    let p = &c.p;
    let (x, y, z) = pt;
    if *z == zero() || *y == zero() {
        return (one(), one(), zero());
    }
    let yy = (y * y) % p;
    let s = (BigUint::from(4u8) * x * &yy) % p;
    let m = (BigUint::from(3u8) * x * x) % p; // a = 0
    let x3 = submod(&((&m * &m) % p), &((&s + &s) % p), p);
    let y3 = submod(&((&m * submod(&s, &x3, p)) % p), &((BigUint::from(8u8) * &yy * &yy) % p), p);
    let z3 = (BigUint::from(2u8) * y * z) % p;
    (x3, y3, z3)
}

fn jac_add(c: &Curve, a: &Jac, b: &Jac) -> Jac {
    let p = &c.p;
    if a.2 == zero() {
        return b.clone();
    }
    if b.2 == zero() {
        return a.clone();
    }
    let z1z1 = (&a.2 * &a.2) % p;
    let z2z2 = (&b.2 * &b.2) % p;
    let u1 = (&a.0 * &z2z2) % p;
    let u2 = (&b.0 * &z1z1) % p;
    let s1 = (&a.1 * &b.2 * &z2z2) % p;
    let s2 = (&b.1 * &a.2 * &z1z1) % p;
    if u1 == u2 {
        if s1 == s2 {
            return jac_double(c, a);
        }
        return (one(), one(), zero());
    }
    let h = submod(&u2, &u1, p);
    let r = submod(&s2, &s1, p);
    let hh = (&h * &h) % p;
    let hhh = (&hh * &h) % p;
    let v = (&u1 * &hh) % p;
    let x3 = submod(&submod(&((&r * &r) % p), &hhh, p), &((&v + &v) % p), p);
    let y3 = submod(&((&r * submod(&v, &x3, p)) % p), &((&s1 * &hhh) % p), p);
    let z3 = (&h * &a.2 * &b.2) % p;
    (x3, y3, z3)
}

fn jac_mul(c: &Curve, k: &BigUint, pt: &(BigUint, BigUint)) -> Option<(BigUint, BigUint)> {
    let base: Jac = (pt.0.clone(), pt.1.clone(), one());
    let mut acc: Jac = (one(), one(), zero());
    for i in (0..k.bits()).rev() {
        acc = jac_double(c, &acc);
        if k.bit(i) {
            acc = jac_add(c, &acc, &base);
        }
    }
    if acc.2 == zero() {
        return None;
    }
    let p = &c.p;
    let zinv = acc.2.modpow(&(p - BigUint::from(2u8)), p);
    let zinv2 = (&zinv * &zinv) % p;
    let x = (&acc.0 * &zinv2) % p;
    let y = (&acc.1 * &zinv2 * &zinv) % p;
    Some((x, y))
}

fn be32(b: &BigUint) -> Vec<u8> {
    let raw = b.to_bytes_be();
    let mut out = vec![0u8; 32 - raw.len()];
    out.extend_from_slice(&raw);
    out
}

fn compress(pt: &(BigUint, BigUint)) -> Vec<u8> {
    let mut out = vec![if pt.1.bit(0) { 3u8 } else { 2u8 }];
    out.extend_from_slice(&be32(&pt.0));
    out
}

fn uncompress_bytes(pt: &(BigUint, BigUint)) -> Vec<u8> {
    let mut out = vec![4u8];
    out.extend_from_slice(&be32(&pt.0));
    out.extend_from_slice(&be32(&pt.1));
    out
}

fn ref_pubpoint(d: &BigUint) -> (BigUint, BigUint) {
    let c = curve();
    jac_mul(&c, d, &(c.gx.clone(), c.gy.clone())).unwrap()
}

// decode a compressed point (y from x by the square root, p = 3 mod 4)
fn decompress(bytes: &[u8]) -> Option<(BigUint, BigUint)> {
    let c = curve();
    if bytes.len() != 33 || (bytes[0] != 2 && bytes[0] != 3) {
        return None;
    }
    let x = BigUint::from_bytes_be(&bytes[1..]);
    if x >= c.p {
        return None;
    }
    let rhs = (&x * &x * &x + BigUint::from(7u8)) % &c.p;
    let y = rhs.modpow(&((&c.p + one()) >> 2), &c.p);
    if (&y * &y) % &c.p != rhs {
        return None;
    }
    let y = if y.bit(0) == (bytes[0] == 3) { y } else { &c.p - y };
    Some((x, y))
}

// ---------------------------------------------------------------- reference: BIE1

struct RefKeys {
    iv: Vec<u8>,
    ke: Vec<u8>,
    km: Vec<u8>,
}

// S = compressed(d * Q); SHA-512(S) -> iv | kE | kM
fn ref_keys(d: &BigUint, q: &(BigUint, BigUint)) -> RefKeys {
    let c = curve();
    let s = jac_mul(&c, d, q).unwrap();
    let h = ref_sha512(&compress(&s));
    RefKeys {
        iv: h[0..16].to_vec(),
        ke: h[16..32].to_vec(),
        km: h[32..64].to_vec(),
    }
}

fn ref_bie1_encrypt(msg: &[u8], d_sender: &BigUint, q_recipient: &(BigUint, BigUint), exclude: bool) -> Vec<u8> {
    let k = ref_keys(d_sender, q_recipient);
    let ct = ref_cbc_encrypt_pkcs7(&k.ke, &k.iv, msg);
    let mut out = b"BIE1".to_vec();
    if !exclude {
        out.extend_from_slice(&compress(&ref_pubpoint(d_sender)));
    }
    out.extend_from_slice(&ct);
    let mac = ref_hmac_sha256(&k.km, &out);
    out.extend_from_slice(&mac);
    out
}

// Electrum style decryption: None when the MAC, the magic or the padding is wrong
fn ref_bie1_decrypt(buf: &[u8], d_recipient: &BigUint, q_sender: &(BigUint, BigUint), has_key: bool) -> Option<Vec<u8>> {
    let head = if has_key { 37 } else { 4 };
    if buf.len() < head + 32 || &buf[0..4] != b"BIE1" {
        return None;
    }
    let k = ref_keys(d_recipient, q_sender);
    let (body, mac) = buf.split_at(buf.len() - 32);
    if ref_hmac_sha256(&k.km, body)[..] != mac[..] {
        return None;
    }
    let ct = &body[head..];
    if ct.len() % 16 != 0 {
        return None;
    }
    ref_unpad(ref_cbc_decrypt_raw(&k.ke, &k.iv, ct))
}

// ---------------------------------------------------------------- helpers

struct Rng(u64);
impl Rng {
    fn next(&mut self) -> u64 {
        // splitmix64
        self.0 = self.0.wrapping_add(0x9E3779B97F4A7C15);
        let mut z = self.0;
        z = (z ^ (z >> 30)).wrapping_mul(0xBF58476D1CE4E5B9);
        z = (z ^ (z >> 27)).wrapping_mul(0x94D049BB133111EB);
        z ^ (z >> 31)
    }
    fn bytes(&mut self, n: usize) -> Vec<u8> {
        let mut v = Vec::with_capacity(n + 8);
        while v.len() < n {
            v.extend_from_slice(&self.next().to_le_bytes());
        }
        v.truncate(n);
        v
    }
    fn below(&mut self, n: usize) -> usize {
        (self.next() % n as u64) as usize
    }
    fn scalar(&mut self) -> BigUint {
        let c = curve();
        loop {
            let d = BigUint::from_bytes_be(&self.bytes(32));
            if d != zero() && d < c.n {
                return d;
            }
        }
    }
}

fn lib_priv(d: &BigUint) -> PrivateKey {
    PrivateKey::from_bytes(&be32(d)).unwrap()
}

fn lib_pub_c(d: &BigUint) -> PublicKey {
    PublicKey::from_bytes(&compress(&ref_pubpoint(d))).unwrap()
}

fn lib_pub_u(d: &BigUint) -> PublicKey {
    PublicKey::from_bytes(&uncompress_bytes(&ref_pubpoint(d))).unwrap()
}

fn hx(b: &[u8]) -> String {
    if b.len() > 120 {
        format!("{}..({} bytes)", hex::encode(&b[..120]), b.len())
    } else {
        hex::encode(b)
    }
}

fn b64(s: &str) -> Vec<u8> {
    let alphabet = b"ABCDEFGHIJKLMNOPQRSTUVWXYZabcdefghijklmnopqrstuvwxyz0123456789+/";
    let mut bits: u32 = 0;
    let mut nbits = 0;
    let mut out = vec![];
    for ch in s.bytes() {
        if ch == b'=' {
            break;
        }
        let v = alphabet.iter().position(|c| *c == ch).unwrap() as u32;
        bits = (bits << 6) | v;
        nbits += 6;
        if nbits >= 8 {
            nbits -= 8;
            out.push((bits >> nbits) as u8);
            bits &= (1 << nbits) - 1;
        }
    }
    out
}

const LENGTHS: [usize; 10] = [0, 1, 15, 16, 17, 31, 32, 33, 1000, 40000];

// ---------------------------------------------------------------- 1. the reference checks itself against published values

#[test]
fn ok_reference_self_check() {
    // FIPS 180-4 "abc"
    assert_eq!(hex::encode(ref_sha256(b"abc")), "ba7816bf8f01cfea414140de5dae2223b00361a396177a9cb410ff61f20015ad");
    assert_eq!(
        hex::encode(ref_sha512(b"abc")),
        "ddaf35a193617abacc417349ae20413112e6fa4e89a97ea20a9eeee64b55d39a2192992a274fc1a836ba3c23a3feebbd454d4423643ce80e2a9ac94fa54ca49f"
    );
    assert_eq!(hex::encode(ref_sha256(b"")), "e3b0c44298fc1c149afbf4c8996fb92427ae41e4649b934ca495991b7852b855");
    // two-block messages
    assert_eq!(
        hex::encode(ref_sha256(b"abcdbcdecdefdefgefghfghighijhijkijkljklmklmnlmnomnopnopq")),
        "248d6a61d20638b8e5c026930c3e6039a33ce45964ff2167f6ecedd419db06c1"
    );
    // RFC 4231 test case 2
    assert_eq!(
        hex::encode(ref_hmac_sha256(b"Jefe", b"what do ya want for nothing?")),
        "5bdcc146bf60754e6a042426089575c75a003f089d2739839dec58b964ec3843"
    );
    // RFC 4231 test case 1
    assert_eq!(
        hex::encode(ref_hmac_sha256(&[0x0b; 20], b"Hi There")),
        "b0344c61d8db38535ca8afceaf0bf12b881dc200c9833da726e9376c2e32cff7"
    );
    // FIPS-197 appendix C.1
    let key = hex::decode("000102030405060708090a0b0c0d0e0f").unwrap();
    let pt = hex::decode("00112233445566778899aabbccddeeff").unwrap();
    let aes = RefAes128::new(&key);
    let ct = aes.encrypt_block(&pt);
    assert_eq!(hex::encode(ct), "69c4e0d86a7b0430d8cdb78070b4c55a");
    assert_eq!(aes.decrypt_block(&ct).to_vec(), pt);
    // NIST SP 800-38A F.2.1 CBC-AES128.Encrypt, first two blocks
    let key = hex::decode("2b7e151628aed2a6abf7158809cf4f3c").unwrap();
    let iv = hex::decode("000102030405060708090a0b0c0d0e0f").unwrap();
    let pt = hex::decode("6bc1bee22e409f96e93d7e117393172aae2d8a571e03ac9c9eb76fac45af8e51").unwrap();
    let ct = ref_cbc_encrypt_raw(&key, &iv, &pt);
    assert_eq!(hex::encode(&ct), "7649abac8119b246cee98e9b12e9197d5086cb9b507219ee95db113a917678b2");
    assert_eq!(ref_cbc_decrypt_raw(&key, &iv, &ct), pt);
    // secp256k1: 2G and 3G (well known)
    let p2 = ref_pubpoint(&BigUint::from(2u8));
    assert_eq!(hex::encode(compress(&p2)), "02c6047f9441ed7d6d3045406e95c07cd85c778e4b8cef3ca7abac09b95c709ee5");
    let p3 = ref_pubpoint(&BigUint::from(3u8));
    assert_eq!(hex::encode(compress(&p3)), "02f9308a019258c31049344f85f89d5229b531c845836f99b08601f113bce036f9");
    // (n-1)G = -G
    let c = curve();
    let pm = ref_pubpoint(&(&c.n - one()));
    assert_eq!(pm.0, c.gx);
    assert_eq!(pm.1, &c.p - &c.gy);
    // decompress inverts compress
    let mut rng = Rng(1);
    for _ in 0..20 {
        let q = ref_pubpoint(&rng.scalar());
        assert_eq!(decompress(&compress(&q)).unwrap(), q);
    }
    // ECDH symmetry of the reference
    let (a, b) = (rng.scalar(), rng.scalar());
    assert_eq!(ref_keys(&a, &ref_pubpoint(&b)).km, ref_keys(&b, &ref_pubpoint(&a)).km);
}

// ---------------------------------------------------------------- 2. published vectors (bsv.js / moneybutton "electrum ECIES" test vectors)

const ALICE: &str = "77e06abc52bf065cb5164c5deca839d0276911991a2730be4d8d0a0307de7ceb";
const BOB: &str = "2b57c7c5e408ce927eef5e2efb49cfdadde77961d342daa72284bb3d6590862d";
const VEC_BOB_TO_ALICE: &str = "QklFMQOGFyMXLo9Qv047K3BYJhmnJgt58EC8skYP/R2QU/U0yXXHOt6L3tKmrXho6yj6phfoiMkBOhUldRPnEI4fSZXbiaH4FsxKIOOvzolIFVAS0FplUmib2HnlAM1yP/iiPsU=";
const VEC_ALICE_TO_BOB: &str = "QklFMQM55QTWSSsILaluEejwOXlrBs1IVcEB4kkqbxDz4Fap53XHOt6L3tKmrXho6yj6phfoiMkBOhUldRPnEI4fSZXbvZJHgyAzxA6SoujduvJXv+A9ri3po9veilrmc8p6dwo=";

#[test]
fn ok_bsvjs_published_vectors() {
    let msg = b"this is my test message";
    let a = hexbig(ALICE);
    let b = hexbig(BOB);
    let v_ba = b64(VEC_BOB_TO_ALICE);
    let v_ab = b64(VEC_ALICE_TO_BOB);
    // the vectors are recalled from the bsv.js test-suite: they only count if the independent reference accepts them
    // (alice->bob was recalled exactly; in bob->alice one base64 character of the MAC was recalled wrongly and corrected: 31 of 32 MAC bytes agreed)
    let ref_ok = ref_bie1_decrypt(&v_ba, &a, &ref_pubpoint(&b), true) == Some(msg.to_vec()) && ref_bie1_decrypt(&v_ab, &b, &ref_pubpoint(&a), true) == Some(msg.to_vec());
    assert!(ref_ok, "recalled vectors are not valid BIE1 messages under the reference (vector memory wrong, not a library fault)");
    assert_eq!(ref_bie1_encrypt(msg, &a, &ref_pubpoint(&b), false), v_ab);
    assert_eq!(ref_bie1_encrypt(msg, &b, &ref_pubpoint(&a), false), v_ba);

    let lib_ab = ECIES::encrypt(msg, &lib_priv(&a), &lib_pub_c(&b), false).unwrap().to_bytes();
    assert_eq!(lib_ab, v_ab, "alice->bob: library {} expected {}", hx(&lib_ab), hx(&v_ab));
    let lib_ba = ECIES::encrypt(msg, &lib_priv(&b), &lib_pub_c(&a), false).unwrap().to_bytes();
    assert_eq!(lib_ba, v_ba);
    let parsed = ECIESCiphertext::from_bytes(&v_ba, true).unwrap();
    assert_eq!(ECIES::decrypt(&parsed, &lib_priv(&a), &parsed.extract_public_key().unwrap()).unwrap(), msg.to_vec());
    let parsed = ECIESCiphertext::from_bytes(&v_ab, true).unwrap();
    assert_eq!(ECIES::decrypt(&parsed, &lib_priv(&b), &lib_pub_c(&a)).unwrap(), msg.to_vec());
}

// ---------------------------------------------------------------- 3. byte identity with the reference

fn check_identity(msg: &[u8], ds: &BigUint, dr: &BigUint, exclude: bool, sender_uncompressed: bool, recipient_uncompressed: bool) {
    let sk = lib_priv(ds).compress_public_key(!sender_uncompressed);
    let rp = if recipient_uncompressed { lib_pub_u(dr) } else { lib_pub_c(dr) };
    let expected = ref_bie1_encrypt(msg, ds, &ref_pubpoint(dr), exclude);
    let ct = ECIES::encrypt(msg, &sk, &rp, exclude).unwrap();
    let got = ct.to_bytes();
    assert_eq!(
        got,
        expected,
        "encrypt(msg={}, sender={}, recipient={}, exclude={}, su={}, ru={}): library {} expected {}",
        hx(msg),
        hex::encode(be32(ds)),
        hex::encode(be32(dr)),
        exclude,
        sender_uncompressed,
        recipient_uncompressed,
        hx(&got),
        hx(&expected)
    );
    // accessors agree with the layout
    let head = if exclude { 4 } else { 37 };
    assert_eq!(ct.get_ciphertext(), expected[head..expected.len() - 32].to_vec());
    assert_eq!(ct.get_hmac(), expected[expected.len() - 32..].to_vec());
    if exclude {
        assert!(ct.extract_public_key().is_err());
    } else {
        let pk = ct.extract_public_key().unwrap();
        assert_eq!(pk.to_bytes().unwrap(), compress(&ref_pubpoint(ds)));
        assert!(pk.is_compressed());
    }
    // decrypt directly and after serialise/parse, with the sender key in both encodings
    let rk = lib_priv(dr).compress_public_key(!recipient_uncompressed);
    for spk in [lib_pub_c(ds), lib_pub_u(ds)] {
        let plain = ECIES::decrypt(&ct, &rk, &spk).unwrap();
        assert_eq!(plain, msg.to_vec(), "direct decrypt differs: msg {} got {}", hx(msg), hx(&plain));
        let parsed = ECIESCiphertext::from_bytes(&got, !exclude).unwrap();
        assert_eq!(parsed.to_bytes(), got);
        let plain = ECIES::decrypt(&parsed, &rk, &spk).unwrap();
        assert_eq!(plain, msg.to_vec(), "decrypt after parse differs: msg {} got {}", hx(msg), hx(&plain));
        let plain = rk.decrypt_message(&parsed, &spk).unwrap();
        assert_eq!(plain, msg.to_vec());
    }
}

#[test]
fn ok_byte_identical_listed_lengths_all_modes() {
    let mut rng = Rng(11);
    for len in LENGTHS {
        let msg = rng.bytes(len);
        let (ds, dr) = (rng.scalar(), rng.scalar());
        for exclude in [false, true] {
            for su in [false, true] {
                for ru in [false, true] {
                    check_identity(&msg, &ds, &dr, exclude, su, ru);
                }
            }
        }
    }
}

#[test]
fn ok_byte_identical_every_length_0_to_200() {
    let mut rng = Rng(12);
    let (ds, dr) = (rng.scalar(), rng.scalar());
    for len in 0..=200 {
        let msg = rng.bytes(len);
        check_identity(&msg, &ds, &dr, len % 2 == 0, false, false);
        check_identity(&msg, &ds, &dr, len % 2 == 1, false, false);
    }
}

#[test]
fn ok_byte_identical_random_2000() {
    let mut rng = Rng(13);
    for i in 0..2000 {
        let len = match i % 4 {
            0 => rng.below(48),
            1 => 16 * rng.below(8),
            2 => rng.below(600),
            _ => 16 * rng.below(8) + 15,
        };
        let msg = rng.bytes(len);
        let (ds, dr) = (rng.scalar(), rng.scalar());
        check_identity(&msg, &ds, &dr, rng.below(2) == 0, rng.below(2) == 0, rng.below(2) == 0);
    }
}

#[test]
fn ok_large_messages() {
    let mut rng = Rng(14);
    for len in [40000usize, 40001, 65535, 65536, 100_000] {
        let msg = rng.bytes(len);
        let (ds, dr) = (rng.scalar(), rng.scalar());
        check_identity(&msg, &ds, &dr, false, false, false);
        check_identity(&msg, &ds, &dr, true, false, false);
    }
}

#[test]
fn ok_special_message_contents() {
    // messages that look like padding, like the magic, like a key
    let mut rng = Rng(15);
    let (ds, dr) = (rng.scalar(), rng.scalar());
    let mut msgs: Vec<Vec<u8>> = vec![vec![16; 16], vec![1], vec![0], vec![0; 16], vec![0; 32], vec![16; 32], vec![15; 15], vec![0xff; 17], b"BIE1".to_vec()];
    msgs.push(compress(&ref_pubpoint(&ds)));
    for n in 1..=16u8 {
        msgs.push(vec![n; n as usize]);
        msgs.push(vec![n; 16]);
    }
    for m in msgs {
        check_identity(&m, &ds, &dr, false, false, false);
        check_identity(&m, &ds, &dr, true, false, false);
    }
}

#[test]
fn ok_edge_keys() {
    let c = curve();
    let mut rng = Rng(16);
    let edges = vec![
        one(),
        BigUint::from(2u8),
        BigUint::from(3u8),
        &c.n - one(),
        &c.n - BigUint::from(2u8),
        (&c.n - one()) >> 1,
        ((&c.n - one()) >> 1) + one(),
        one() << 255,
        hexbig("00000000000000000000000000000000000000000000000000000000000000ff"),
        hexbig("0000000000000000000000000000000100000000000000000000000000000000"),
    ];
    for a in &edges {
        for b in &edges {
            // a*b = 0 mod n cannot happen; the shared point always exists
            let l = rng.below(40);
            let msg = rng.bytes(l);
            check_identity(&msg, a, b, false, false, false);
            check_identity(&msg, a, b, true, false, true);
        }
    }
    // sender == recipient (message to self), and recipient = -sender
    for a in &edges {
        check_identity(b"to myself", a, a, false, false, false);
        check_identity(b"to my negative", a, &(&c.n - a), true, false, false);
    }
}

// ---------------------------------------------------------------- 4. key derivation

#[test]
fn ok_cipher_keys_match_reference() {
    let mut rng = Rng(17);
    for _ in 0..300 {
        let (a, b) = (rng.scalar(), rng.scalar());
        let want = ref_keys(&a, &ref_pubpoint(&b));
        for pk in [lib_pub_c(&b), lib_pub_u(&b)] {
            let got = ECIES::derive_cipher_keys(&lib_priv(&a), &pk).unwrap();
            assert_eq!((got.get_iv(), got.get_ke(), got.get_km()), (want.iv.clone(), want.ke.clone(), want.km.clone()), "derive_cipher_keys({}, {})", hex::encode(be32(&a)), hex::encode(be32(&b)));
        }
        let sym = ECIES::derive_cipher_keys(&lib_priv(&b).compress_public_key(false), &lib_pub_c(&a)).unwrap();
        assert_eq!((sym.get_iv(), sym.get_ke(), sym.get_km()), (want.iv.clone(), want.ke.clone(), want.km.clone()));
        // keys attached to the result of encrypt
        let ct = ECIES::encrypt(b"x", &lib_priv(&a), &lib_pub_c(&b), false).unwrap();
        let k = ct.get_cipher_keys().unwrap();
        assert_eq!((k.get_iv(), k.get_ke(), k.get_km()), (want.iv, want.ke, want.km));
    }
}

#[test]
fn ok_cipher_keys_shared_point_with_leading_zero_x() {
    // look for shared points whose abscissa starts with a zero byte: the hashed encoding must stay 33 bytes
    let mut rng = Rng(18);
    let c = curve();
    let mut found = 0;
    let a = rng.scalar();
    let mut k = 0u32;
    while found < 3 && k < 3000 {
        k += 1;
        let b = rng.scalar();
        let s = jac_mul(&c, &a, &ref_pubpoint(&b)).unwrap();
        if be32(&s.0)[0] == 0 {
            found += 1;
            let want = ref_keys(&a, &ref_pubpoint(&b));
            let got = ECIES::derive_cipher_keys(&lib_priv(&a), &lib_pub_c(&b)).unwrap();
            assert_eq!(got.get_km(), want.km);
            check_identity(b"leading zero", &a, &b, false, false, false);
        }
    }
    assert!(found >= 1, "no case found");
}

// ---------------------------------------------------------------- 5. tampering

// Some(plaintext) if the library returns plaintext for this buffer, whichever sensible way the receiver calls it
fn lib_open(buf: &[u8], has_key: bool, rk: &PrivateKey, sender: &PublicKey) -> Vec<(String, Vec<u8>)> {
    let mut out = vec![];
    if let Ok(parsed) = ECIESCiphertext::from_bytes(buf, has_key) {
        if let Ok(p) = ECIES::decrypt(&parsed, rk, sender) {
            out.push(("decrypt with the true sender key".to_string(), p));
        }
        if let Ok(p) = rk.decrypt_message(&parsed, sender) {
            out.push(("decrypt_message with the true sender key".to_string(), p));
        }
        if has_key {
            if let Ok(pk) = parsed.extract_public_key() {
                if let Ok(p) = ECIES::decrypt(&parsed, rk, &pk) {
                    out.push(("decrypt with the extracted key".to_string(), p));
                }
            }
        }
    }
    out
}

fn every_bit_flip(msg: &[u8], exclude: bool, seed: u64) {
    let mut rng = Rng(seed);
    let (ds, dr) = (rng.scalar(), rng.scalar());
    let good = ECIES::encrypt(msg, &lib_priv(&ds), &lib_pub_c(&dr), exclude).unwrap().to_bytes();
    assert_eq!(good, ref_bie1_encrypt(msg, &ds, &ref_pubpoint(&dr), exclude));
    let rk = lib_priv(&dr);
    let spk = lib_pub_c(&ds);
    assert!(!lib_open(&good, !exclude, &rk, &spk).is_empty());
    for bit in 0..good.len() * 8 {
        let mut bad = good.clone();
        bad[bit / 8] ^= 1 << (bit % 8);
        let res = lib_open(&bad, !exclude, &rk, &spk);
        assert!(res.is_empty(), "flip of bit {} (byte {}) of {} (exclude={}): library returned {:?} via {}, expected an error", bit, bit / 8, hx(&good), exclude, hx(&res[0].1), res[0].0);
    }
}

#[test]
fn ok_every_single_bit_flip_included_key() {
    for (i, len) in [0usize, 1, 15, 16, 17, 31, 32, 33, 100].iter().enumerate() {
        every_bit_flip(&Rng(i as u64).bytes(*len), false, 100 + i as u64);
    }
}

#[test]
fn ok_every_single_bit_flip_excluded_key() {
    for (i, len) in [0usize, 1, 15, 16, 17, 31, 32, 33, 100].iter().enumerate() {
        every_bit_flip(&Rng(i as u64).bytes(*len), true, 200 + i as u64);
    }
}

#[test]
fn ok_every_single_bit_flip_1000_bytes() {
    every_bit_flip(&Rng(5).bytes(1000), false, 300);
    every_bit_flip(&Rng(6).bytes(1000), true, 301);
}

#[test]
fn ok_bit_flips_of_a_40000_byte_message_sampled() {
    let mut rng = Rng(302);
    let (ds, dr) = (rng.scalar(), rng.scalar());
    let msg = rng.bytes(40000);
    for exclude in [false, true] {
        let good = ECIES::encrypt(&msg, &lib_priv(&ds), &lib_pub_c(&dr), exclude).unwrap().to_bytes();
        for _ in 0..400 {
            let bit = rng.below(good.len() * 8);
            let mut bad = good.clone();
            bad[bit / 8] ^= 1 << (bit % 8);
            assert!(lib_open(&bad, !exclude, &lib_priv(&dr), &lib_pub_c(&ds)).is_empty(), "bit {}", bit);
        }
    }
}

#[test]
fn ok_random_multi_byte_tampering_3000() {
    let mut rng = Rng(303);
    for _ in 0..3000 {
        let (ds, dr) = (rng.scalar(), rng.scalar());
        let exclude = rng.below(2) == 0;
        let l = rng.below(70);
        let msg = rng.bytes(l);
        let good = ref_bie1_encrypt(&msg, &ds, &ref_pubpoint(&dr), exclude);
        let mut bad = good.clone();
        match rng.below(6) {
            0 => {
                let i = rng.below(bad.len());
                bad[i] = bad[i].wrapping_add(1 + rng.below(255) as u8);
            }
            1 => {
                // swap two ciphertext blocks or duplicate one
                let head = if exclude { 4 } else { 37 };
                let nblocks = (bad.len() - head - 32) / 16;
                let (i, j) = (rng.below(nblocks), rng.below(nblocks));
                for k in 0..16 {
                    bad[head + 16 * i + k] = good[head + 16 * j + k].wrapping_add((i == j) as u8);
                }
            }
            2 => {
                let n = 1 + rng.below(bad.len() - 1);
                bad.truncate(n);
            }
            3 => {
                let n = 1 + rng.below(40);
                bad.extend(rng.bytes(n));
            }
            4 => {
                // drop a whole block in front of the MAC
                let at = bad.len() - 32 - 16;
                bad.drain(at..at + 16);
            }
            _ => {
                let n = 1 + rng.below(bad.len() - 1);
                bad.drain(0..n);
            }
        }
        if bad == good {
            continue;
        }
        let res = lib_open(&bad, !exclude, &lib_priv(&dr), &lib_pub_c(&ds));
        assert!(res.is_empty(), "tampered {} from {}: library returned {:?}", hx(&bad), hx(&good), hx(&res[0].1));
        // the reference refuses it too
        assert!(ref_bie1_decrypt(&bad, &dr, &ref_pubpoint(&ds), !exclude).is_none());
    }
}

#[test]
fn ok_all_prefixes_and_short_buffers_are_errors_not_panics() {
    let mut rng = Rng(304);
    let (ds, dr) = (rng.scalar(), rng.scalar());
    for exclude in [false, true] {
        let good = ref_bie1_encrypt(&rng.bytes(40), &ds, &ref_pubpoint(&dr), exclude);
        for n in 0..good.len() {
            for has_key in [false, true] {
                let res = lib_open(&good[..n], has_key, &lib_priv(&dr), &lib_pub_c(&ds));
                assert!(res.is_empty(), "prefix of {} bytes (has_key={}) of {} gave {:?}", n, has_key, hx(&good), hx(&res[0].1));
            }
        }
        // every suffix too
        for n in 1..good.len() {
            for has_key in [false, true] {
                assert!(lib_open(&good[n..], has_key, &lib_priv(&dr), &lib_pub_c(&ds)).is_empty());
            }
        }
    }
    // arbitrary buffers of the sizes named in the brief, with and without a magic
    for n in [0usize, 1, 3, 4, 5, 35, 36, 37, 38, 52, 68, 69, 70, 84, 85, 86, 101] {
        for with_magic in [false, true] {
            for fill in [0u8, 2, 3, 0xff] {
                let mut buf = vec![fill; n];
                if with_magic && n >= 4 {
                    buf[..4].copy_from_slice(b"BIE1");
                }
                for has_key in [false, true] {
                    assert!(lib_open(&buf, has_key, &lib_priv(&dr), &lib_pub_c(&ds)).is_empty());
                }
                let r = rng.bytes(n);
                let _ = ECIESCiphertext::from_bytes(&r, true);
                let _ = ECIESCiphertext::from_bytes(&r, false);
            }
        }
    }
}

#[test]
fn ok_magic_variants_rejected() {
    let mut rng = Rng(305);
    let (ds, dr) = (rng.scalar(), rng.scalar());
    let k = ref_keys(&ds, &ref_pubpoint(&dr));
    for exclude in [false, true] {
        for magic in [&b"BIE2"[..], b"bie1", b"BIE0", b"1EIB", b"\0\0\0\0", b"BIE\x31\x00"] {
            // a message that is consistent (valid MAC) under the other magic
            let ct = ref_cbc_encrypt_pkcs7(&k.ke, &k.iv, b"hello magic");
            let mut buf = magic.to_vec();
            if !exclude {
                buf.extend(compress(&ref_pubpoint(&ds)));
            }
            buf.extend(&ct);
            let mac = ref_hmac_sha256(&k.km, &buf);
            buf.extend(mac);
            let res = lib_open(&buf, !exclude, &lib_priv(&dr), &lib_pub_c(&ds));
            assert!(res.is_empty(), "magic {:?}: plaintext {:?}", magic, hx(&res[0].1));
        }
    }
}

// ---------------------------------------------------------------- 6. wrong keys

#[test]
fn ok_wrong_keys_rejected() {
    let mut rng = Rng(400);
    let c = curve();
    for i in 0..400 {
        let (ds, dr, dx) = (rng.scalar(), rng.scalar(), rng.scalar());
        let exclude = i % 2 == 0;
        let l = rng.below(50);
        let msg = rng.bytes(l);
        let buf = ref_bie1_encrypt(&msg, &ds, &ref_pubpoint(&dr), exclude);
        let fresh = ECIES::encrypt(&msg, &lib_priv(&ds), &lib_pub_c(&dr), exclude).unwrap();
        let parsed = ECIESCiphertext::from_bytes(&buf, !exclude).unwrap();
        for ct in [&fresh, &parsed] {
            // the right keys work
            assert_eq!(ECIES::decrypt(ct, &lib_priv(&dr), &lib_pub_c(&ds)).unwrap(), msg);
            // wrong recipient private keys: random, negated, off by one
            for wrong in [dx.clone(), &c.n - &dr, (&dr % (&c.n - one())) + one()] {
                if wrong == dr {
                    continue;
                }
                let r = ECIES::decrypt(ct, &lib_priv(&wrong), &lib_pub_c(&ds));
                assert!(r.is_err(), "wrong recipient key {} returned {:?}", hex::encode(be32(&wrong)), r.map(|p| hx(&p)));
                let r = lib_priv(&wrong).decrypt_message(ct, &lib_pub_c(&ds));
                assert!(r.is_err());
            }
            // wrong sender public keys (both modes: the supplied key is the one used), random, negated, recipient's own
            for wrong in [dx.clone(), &c.n - &ds, dr.clone()] {
                if wrong == ds {
                    continue;
                }
                for pk in [lib_pub_c(&wrong), lib_pub_u(&wrong)] {
                    let r = ECIES::decrypt(ct, &lib_priv(&dr), &pk);
                    assert!(r.is_err(), "wrong sender key {} (exclude={}) returned {:?}", hex::encode(be32(&wrong)), exclude, r.map(|p| hx(&p)));
                }
            }
            // both wrong
            assert!(ECIES::decrypt(ct, &lib_priv(&dx), &lib_pub_c(&dx)).is_err());
        }
    }
}

#[test]
fn ok_supplied_sender_key_differs_from_embedded_key_fails() {
    // genuine message alice -> bob with alice's key embedded; bob supplies somebody else's key
    let mut rng = Rng(401);
    for _ in 0..200 {
        let (da, db, dm) = (rng.scalar(), rng.scalar(), rng.scalar());
        let buf = ref_bie1_encrypt(b"from alice", &da, &ref_pubpoint(&db), false);
        let parsed = ECIESCiphertext::from_bytes(&buf, true).unwrap();
        assert_eq!(parsed.extract_public_key().unwrap().to_bytes().unwrap(), compress(&ref_pubpoint(&da)));
        assert!(ECIES::decrypt(&parsed, &lib_priv(&db), &lib_pub_c(&dm)).is_err());
        // replace the embedded key by mallory's, leave the rest: MAC covers the key
        let mut swapped = buf.clone();
        swapped[4..37].copy_from_slice(&compress(&ref_pubpoint(&dm)));
        let p2 = ECIESCiphertext::from_bytes(&swapped, true).unwrap();
        assert!(ECIES::decrypt(&p2, &lib_priv(&db), &lib_pub_c(&da)).is_err());
        assert!(ECIES::decrypt(&p2, &lib_priv(&db), &lib_pub_c(&dm)).is_err());
        // only the parity byte of the embedded key changed
        let mut parity = buf.clone();
        parity[4] ^= 1;
        let p3 = ECIESCiphertext::from_bytes(&parity, true).unwrap();
        assert!(ECIES::decrypt(&p3, &lib_priv(&db), &lib_pub_c(&da)).is_err());
        assert!(ECIES::decrypt(&p3, &lib_priv(&db), &p3.extract_public_key().unwrap()).is_err());
    }
}

#[test]
fn ok_borderline_embedded_key_is_not_bound_to_the_ecdh_key() {
    // BORDERLINE (documented, not counted as a violation): a sender (mallory) can build a message whose MAC is made with
    // the mallory/bob secret but which embeds alice's key. Electrum always derives the secret from the embedded key and
    // refuses it; the library takes the key from the caller and, given mallory's key, accepts it although
    // extract_public_key() names alice. Given the embedded (alice) key the library refuses it, like Electrum.
    let mut rng = Rng(402);
    let (da, db, dm) = (rng.scalar(), rng.scalar(), rng.scalar());
    let k = ref_keys(&dm, &ref_pubpoint(&db));
    let mut buf = b"BIE1".to_vec();
    buf.extend(compress(&ref_pubpoint(&da)));
    buf.extend(ref_cbc_encrypt_pkcs7(&k.ke, &k.iv, b"i am alice, honest"));
    let mac = ref_hmac_sha256(&k.km, &buf);
    buf.extend(mac);
    let parsed = ECIESCiphertext::from_bytes(&buf, true).unwrap();
    assert_eq!(parsed.extract_public_key().unwrap().to_bytes().unwrap(), compress(&ref_pubpoint(&da)));
    // Electrum rule (secret from the embedded key): refused
    assert!(ref_bie1_decrypt(&buf, &db, &ref_pubpoint(&da), true).is_none());
    assert!(ECIES::decrypt(&parsed, &lib_priv(&db), &parsed.extract_public_key().unwrap()).is_err());
    // with mallory's key supplied the library opens it
    let opened = ECIES::decrypt(&parsed, &lib_priv(&db), &lib_pub_c(&dm));
    assert_eq!(opened.unwrap(), b"i am alice, honest".to_vec());
}

// ---------------------------------------------------------------- 7. inclusion mode declared wrongly by the receiver

#[test]
fn ok_mode_confusion_never_yields_plaintext() {
    let mut rng = Rng(403);
    let (ds, dr) = (rng.scalar(), rng.scalar());
    let k = ref_keys(&ds, &ref_pubpoint(&dr));
    // included message read as excluded: MAC still verifies (same bytes), the body is 33 + 16k bytes long
    for len in [0usize, 1, 15, 16, 17, 100] {
        let msg = rng.bytes(len);
        let buf = ref_bie1_encrypt(&msg, &ds, &ref_pubpoint(&dr), false);
        let res = lib_open(&buf, false, &lib_priv(&dr), &lib_pub_c(&ds));
        assert!(res.is_empty(), "included message read as excluded gave {:?}", hx(&res[0].1));
    }
    // excluded message whose body happens to begin with a valid compressed point, read as included
    let mut found = 0;
    let mut tries = 0;
    while found < 5 && tries < 200000 {
        tries += 1;
        let msg = rng.bytes(48);
        let ct = ref_cbc_encrypt_pkcs7(&k.ke, &k.iv, &msg);
        if (ct[0] == 2 || ct[0] == 3) && decompress(&ct[0..33]).is_some() {
            found += 1;
            let mut buf = b"BIE1".to_vec();
            buf.extend(&ct);
            let mac = ref_hmac_sha256(&k.km, &buf);
            buf.extend(mac);
            assert_eq!(ECIES::encrypt(&msg, &lib_priv(&ds), &lib_pub_c(&dr), true).unwrap().to_bytes(), buf);
            let parsed = ECIESCiphertext::from_bytes(&buf, true);
            assert!(parsed.is_ok(), "a body that starts with a valid point parses in the included mode");
            let res = lib_open(&buf, true, &lib_priv(&dr), &lib_pub_c(&ds));
            assert!(res.is_empty(), "excluded message read as included gave {:?}", hx(&res[0].1));
        }
    }
    assert!(found >= 1, "no body starting with a point found");
}

// ---------------------------------------------------------------- 8. messages with a valid MAC but a malformed body (made by the key holder)

fn sealed(k: &RefKeys, sender: Option<&BigUint>, body: &[u8]) -> Vec<u8> {
    let mut buf = b"BIE1".to_vec();
    if let Some(d) = sender {
        buf.extend(compress(&ref_pubpoint(d)));
    }
    buf.extend(body);
    let mac = ref_hmac_sha256(&k.km, &buf);
    buf.extend(mac);
    buf
}

#[test]
fn ok_valid_mac_malformed_body_is_an_error_not_a_panic() {
    let mut rng = Rng(404);
    let (ds, dr) = (rng.scalar(), rng.scalar());
    let k = ref_keys(&ds, &ref_pubpoint(&dr));
    let mut bodies: Vec<Vec<u8>> = vec![];
    // empty body, bodies that are not whole blocks
    for n in [0usize, 1, 15, 17, 31, 33, 47] {
        bodies.push(rng.bytes(n));
    }
    // whole blocks with wrong padding: last byte 0, 17, 32, 255, and inconsistent fill
    for last in [0u8, 17, 32, 0x20, 255] {
        let mut p = vec![last; 32];
        bodies.push(ref_cbc_encrypt_raw(&k.ke, &k.iv, &p));
        p[0] = 1;
        bodies.push(ref_cbc_encrypt_raw(&k.ke, &k.iv, &p));
    }
    for n in 2..=16u8 {
        let mut p = vec![n; 16];
        p[16 - n as usize] ^= 1; // first padding byte wrong
        bodies.push(ref_cbc_encrypt_raw(&k.ke, &k.iv, &p));
    }
    for body in bodies {
        for sender in [None, Some(&ds)] {
            let buf = sealed(&k, sender, &body);
            assert!(ref_bie1_decrypt(&buf, &dr, &ref_pubpoint(&ds), sender.is_some()).is_none());
            let res = lib_open(&buf, sender.is_some(), &lib_priv(&dr), &lib_pub_c(&ds));
            assert!(res.is_empty(), "body {} with a valid MAC gave plaintext {:?}", hx(&body), hx(&res[0].1));
        }
    }
}

#[test]
fn ok_library_opens_reference_built_messages() {
    // interoperability in the other direction: messages made by the reference only
    let mut rng = Rng(405);
    for i in 0..600 {
        let (ds, dr) = (rng.scalar(), rng.scalar());
        let l = if i % 3 == 0 { 16 * rng.below(5) } else { rng.below(90) };
        let msg = rng.bytes(l);
        let exclude = i % 2 == 0;
        let buf = ref_bie1_encrypt(&msg, &ds, &ref_pubpoint(&dr), exclude);
        let parsed = ECIESCiphertext::from_bytes(&buf, !exclude).unwrap();
        assert_eq!(parsed.to_bytes(), buf);
        assert!(parsed.get_cipher_keys().is_none() || parsed.get_cipher_keys().unwrap().get_km() == ref_keys(&ds, &ref_pubpoint(&dr)).km);
        let got = ECIES::decrypt(&parsed, &lib_priv(&dr).compress_public_key(i % 5 == 0), &if i % 7 == 0 { lib_pub_u(&ds) } else { lib_pub_c(&ds) }).unwrap();
        assert_eq!(got, msg);
    }
}

// ---------------------------------------------------------------- 9. the other entry points

#[test]
fn ok_ephemeral_entry_point() {
    let mut rng = Rng(406);
    let mut seen = std::collections::HashSet::new();
    for i in 0..200 {
        let dr = rng.scalar();
        let l = if i < 10 { LENGTHS[i] } else { rng.below(100) };
        let msg = rng.bytes(l);
        let rp = if i % 2 == 0 { lib_pub_c(&dr) } else { lib_pub_u(&dr) };
        let ct = ECIES::encrypt_with_ephemeral_private_key(&msg, &rp).unwrap();
        let buf = ct.to_bytes();
        assert_eq!(&buf[0..4], b"BIE1");
        let r = decompress(&buf[4..37]).expect("embedded key is a compressed curve point");
        assert!(seen.insert(buf[4..37].to_vec()), "ephemeral key repeated");
        assert_eq!(buf.len(), 4 + 33 + 16 * (l / 16 + 1) + 32);
        // the reference opens it with the recipient key and the embedded key: MAC, CBC and padding are all standard
        assert_eq!(ref_bie1_decrypt(&buf, &dr, &r, true), Some(msg.clone()), "reference cannot open {}", hx(&buf));
        let pk = ct.extract_public_key().unwrap();
        assert_eq!(pk.to_bytes().unwrap(), buf[4..37].to_vec());
        assert_eq!(ECIES::decrypt(&ct, &lib_priv(&dr), &pk).unwrap(), msg);
        let parsed = ECIESCiphertext::from_bytes(&buf, true).unwrap();
        assert_eq!(ECIES::decrypt(&parsed, &lib_priv(&dr), &parsed.extract_public_key().unwrap()).unwrap(), msg);
        // one flipped bit somewhere
        let bit = rng.below(buf.len() * 8);
        let mut bad = buf.clone();
        bad[bit / 8] ^= 1 << (bit % 8);
        assert!(lib_open(&bad, true, &lib_priv(&dr), &pk).is_empty());
    }
}

#[test]
fn ok_convenience_entry_points() {
    let mut rng = Rng(407);
    for i in 0..300 {
        let (ds, dr) = (rng.scalar(), rng.scalar());
        let l = rng.below(80);
        let msg = rng.bytes(l);
        let compressed = i % 2 == 0;
        // PrivateKey::encrypt_message: to one's own key, key included
        let sk = lib_priv(&ds).compress_public_key(compressed);
        let ct = sk.encrypt_message(&msg).unwrap();
        let want = ref_bie1_encrypt(&msg, &ds, &ref_pubpoint(&ds), false);
        assert_eq!(ct.to_bytes(), want, "PrivateKey::encrypt_message key {} compressed {}", hex::encode(be32(&ds)), compressed);
        assert_eq!(sk.decrypt_message(&ct, &sk.to_public_key().unwrap()).unwrap(), msg);
        assert_eq!(sk.decrypt_message(&ECIESCiphertext::from_bytes(&want, true).unwrap(), &ct.extract_public_key().unwrap()).unwrap(), msg);
        // PublicKey::encrypt_message: to that key from a given sender, key included
        let rp = if compressed { lib_pub_c(&dr) } else { lib_pub_u(&dr) };
        let ct = rp.encrypt_message(&msg, &sk).unwrap();
        let want = ref_bie1_encrypt(&msg, &ds, &ref_pubpoint(&dr), false);
        assert_eq!(ct.to_bytes(), want);
        assert_eq!(lib_priv(&dr).decrypt_message(&ct, &sk.to_public_key().unwrap()).unwrap(), msg);
        assert!(lib_priv(&ds).decrypt_message(&ct, &sk.to_public_key().unwrap()).is_err() || ds == dr);
        // PublicKey::from_private_key as the recipient key object
        let rp2 = PublicKey::from_private_key(&lib_priv(&dr).compress_public_key(compressed));
        assert_eq!(ECIES::encrypt(&msg, &sk, &rp2, true).unwrap().to_bytes(), ref_bie1_encrypt(&msg, &ds, &ref_pubpoint(&dr), true));
    }
}

#[test]
fn ok_keys_from_wif_and_hex() {
    // uncompressed WIF (5...) and compressed WIF (K/L...) of the same secret: same ciphertext, embedded key compressed
    // secret 1: well known WIFs
    let unc = PrivateKey::from_wif("5HpHagT65TZzG1PH3CSu63k8DbpvD8s5ip4nEB3kEsreAnchuDf").unwrap();
    let cmp = PrivateKey::from_wif("KwDiBf89QgGbjEhKnhXJuH7LrciVrZi3qYjgd9M7rFU73sVHnoWn").unwrap();
    assert_eq!(unc.to_bytes(), be32(&one()));
    assert_eq!(cmp.to_bytes(), be32(&one()));
    let dr = Rng(408).scalar();
    let want = ref_bie1_encrypt(b"wif", &one(), &ref_pubpoint(&dr), false);
    assert_eq!(ECIES::encrypt(b"wif", &unc, &lib_pub_u(&dr), false).unwrap().to_bytes(), want);
    assert_eq!(ECIES::encrypt(b"wif", &cmp, &lib_pub_c(&dr), false).unwrap().to_bytes(), want);
    assert_eq!(unc.to_public_key().unwrap().to_bytes().unwrap().len(), 65);
    let ct = ECIESCiphertext::from_bytes(&want, true).unwrap();
    assert_eq!(ECIES::decrypt(&ct, &lib_priv(&dr), &unc.to_public_key().unwrap()).unwrap(), b"wif".to_vec());
    // message to the uncompressed-WIF key
    let want = ref_bie1_encrypt(b"to one", &dr, &ref_pubpoint(&one()), true);
    assert_eq!(ECIES::encrypt(b"to one", &lib_priv(&dr), &unc.to_public_key().unwrap(), true).unwrap().to_bytes(), want);
    assert_eq!(unc.decrypt_message(&ECIESCiphertext::from_bytes(&want, false).unwrap(), &lib_pub_c(&dr)).unwrap(), b"to one".to_vec());
    // PublicKey::from_hex
    let pk = PublicKey::from_hex(&hex::encode(uncompress_bytes(&ref_pubpoint(&dr)))).unwrap();
    assert_eq!(ECIES::encrypt(b"wif", &cmp, &pk, false).unwrap().to_bytes(), ref_bie1_encrypt(b"wif", &one(), &ref_pubpoint(&dr), false));
}

// ---------------------------------------------------------------- 10. embedded key encodings

#[test]
fn ok_embedded_key_encodings_that_are_not_compressed_points() {
    let mut rng = Rng(409);
    let (ds, dr) = (rng.scalar(), rng.scalar());
    let c = curve();
    let k = ref_keys(&ds, &ref_pubpoint(&dr));
    let good_key = compress(&ref_pubpoint(&ds));
    let body = ref_cbc_encrypt_pkcs7(&k.ke, &k.iv, b"key encodings");
    let mut keys: Vec<Vec<u8>> = vec![];
    for tag in [0u8, 1, 4, 5, 6, 7, 0x82, 0xff] {
        let mut kb = good_key.clone();
        kb[0] = tag;
        keys.push(kb);
    }
    // x = 0 (not on the curve: 7 is not a square), x = p, x = p + 1 (1 is on the curve reduced), x >= p, all ff
    let mut k0 = vec![2u8];
    k0.extend(vec![0u8; 32]);
    keys.push(k0);
    for x in [c.p.clone(), &c.p + one(), &c.p + BigUint::from(2u8)] {
        for tag in [2u8, 3] {
            let mut kb = vec![tag];
            kb.extend(be32(&x));
            keys.push(kb);
        }
    }
    keys.push(vec![0xff; 33]);
    keys.push(vec![0; 33]);
    // an x with no point
    let mut x = BigUint::from(5u8);
    loop {
        let mut kb = vec![2u8];
        kb.extend(be32(&x));
        if decompress(&kb).is_none() {
            keys.push(kb);
            break;
        }
        x += one();
    }
    for kb in keys {
        let mut buf = b"BIE1".to_vec();
        buf.extend(&kb);
        buf.extend(&body);
        let mac = ref_hmac_sha256(&k.km, &buf);
        buf.extend(mac);
        let expected_point = decompress(&kb);
        assert!(expected_point.is_none(), "test construction");
        let parsed = ECIESCiphertext::from_bytes(&buf, true);
        if let Ok(p) = &parsed {
            // whatever parsed must not panic later and must not be opened with its "key"
            let ex = p.extract_public_key();
            if let Ok(pk) = ex {
                let _ = pk.to_compressed();
                let _ = pk.to_decompressed();
            }
        }
        assert!(parsed.is_err(), "embedded key {} is not a compressed point but from_bytes accepted it", hx(&kb));
        assert!(PublicKey::from_bytes(&kb).is_err(), "PublicKey::from_bytes accepted {}", hx(&kb));
    }
}

// ---------------------------------------------------------------- 11. more shapes

#[test]
fn ok_every_bit_flip_every_length_0_to_48_both_modes() {
    for len in 0..=48usize {
        every_bit_flip(&Rng(len as u64 + 77).bytes(len), false, 500 + len as u64);
        every_bit_flip(&Rng(len as u64 + 78).bytes(len), true, 600 + len as u64);
    }
}

#[test]
fn ok_every_byte_value_substitution_short_message() {
    let mut rng = Rng(700);
    let (ds, dr) = (rng.scalar(), rng.scalar());
    for exclude in [false, true] {
        let good = ref_bie1_encrypt(b"sixteen byte msg", &ds, &ref_pubpoint(&dr), exclude);
        let rk = lib_priv(&dr);
        let spk = lib_pub_c(&ds);
        for pos in 0..good.len() {
            for v in 0..=255u8 {
                if v == good[pos] {
                    continue;
                }
                let mut bad = good.clone();
                bad[pos] = v;
                let res = lib_open(&bad, !exclude, &rk, &spk);
                assert!(res.is_empty(), "byte {} of {} set to {:02x}: plaintext {:?}", pos, hx(&good), v, hx(&res[0].1));
            }
        }
    }
}

#[test]
fn ok_parse_serialise_accessors_on_arbitrary_buffers() {
    let mut rng = Rng(701);
    for i in 0..3000 {
        let has_key = i % 2 == 0;
        let body_len = rng.below(80);
        let mut buf = b"BIE1".to_vec();
        let key = compress(&ref_pubpoint(&BigUint::from(1u32 + rng.below(50) as u32)));
        if has_key {
            buf.extend(&key);
        }
        let body = rng.bytes(body_len);
        let mac = rng.bytes(32);
        buf.extend(&body);
        buf.extend(&mac);
        let p = ECIESCiphertext::from_bytes(&buf, has_key).unwrap();
        assert_eq!(p.to_bytes(), buf);
        assert_eq!(p.get_ciphertext(), body);
        assert_eq!(p.get_hmac(), mac);
        assert!(p.get_cipher_keys().is_none());
        if has_key {
            assert_eq!(p.extract_public_key().unwrap().to_bytes().unwrap(), key);
        } else {
            assert!(p.extract_public_key().is_err());
        }
        // a random MAC never opens
        assert!(ECIES::decrypt(&p, &lib_priv(&one()), &lib_pub_c(&BigUint::from(2u8))).is_err());
    }
}

#[test]
fn ok_determinism_and_statelessness() {
    let mut rng = Rng(702);
    let (ds, dr, dx) = (rng.scalar(), rng.scalar(), rng.scalar());
    let msg = rng.bytes(45);
    let a = ECIES::encrypt(&msg, &lib_priv(&ds), &lib_pub_c(&dr), false).unwrap();
    let b = ECIES::encrypt(&msg, &lib_priv(&ds), &lib_pub_c(&dr), false).unwrap();
    assert_eq!(a.to_bytes(), b.to_bytes());
    // a failed attempt does not disturb later ones, the attached keys are never used instead of the given ones
    assert!(ECIES::decrypt(&a, &lib_priv(&dx), &lib_pub_c(&ds)).is_err());
    assert_eq!(ECIES::decrypt(&a, &lib_priv(&dr), &lib_pub_c(&ds)).unwrap(), msg);
    assert!(ECIES::decrypt(&a, &lib_priv(&dr), &lib_pub_c(&dx)).is_err());
    assert_eq!(ECIES::decrypt(&a, &lib_priv(&dr), &lib_pub_c(&ds)).unwrap(), msg);
    // ECDH symmetry: the sender can open its own message with the recipient's public key (same shared secret)
    assert_eq!(ECIES::decrypt(&a, &lib_priv(&ds), &lib_pub_c(&dr)).unwrap(), msg);
    // ephemeral: two encryptions differ
    let e1 = ECIES::encrypt_with_ephemeral_private_key(&msg, &lib_pub_c(&dr)).unwrap().to_bytes();
    let e2 = ECIES::encrypt_with_ephemeral_private_key(&msg, &lib_pub_c(&dr)).unwrap().to_bytes();
    assert_ne!(e1, e2);
}

#[test]
fn ok_keys_from_hd_derivation_and_json() {
    use bsv::ExtendedPrivateKey;
    let x = ExtendedPrivateKey::from_seed(&[7u8; 32]).unwrap().derive_from_path("m/0'/1/2").unwrap();
    let y = ExtendedPrivateKey::from_seed(&[9u8; 32]).unwrap().derive(5).unwrap();
    let ds = BigUint::from_bytes_be(&x.get_private_key().to_bytes());
    let dr = BigUint::from_bytes_be(&y.get_private_key().to_bytes());
    assert_eq!(y.get_public_key().to_compressed().unwrap().to_bytes().unwrap(), compress(&ref_pubpoint(&dr)));
    for exclude in [false, true] {
        let ct = ECIES::encrypt(b"hd keys", &x.get_private_key(), &y.get_public_key(), exclude).unwrap();
        assert_eq!(ct.to_bytes(), ref_bie1_encrypt(b"hd keys", &ds, &ref_pubpoint(&dr), exclude));
        assert_eq!(ECIES::decrypt(&ct, &y.get_private_key(), &x.get_public_key()).unwrap(), b"hd keys".to_vec());
    }
    // a public key that went through JSON
    let json = format!("\"{}\"", hex::encode(uncompress_bytes(&ref_pubpoint(&dr))));
    let pk: PublicKey = serde_json::from_str(&json).unwrap();
    assert_eq!(ECIES::encrypt(b"json", &lib_priv(&ds), &pk, true).unwrap().to_bytes(), ref_bie1_encrypt(b"json", &ds, &ref_pubpoint(&dr), true));
}

#[test]
fn ok_truncated_mac_and_trailing_bytes_exhaustive() {
    let mut rng = Rng(703);
    let (ds, dr) = (rng.scalar(), rng.scalar());
    for exclude in [false, true] {
        for len in [0usize, 5, 16, 33] {
            let good = ref_bie1_encrypt(&rng.bytes(len), &ds, &ref_pubpoint(&dr), exclude);
            // MAC shortened by 1..=32 bytes; then by whole blocks as well
            for cut in 1..=48.min(good.len()) {
                let bad = &good[..good.len() - cut];
                assert!(lib_open(bad, !exclude, &lib_priv(&dr), &lib_pub_c(&ds)).is_empty(), "cut {}", cut);
            }
            // 1..=64 trailing bytes: zero, copies of the MAC, random
            for extra in 1..=64usize {
                for kind in 0..3 {
                    let mut bad = good.clone();
                    match kind {
                        0 => bad.extend(vec![0u8; extra]),
                        1 => {
                            let tail = good[good.len() - 32..].to_vec();
                            bad.extend(tail.iter().cycle().take(extra));
                        }
                        _ => bad.extend(rng.bytes(extra)),
                    }
                    assert!(lib_open(&bad, !exclude, &lib_priv(&dr), &lib_pub_c(&ds)).is_empty(), "extra {}", extra);
                }
            }
            // bytes in front
            for extra in 1..=8usize {
                let mut bad = vec![b'B'; extra];
                bad.extend(&good);
                assert!(lib_open(&bad, !exclude, &lib_priv(&dr), &lib_pub_c(&ds)).is_empty());
            }
        }
    }
}

#[test]
fn ok_embedded_key_replaced_by_other_encodings_of_the_same_point() {
    // uncompressed key embedded (65 bytes) instead of the compressed one, MAC made accordingly by the sender:
    // not the standard layout; the library reads 33 bytes of it as the key and must refuse
    let mut rng = Rng(704);
    let (ds, dr) = (rng.scalar(), rng.scalar());
    let k = ref_keys(&ds, &ref_pubpoint(&dr));
    let mut buf = b"BIE1".to_vec();
    buf.extend(uncompress_bytes(&ref_pubpoint(&ds)));
    buf.extend(ref_cbc_encrypt_pkcs7(&k.ke, &k.iv, b"uncompressed embedded"));
    let mac = ref_hmac_sha256(&k.km, &buf);
    buf.extend(mac);
    for has_key in [false, true] {
        assert!(lib_open(&buf, has_key, &lib_priv(&dr), &lib_pub_c(&ds)).is_empty());
    }
}

#[test]
fn ok_random_wrong_key_and_flip_mix_5000() {
    // cheap cases in bulk: fixed recipient, many senders, one random bit flipped or one wrong key
    let mut rng = Rng(705);
    let dr = rng.scalar();
    let rk = lib_priv(&dr);
    let qr = ref_pubpoint(&dr);
    for i in 0..5000 {
        let ds = BigUint::from(1000u32 + i as u32);
        let exclude = rng.below(2) == 0;
        let l = rng.below(40);
        let msg = rng.bytes(l);
        let good = ref_bie1_encrypt(&msg, &ds, &qr, exclude);
        let spk = lib_pub_c(&ds);
        let parsed = ECIESCiphertext::from_bytes(&good, !exclude).unwrap();
        assert_eq!(ECIES::decrypt(&parsed, &rk, &spk).unwrap(), msg);
        if i % 2 == 0 {
            let bit = rng.below(good.len() * 8);
            let mut bad = good.clone();
            bad[bit / 8] ^= 1 << (bit % 8);
            assert!(lib_open(&bad, !exclude, &rk, &spk).is_empty(), "bit {} of {}", bit, hx(&good));
        } else {
            let other = lib_pub_c(&BigUint::from(1001u32 + i as u32));
            assert!(ECIES::decrypt(&parsed, &rk, &other).is_err());
        }
    }
}
