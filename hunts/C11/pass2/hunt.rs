// Second-pass hunt for C11 (ECIES / BIE1). Public API only.
// Every expected value comes from the reference implementation written in this file
// (SHA-256 / SHA-512 with constants derived from prime roots, HMAC, AES-128 built from the GF(2^8)
// definition, secp256k1 in Jacobian coordinates over num-bigint), never from the library.
#![allow(clippy::needless_range_loop)]
use bsv::*;
use num_bigint::BigUint;
use std::panic::{catch_unwind, AssertUnwindSafe};

// ------------------------------------------------------------------------------------------------
// Reference primitives
// ------------------------------------------------------------------------------------------------

fn primes(count: usize) -> Vec<u64> {
    let mut out = vec![];
    let mut c = 2u64;
    while out.len() < count {
        if (2..c).take_while(|d| d * d <= c).all(|d| c % d != 0) {
            out.push(c);
        }
        c += 1;
    }
    out
}

fn low_u64(v: &BigUint) -> u64 {
    let digits = v.to_u64_digits();
    if digits.is_empty() {
        0
    } else {
        digits[0]
    }
}

fn sha256_consts() -> ([u32; 8], [u32; 64]) {
    let ps = primes(64);
    let mut h = [0u32; 8];
    let mut k = [0u32; 64];
    for i in 0..8 {
        h[i] = (low_u64(&(BigUint::from(ps[i]) << 64usize).sqrt()) & 0xffff_ffff) as u32;
    }
    for i in 0..64 {
        k[i] = (low_u64(&(BigUint::from(ps[i]) << 96usize).cbrt()) & 0xffff_ffff) as u32;
    }
    (h, k)
}

fn sha512_consts() -> ([u64; 8], [u64; 80]) {
    let ps = primes(80);
    let mut h = [0u64; 8];
    let mut k = [0u64; 80];
    for i in 0..8 {
        h[i] = low_u64(&(BigUint::from(ps[i]) << 128usize).sqrt());
    }
    for i in 0..80 {
        k[i] = low_u64(&(BigUint::from(ps[i]) << 192usize).cbrt());
    }
    (h, k)
}

fn ref_sha256(data: &[u8]) -> Vec<u8> {
    let (mut h, k) = sha256_consts();
    let mut msg = data.to_vec();
    msg.push(0x80);
    while msg.len() % 64 != 56 {
        msg.push(0);
    }
    msg.extend_from_slice(&((data.len() as u64) * 8).to_be_bytes());
    for chunk in msg.chunks(64) {
        let mut w = [0u32; 64];
        for i in 0..16 {
            w[i] = u32::from_be_bytes([chunk[4 * i], chunk[4 * i + 1], chunk[4 * i + 2], chunk[4 * i + 3]]);
        }
        for i in 16..64 {
            let s0 = w[i - 15].rotate_right(7) ^ w[i - 15].rotate_right(18) ^ (w[i - 15] >> 3);
            let s1 = w[i - 2].rotate_right(17) ^ w[i - 2].rotate_right(19) ^ (w[i - 2] >> 10);
            w[i] = w[i - 16].wrapping_add(s0).wrapping_add(w[i - 7]).wrapping_add(s1);
        }
        let mut v = h;
        for i in 0..64 {
            let s1 = v[4].rotate_right(6) ^ v[4].rotate_right(11) ^ v[4].rotate_right(25);
            let ch = (v[4] & v[5]) ^ (!v[4] & v[6]);
            let t1 = v[7].wrapping_add(s1).wrapping_add(ch).wrapping_add(k[i]).wrapping_add(w[i]);
            let s0 = v[0].rotate_right(2) ^ v[0].rotate_right(13) ^ v[0].rotate_right(22);
            let maj = (v[0] & v[1]) ^ (v[0] & v[2]) ^ (v[1] & v[2]);
            let t2 = s0.wrapping_add(maj);
            v[7] = v[6];
            v[6] = v[5];
            v[5] = v[4];
            v[4] = v[3].wrapping_add(t1);
            v[3] = v[2];
            v[2] = v[1];
            v[1] = v[0];
            v[0] = t1.wrapping_add(t2);
        }
        for i in 0..8 {
            h[i] = h[i].wrapping_add(v[i]);
        }
    }
    h.iter().flat_map(|x| x.to_be_bytes()).collect()
}

fn ref_sha512(data: &[u8]) -> Vec<u8> {
    let (mut h, k) = sha512_consts();
    let mut msg = data.to_vec();
    msg.push(0x80);
    while msg.len() % 128 != 112 {
        msg.push(0);
    }
    msg.extend_from_slice(&((data.len() as u128) * 8).to_be_bytes());
    for chunk in msg.chunks(128) {
        let mut w = [0u64; 80];
        for i in 0..16 {
            let mut b = [0u8; 8];
            b.copy_from_slice(&chunk[8 * i..8 * i + 8]);
            w[i] = u64::from_be_bytes(b);
        }
        for i in 16..80 {
            let s0 = w[i - 15].rotate_right(1) ^ w[i - 15].rotate_right(8) ^ (w[i - 15] >> 7);
            let s1 = w[i - 2].rotate_right(19) ^ w[i - 2].rotate_right(61) ^ (w[i - 2] >> 6);
            w[i] = w[i - 16].wrapping_add(s0).wrapping_add(w[i - 7]).wrapping_add(s1);
        }
        let mut v = h;
        for i in 0..80 {
            let s1 = v[4].rotate_right(14) ^ v[4].rotate_right(18) ^ v[4].rotate_right(41);
            let ch = (v[4] & v[5]) ^ (!v[4] & v[6]);
            let t1 = v[7].wrapping_add(s1).wrapping_add(ch).wrapping_add(k[i]).wrapping_add(w[i]);
            let s0 = v[0].rotate_right(28) ^ v[0].rotate_right(34) ^ v[0].rotate_right(39);
            let maj = (v[0] & v[1]) ^ (v[0] & v[2]) ^ (v[1] & v[2]);
            let t2 = s0.wrapping_add(maj);
            v[7] = v[6];
            v[6] = v[5];
            v[5] = v[4];
            v[4] = v[3].wrapping_add(t1);
            v[3] = v[2];
            v[2] = v[1];
            v[1] = v[0];
            v[0] = t1.wrapping_add(t2);
        }
        for i in 0..8 {
            h[i] = h[i].wrapping_add(v[i]);
        }
    }
    h.iter().flat_map(|x| x.to_be_bytes()).collect()
}

fn ref_hmac_sha256(key: &[u8], data: &[u8]) -> Vec<u8> {
    let mut k = if key.len() > 64 { ref_sha256(key) } else { key.to_vec() };
    k.resize(64, 0);
    let mut inner: Vec<u8> = k.iter().map(|b| b ^ 0x36).collect();
    inner.extend_from_slice(data);
    let mut outer: Vec<u8> = k.iter().map(|b| b ^ 0x5c).collect();
    outer.extend_from_slice(&ref_sha256(&inner));
    ref_sha256(&outer)
}

// AES-128 from the FIPS-197 definitions
fn gmul(mut a: u8, mut b: u8) -> u8 {
    let mut p = 0u8;
    for _ in 0..8 {
        if b & 1 == 1 {
            p ^= a;
        }
        let hi = a & 0x80;
        a <<= 1;
        if hi != 0 {
            a ^= 0x1b;
        }
        b >>= 1;
    }
    p
}

fn sbox() -> [u8; 256] {
    let mut s = [0u8; 256];
    for x in 0..256usize {
        let mut inv = 0u8;
        if x != 0 {
            for y in 1..256usize {
                if gmul(x as u8, y as u8) == 1 {
                    inv = y as u8;
                    break;
                }
            }
        }
        let b = inv;
        s[x] = b ^ b.rotate_left(1) ^ b.rotate_left(2) ^ b.rotate_left(3) ^ b.rotate_left(4) ^ 0x63;
    }
    s
}

struct RefAes128 {
    sbox: [u8; 256],
    round_keys: [[u8; 16]; 11],
}

impl RefAes128 {
    fn new(key: &[u8]) -> RefAes128 {
        assert_eq!(key.len(), 16);
        let sb = sbox();
        let mut w = [[0u8; 4]; 44];
        for i in 0..4 {
            w[i].copy_from_slice(&key[4 * i..4 * i + 4]);
        }
        let mut rcon = 1u8;
        for i in 4..44 {
            let mut t = w[i - 1];
            if i % 4 == 0 {
                t = [sb[t[1] as usize] ^ rcon, sb[t[2] as usize], sb[t[3] as usize], sb[t[0] as usize]];
                rcon = gmul(rcon, 2);
            }
            for j in 0..4 {
                w[i][j] = w[i - 4][j] ^ t[j];
            }
        }
        let mut round_keys = [[0u8; 16]; 11];
        for r in 0..11 {
            for c in 0..4 {
                round_keys[r][4 * c..4 * c + 4].copy_from_slice(&w[4 * r + c]);
            }
        }
        RefAes128 { sbox: sb, round_keys }
    }

    fn encrypt_block(&self, block: &[u8]) -> [u8; 16] {
        let mut s = [0u8; 16];
        s.copy_from_slice(block);
        for i in 0..16 {
            s[i] ^= self.round_keys[0][i];
        }
        for round in 1..=10 {
            for i in 0..16 {
                s[i] = self.sbox[s[i] as usize];
            }
            // shift rows: state is column major, s[4*c + r]
            let t = s;
            for c in 0..4 {
                for r in 0..4 {
                    s[4 * c + r] = t[4 * ((c + r) % 4) + r];
                }
            }
            if round != 10 {
                for c in 0..4 {
                    let a = [s[4 * c], s[4 * c + 1], s[4 * c + 2], s[4 * c + 3]];
                    s[4 * c] = gmul(a[0], 2) ^ gmul(a[1], 3) ^ a[2] ^ a[3];
                    s[4 * c + 1] = a[0] ^ gmul(a[1], 2) ^ gmul(a[2], 3) ^ a[3];
                    s[4 * c + 2] = a[0] ^ a[1] ^ gmul(a[2], 2) ^ gmul(a[3], 3);
                    s[4 * c + 3] = gmul(a[0], 3) ^ a[1] ^ a[2] ^ gmul(a[3], 2);
                }
            }
            for i in 0..16 {
                s[i] ^= self.round_keys[round][i];
            }
        }
        s
    }

    /// CBC over whole blocks, no padding added
    fn cbc_raw(&self, iv: &[u8], padded: &[u8]) -> Vec<u8> {
        assert_eq!(padded.len() % 16, 0);
        let mut prev = [0u8; 16];
        prev.copy_from_slice(iv);
        let mut out = vec![];
        for block in padded.chunks(16) {
            let mut x = [0u8; 16];
            for i in 0..16 {
                x[i] = block[i] ^ prev[i];
            }
            prev = self.encrypt_block(&x);
            out.extend_from_slice(&prev);
        }
        out
    }

    fn cbc_pkcs7(&self, iv: &[u8], msg: &[u8]) -> Vec<u8> {
        let pad = 16 - msg.len() % 16;
        let mut padded = msg.to_vec();
        padded.extend(std::iter::repeat(pad as u8).take(pad));
        self.cbc_raw(iv, &padded)
    }
}

// secp256k1
fn hexbig(s: &str) -> BigUint {
    BigUint::parse_bytes(s.as_bytes(), 16).unwrap()
}
fn fp() -> BigUint {
    hexbig("FFFFFFFFFFFFFFFFFFFFFFFFFFFFFFFFFFFFFFFFFFFFFFFFFFFFFFFEFFFFFC2F")
}
fn order() -> BigUint {
    hexbig("FFFFFFFFFFFFFFFFFFFFFFFFFFFFFFFEBAAEDCE6AF48A03BBFD25E8CD0364141")
}
fn gen() -> (BigUint, BigUint) {
    (
        hexbig("79BE667EF9DCBBAC55A06295CE870B07029BFCDB2DCE28D959F2815B16F81798"),
        hexbig("483ADA7726A3C4655DA4FBFC0E1108A8FD17B448A68554199C47D08FFB10D4B8"),
    )
}

#[derive(Clone)]
struct Jac {
    x: BigUint,
    y: BigUint,
    z: BigUint, // zero = infinity
}

fn sub(a: &BigUint, b: &BigUint, p: &BigUint) -> BigUint {
    ((a % p) + p - (b % p)) % p
}

fn jac_double(a: &Jac, p: &BigUint) -> Jac {
    let zero = BigUint::from(0u8);
    if a.z == zero || a.y == zero {
        return Jac { x: zero.clone(), y: BigUint::from(1u8), z: zero };
    }
    let y2 = &a.y * &a.y % p;
    let s = BigUint::from(4u8) * &a.x * &y2 % p;
    let m = BigUint::from(3u8) * &a.x * &a.x % p;
    let x3 = sub(&(&m * &m), &(BigUint::from(2u8) * &s), p);
    let y3 = sub(&(&m * sub(&s, &x3, p)), &(BigUint::from(8u8) * &y2 * &y2), p);
    let z3 = BigUint::from(2u8) * &a.y * &a.z % p;
    Jac { x: x3, y: y3, z: z3 }
}

fn jac_add(a: &Jac, b: &Jac, p: &BigUint) -> Jac {
    let zero = BigUint::from(0u8);
    if a.z == zero {
        return b.clone();
    }
    if b.z == zero {
        return a.clone();
    }
    let z1z1 = &a.z * &a.z % p;
    let z2z2 = &b.z * &b.z % p;
    let u1 = &a.x * &z2z2 % p;
    let u2 = &b.x * &z1z1 % p;
    let s1 = &a.y * &z2z2 % p * &b.z % p;
    let s2 = &b.y * &z1z1 % p * &a.z % p;
    if u1 == u2 {
        if s1 != s2 {
            return Jac { x: zero.clone(), y: BigUint::from(1u8), z: zero };
        }
        return jac_double(a, p);
    }
    let h = sub(&u2, &u1, p);
    let r = sub(&s2, &s1, p);
    let h2 = &h * &h % p;
    let h3 = &h2 * &h % p;
    let u1h2 = &u1 * &h2 % p;
    let x3 = sub(&sub(&(&r * &r), &h3, p), &(BigUint::from(2u8) * &u1h2), p);
    let y3 = sub(&(&r * sub(&u1h2, &x3, p)), &(&s1 * &h3), p);
    let z3 = &h * &a.z % p * &b.z % p;
    Jac { x: x3, y: y3, z: z3 }
}

/// k * (x, y) in affine coordinates; None = point at infinity
fn ec_mul(k: &BigUint, pt: &(BigUint, BigUint)) -> Option<(BigUint, BigUint)> {
    let p = fp();
    let zero = BigUint::from(0u8);
    let base = Jac { x: pt.0.clone(), y: pt.1.clone(), z: BigUint::from(1u8) };
    let mut acc = Jac { x: zero.clone(), y: BigUint::from(1u8), z: zero.clone() };
    for i in (0..k.bits()).rev() {
        acc = jac_double(&acc, &p);
        if k.bit(i) {
            acc = jac_add(&acc, &base, &p);
        }
    }
    if acc.z == zero {
        return None;
    }
    let zinv = acc.z.modpow(&(&p - BigUint::from(2u8)), &p);
    let zinv2 = &zinv * &zinv % &p;
    let x = &acc.x * &zinv2 % &p;
    let y = &acc.y * &zinv2 % &p * &zinv % &p;
    Some((x, y))
}

fn be32(v: &BigUint) -> Vec<u8> {
    let b = v.to_bytes_be();
    let mut out = vec![0u8; 32 - b.len()];
    out.extend_from_slice(&b);
    out
}

fn compress(pt: &(BigUint, BigUint)) -> Vec<u8> {
    let mut out = vec![if pt.1.bit(0) { 3u8 } else { 2u8 }];
    out.extend_from_slice(&be32(&pt.0));
    out
}

fn uncompressed(pt: &(BigUint, BigUint)) -> Vec<u8> {
    let mut out = vec![4u8];
    out.extend_from_slice(&be32(&pt.0));
    out.extend_from_slice(&be32(&pt.1));
    out
}

struct RefKeys {
    iv: Vec<u8>,
    ke: Vec<u8>,
    km: Vec<u8>,
}

/// ECDH keys of BIE1 for private scalar `a` and the public point of scalar `b`
fn ref_keys(a: &BigUint, b_pub: &(BigUint, BigUint)) -> RefKeys {
    let shared = ec_mul(a, b_pub).expect("shared point");
    let h = ref_sha512(&compress(&shared));
    RefKeys {
        iv: h[0..16].to_vec(),
        ke: h[16..32].to_vec(),
        km: h[32..64].to_vec(),
    }
}

/// The Electrum BIE1 serialisation computed without the library
fn ref_bie1(msg: &[u8], sender: &BigUint, recipient_pub: &(BigUint, BigUint), exclude_pub_key: bool) -> Vec<u8> {
    let keys = ref_keys(sender, recipient_pub);
    let body = RefAes128::new(&keys.ke).cbc_pkcs7(&keys.iv, msg);
    let mut out = b"BIE1".to_vec();
    if !exclude_pub_key {
        out.extend_from_slice(&compress(&ec_mul(sender, &gen()).unwrap()));
    }
    out.extend_from_slice(&body);
    let mac = ref_hmac_sha256(&keys.km, &out);
    out.extend_from_slice(&mac);
    out
}

/// A ciphertext a sender could produce: any body, correctly authenticated
fn ref_bie1_with_body(body: &[u8], sender: &BigUint, recipient_pub: &(BigUint, BigUint), exclude_pub_key: bool) -> Vec<u8> {
    let keys = ref_keys(sender, recipient_pub);
    let mut out = b"BIE1".to_vec();
    if !exclude_pub_key {
        out.extend_from_slice(&compress(&ec_mul(sender, &gen()).unwrap()));
    }
    out.extend_from_slice(body);
    let mac = ref_hmac_sha256(&keys.km, &out);
    out.extend_from_slice(&mac);
    out
}

// deterministic generator for test data
struct Prng(u64);
impl Prng {
    fn next(&mut self) -> u64 {
        self.0 ^= self.0 << 13;
        self.0 ^= self.0 >> 7;
        self.0 ^= self.0 << 17;
        self.0
    }
    fn bytes(&mut self, n: usize) -> Vec<u8> {
        (0..n).map(|_| (self.next() >> 24) as u8).collect()
    }
    fn scalar(&mut self) -> BigUint {
        loop {
            let v = BigUint::from_bytes_be(&self.bytes(32));
            if v > BigUint::from(0u8) && v < order() {
                return v;
            }
        }
    }
}

fn lib_priv(k: &BigUint) -> PrivateKey {
    PrivateKey::from_bytes(&be32(k)).unwrap()
}

fn hx(b: &[u8]) -> String {
    hex::encode(b)
}

/// parse + decrypt the way a recipient does
fn recv(bytes: &[u8], has_pub_key: bool, recipient: &PrivateKey, sender_pub: &PublicKey) -> Result<Vec<u8>, String> {
    let parsed = ECIESCiphertext::from_bytes(bytes, has_pub_key).map_err(|e| e.to_string())?;
    ECIES::decrypt(&parsed, recipient, sender_pub).map_err(|e| e.to_string())
}

// ------------------------------------------------------------------------------------------------
// E01: the reference primitives themselves (known answers from FIPS 180-4, RFC 4231, FIPS-197, SEC2)
// ------------------------------------------------------------------------------------------------
#[test]
fn e01_reference_primitives_known_answers() {
    assert_eq!(hx(&ref_sha256(b"abc")), "ba7816bf8f01cfea414140de5dae2223b00361a396177a9cb410ff61f20015ad");
    assert_eq!(
        hx(&ref_sha512(b"abc")),
        "ddaf35a193617abacc417349ae20413112e6fa4e89a97ea20a9eeee64b55d39a2192992a274fc1a836ba3c23a3feebbd454d4423643ce80e2a9ac94fa54ca49f"
    );
    assert_eq!(
        hx(&ref_hmac_sha256(&[0x0b; 20], b"Hi There")),
        "b0344c61d8db38535ca8afceaf0bf12b881dc200c9833da726e9376c2e32cff7"
    );
    assert_eq!(
        hx(&ref_hmac_sha256(b"Jefe", b"what do ya want for nothing?")),
        "5bdcc146bf60754e6a042426089575c75a003f089d2739839dec58b964ec3843"
    );
    // RFC 4231 case 6: key longer than the block
    assert_eq!(
        hx(&ref_hmac_sha256(&[0xaa; 131], b"Test Using Larger Than Block-Size Key - Hash Key First")),
        "60e431591ee0b67f0d8a26aacbf5b77f8e0bc6213728c5140546040f0ee37f54"
    );
    let key: Vec<u8> = (0u8..16).collect();
    let pt: Vec<u8> = (0u8..16).map(|i| i * 0x11).collect();
    assert_eq!(hx(&RefAes128::new(&key).encrypt_block(&pt)), "69c4e0d86a7b0430d8cdb78070b4c55a");
    // NIST SP 800-38A F.2.1 CBC-AES128.Encrypt, first two blocks
    let key = hex::decode("2b7e151628aed2a6abf7158809cf4f3c").unwrap();
    let iv = hex::decode("000102030405060708090a0b0c0d0e0f").unwrap();
    let pt = hex::decode("6bc1bee22e409f96e93d7e117393172aae2d8a571e03ac9c9eb76fac45af8e51").unwrap();
    assert_eq!(
        hx(&RefAes128::new(&key).cbc_raw(&iv, &pt)),
        "7649abac8119b246cee98e9b12e9197d5086cb9b507219ee95db113a917678b2"
    );
    let g2 = ec_mul(&BigUint::from(2u8), &gen()).unwrap();
    assert_eq!(hx(&be32(&g2.0)), "c6047f9441ed7d6d3045406e95c07cd85c778e4b8cef3ca7abac09b95c709ee5");
    assert_eq!(hx(&be32(&g2.1)), "1ae168fea63dc339a3c58419466ceaeef7f632653266d0e1236431a950cfe52a");
    let g3 = ec_mul(&BigUint::from(3u8), &gen()).unwrap();
    assert_eq!(hx(&be32(&g3.0)), "f9308a019258c31049344f85f89d5229b531c845836f99b08601f113bce036f9");
    assert_eq!(hx(&be32(&g3.1)), "388f7b0f632de8140fe337e62a37f3566500a99934c2231b6cb9fd7584b8e672");
    let gm = ec_mul(&(order() - BigUint::from(1u8)), &gen()).unwrap();
    assert_eq!(gm.0, gen().0);
    assert_eq!(gm.1, fp() - gen().1);
    assert!(ec_mul(&order(), &gen()).is_none());
}

// ------------------------------------------------------------------------------------------------
// E02: src/hash: SHA-512 and HMAC-SHA256 against the reference over block-boundary lengths and key lengths
// ------------------------------------------------------------------------------------------------
#[test]
fn e02_hash_sha512_and_hmac_sha256_match_reference() {
    let mut rng = Prng(0x1234_5678_9abc_def1);
    for len in (0..=300).chain([1023, 1024, 1025, 4096]) {
        let data = rng.bytes(len);
        assert_eq!(Hash::sha_512(&data).to_bytes(), ref_sha512(&data), "sha512 len {}", len);
        assert_eq!(Hash::sha_256(&data).to_bytes(), ref_sha256(&data), "sha256 len {}", len);
    }
    for klen in (0..=140).chain([255, 256, 1000]) {
        for dlen in [0usize, 1, 55, 56, 63, 64, 65, 119, 120, 200] {
            let key = rng.bytes(klen);
            let data = rng.bytes(dlen);
            assert_eq!(Hash::sha_256_hmac(&data, &key).to_bytes(), ref_hmac_sha256(&key, &data), "hmac klen {} dlen {}", klen, dlen);
        }
    }
}

// ------------------------------------------------------------------------------------------------
// E03: serialised ciphertext byte-identical to the reference, all lengths 0..=80, both modes; round trips
// ------------------------------------------------------------------------------------------------
#[test]
fn e03_bie1_bytes_and_roundtrip_small_lengths_both_modes() {
    let mut rng = Prng(0xdead_beef_0bad_f00d);
    for len in 0..=80usize {
        let a = rng.scalar();
        let b = rng.scalar();
        let b_pub = ec_mul(&b, &gen()).unwrap();
        let a_pub = ec_mul(&a, &gen()).unwrap();
        let msg = rng.bytes(len);
        for exclude in [false, true] {
            let expected = ref_bie1(&msg, &a, &b_pub, exclude);
            let lib_b_pub = PublicKey::from_bytes(&compress(&b_pub)).unwrap();
            let lib_a_pub = PublicKey::from_bytes(&compress(&a_pub)).unwrap();
            let ct = ECIES::encrypt(&msg, &lib_priv(&a), &lib_b_pub, exclude).unwrap();
            assert_eq!(hx(&ct.to_bytes()), hx(&expected), "len {} exclude {}", len, exclude);
            assert_eq!(expected.len(), 4 + if exclude { 0 } else { 33 } + (len / 16 + 1) * 16 + 32);
            // direct
            assert_eq!(ECIES::decrypt(&ct, &lib_priv(&b), &lib_a_pub).unwrap(), msg);
            // parsed back from our own reference bytes (not from the library's)
            assert_eq!(recv(&expected, !exclude, &lib_priv(&b), &lib_a_pub).unwrap(), msg);
            let parsed = ECIESCiphertext::from_bytes(&expected, !exclude).unwrap();
            assert_eq!(parsed.to_bytes(), expected);
            assert_eq!(parsed.get_ciphertext(), expected[expected.len() - 32 - (len / 16 + 1) * 16..expected.len() - 32].to_vec());
            assert_eq!(parsed.get_hmac(), expected[expected.len() - 32..].to_vec());
            if !exclude {
                assert_eq!(parsed.extract_public_key().unwrap().to_bytes().unwrap(), compress(&a_pub));
                assert_eq!(ct.extract_public_key().unwrap().to_bytes().unwrap(), compress(&a_pub));
            } else {
                assert!(parsed.extract_public_key().is_err());
                assert!(ct.extract_public_key().is_err());
            }
        }
    }
}

// ------------------------------------------------------------------------------------------------
// E04: long messages, every residue modulo 16 around 16 KiB, and tens of KiB
// ------------------------------------------------------------------------------------------------
#[test]
fn e04_bie1_bytes_and_roundtrip_long_messages() {
    let mut rng = Prng(0x0123_4567_89ab_cdef);
    let a = rng.scalar();
    let b = rng.scalar();
    let b_pub = ec_mul(&b, &gen()).unwrap();
    let a_pub = ec_mul(&a, &gen()).unwrap();
    let lib_b_pub = PublicKey::from_bytes(&compress(&b_pub)).unwrap();
    let lib_a_pub = PublicKey::from_bytes(&uncompressed(&a_pub)).unwrap();
    let mut lens: Vec<usize> = (16384 - 1..16384 + 17).collect();
    lens.extend([255, 256, 257, 4095, 4096, 4097, 40_000, 65_535, 65_536, 65_537, 70_001]);
    for len in lens {
        let msg = rng.bytes(len);
        for exclude in [false, true] {
            let expected = ref_bie1(&msg, &a, &b_pub, exclude);
            let ct = ECIES::encrypt(&msg, &lib_priv(&a), &lib_b_pub, exclude).unwrap();
            assert!(ct.to_bytes() == expected, "len {} exclude {}", len, exclude);
            assert!(recv(&expected, !exclude, &lib_priv(&b), &lib_a_pub).unwrap() == msg, "len {} exclude {}", len, exclude);
        }
    }
}

// ------------------------------------------------------------------------------------------------
// E05: boundary scalars (1, 2, n-1, n-2, the endomorphism constants of the GLV split, powers of two)
// as sender and as recipient
// ------------------------------------------------------------------------------------------------
#[test]
fn e05_boundary_private_keys() {
    let n = order();
    let one = BigUint::from(1u8);
    let lambda = hexbig("5363AD4CC05C30E0A5261C028812645A122E22EA20816678DF02967C1B23BD72");
    let mut scalars = vec![
        one.clone(),
        BigUint::from(2u8),
        BigUint::from(3u8),
        &n - &one,
        &n - BigUint::from(2u8),
        (&n - &one) / BigUint::from(2u8),
        (&n + &one) / BigUint::from(2u8),
        lambda.clone(),
        &lambda + &one,
        &lambda - &one,
        &n - &lambda,
        &lambda * &lambda % &n,
        &one << 127usize,
        &one << 128usize,
        (&one << 128usize) - &one,
        (&one << 128usize) + &one,
        &one << 255usize,
        (&one << 255usize) - &one,
        hexbig("3086D221A7D46BCDE86C90E49284EB15"),
        hexbig("E4437ED6010E88286F547FA90ABFE4C3"),
        hexbig("114CA50F7A8E2F3F657C1108D9D44CFD8"),
        hexbig("3086D221A7D46BCDE86C90E49284EB153DAA8A1471E8CA7FE893209A45DBB031"),
        hexbig("FFFFFFFFFFFFFFFFFFFFFFFFFFFFFFFE00000000000000000000000000000000"),
        hexbig("00000000000000000000000000000000FFFFFFFFFFFFFFFFFFFFFFFFFFFFFFFF"),
        hexbig("8000000000000000000000000000000000000000000000000000000000000001"),
    ];
    let mut rng = Prng(77);
    scalars.push(rng.scalar());
    let msg = b"boundary scalars".to_vec();
    let mut checked = 0;
    for a in &scalars {
        for b in &scalars {
            let b_pub = ec_mul(b, &gen()).unwrap();
            let a_pub = ec_mul(a, &gen()).unwrap();
            let expected = ref_bie1(&msg, a, &b_pub, false);
            let lib_b_pub = PublicKey::from_bytes(&compress(&b_pub)).unwrap();
            let lib_a_pub = PublicKey::from_bytes(&compress(&a_pub)).unwrap();
            // the library's own public key derivation agrees with the reference
            assert_eq!(lib_priv(a).to_public_key().unwrap().to_bytes().unwrap(), compress(&a_pub));
            let ct = ECIES::encrypt(&msg, &lib_priv(a), &lib_b_pub, false).unwrap();
            assert_eq!(hx(&ct.to_bytes()), hx(&expected), "a={:x} b={:x}", a, b);
            assert_eq!(recv(&expected, true, &lib_priv(b), &lib_a_pub).unwrap(), msg, "a={:x} b={:x}", a, b);
            checked += 1;
        }
    }
    println!("e05: {} key pairs", checked);
}

// ------------------------------------------------------------------------------------------------
// E06: shared point / sender key whose abscissa has leading zero bytes (fixed-width encoding matters)
// ------------------------------------------------------------------------------------------------
#[test]
fn e06_leading_zero_abscissas() {
    let mut rng = Prng(0xfeed_face_cafe_beef);
    let b = rng.scalar();
    let b_pub = ec_mul(&b, &gen()).unwrap();
    let lib_b_pub = PublicKey::from_bytes(&compress(&b_pub)).unwrap();
    let mut found_shared = 0;
    let mut found_sender = 0;
    let mut tried = 0;
    let mut k = BigUint::from(1000u32);
    while (found_shared < 2 || found_sender < 2) && tried < 3000 {
        tried += 1;
        k += BigUint::from(1u8);
        let shared = ec_mul(&k, &b_pub).unwrap();
        let a_pub = ec_mul(&k, &gen()).unwrap();
        let z_shared = be32(&shared.0)[0] == 0;
        let z_sender = be32(&a_pub.0)[0] == 0;
        if !(z_shared || z_sender) {
            continue;
        }
        if z_shared {
            found_shared += 1;
        }
        if z_sender {
            found_sender += 1;
        }
        let msg = rng.bytes(37);
        for exclude in [false, true] {
            let expected = ref_bie1(&msg, &k, &b_pub, exclude);
            let ct = ECIES::encrypt(&msg, &lib_priv(&k), &lib_b_pub, exclude).unwrap();
            assert_eq!(hx(&ct.to_bytes()), hx(&expected), "k={:x}", k);
            let lib_a_pub = PublicKey::from_bytes(&compress(&a_pub)).unwrap();
            assert_eq!(recv(&expected, !exclude, &lib_priv(&b), &lib_a_pub).unwrap(), msg);
        }
    }
    println!("e06: tried {} keys, {} with leading-zero shared x, {} with leading-zero sender x", tried, found_shared, found_sender);
    assert!(found_shared >= 1 && found_sender >= 1);
}

// ------------------------------------------------------------------------------------------------
// E07: every construction route of the same keys gives the same bytes
// ------------------------------------------------------------------------------------------------
fn ref_wif(k: &BigUint, compressed: bool) -> String {
    let mut payload = vec![0x80u8];
    payload.extend_from_slice(&be32(k));
    if compressed {
        payload.push(1);
    }
    let check = ref_sha256(&ref_sha256(&payload));
    payload.extend_from_slice(&check[0..4]);
    bs58::encode(payload).into_string()
}

#[test]
fn e07_key_construction_routes() {
    let mut rng = Prng(0x5151_5151_aaaa_0001);
    for _ in 0..6 {
        let a = rng.scalar();
        let b = rng.scalar();
        let a_pub = ec_mul(&a, &gen()).unwrap();
        let b_pub = ec_mul(&b, &gen()).unwrap();
        let msg = rng.bytes(45);

        let senders: Vec<(&str, PrivateKey)> = vec![
            ("bytes", PrivateKey::from_bytes(&be32(&a)).unwrap()),
            ("hex", PrivateKey::from_hex(&hx(&be32(&a))).unwrap()),
            ("wif compressed", PrivateKey::from_wif(&ref_wif(&a, true)).unwrap()),
            ("wif uncompressed", PrivateKey::from_wif(&ref_wif(&a, false)).unwrap()),
            ("compress(false)", PrivateKey::from_bytes(&be32(&a)).unwrap().compress_public_key(false)),
            ("clone", PrivateKey::from_bytes(&be32(&a)).unwrap().clone()),
        ];
        let comp = PublicKey::from_bytes(&compress(&b_pub)).unwrap();
        let recipients: Vec<(&str, PublicKey)> = vec![
            ("compressed", comp.clone()),
            ("uncompressed", PublicKey::from_bytes(&uncompressed(&b_pub)).unwrap()),
            ("hex", PublicKey::from_hex(&hx(&uncompressed(&b_pub))).unwrap()),
            ("to_decompressed", comp.to_decompressed().unwrap()),
            ("round", comp.to_decompressed().unwrap().to_compressed().unwrap()),
            ("from private", PublicKey::from_private_key(&lib_priv(&b))),
            ("from private uncompressed", lib_priv(&b).compress_public_key(false).to_public_key().unwrap()),
            ("json", serde_json::from_str(&serde_json::to_string(&comp).unwrap()).unwrap()),
            ("json uncompressed", serde_json::from_str(&format!("\"{}\"", hx(&uncompressed(&b_pub)))).unwrap()),
        ];
        for exclude in [false, true] {
            let expected = ref_bie1(&msg, &a, &b_pub, exclude);
            for (sn, s) in &senders {
                for (rn, r) in &recipients {
                    let ct = ECIES::encrypt(&msg, s, r, exclude).unwrap();
                    assert_eq!(hx(&ct.to_bytes()), hx(&expected), "sender {} recipient {} exclude {}", sn, rn, exclude);
                }
            }
            // decryption side: recipient private key and sender public key in every form
            let rprivs = vec![
                lib_priv(&b),
                PrivateKey::from_wif(&ref_wif(&b, false)).unwrap(),
                lib_priv(&b).compress_public_key(false),
            ];
            let spubs = vec![
                PublicKey::from_bytes(&compress(&a_pub)).unwrap(),
                PublicKey::from_bytes(&uncompressed(&a_pub)).unwrap(),
                PrivateKey::from_wif(&ref_wif(&a, false)).unwrap().to_public_key().unwrap(),
            ];
            for rp in &rprivs {
                for sp in &spubs {
                    assert_eq!(recv(&expected, !exclude, rp, sp).unwrap(), msg);
                }
            }
        }
        // convenience methods
        let via_pub = PublicKey::from_bytes(&uncompressed(&b_pub)).unwrap().encrypt_message(&msg, &senders[3].1).unwrap();
        assert_eq!(hx(&via_pub.to_bytes()), hx(&ref_bie1(&msg, &a, &b_pub, false)));
        assert_eq!(lib_priv(&b).decrypt_message(&via_pub, &spub(&a_pub)).unwrap(), msg);
        let to_self = senders[3].1.encrypt_message(&msg).unwrap();
        assert_eq!(hx(&to_self.to_bytes()), hx(&ref_bie1(&msg, &a, &a_pub, false)));
        assert_eq!(senders[0].1.decrypt_message(&to_self, &spub(&a_pub)).unwrap(), msg);
    }
}

fn spub(pt: &(BigUint, BigUint)) -> PublicKey {
    PublicKey::from_bytes(&compress(pt)).unwrap()
}

// ------------------------------------------------------------------------------------------------
// E08: every single-bit corruption of the serialised ciphertext (body, embedded key, MAC; magic too)
// is rejected, whichever sender key the recipient uses (the known one or the one embedded)
// ------------------------------------------------------------------------------------------------
#[test]
fn e08_every_single_bit_flip_rejected() {
    let mut rng = Prng(0x0f0f_1234_9999_0001);
    let mut flips = 0usize;
    for len in [0usize, 1, 15, 16, 17, 31, 32, 33, 47, 48, 100, 1000] {
        let a = rng.scalar();
        let b = rng.scalar();
        let a_pub = ec_mul(&a, &gen()).unwrap();
        let b_pub = ec_mul(&b, &gen()).unwrap();
        let msg = rng.bytes(len);
        for exclude in [false, true] {
            let good = ref_bie1(&msg, &a, &b_pub, exclude);
            assert_eq!(recv(&good, !exclude, &lib_priv(&b), &spub(&a_pub)).unwrap(), msg);
            for bit in 0..good.len() * 8 {
                let mut bad = good.clone();
                bad[bit / 8] ^= 1 << (bit % 8);
                flips += 1;
                let r = catch_unwind(AssertUnwindSafe(|| recv(&bad, !exclude, &lib_priv(&b), &spub(&a_pub))));
                match r {
                    Ok(Err(_)) => {}
                    Ok(Ok(p)) => panic!("len {} exclude {} bit {}: decrypted to {} bytes (equal to message: {})", len, exclude, bit, p.len(), p == msg),
                    Err(_) => panic!("len {} exclude {} bit {}: panicked", len, exclude, bit),
                }
                if !exclude {
                    // the anonymous-sender flow: take the sender key from the ciphertext
                    let r = catch_unwind(AssertUnwindSafe(|| {
                        let parsed = ECIESCiphertext::from_bytes(&bad, true).map_err(|e| e.to_string())?;
                        let pk = parsed.extract_public_key().map_err(|e| e.to_string())?;
                        ECIES::decrypt(&parsed, &lib_priv(&b), &pk).map_err(|e| e.to_string())
                    }));
                    match r {
                        Ok(Err(_)) => {}
                        Ok(Ok(p)) => panic!("embedded-key flow: len {} bit {}: decrypted to {} bytes", len, bit, p.len()),
                        Err(_) => panic!("embedded-key flow: len {} bit {}: panicked", len, bit),
                    }
                }
            }
        }
    }
    println!("e08: {} single-bit corruptions, all rejected", flips);
}

// ------------------------------------------------------------------------------------------------
// E09: wrong keys
// ------------------------------------------------------------------------------------------------
#[test]
fn e09_wrong_keys_rejected() {
    let mut rng = Prng(0x7777_0000_1111_2222);
    let n = order();
    for len in [0usize, 5, 16, 64] {
        let a = rng.scalar();
        let b = rng.scalar();
        let c = rng.scalar();
        let a_pub = ec_mul(&a, &gen()).unwrap();
        let b_pub = ec_mul(&b, &gen()).unwrap();
        let c_pub = ec_mul(&c, &gen()).unwrap();
        let msg = rng.bytes(len);
        for exclude in [false, true] {
            let good = ref_bie1(&msg, &a, &b_pub, exclude);
            let neg_a_pub = (a_pub.0.clone(), fp() - &a_pub.1);
            let wrong: Vec<(&str, PrivateKey, PublicKey)> = vec![
                ("other recipient", lib_priv(&c), spub(&a_pub)),
                ("other sender", lib_priv(&b), spub(&c_pub)),
                ("both other", lib_priv(&c), spub(&c_pub)),
                ("negated sender point", lib_priv(&b), spub(&neg_a_pub)),
                ("negated sender point, uncompressed", lib_priv(&b), PublicKey::from_bytes(&uncompressed(&neg_a_pub)).unwrap()),
                ("negated recipient scalar", lib_priv(&(&n - &b)), spub(&a_pub)),
                ("recipient+1", lib_priv(&(&b + BigUint::from(1u8))), spub(&a_pub)),
                ("recipient's own public key as sender", lib_priv(&b), spub(&b_pub)),
                ("sender scalar with sender key", lib_priv(&a), spub(&a_pub)),
                ("generator as sender", lib_priv(&b), spub(&gen())),
            ];
            for (name, rp, sp) in &wrong {
                let r = recv(&good, !exclude, rp, sp);
                assert!(r.is_err(), "len {} exclude {} {}: {:?}", len, exclude, name, r);
                // also on the object returned by encrypt, never serialised
                let ct = ECIES::encrypt(&msg, &lib_priv(&a), &spub(&b_pub), exclude).unwrap();
                assert!(ECIES::decrypt(&ct, rp, sp).is_err(), "direct: {}", name);
            }
            // both negated gives the same shared point: (n-b) * (-A) = b*A. These are different key
            // objects but the same Diffie-Hellman secret, recorded as an observation
            let r = recv(&good, !exclude, &lib_priv(&(&n - &b)), &spub(&neg_a_pub));
            assert_eq!(r.unwrap(), msg);
            // the sender can read the own message (symmetry of ECDH)
            let r = recv(&good, !exclude, &lib_priv(&a), &spub(&b_pub));
            assert_eq!(r.unwrap(), msg);
        }
    }
}

// ------------------------------------------------------------------------------------------------
// E10: anonymous sender (fresh key per call), convenience methods, repeated use of one object
// ------------------------------------------------------------------------------------------------
#[test]
fn e10_ephemeral_and_object_reuse() {
    let mut rng = Prng(0x4242_4242_4242_4242);
    let b = rng.scalar();
    let b_pub = ec_mul(&b, &gen()).unwrap();
    let mut seen = std::collections::HashSet::new();
    for len in [0usize, 1, 16, 33, 5000] {
        let msg = rng.bytes(len);
        let ct = ECIES::encrypt_with_ephemeral_private_key(&msg, &spub(&b_pub)).unwrap();
        let bytes = ct.to_bytes();
        assert_eq!(&bytes[0..4], b"BIE1");
        let eph = bytes[4..37].to_vec();
        assert!(seen.insert(eph.clone()), "ephemeral key repeated");
        // verify the whole construction from the embedded point, with the recipient's scalar
        let eph_pk = ct.extract_public_key().unwrap();
        assert_eq!(eph_pk.to_bytes().unwrap(), eph);
        let eph_unc = eph_pk.to_decompressed().unwrap().to_bytes().unwrap();
        let eph_pt = (BigUint::from_bytes_be(&eph_unc[1..33]), BigUint::from_bytes_be(&eph_unc[33..65]));
        // the decompression is the library's; check the point against the curve equation ourselves
        let p = fp();
        assert_eq!(&eph_pt.1 * &eph_pt.1 % &p, (&eph_pt.0 * &eph_pt.0 * &eph_pt.0 + BigUint::from(7u8)) % &p);
        assert_eq!(eph_pt.1.bit(0), eph[0] == 3);
        let keys = ref_keys(&b, &eph_pt);
        let body = RefAes128::new(&keys.ke).cbc_pkcs7(&keys.iv, &msg);
        let mut expected = b"BIE1".to_vec();
        expected.extend_from_slice(&eph);
        expected.extend_from_slice(&body);
        let mac = ref_hmac_sha256(&keys.km, &expected);
        expected.extend_from_slice(&mac);
        assert!(bytes == expected, "len {}", len);
        // the same object decrypts repeatedly, before and after serialisation
        for _ in 0..3 {
            assert!(ECIES::decrypt(&ct, &lib_priv(&b), &eph_pk).unwrap() == msg);
            let parsed = ECIESCiphertext::from_bytes(&ct.to_bytes(), true).unwrap();
            assert!(lib_priv(&b).decrypt_message(&parsed, &parsed.extract_public_key().unwrap()).unwrap() == msg);
        }
    }
}

// ------------------------------------------------------------------------------------------------
// E11: from_bytes on every short length: no panic, minimum lengths exact
// ------------------------------------------------------------------------------------------------
#[test]
fn e11_from_bytes_length_boundaries() {
    let mut rng = Prng(0x9090_9090_1111_0001);
    let a = rng.scalar();
    let b = rng.scalar();
    let b_pub = ec_mul(&b, &gen()).unwrap();
    let a_pub = ec_mul(&a, &gen()).unwrap();
    let full = ref_bie1(b"0123456789abcdef0123456789abcdef0", &a, &b_pub, false);
    for has in [true, false] {
        let min = if has { 69 } else { 36 };
        for len in 0..=full.len() {
            let r = catch_unwind(|| ECIESCiphertext::from_bytes(&full[..len], has).map(|c| c.to_bytes()));
            let r = r.unwrap_or_else(|_| panic!("from_bytes panicked at len {} has {}", len, has));
            if len < min {
                assert!(r.is_err(), "len {} has {}", len, has);
            } else {
                assert_eq!(r.unwrap(), full[..len].to_vec(), "len {} has {}", len, has);
                // every truncation is rejected by decrypt
                if len < full.len() {
                    let r = catch_unwind(AssertUnwindSafe(|| recv(&full[..len], has, &lib_priv(&b), &spub(&a_pub)))).expect("decrypt panicked");
                    assert!(r.is_err(), "truncated to {} has {} decrypted", len, has);
                }
            }
        }
    }
    // extension, block removal, block swap, block duplication
    let msg = rng.bytes(80);
    for exclude in [false, true] {
        let good = ref_bie1(&msg, &a, &b_pub, exclude);
        let off = if exclude { 4 } else { 37 };
        let mut variants: Vec<Vec<u8>> = vec![];
        let mut v = good.clone();
        v.push(0);
        variants.push(v);
        let mut v = good.clone();
        v.insert(0, b'B');
        variants.push(v);
        let mut v = good.clone();
        v.drain(off..off + 16);
        variants.push(v);
        let mut v = good.clone();
        v.drain(off + 16..off + 32);
        variants.push(v);
        let mut v = good.clone();
        for i in 0..16 {
            v.swap(off + i, off + 16 + i);
        }
        variants.push(v);
        let mut v = good.clone();
        let blk = v[off..off + 16].to_vec();
        for (i, byte) in blk.iter().enumerate() {
            v.insert(off + 16 + i, *byte);
        }
        variants.push(v);
        let mut v = good.clone();
        let l = v.len();
        v.truncate(l - 32);
        variants.push(v);
        for (i, v) in variants.iter().enumerate() {
            let r = catch_unwind(AssertUnwindSafe(|| recv(v, !exclude, &lib_priv(&b), &spub(&a_pub)))).expect("panicked");
            assert!(r.is_err(), "variant {} exclude {}", i, exclude);
        }
    }
}

// ------------------------------------------------------------------------------------------------
// E12: ciphertexts that are correctly authenticated (a real sender made them) but that the library
// itself would never produce: empty / ragged bodies, every kind of bad padding. Expected: a standard
// PKCS#7 reader accepts exactly the paddings 01 .. 10 repeated; everything else is an error, never a panic
// ------------------------------------------------------------------------------------------------
#[test]
fn e12_authenticated_but_foreign_bodies() {
    let mut rng = Prng(0x3333_5555_7777_0001);
    let a = rng.scalar();
    let b = rng.scalar();
    let a_pub = ec_mul(&a, &gen()).unwrap();
    let b_pub = ec_mul(&b, &gen()).unwrap();
    let keys = ref_keys(&a, &b_pub);
    let aes = RefAes128::new(&keys.ke);
    for exclude in [false, true] {
        // ragged bodies
        for blen in [0usize, 1, 15, 17, 31, 33] {
            let body = rng.bytes(blen);
            let bytes = ref_bie1_with_body(&body, &a, &b_pub, exclude);
            let r = catch_unwind(AssertUnwindSafe(|| recv(&bytes, !exclude, &lib_priv(&b), &spub(&a_pub))));
            let r = r.unwrap_or_else(|_| panic!("body of {} bytes: panic", blen));
            assert!(r.is_err(), "body of {} bytes decrypted: {:?}", blen, r);
        }
        // every final byte value on one, two and three block plaintexts
        for blocks in 1..=3usize {
            for last in 0..=255u8 {
                // (1) well-formed run of `last` bytes all equal to `last`
                let total = blocks * 16;
                let mut plain = rng.bytes(total);
                let run = (last as usize).min(total);
                for i in total - run..total {
                    plain[i] = last;
                }
                if run < total && last != 0 {
                    // make sure the run is exactly `run` long
                    if plain[total - run - 1] == last {
                        plain[total - run - 1] ^= 0x55;
                    }
                }
                let body = aes.cbc_raw(&keys.iv, &plain);
                let bytes = ref_bie1_with_body(&body, &a, &b_pub, exclude);
                let r = catch_unwind(AssertUnwindSafe(|| recv(&bytes, !exclude, &lib_priv(&b), &spub(&a_pub)))).expect("panic");
                if (1..=16).contains(&last) {
                    assert_eq!(r.unwrap(), plain[..total - last as usize].to_vec(), "valid padding {} on {} blocks", last, blocks);
                } else {
                    assert!(r.is_err(), "padding byte {:#x} on {} blocks accepted: {:?}", last, blocks, r.map(|v| v.len()));
                }
                // (2) a run one byte too short
                if (2..=16).contains(&last) {
                    let mut broken = plain.clone();
                    broken[total - last as usize] ^= 0x80;
                    let body = aes.cbc_raw(&keys.iv, &broken);
                    let bytes = ref_bie1_with_body(&body, &a, &b_pub, exclude);
                    let r = recv(&bytes, !exclude, &lib_priv(&b), &spub(&a_pub));
                    assert!(r.is_err(), "short run for {} accepted", last);
                }
            }
        }
    }
}

// ------------------------------------------------------------------------------------------------
// E13: parsing with the other inclusion mode than the one used for writing: never plaintext, no panic
// (outside the statement, which parses with the matching mode; kept as an observation)
// ------------------------------------------------------------------------------------------------
#[test]
fn e13_mode_mismatch_never_plaintext() {
    let mut rng = Prng(0x6666_0000_0000_0001);
    let mut parsed_as_key = 0;
    for i in 0..200 {
        let a = rng.scalar();
        let b = rng.scalar();
        let a_pub = ec_mul(&a, &gen()).unwrap();
        let b_pub = ec_mul(&b, &gen()).unwrap();
        let msg = rng.bytes(40 + i % 40);
        for exclude in [false, true] {
            let bytes = ref_bie1(&msg, &a, &b_pub, exclude);
            // wrong mode on purpose
            if ECIESCiphertext::from_bytes(&bytes, exclude).is_ok() && exclude {
                parsed_as_key += 1;
            }
            let r = catch_unwind(AssertUnwindSafe(|| recv(&bytes, exclude, &lib_priv(&b), &spub(&a_pub)))).expect("panic");
            assert!(r.is_err(), "mode mismatch produced output");
        }
    }
    println!("e13: {} of 200 key-less ciphertexts happened to parse with has_pub_key = true; none decrypted", parsed_as_key);
}

// ------------------------------------------------------------------------------------------------
// E14: cipher keys: getters on a fresh ciphertext, derive_cipher_keys from both sides
// ------------------------------------------------------------------------------------------------
#[test]
fn e14_cipher_keys() {
    let mut rng = Prng(0x1010_2020_3030_4040);
    for _ in 0..10 {
        let a = rng.scalar();
        let b = rng.scalar();
        let a_pub = ec_mul(&a, &gen()).unwrap();
        let b_pub = ec_mul(&b, &gen()).unwrap();
        let expected = ref_keys(&a, &b_pub);
        let other = ref_keys(&b, &a_pub);
        assert_eq!(expected.iv, other.iv);
        for (sk, pk) in [(&a, &b_pub), (&b, &a_pub)] {
            for form in [compress(pk), uncompressed(pk)] {
                let k = ECIES::derive_cipher_keys(&lib_priv(sk), &PublicKey::from_bytes(&form).unwrap()).unwrap();
                assert_eq!(k.get_iv(), expected.iv);
                assert_eq!(k.get_ke(), expected.ke);
                assert_eq!(k.get_km(), expected.km);
            }
        }
        let ct = ECIES::encrypt(b"x", &lib_priv(&a), &spub(&b_pub), true).unwrap();
        let k = ct.get_cipher_keys().unwrap();
        assert_eq!((k.get_iv(), k.get_ke(), k.get_km()), (expected.iv.clone(), expected.ke.clone(), expected.km.clone()));
        let parsed = ECIESCiphertext::from_bytes(&ct.to_bytes(), false).unwrap();
        assert!(parsed.get_cipher_keys().is_none());
    }
}

// ------------------------------------------------------------------------------------------------
// E15: src/encryption directly: AES-128-CBC against the reference, and inversion, all lengths 0..=100
// ------------------------------------------------------------------------------------------------
#[test]
fn e15_aes128_cbc_against_reference() {
    let mut rng = Prng(0xabcd_abcd_abcd_abcd);
    for len in 0..=100usize {
        let key = rng.bytes(16);
        let iv = rng.bytes(16);
        let msg = rng.bytes(len);
        let expected = RefAes128::new(&key).cbc_pkcs7(&iv, &msg);
        let got = AES::encrypt(&key, &iv, &msg, AESAlgorithms::AES128_CBC).unwrap();
        assert_eq!(hx(&got), hx(&expected), "len {}", len);
        assert_eq!(AES::decrypt(&key, &iv, &expected, AESAlgorithms::AES128_CBC).unwrap(), msg);
        // wrong sizes of key and iv are errors
        assert!(AES::encrypt(&key[..15], &iv, &msg, AESAlgorithms::AES128_CBC).is_err());
        assert!(AES::encrypt(&key, &iv[..15], &msg, AESAlgorithms::AES128_CBC).is_err());
        assert!(AES::decrypt(&key, &[iv.clone(), vec![0]].concat(), &expected, AESAlgorithms::AES128_CBC).is_err());
        // ragged input is an error
        assert!(AES::decrypt(&key, &iv, &expected[..expected.len() - 1], AESAlgorithms::AES128_CBC).is_err());
    }
    assert!(AES::decrypt(&[0; 16], &[0; 16], &[], AESAlgorithms::AES128_CBC).is_err());
}

// ------------------------------------------------------------------------------------------------
// E16: many random key pairs and messages, both modes, in parallel threads: bytes and round trip
// ------------------------------------------------------------------------------------------------
#[test]
fn e16_random_sweep() {
    let handles: Vec<_> = (0..8u64)
        .map(|t| {
            std::thread::spawn(move || {
                let mut rng = Prng(0x1357_9bdf_0000_0001 + t * 0x1_0000_0001);
                for i in 0..60 {
                    let a = rng.scalar();
                    let b = rng.scalar();
                    let a_pub = ec_mul(&a, &gen()).unwrap();
                    let b_pub = ec_mul(&b, &gen()).unwrap();
                    let len = (rng.next() % 700) as usize;
                    let msg = rng.bytes(len);
                    let exclude = i % 2 == 0;
                    let expected = ref_bie1(&msg, &a, &b_pub, exclude);
                    let ct = ECIES::encrypt(&msg, &lib_priv(&a), &spub(&b_pub), exclude).unwrap();
                    assert_eq!(hx(&ct.to_bytes()), hx(&expected));
                    assert_eq!(recv(&expected, !exclude, &lib_priv(&b), &spub(&a_pub)).unwrap(), msg);
                }
            })
        })
        .collect();
    for h in handles {
        h.join().unwrap();
    }
}

// ------------------------------------------------------------------------------------------------
// E17: embedded public key: not a point / other encodings / another sender's key
// ------------------------------------------------------------------------------------------------
#[test]
fn e17_embedded_key_variants() {
    let mut rng = Prng(0x2468_2468_2468_2468);
    let a = rng.scalar();
    let b = rng.scalar();
    let c = rng.scalar();
    let a_pub = ec_mul(&a, &gen()).unwrap();
    let b_pub = ec_mul(&b, &gen()).unwrap();
    let c_pub = ec_mul(&c, &gen()).unwrap();
    let msg = rng.bytes(20);
    let good = ref_bie1(&msg, &a, &b_pub, false);
    // tag bytes other than 02/03 in the embedded key
    for tag in 0..=255u8 {
        let mut bad = good.clone();
        bad[4] = tag;
        let r = catch_unwind(AssertUnwindSafe(|| recv(&bad, true, &lib_priv(&b), &spub(&a_pub)))).expect("panic");
        if tag == good[4] {
            assert_eq!(r.unwrap(), msg);
        } else {
            assert!(r.is_err(), "tag {:#x}", tag);
        }
    }
    // abscissa not on the curve / not below p
    for x in [vec![0u8; 32], vec![0xffu8; 32], be32(&fp()), be32(&BigUint::from(5u8))] {
        let mut bad = good.clone();
        bad[5..37].copy_from_slice(&x);
        let r = catch_unwind(AssertUnwindSafe(|| recv(&bad, true, &lib_priv(&b), &spub(&a_pub)))).expect("panic");
        assert!(r.is_err());
    }
    // another party's key spliced in (MAC not recomputed): rejected with either sender key
    let mut bad = good.clone();
    bad[4..37].copy_from_slice(&compress(&c_pub));
    assert!(recv(&bad, true, &lib_priv(&b), &spub(&a_pub)).is_err());
    assert!(recv(&bad, true, &lib_priv(&b), &spub(&c_pub)).is_err());
}

// ------------------------------------------------------------------------------------------------
// E18: recipient points that are not derived from a known scalar: small abscissas, abscissas next to p,
// both parities, compressed and uncompressed form, plus off-curve points refused. Bytes against the reference.
// ------------------------------------------------------------------------------------------------
fn lift_x(x: &BigUint, odd: bool) -> Option<(BigUint, BigUint)> {
    let p = fp();
    let rhs = (x * x * x + BigUint::from(7u8)) % &p;
    let y = rhs.modpow(&((&p + BigUint::from(1u8)) / BigUint::from(4u8)), &p);
    if &y * &y % &p != rhs {
        return None;
    }
    let y = if y.bit(0) == odd { y } else { &p - y };
    Some((x.clone(), y))
}

#[test]
fn e18_structured_recipient_points() {
    let mut rng = Prng(0x8888_1111_2222_3333);
    let p = fp();
    let mut xs: Vec<BigUint> = (1u32..40).map(BigUint::from).collect();
    for d in 1u32..40 {
        xs.push(&p - BigUint::from(d));
    }
    xs.push(BigUint::from(1u8) << 255usize);
    xs.push((BigUint::from(1u8) << 128usize) - BigUint::from(1u8));
    let mut on_curve = 0;
    for x in xs {
        for odd in [false, true] {
            let pt = match lift_x(&x, odd) {
                Some(pt) => pt,
                None => {
                    let mut enc = vec![if odd { 3u8 } else { 2u8 }];
                    enc.extend_from_slice(&be32(&x));
                    assert!(PublicKey::from_bytes(&enc).is_err(), "x={:x} is not on the curve but accepted", x);
                    continue;
                }
            };
            on_curve += 1;
            let a = rng.scalar();
            let msg = rng.bytes(29);
            for form in [compress(&pt), uncompressed(&pt)] {
                let pk = PublicKey::from_bytes(&form).unwrap();
                for exclude in [false, true] {
                    let ct = ECIES::encrypt(&msg, &lib_priv(&a), &pk, exclude).unwrap();
                    assert_eq!(hx(&ct.to_bytes()), hx(&ref_bie1(&msg, &a, &pt, exclude)), "x={:x}", x);
                }
            }
            // the same point with a wrong ordinate is no key at all
            let mut off = uncompressed(&pt);
            off[64] ^= 1;
            assert!(PublicKey::from_bytes(&off).is_err());
        }
    }
    println!("e18: {} structured recipient points", on_curve);
    assert!(on_curve > 40);
}

// ------------------------------------------------------------------------------------------------
// E19: random multi-bit / byte / length mutations of the serialised ciphertext: never accepted, never a panic
// ------------------------------------------------------------------------------------------------
#[test]
fn e19_random_mutations_rejected() {
    let mut rng = Prng(0x1212_3434_5656_7878);
    let mut n = 0;
    for round in 0..40 {
        let a = rng.scalar();
        let b = rng.scalar();
        let a_pub = ec_mul(&a, &gen()).unwrap();
        let b_pub = ec_mul(&b, &gen()).unwrap();
        let mlen = (rng.next() % 200) as usize;
        let msg = rng.bytes(mlen);
        let exclude = round % 2 == 0;
        let good = ref_bie1(&msg, &a, &b_pub, exclude);
        for _ in 0..250 {
            let mut bad = good.clone();
            match rng.next() % 6 {
                0 => {
                    for _ in 0..1 + rng.next() % 4 {
                        let i = (rng.next() as usize) % bad.len();
                        bad[i] ^= 1 << (rng.next() % 8);
                    }
                }
                1 => {
                    let i = (rng.next() as usize) % bad.len();
                    bad[i] = rng.next() as u8;
                }
                2 => {
                    let keep = (rng.next() as usize) % bad.len();
                    bad.truncate(keep);
                }
                3 => {
                    let elen = 1 + (rng.next() % 40) as usize;
                    let extra = rng.bytes(elen);
                    bad.extend_from_slice(&extra);
                }
                4 => {
                    let i = (rng.next() as usize) % bad.len();
                    let j = (rng.next() as usize) % bad.len();
                    bad.swap(i, j);
                }
                _ => {
                    let i = (rng.next() as usize) % bad.len();
                    bad.remove(i);
                }
            }
            if bad == good {
                continue;
            }
            n += 1;
            for has in [true, false] {
                let r = catch_unwind(AssertUnwindSafe(|| recv(&bad, has, &lib_priv(&b), &spub(&a_pub)))).expect("panic");
                assert!(r.is_err(), "mutated ciphertext accepted (has_pub_key {}): {} -> {}", has, hx(&good), hx(&bad));
            }
        }
    }
    println!("e19: {} mutated ciphertexts, all rejected", n);
}

// ------------------------------------------------------------------------------------------------
// E20: keys that come out of the BIP32 types (another construction route of PrivateKey / PublicKey,
// touched by recent repairs): xpriv-derived scalars and xpub-derived points as sender and recipient
// ------------------------------------------------------------------------------------------------
#[test]
fn e20_keys_from_extended_keys() {
    let mut rng = Prng(0x9999_8888_7777_6666);
    let xa = ExtendedPrivateKey::from_seed(&rng.bytes(32)).unwrap();
    let xb = ExtendedPrivateKey::from_seed(&rng.bytes(64)).unwrap();
    let xb_pub = ExtendedPublicKey::from_xpriv(&xb);
    // an extended public key built from the uncompressed form of the same point
    let xb_pub_unc = ExtendedPublicKey::new(&xb.get_public_key().to_decompressed().unwrap(), &xb.get_chain_code(), &0, &0, None);
    for index in [0u32, 1, 2, 77, 0x7fff_ffff] {
        let a_key = xa.derive(index).unwrap().get_private_key();
        let b_key = xb.derive(index).unwrap().get_private_key();
        let a = BigUint::from_bytes_be(&a_key.to_bytes());
        let b = BigUint::from_bytes_be(&b_key.to_bytes());
        let a_pub = ec_mul(&a, &gen()).unwrap();
        let b_pub = ec_mul(&b, &gen()).unwrap();
        let recipients = vec![
            xb.derive(index).unwrap().get_public_key(),
            xb_pub.derive(index).unwrap().get_public_key(),
            xb_pub_unc.derive(index).unwrap().get_public_key(),
            ExtendedPublicKey::from_string(&xb_pub.derive(index).unwrap().to_string().unwrap()).unwrap().get_public_key(),
        ];
        let msg = rng.bytes(50);
        for exclude in [false, true] {
            let expected = ref_bie1(&msg, &a, &b_pub, exclude);
            for (i, r) in recipients.iter().enumerate() {
                let ct = ECIES::encrypt(&msg, &a_key, r, exclude).unwrap();
                assert_eq!(hx(&ct.to_bytes()), hx(&expected), "index {} recipient route {}", index, i);
            }
            let senders = vec![xa.derive(index).unwrap().get_public_key(), ExtendedPublicKey::from_xpriv(&xa).derive(index).unwrap().get_public_key()];
            for s in &senders {
                assert_eq!(s.to_bytes().unwrap(), compress(&a_pub));
                assert_eq!(recv(&expected, !exclude, &b_key, s).unwrap(), msg);
            }
        }
    }
}
