// C11 hunt: ECIES (BIE1) — decrypt inverts encrypt, standard format, tampering rejected.
// Oracles: (a) VECTORS generated outside Rust by pure-python secp256k1 + hashlib + `openssl enc -aes-128-cbc`
//          (b) an in-file reference: secp256k1 over num-bigint, hand-written AES-128 (S-box computed from GF(2^8)),
//              hand-written HMAC over sha2::Sha256, sha2::Sha512.
#![allow(clippy::all)]
use bsv::*;
use num_bigint::BigUint;
use sha2::{Digest, Sha256, Sha512};
use std::panic::{catch_unwind, AssertUnwindSafe};

// ---------------------------------------------------------------- reference: secp256k1
fn hexn(s: &str) -> BigUint {
    BigUint::parse_bytes(s.as_bytes(), 16).unwrap()
}
fn p() -> BigUint {
    hexn("FFFFFFFFFFFFFFFFFFFFFFFFFFFFFFFFFFFFFFFFFFFFFFFFFFFFFFFEFFFFFC2F")
}
fn n() -> BigUint {
    hexn("FFFFFFFFFFFFFFFFFFFFFFFFFFFFFFFEBAAEDCE6AF48A03BBFD25E8CD0364141")
}
type Pt = Option<(BigUint, BigUint)>;
fn g() -> Pt {
    Some((
        hexn("79BE667EF9DCBBAC55A06295CE870B07029BFCDB2DCE28D959F2815B16F81798"),
        hexn("483ADA7726A3C4655DA4FBFC0E1108A8FD17B448A68554199C47D08FFB10D4B8"),
    ))
}
fn sub(a: &BigUint, b: &BigUint) -> BigUint {
    let p = p();
    ((a % &p) + &p - (b % &p)) % &p
}
fn inv(a: &BigUint) -> BigUint {
    let p = p();
    a.modpow(&(&p - 2u32), &p)
}
fn add(a: &Pt, b: &Pt) -> Pt {
    let p = p();
    let (a, b) = match (a, b) {
        (None, _) => return b.clone(),
        (_, None) => return a.clone(),
        (Some(a), Some(b)) => (a, b),
    };
    let l = if a.0 == b.0 {
        if ((&a.1 + &b.1) % &p) == BigUint::from(0u32) {
            return None;
        }
        (BigUint::from(3u32) * &a.0 * &a.0 % &p) * inv(&(BigUint::from(2u32) * &a.1 % &p)) % &p
    } else {
        sub(&b.1, &a.1) * inv(&sub(&b.0, &a.0)) % &p
    };
    let x = sub(&sub(&(&l * &l % &p), &a.0), &b.0);
    let y = sub(&(&l * sub(&a.0, &x) % &p), &a.1);
    Some((x, y))
}
fn mul(k: &BigUint, pt: &Pt) -> Pt {
    let mut r: Pt = None;
    let mut q = pt.clone();
    for i in 0..k.bits() {
        if k.bit(i) {
            r = add(&r, &q);
        }
        q = add(&q, &q);
    }
    r
}
fn be32(v: &BigUint) -> Vec<u8> {
    let b = v.to_bytes_be();
    let mut out = vec![0u8; 32 - b.len()];
    out.extend_from_slice(&b);
    out
}
fn comp(pt: &Pt) -> Vec<u8> {
    let (x, y) = pt.as_ref().unwrap();
    let mut out = vec![if y.bit(0) { 3u8 } else { 2u8 }];
    out.extend_from_slice(&be32(x));
    out
}
fn uncomp(pt: &Pt) -> Vec<u8> {
    let (x, y) = pt.as_ref().unwrap();
    let mut out = vec![4u8];
    out.extend_from_slice(&be32(x));
    out.extend_from_slice(&be32(y));
    out
}

// ---------------------------------------------------------------- reference: AES-128 (encrypt only), CBC, PKCS7
fn gmul(mut a: u8, mut b: u8) -> u8 {
    let mut r = 0u8;
    while b != 0 {
        if b & 1 != 0 {
            r ^= a;
        }
        let hi = a & 0x80;
        a <<= 1;
        if hi != 0 {
            a ^= 0x1b;
        }
        b >>= 1;
    }
    r
}
fn sbox() -> [u8; 256] {
    let mut s = [0u8; 256];
    for i in 0..256usize {
        let mut iv = 0u8;
        if i != 0 {
            for j in 1..256usize {
                if gmul(i as u8, j as u8) == 1 {
                    iv = j as u8;
                    break;
                }
            }
        }
        s[i] = iv ^ iv.rotate_left(1) ^ iv.rotate_left(2) ^ iv.rotate_left(3) ^ iv.rotate_left(4) ^ 0x63;
    }
    s
}
struct RefAes {
    rk: [[u8; 16]; 11],
    s: [u8; 256],
}
impl RefAes {
    fn new(key: &[u8]) -> RefAes {
        assert_eq!(key.len(), 16);
        let s = sbox();
        let mut w = [[0u8; 4]; 44];
        for i in 0..4 {
            w[i].copy_from_slice(&key[4 * i..4 * i + 4]);
        }
        let mut rcon = 1u8;
        for i in 4..44 {
            let mut t = w[i - 1];
            if i % 4 == 0 {
                t = [s[t[1] as usize] ^ rcon, s[t[2] as usize], s[t[3] as usize], s[t[0] as usize]];
                rcon = gmul(rcon, 2);
            }
            for j in 0..4 {
                w[i][j] = w[i - 4][j] ^ t[j];
            }
        }
        let mut rk = [[0u8; 16]; 11];
        for r in 0..11 {
            for c in 0..4 {
                rk[r][4 * c..4 * c + 4].copy_from_slice(&w[4 * r + c]);
            }
        }
        RefAes { rk, s }
    }
    fn block(&self, inp: &[u8]) -> [u8; 16] {
        let mut st = [0u8; 16];
        for i in 0..16 {
            st[i] = inp[i] ^ self.rk[0][i];
        }
        for round in 1..=10 {
            let mut t = [0u8; 16];
            for c in 0..4 {
                for r in 0..4 {
                    t[4 * c + r] = self.s[st[4 * ((c + r) % 4) + r] as usize];
                }
            }
            if round != 10 {
                let mut m = [0u8; 16];
                for c in 0..4 {
                    let a = &t[4 * c..4 * c + 4];
                    m[4 * c] = gmul(a[0], 2) ^ gmul(a[1], 3) ^ a[2] ^ a[3];
                    m[4 * c + 1] = a[0] ^ gmul(a[1], 2) ^ gmul(a[2], 3) ^ a[3];
                    m[4 * c + 2] = a[0] ^ a[1] ^ gmul(a[2], 2) ^ gmul(a[3], 3);
                    m[4 * c + 3] = gmul(a[0], 3) ^ a[1] ^ a[2] ^ gmul(a[3], 2);
                }
                t = m;
            }
            for i in 0..16 {
                st[i] = t[i] ^ self.rk[round][i];
            }
        }
        st
    }
}
fn ref_cbc_pkcs7(key: &[u8], iv: &[u8], msg: &[u8]) -> Vec<u8> {
    let aes = RefAes::new(key);
    let pad = 16 - msg.len() % 16;
    let mut data = msg.to_vec();
    data.extend(std::iter::repeat(pad as u8).take(pad));
    let mut prev: Vec<u8> = iv.to_vec();
    let mut out = vec![];
    for chunk in data.chunks(16) {
        let x: Vec<u8> = chunk.iter().zip(prev.iter()).map(|(a, b)| a ^ b).collect();
        let c = aes.block(&x);
        out.extend_from_slice(&c);
        prev = c.to_vec();
    }
    out
}

// ---------------------------------------------------------------- reference: HMAC-SHA256, BIE1
fn ref_hmac_sha256(key: &[u8], data: &[u8]) -> Vec<u8> {
    let mut k = if key.len() > 64 { Sha256::digest(key).to_vec() } else { key.to_vec() };
    k.resize(64, 0);
    let mut inner: Vec<u8> = k.iter().map(|b| b ^ 0x36).collect();
    inner.extend_from_slice(data);
    let ih = Sha256::digest(&inner);
    let mut outer: Vec<u8> = k.iter().map(|b| b ^ 0x5c).collect();
    outer.extend_from_slice(&ih);
    Sha256::digest(&outer).to_vec()
}
struct RefKeys {
    iv: Vec<u8>,
    ke: Vec<u8>,
    km: Vec<u8>,
}
fn ref_keys(d: &BigUint, other_pub: &Pt) -> RefKeys {
    let s = mul(d, other_pub);
    let h = Sha512::digest(&comp(&s)).to_vec();
    RefKeys { iv: h[0..16].to_vec(), ke: h[16..32].to_vec(), km: h[32..64].to_vec() }
}
/// BIE1 as Electrum / bsv.js electrumEncrypt build it.
fn ref_bie1(d_sender: &BigUint, recipient_pub: &Pt, msg: &[u8], include: bool) -> Vec<u8> {
    let k = ref_keys(d_sender, recipient_pub);
    let ct = ref_cbc_pkcs7(&k.ke, &k.iv, msg);
    let mut body = b"BIE1".to_vec();
    if include {
        body.extend_from_slice(&comp(&mul(d_sender, &g())));
    }
    body.extend_from_slice(&ct);
    let mac = ref_hmac_sha256(&k.km, &body);
    body.extend_from_slice(&mac);
    body
}

// ---------------------------------------------------------------- helpers
fn msg_of(len: usize, seed: u8) -> Vec<u8> {
    let mut out = vec![];
    let mut i = 0u32;
    while out.len() < len {
        let mut pre = vec![seed];
        pre.extend_from_slice(&i.to_be_bytes());
        out.extend_from_slice(&Sha256::digest(&pre));
        i += 1;
    }
    out.truncate(len);
    out
}
fn scalar_of(tag: &str) -> BigUint {
    let h = Sha256::digest(tag.as_bytes());
    let v = BigUint::from_bytes_be(&h) % (n() - 1u32) + 1u32;
    v
}
fn sk(d: &BigUint) -> PrivateKey {
    PrivateKey::from_bytes(&be32(d)).unwrap()
}
fn pk_of(d: &BigUint) -> PublicKey {
    PublicKey::from_bytes(&comp(&mul(d, &g()))).unwrap()
}
/// Full receive path: parse, then decrypt. Err if either stage errs; panics are turned into a test failure text.
fn receive(bytes: &[u8], has_pk: bool, recipient: &PrivateKey, sender: &PublicKey) -> Result<Vec<u8>, String> {
    let r = catch_unwind(AssertUnwindSafe(|| {
        let ct = ECIESCiphertext::from_bytes(bytes, has_pk).map_err(|e| format!("parse: {}", e))?;
        ECIES::decrypt(&ct, recipient, sender).map_err(|e| format!("decrypt: {}", e))
    }));
    match r {
        Ok(v) => v,
        Err(_) => panic!("PANIC inside the library for input {}", hex::encode(bytes)),
    }
}

// ================================================================ sanity of the oracles themselves
#[test]
fn e00_reference_primitives_match_published_vectors() {
    // FIPS-197 C.1
    let key = hex::decode("000102030405060708090a0b0c0d0e0f").unwrap();
    let pt = hex::decode("00112233445566778899aabbccddeeff").unwrap();
    assert_eq!(hex::encode(RefAes::new(&key).block(&pt)), "69c4e0d86a7b0430d8cdb78070b4c55a");
    // SP800-38A F.2.1 CBC-AES128.Encrypt
    let key = hex::decode("2b7e151628aed2a6abf7158809cf4f3c").unwrap();
    let iv = hex::decode("000102030405060708090a0b0c0d0e0f").unwrap();
    let pt = hex::decode("6bc1bee22e409f96e93d7e117393172aae2d8a571e03ac9c9eb76fac45af8e5130c81c46a35ce411e5fbc1191a0a52eff69f2445df4f9b17ad2b417be66c3710").unwrap();
    let ct = ref_cbc_pkcs7(&key, &iv, &pt);
    assert_eq!(
        hex::encode(&ct[..64]),
        "7649abac8119b246cee98e9b12e9197d5086cb9b507219ee95db113a917678b273bed6b8e3c1743b7116e69e222295163ff1caa1681fac09120eca307586e1a7"
    );
    assert_eq!(ct.len(), 80);
    // RFC 4231 test case 2
    assert_eq!(hex::encode(ref_hmac_sha256(b"Jefe", b"what do ya want for nothing?")), "5bdcc146bf60754e6a042426089575c75a003f089d2739839dec58b964ec3843");
    // 2G
    assert_eq!(hex::encode(comp(&mul(&BigUint::from(2u32), &g()))), "02c6047f9441ed7d6d3045406e95c07cd85c778e4b8cef3ca7abac09b95c709ee5");
    // (n-1)G = -G
    assert_eq!(hex::encode(comp(&mul(&(n() - 1u32), &g()))), "0379be667ef9dcbbac55a06295ce870b07029bfcdb2dce28d959f2815b16f81798");
    assert!(mul(&n(), &g()).is_none());
}

// ================================================================ E1: vectors produced by python + openssl
#[test]
fn e01_encrypt_matches_python_openssl_vectors_and_decrypts() {
    let mut count = 0;
    for (a, b, len, seed, include, expect) in VECTORS {
        let alice = PrivateKey::from_hex(a).unwrap();
        let bob = PrivateKey::from_hex(b).unwrap();
        let msg = msg_of(*len, *seed);
        let ct = ECIES::encrypt(&msg, &alice, &bob.to_public_key().unwrap(), !*include).unwrap();
        let bytes = ct.to_bytes();
        let got = if *len <= 64 { hex::encode(&bytes) } else { hex::encode(Sha256::digest(&bytes)) };
        assert_eq!(&got, expect, "a={} b={} len={} include={}", a, b, len, include);
        // direct and after serialise + parse
        assert_eq!(ECIES::decrypt(&ct, &bob, &alice.to_public_key().unwrap()).unwrap(), msg);
        assert_eq!(receive(&bytes, *include, &bob, &alice.to_public_key().unwrap()).unwrap(), msg);
        count += 1;
    }
    assert!(count > 100);
}

// ================================================================ E2: every length 0..=100, many keys, both modes, in-file reference
#[test]
fn e02_every_length_and_mode_byte_identical_and_round_trips() {
    for len in 0..=100usize {
        let a = scalar_of(&format!("a{}", len % 7));
        let b = scalar_of(&format!("b{}", len % 5));
        let (alice, bob) = (sk(&a), sk(&b));
        let (alice_pub, bob_pub) = (pk_of(&a), pk_of(&b));
        let bob_pt = mul(&b, &g());
        let msg = msg_of(len, len as u8);
        for include in [true, false] {
            let ct = ECIES::encrypt(&msg, &alice, &bob_pub, !include).unwrap();
            let bytes = ct.to_bytes();
            let expect = ref_bie1(&a, &bob_pt, &msg, include);
            assert_eq!(hex::encode(&bytes), hex::encode(&expect), "len {} include {}", len, include);
            assert_eq!(bytes.len(), 4 + if include { 33 } else { 0 } + (len / 16 + 1) * 16 + 32);
            // accessors agree with the layout
            let off = if include { 37 } else { 4 };
            assert_eq!(ct.get_ciphertext(), expect[off..expect.len() - 32].to_vec());
            assert_eq!(ct.get_hmac(), expect[expect.len() - 32..].to_vec());
            if include {
                assert_eq!(ct.extract_public_key().unwrap().to_bytes().unwrap(), expect[4..37].to_vec());
            } else {
                assert!(ct.extract_public_key().is_err());
            }
            // decrypt: object, parsed, convenience methods, re-serialised parse
            assert_eq!(ECIES::decrypt(&ct, &bob, &alice_pub).unwrap(), msg);
            let parsed = ECIESCiphertext::from_bytes(&bytes, include).unwrap();
            assert_eq!(parsed.to_bytes(), bytes);
            assert_eq!(bob.decrypt_message(&parsed, &alice_pub).unwrap(), msg);
            assert_eq!(ECIES::decrypt(&parsed, &bob, &alice_pub).unwrap(), msg);
            if include {
                assert_eq!(ECIES::decrypt(&parsed, &bob, &parsed.extract_public_key().unwrap()).unwrap(), msg);
            }
        }
    }
}

// ================================================================ E3: every single-bit flip of body, embedded key, MAC
fn flip_sweep(include: bool, len: usize, from: usize) {
    let a = scalar_of("flip-a");
    let b = scalar_of("flip-b");
    let (bob, alice_pub, bob_pub) = (sk(&b), pk_of(&a), pk_of(&b));
    let msg = msg_of(len, 0x5a);
    let bytes = ECIES::encrypt(&msg, &sk(&a), &bob_pub, !include).unwrap().to_bytes();
    assert_eq!(receive(&bytes, include, &bob, &alice_pub).unwrap(), msg);
    let mut bad = vec![];
    for pos in from..bytes.len() {
        for bit in 0..8 {
            let mut t = bytes.clone();
            t[pos] ^= 1 << bit;
            // recipient decrypts with the known sender key
            if let Ok(plain) = receive(&t, include, &bob, &alice_pub) {
                bad.push((pos, bit, plain == msg));
            }
            // recipient decrypts with the key embedded in the (tampered) message
            if include {
                if let Ok(parsed) = ECIESCiphertext::from_bytes(&t, true) {
                    let embedded = parsed.extract_public_key().unwrap();
                    if let Ok(plain) = ECIES::decrypt(&parsed, &bob, &embedded) {
                        bad.push((pos, bit, plain == msg));
                    }
                }
            }
        }
    }
    assert!(bad.is_empty(), "include={} len={}: accepted after bit flip (byte, bit, same plaintext): {:?}", include, len, bad);
}
#[test]
fn e03_every_bit_flip_of_key_body_and_mac_is_rejected() {
    for len in [0usize, 1, 15, 16, 17, 40, 64] {
        flip_sweep(true, len, 4);
        flip_sweep(false, len, 4);
    }
}

// ================================================================ E17: the same sweep over the four magic bytes
#[test]
fn violation_bit_flip_in_magic_bytes_is_accepted() {
    // Electrum: `if magic_found != magic: raise Exception('invalid ciphertext: invalid magic bytes')`
    // bsv.js electrumDecrypt: `if (!magic.equals(Buffer.from('BIE1'))) throw new Error('Invalid Magic')`
    let a = scalar_of("magic-a");
    let b = scalar_of("magic-b");
    let (bob, alice_pub, bob_pub) = (sk(&b), pk_of(&a), pk_of(&b));
    let msg = b"pay 1 BSV to Carol".to_vec();
    let mut accepted = vec![];
    for include in [true, false] {
        let bytes = ECIES::encrypt(&msg, &sk(&a), &bob_pub, !include).unwrap().to_bytes();
        assert_eq!(&bytes[0..4], b"BIE1");
        for pos in 0..4 {
            for bit in 0..8 {
                let mut t = bytes.clone();
                t[pos] ^= 1 << bit;
                if let Ok(plain) = receive(&t, include, &bob, &alice_pub) {
                    accepted.push((include, pos, bit, String::from_utf8_lossy(&plain).to_string()));
                }
            }
        }
    }
    assert!(accepted.is_empty(), "{} of 64 corrupted-magic ciphertexts were decrypted to plaintext, e.g. {:?}", accepted.len(), &accepted[..accepted.len().min(3)]);
}
#[test]
fn violation_foreign_magic_parses_and_reserialises_as_bie1() {
    // A buffer that is not BIE1 at all ("BIE2", or zeros) must not come out of parse -> serialise as a BIE1 message.
    let a = scalar_of("magic-a");
    let b = scalar_of("magic-b");
    let bytes = ECIES::encrypt(b"hello", &sk(&a), &pk_of(&b), false).unwrap().to_bytes();
    let mut t = bytes.clone();
    t[0..4].copy_from_slice(b"\0\0\0\0");
    match ECIESCiphertext::from_bytes(&t, true) {
        Err(_) => {}
        Ok(parsed) => {
            let again = parsed.to_bytes();
            let plain = ECIES::decrypt(&parsed, &sk(&b), &pk_of(&a));
            panic!(
                "buffer starting {} was accepted; re-serialised it starts {} (parse/serialise is not the identity); decrypt -> {:?}",
                hex::encode(&t[0..4]),
                hex::encode(&again[0..4]),
                plain.map(|p| String::from_utf8_lossy(&p).to_string()).map_err(|e| e.to_string())
            );
        }
    }
}

// ================================================================ E4: wrong keys
#[test]
fn e04_wrong_keys_never_give_plaintext() {
    let a = scalar_of("wk-a");
    let b = scalar_of("wk-b");
    let c = scalar_of("wk-c");
    let msg = msg_of(45, 9);
    for include in [true, false] {
        let bytes = ECIES::encrypt(&msg, &sk(&a), &pk_of(&b), !include).unwrap().to_bytes();
        assert_eq!(receive(&bytes, include, &sk(&b), &pk_of(&a)).unwrap(), msg);
        // wrong recipient key
        assert!(receive(&bytes, include, &sk(&c), &pk_of(&a)).is_err());
        // wrong sender key
        assert!(receive(&bytes, include, &sk(&b), &pk_of(&c)).is_err());
        // negated recipient key: same x of the ECDH point, other parity
        assert!(receive(&bytes, include, &sk(&(n() - &b)), &pk_of(&a)).is_err());
        // negated sender key
        assert!(receive(&bytes, include, &sk(&b), &pk_of(&(n() - &a))).is_err());
        // Observation, not a violation: (-b, -A) and (a, B) yield the very same ECDH point abG, hence the same IV/keys.
        // They are "matching keys" of static-static BIE1 (Electrum behaves the same); the reference agrees:
        let twin = ref_keys(&(n() - &b), &mul(&(n() - &a), &g()));
        assert_eq!(twin.km, ref_keys(&a, &mul(&b, &g())).km);
        assert_eq!(receive(&bytes, include, &sk(&(n() - &b)), &pk_of(&(n() - &a))).unwrap(), msg);
        assert_eq!(receive(&bytes, include, &sk(&a), &pk_of(&b)).unwrap(), msg);
        // neighbours of the right keys
        for delta in [1u32, 2, 3] {
            assert!(receive(&bytes, include, &sk(&(&b + delta)), &pk_of(&a)).is_err());
            assert!(receive(&bytes, include, &sk(&b), &pk_of(&(&a + delta))).is_err());
        }
        // the recipient's own public key supplied as "sender"
        assert!(receive(&bytes, include, &sk(&b), &pk_of(&b)).is_err());
        // generator as sender
        assert!(receive(&bytes, include, &sk(&b), &pk_of(&BigUint::from(1u32))).is_err());
    }
}

// ================================================================ E5: inclusion mode mismatch while parsing
#[test]
fn e05_mode_mismatch_at_parse_never_gives_plaintext() {
    let a = scalar_of("mm-a");
    let b = scalar_of("mm-b");
    let mut parsed_as_key = 0;
    for i in 0..1500u32 {
        let len = (i % 70) as usize;
        let msg = msg_of(len, (i % 251) as u8 ^ (i >> 8) as u8);
        // has key, parsed as without
        if i < 100 {
            let bytes = ECIES::encrypt(&msg, &sk(&a), &pk_of(&b), false).unwrap().to_bytes();
            assert!(receive(&bytes, false, &sk(&b), &pk_of(&a)).is_err(), "len {}", len);
        }
        // without key, parsed as with: about 1 in 256 bodies start with a valid compressed point
        let bytes = ECIES::encrypt(&msg, &sk(&a), &pk_of(&b), true).unwrap().to_bytes();
        if ECIESCiphertext::from_bytes(&bytes, true).is_ok() {
            parsed_as_key += 1;
        }
        let r = receive(&bytes, true, &sk(&b), &pk_of(&a));
        assert!(r.is_err(), "len {} -> {:?}", len, r);
        if let Ok(parsed) = ECIESCiphertext::from_bytes(&bytes, true) {
            let fake = parsed.extract_public_key().unwrap();
            assert!(ECIES::decrypt(&parsed, &sk(&b), &fake).is_err());
        }
    }
    println!("e05: {} of 1500 key-less ciphertexts parsed with has_pub_key=true (all rejected at decrypt)", parsed_as_key);
}

// ================================================================ E6: uncompressed key forms
#[test]
fn e06_uncompressed_key_forms_give_the_same_standard_bytes() {
    let a = scalar_of("unc-a");
    let b = scalar_of("unc-b");
    let msg = msg_of(33, 1);
    let alice_u = sk(&a).compress_public_key(false);
    assert_eq!(alice_u.to_public_key().unwrap().to_bytes().unwrap(), uncomp(&mul(&a, &g())));
    assert_eq!(PublicKey::from_private_key(&alice_u).to_bytes().unwrap(), uncomp(&mul(&a, &g())));
    assert_eq!(
        ECIES::encrypt(&msg, &sk(&b), &PublicKey::from_private_key(&alice_u), false).unwrap().to_bytes(),
        ref_bie1(&b, &mul(&a, &g()), &msg, true)
    );
    let bob_pub_u = PublicKey::from_bytes(&uncomp(&mul(&b, &g()))).unwrap();
    let alice_pub_u = PublicKey::from_bytes(&uncomp(&mul(&a, &g()))).unwrap();
    assert!(!bob_pub_u.is_compressed());
    for include in [true, false] {
        let expect = ref_bie1(&a, &mul(&b, &g()), &msg, include);
        for (s, r) in [(&alice_u, &bob_pub_u), (&alice_u, &pk_of(&b)), (&sk(&a), &bob_pub_u)] {
            let ct = ECIES::encrypt(&msg, s, r, !include).unwrap();
            assert_eq!(hex::encode(ct.to_bytes()), hex::encode(&expect));
            if include {
                assert_eq!(ct.extract_public_key().unwrap().to_bytes().unwrap().len(), 33);
            }
        }
        let bob_u = sk(&b).compress_public_key(false);
        assert_eq!(receive(&expect, include, &bob_u, &alice_pub_u).unwrap(), msg);
        assert_eq!(receive(&expect, include, &sk(&b), &alice_pub_u).unwrap(), msg);
        assert_eq!(receive(&expect, include, &bob_u, &pk_of(&a)).unwrap(), msg);
    }
    // WIF-built uncompressed sender
    let wif = alice_u.to_wif().unwrap();
    let from_wif = PrivateKey::from_wif(&wif).unwrap();
    let ct = from_wif.encrypt_message(&msg).unwrap();
    assert_eq!(hex::encode(ct.to_bytes()), hex::encode(ref_bie1(&a, &mul(&a, &g()), &msg, true)));
    assert_eq!(from_wif.decrypt_message(&ct, &from_wif.to_public_key().unwrap()).unwrap(), msg);
}

// ================================================================ E7: edge scalars and self-encryption
#[test]
fn e07_edge_scalars_and_send_to_self() {
    let one = BigUint::from(1u32);
    let nm1 = n() - 1u32;
    let half = (n() + 1u32) / 2u32;
    let cases = [(one.clone(), one.clone()), (one.clone(), nm1.clone()), (nm1.clone(), nm1.clone()), (half.clone(), BigUint::from(2u32)), (half.clone(), half.clone())];
    for (a, b) in cases.iter() {
        for len in [0usize, 16, 31] {
            let msg = msg_of(len, 3);
            for include in [true, false] {
                let bytes = ECIES::encrypt(&msg, &sk(a), &pk_of(b), !include).unwrap().to_bytes();
                assert_eq!(hex::encode(&bytes), hex::encode(ref_bie1(a, &mul(b, &g()), &msg, include)));
                assert_eq!(receive(&bytes, include, &sk(b), &pk_of(a)).unwrap(), msg);
            }
        }
    }
    // convenience: PrivateKey::encrypt_message (to self, key included), PublicKey::encrypt_message (key included)
    let a = scalar_of("self");
    let b = scalar_of("other");
    let msg = msg_of(77, 4);
    assert_eq!(sk(&a).encrypt_message(&msg).unwrap().to_bytes(), ref_bie1(&a, &mul(&a, &g()), &msg, true));
    assert_eq!(pk_of(&b).encrypt_message(&msg, &sk(&a)).unwrap().to_bytes(), ref_bie1(&a, &mul(&b, &g()), &msg, true));
    // invalid scalars are not keys at all
    assert!(PrivateKey::from_bytes(&[0u8; 32]).is_err());
    assert!(PrivateKey::from_bytes(&be32(&n())).is_err());
}

// ================================================================ E8: truncation, extension, minimum sizes
#[test]
fn e08_truncated_and_extended_ciphertexts_are_rejected_without_panic() {
    let a = scalar_of("tr-a");
    let b = scalar_of("tr-b");
    let msg = msg_of(40, 8);
    for include in [true, false] {
        let bytes = ECIES::encrypt(&msg, &sk(&a), &pk_of(&b), !include).unwrap().to_bytes();
        for cut in 0..bytes.len() {
            let r = receive(&bytes[..cut], include, &sk(&b), &pk_of(&a));
            assert!(r.is_err(), "prefix of {} bytes accepted", cut);
            let r = receive(&bytes[bytes.len() - cut..], include, &sk(&b), &pk_of(&a));
            assert!(r.is_err(), "suffix of {} bytes accepted", cut);
        }
        let off = if include { 37 } else { 4 };
        // drop first / last / middle block of the body, duplicate a block, append a block, swap two blocks
        let body = bytes[off..bytes.len() - 32].to_vec();
        assert_eq!(body.len(), 48);
        let variants: Vec<Vec<u8>> = vec![
            body[16..].to_vec(),
            body[..32].to_vec(),
            [&body[..16], &body[32..]].concat(),
            [&body[..], &body[32..]].concat(),
            [&body[..], &[0u8; 16][..]].concat(),
            [&body[16..32], &body[..16], &body[32..]].concat(),
            vec![],
        ];
        for v in variants {
            let t = [&bytes[..off], &v[..], &bytes[bytes.len() - 32..]].concat();
            assert!(receive(&t, include, &sk(&b), &pk_of(&a)).is_err());
        }
        // trailing / leading garbage
        assert!(receive(&[&bytes[..], &[0u8][..]].concat(), include, &sk(&b), &pk_of(&a)).is_err());
        assert!(receive(&[&[0u8][..], &bytes[..]].concat(), include, &sk(&b), &pk_of(&a)).is_err());
    }
    // nothing but magic + key + mac / magic + mac
    for l in 0..80 {
        let _ = receive(&vec![0x42u8; l], true, &sk(&b), &pk_of(&a)).unwrap_err();
        let _ = receive(&vec![0x42u8; l], false, &sk(&b), &pk_of(&a)).unwrap_err();
    }
}

// ================================================================ E9: derived keys
#[test]
fn e09_derived_cipher_keys_match_reference_and_are_symmetric() {
    for i in 0..12 {
        let a = scalar_of(&format!("dk-a{}", i));
        let b = scalar_of(&format!("dk-b{}", i));
        let r = ref_keys(&a, &mul(&b, &g()));
        let k1 = ECIES::derive_cipher_keys(&sk(&a), &pk_of(&b)).unwrap();
        let k2 = ECIES::derive_cipher_keys(&sk(&b), &pk_of(&a)).unwrap();
        let k3 = ECIES::derive_cipher_keys(&sk(&b), &PublicKey::from_bytes(&uncomp(&mul(&a, &g()))).unwrap()).unwrap();
        for k in [&k1, &k2, &k3] {
            assert_eq!(k.get_iv(), r.iv);
            assert_eq!(k.get_ke(), r.ke);
            assert_eq!(k.get_km(), r.km);
        }
        // cached keys on a fresh ciphertext are the same ones; a parsed one carries none
        let ct = ECIES::encrypt(b"x", &sk(&a), &pk_of(&b), false).unwrap();
        let cached = ct.get_cipher_keys().unwrap();
        assert_eq!((cached.get_iv(), cached.get_ke(), cached.get_km()), (r.iv.clone(), r.ke.clone(), r.km.clone()));
        assert!(ECIESCiphertext::from_bytes(&ct.to_bytes(), true).unwrap().get_cipher_keys().is_none());
    }
}

// ================================================================ E10: hash primitives
#[test]
fn e10_sha512_and_hmac_sha256_against_published_vectors_and_reference() {
    assert_eq!(
        Hash::sha_512(b"abc").to_hex(),
        "ddaf35a193617abacc417349ae20413112e6fa4e89a97ea20a9eeee64b55d39a2192992a274fc1a836ba3c23a3feebbd454d4423643ce80e2a9ac94fa54ca49f"
    );
    assert_eq!(
        Hash::sha_512(b"").to_hex(),
        "cf83e1357eefb8bdf1542850d66d8007d620e4050b5715dc83f4a921d36ce9ce47d0d13c5d85f2b0ff8318d2877eec2f63b931bd47417a81a538327af927da3e"
    );
    // RFC 4231 #1, #2, #6 (131-byte key)
    assert_eq!(Hash::sha_256_hmac(b"Hi There", &[0x0b; 20]).to_hex(), "b0344c61d8db38535ca8afceaf0bf12b881dc200c9833da726e9376c2e32cff7");
    assert_eq!(Hash::sha_256_hmac(b"what do ya want for nothing?", b"Jefe").to_hex(), "5bdcc146bf60754e6a042426089575c75a003f089d2739839dec58b964ec3843");
    assert_eq!(
        Hash::sha_256_hmac(b"Test Using Larger Than Block-Size Key - Hash Key First", &[0xaa; 131]).to_hex(),
        "60e431591ee0b67f0d8a26aacbf5b77f8e0bc6213728c5140546040f0ee37f54"
    );
    for klen in [0usize, 1, 31, 32, 63, 64, 65, 200] {
        for dlen in [0usize, 1, 55, 56, 63, 64, 65, 1000] {
            let k = msg_of(klen, 1);
            let d = msg_of(dlen, 2);
            assert_eq!(Hash::sha_256_hmac(&d, &k).to_bytes(), ref_hmac_sha256(&k, &d), "klen {} dlen {}", klen, dlen);
        }
    }
}

// ================================================================ E11: AES-128-CBC as used by ECIES
#[test]
fn e11_aes128_cbc_matches_reference_and_rejects_bad_padding() {
    let key = hex::decode("2b7e151628aed2a6abf7158809cf4f3c").unwrap();
    let iv = hex::decode("000102030405060708090a0b0c0d0e0f").unwrap();
    for len in 0..=70usize {
        let m = msg_of(len, 7);
        let ct = AES::encrypt(&key, &iv, &m, AESAlgorithms::AES128_CBC).unwrap();
        assert_eq!(ct, ref_cbc_pkcs7(&key, &iv, &m));
        assert_eq!(AES::decrypt(&key, &iv, &ct, AESAlgorithms::AES128_CBC).unwrap(), m);
    }
    // hand-made final blocks with illegal padding: encrypt raw blocks with the reference (strip its own padding block)
    let raw = |blocks: &[u8]| -> Vec<u8> {
        let full = ref_cbc_pkcs7(&key, &iv, blocks);
        full[..blocks.len()].to_vec()
    };
    let mut b = [0x41u8; 16];
    b[15] = 0; // pad 0
    assert!(AES::decrypt(&key, &iv, &raw(&b), AESAlgorithms::AES128_CBC).is_err());
    b[15] = 17; // pad > block
    assert!(AES::decrypt(&key, &iv, &raw(&b), AESAlgorithms::AES128_CBC).is_err());
    b[15] = 3;
    b[14] = 3;
    b[13] = 2; // inconsistent
    assert!(AES::decrypt(&key, &iv, &raw(&b), AESAlgorithms::AES128_CBC).is_err());
    b[13] = 3;
    assert_eq!(AES::decrypt(&key, &iv, &raw(&b), AESAlgorithms::AES128_CBC).unwrap(), vec![0x41u8; 13]);
    // not a multiple of the block size, empty
    assert!(AES::decrypt(&key, &iv, &[0u8; 17], AESAlgorithms::AES128_CBC).is_err());
    assert!(AES::decrypt(&key, &iv, &[], AESAlgorithms::AES128_CBC).is_err());
    // wrong key / iv sizes are errors, not panics
    assert!(AES::encrypt(&key[..15], &iv, b"x", AESAlgorithms::AES128_CBC).is_err());
    assert!(AES::encrypt(&key, &iv[..15], b"x", AESAlgorithms::AES128_CBC).is_err());
    assert!(AES::decrypt(&[0u8; 32], &iv, &[0u8; 16], AESAlgorithms::AES128_CBC).is_err());
}

// ================================================================ E12: ephemeral sender
#[test]
fn e12_ephemeral_sender_output_is_standard_from_the_recipient_side() {
    let b = scalar_of("eph-b");
    let mut seen = std::collections::HashSet::new();
    for len in [0usize, 5, 16, 100] {
        let msg = msg_of(len, 11);
        let ct = ECIES::encrypt_with_ephemeral_private_key(&msg, &pk_of(&b)).unwrap();
        let bytes = ct.to_bytes();
        let r_bytes = bytes[4..37].to_vec();
        assert!(seen.insert(r_bytes.clone()), "ephemeral key reused");
        // recipient-side reconstruction: S = b * R
        let sender = PublicKey::from_bytes(&r_bytes).unwrap().to_decompressed().unwrap().to_bytes().unwrap();
        let r_pt: Pt = Some((BigUint::from_bytes_be(&sender[1..33]), BigUint::from_bytes_be(&sender[33..65])));
        // check the decompressed point is on the curve by our own arithmetic
        let (x, y) = r_pt.clone().unwrap();
        assert_eq!((&y * &y) % p(), (&x * &x * &x + 7u32) % p());
        let k = ref_keys(&b, &r_pt);
        let body = [&b"BIE1"[..], &r_bytes[..], &ref_cbc_pkcs7(&k.ke, &k.iv, &msg)[..]].concat();
        let expect = [&body[..], &ref_hmac_sha256(&k.km, &body)[..]].concat();
        assert_eq!(hex::encode(&bytes), hex::encode(&expect));
        assert_eq!(receive(&bytes, true, &sk(&b), &ct.extract_public_key().unwrap()).unwrap(), msg);
    }
}

// ================================================================ E13: large messages
#[test]
fn e13_tens_of_kib_and_a_mebibyte() {
    let a = scalar_of("big-a");
    let b = scalar_of("big-b");
    for len in [16 * 1024usize - 1, 16 * 1024, 40_000, 65_535, 65_536, 65_537] {
        let msg = msg_of(len, 21);
        for include in [true, false] {
            let bytes = ECIES::encrypt(&msg, &sk(&a), &pk_of(&b), !include).unwrap().to_bytes();
            assert_eq!(Sha256::digest(&bytes), Sha256::digest(&ref_bie1(&a, &mul(&b, &g()), &msg, include)), "len {}", len);
            assert_eq!(receive(&bytes, include, &sk(&b), &pk_of(&a)).unwrap(), msg);
            // one flip far inside, one in the last body block
            for pos in [bytes.len() / 2, bytes.len() - 33] {
                let mut t = bytes.clone();
                t[pos] ^= 0x10;
                assert!(receive(&t, include, &sk(&b), &pk_of(&a)).is_err());
            }
        }
    }
    let msg = msg_of(1 << 20, 22);
    let bytes = ECIES::encrypt(&msg, &sk(&a), &pk_of(&b), false).unwrap().to_bytes();
    assert_eq!(receive(&bytes, true, &sk(&b), &pk_of(&a)).unwrap(), msg);
}

// ================================================================ E14: determinism, reuse of objects
#[test]
fn e14_deterministic_and_objects_reusable() {
    let a = scalar_of("det-a");
    let b = scalar_of("det-b");
    let msg = msg_of(50, 30);
    let (alice, bob_pub) = (sk(&a), pk_of(&b));
    let c1 = ECIES::encrypt(&msg, &alice, &bob_pub, false).unwrap();
    let other = ECIES::encrypt(&msg_of(50, 31), &alice, &bob_pub, false).unwrap();
    let c2 = ECIES::encrypt(&msg, &alice, &bob_pub, false).unwrap();
    assert_eq!(c1.to_bytes(), c2.to_bytes());
    assert_ne!(c1.to_bytes(), other.to_bytes());
    for _ in 0..3 {
        assert_eq!(ECIES::decrypt(&c1, &sk(&b), &pk_of(&a)).unwrap(), msg);
        assert!(ECIES::decrypt(&c1, &sk(&a), &pk_of(&a)).is_err());
        assert_eq!(c1.to_bytes(), c2.to_bytes());
    }
    // A fresh (unparsed) ciphertext object carries cached keys; decrypt with a wrong key must not fall back on them
    assert!(c1.get_cipher_keys().is_some());
    assert!(ECIES::decrypt(&c1, &sk(&scalar_of("eve")), &pk_of(&a)).is_err());
    assert!(ECIES::decrypt(&c1, &sk(&b), &pk_of(&scalar_of("eve"))).is_err());
    // keys cloned and passed through serde / hex forms behave the same
    let alice2 = PrivateKey::from_wif(&alice.to_wif().unwrap()).unwrap();
    let bob_pub2: PublicKey = serde_json::from_str(&serde_json::to_string(&bob_pub).unwrap()).unwrap();
    assert_eq!(ECIES::encrypt(&msg, &alice2, &bob_pub2, false).unwrap().to_bytes(), c1.to_bytes());
}

// ================================================================ E15: substitutions larger than one bit
#[test]
fn e15_substituted_key_or_mac_is_rejected() {
    let a = scalar_of("sub-a");
    let b = scalar_of("sub-b");
    let e = scalar_of("sub-e");
    let msg = msg_of(20, 40);
    let bytes = ECIES::encrypt(&msg, &sk(&a), &pk_of(&b), false).unwrap().to_bytes();
    // Eve replaces the embedded key by her own valid key
    let mut t = bytes.clone();
    t[4..37].copy_from_slice(&comp(&mul(&e, &g())));
    assert!(receive(&t, true, &sk(&b), &pk_of(&a)).is_err());
    assert!(receive(&t, true, &sk(&b), &pk_of(&e)).is_err());
    // the embedded key replaced by its negation (prefix 02 <-> 03) is one bit and still a valid point
    let mut t = bytes.clone();
    t[4] ^= 1;
    assert!(ECIESCiphertext::from_bytes(&t, true).is_ok());
    assert!(receive(&t, true, &sk(&b), &pk_of(&a)).is_err());
    let neg = ECIESCiphertext::from_bytes(&t, true).unwrap().extract_public_key().unwrap();
    assert!(receive(&t, true, &sk(&b), &neg).is_err());
    // embedded key that is not on the curve / identity / hybrid prefix is refused already by the parser
    for prefix in [0u8, 1, 4, 5, 6, 7, 0xff] {
        let mut t = bytes.clone();
        t[4] = prefix;
        assert!(receive(&t, true, &sk(&b), &pk_of(&a)).is_err(), "prefix {}", prefix);
    }
    let mut t = bytes.clone();
    t[5..37].copy_from_slice(&[0u8; 32]); // x = 0 is not on secp256k1
    assert!(ECIESCiphertext::from_bytes(&t, true).is_err());
    let mut t = bytes.clone();
    t[5..37].copy_from_slice(&be32(&p())); // x = p is out of range
    assert!(ECIESCiphertext::from_bytes(&t, true).is_err());
    // MAC made with a wrong key, MAC of the body without magic, all-zero MAC
    let k = ref_keys(&a, &mul(&b, &g()));
    let body = &bytes[..bytes.len() - 32];
    for mac in [ref_hmac_sha256(&k.ke, body), ref_hmac_sha256(&k.km, &body[4..]), ref_hmac_sha256(&k.km, &body[37..]), vec![0u8; 32]] {
        let t = [body, &mac[..]].concat();
        assert!(receive(&t, true, &sk(&b), &pk_of(&a)).is_err());
    }
    // a key-less message whose MAC was computed over magic+key+body (and vice versa)
    let keyless = [&b"BIE1"[..], &bytes[37..]].concat();
    assert!(receive(&keyless, false, &sk(&b), &pk_of(&a)).is_err());
    let bytes_nokey = ECIES::encrypt(&msg, &sk(&a), &pk_of(&b), true).unwrap().to_bytes();
    let withkey = [&b"BIE1"[..], &comp(&mul(&a, &g()))[..], &bytes_nokey[4..]].concat();
    assert!(receive(&withkey, true, &sk(&b), &pk_of(&a)).is_err());
}

// ================================================================ E16: a standard message made by the reference is accepted (receive direction)
#[test]
fn e16_reference_made_messages_are_decrypted() {
    for i in 0..40usize {
        let a = scalar_of(&format!("rx-a{}", i));
        let b = scalar_of(&format!("rx-b{}", i));
        let msg = msg_of(i * 3, i as u8);
        for include in [true, false] {
            let bytes = ref_bie1(&a, &mul(&b, &g()), &msg, include);
            assert_eq!(receive(&bytes, include, &sk(&b), &pk_of(&a)).unwrap(), msg);
        }
    }
}

// generated by _out/gen_vectors.py (pure python EC + hashlib + openssl enc -aes-128-cbc)
pub const VECTORS: &[(&str, &str, usize, u8, bool, &str)] = &[
    ("0000000000000000000000000000000000000000000000000000000000000001", "0000000000000000000000000000000000000000000000000000000000000002", 0, 0, true, "424945310279be667ef9dcbbac55a06295ce870b07029bfcdb2dce28d959f2815b16f817986acd10e675dfd4a73721ae6b8f07ab96ad83f2324b3716d03b9c6ed2a4a3fc6036a1dbb2173a1d82570a044803a90af7"),
    ("0000000000000000000000000000000000000000000000000000000000000001", "0000000000000000000000000000000000000000000000000000000000000002", 0, 0, false, "424945316acd10e675dfd4a73721ae6b8f07ab96eca0e485a24d86cdce361185a3c5f014092bfd438f798732fadc7b7741bc4ca3"),
    ("0000000000000000000000000000000000000000000000000000000000000001", "0000000000000000000000000000000000000000000000000000000000000002", 1, 1, true, "424945310279be667ef9dcbbac55a06295ce870b07029bfcdb2dce28d959f2815b16f817988db084cc13406ca533bcc611a7daa62cb9796c87c148e531d5a1d692a1217503e64a279ffc14279c6938b01de122acf9"),
    ("0000000000000000000000000000000000000000000000000000000000000001", "0000000000000000000000000000000000000000000000000000000000000002", 1, 1, false, "424945318db084cc13406ca533bcc611a7daa62c29ea209494608c9a143e92dd0b2300eaabeb684211053124c47129ecd5159c59"),
    ("0000000000000000000000000000000000000000000000000000000000000001", "0000000000000000000000000000000000000000000000000000000000000002", 15, 2, true, "424945310279be667ef9dcbbac55a06295ce870b07029bfcdb2dce28d959f2815b16f81798dfdc9c7580c267448b33123e0dbc25b25732c9d74e45d01b401557a07335a5dbe8f372483324ad3f17eab81f77148615"),
    ("0000000000000000000000000000000000000000000000000000000000000001", "0000000000000000000000000000000000000000000000000000000000000002", 15, 2, false, "42494531dfdc9c7580c267448b33123e0dbc25b27fac010408749f8ea9c2415b8a3cbccc48d0882685785e4a053a9c4d55073a7d"),
    ("0000000000000000000000000000000000000000000000000000000000000001", "0000000000000000000000000000000000000000000000000000000000000002", 16, 3, true, "424945310279be667ef9dcbbac55a06295ce870b07029bfcdb2dce28d959f2815b16f8179869986c297aa155d8812b3f89d248c1da1a595e8c132eab4fd68be788f1b1510a7854b81fd3db37bafd4f313b1f4b6fc27d00b83fe507a05f20133e162b118028"),
    ("0000000000000000000000000000000000000000000000000000000000000001", "0000000000000000000000000000000000000000000000000000000000000002", 16, 3, false, "4249453169986c297aa155d8812b3f89d248c1da1a595e8c132eab4fd68be788f1b1510aed7ca0ce0cea42630bb48cf8189be1905c5cd0fc9103c94052019af10772a2a5"),
    ("0000000000000000000000000000000000000000000000000000000000000001", "0000000000000000000000000000000000000000000000000000000000000002", 17, 4, true, "424945310279be667ef9dcbbac55a06295ce870b07029bfcdb2dce28d959f2815b16f8179836b521ad808da3dcc7096601cf89a2e4f3069ca3c3702f1bd3e329bce3baef6212ca87279d9e0706954bc3364f0488e959701a17e21a9eefd544f9cbe4b99f33"),
    ("0000000000000000000000000000000000000000000000000000000000000001", "0000000000000000000000000000000000000000000000000000000000000002", 17, 4, false, "4249453136b521ad808da3dcc7096601cf89a2e4f3069ca3c3702f1bd3e329bce3baef62640b3f76fbc15651b31eb9d6c168e8cb82cc1f07e25299408658292b7a48f4d8"),
    ("0000000000000000000000000000000000000000000000000000000000000001", "0000000000000000000000000000000000000000000000000000000000000002", 33, 7, true, "424945310279be667ef9dcbbac55a06295ce870b07029bfcdb2dce28d959f2815b16f81798d227d96e13e7a0e5a15015ba0c62d36266bb03c268c057e80566406ff80f2ff3c678a3a837b463126ec6d2c1b92936a719a086aaf25e3b89a3c23db5f098ea5510116b2a9296b6bb97e4c50bab329dba"),
    ("0000000000000000000000000000000000000000000000000000000000000001", "0000000000000000000000000000000000000000000000000000000000000002", 33, 7, false, "42494531d227d96e13e7a0e5a15015ba0c62d36266bb03c268c057e80566406ff80f2ff3c678a3a837b463126ec6d2c1b92936a7c93b5021c9a57176a9fd7d3ed0519e947c5f50c6990d0baa6d2f8680511aa3e6"),
    ("fffffffffffffffffffffffffffffffebaaedce6af48a03bbfd25e8cd0364140", "0000000000000000000000000000000000000000000000000000000000000001", 0, 16, true, "424945310379be667ef9dcbbac55a06295ce870b07029bfcdb2dce28d959f2815b16f81798f0f0d60b40f92caaaee519ae0cb9a74359fc32dc37f1b937a9affc5f0fd1da2e1f8821b1afbde4ec8e23474b0d0a85f0"),
    ("fffffffffffffffffffffffffffffffebaaedce6af48a03bbfd25e8cd0364140", "0000000000000000000000000000000000000000000000000000000000000001", 0, 16, false, "42494531f0f0d60b40f92caaaee519ae0cb9a743e9e8e8d005fab14e216fee1eba83ca97f1e3dbfaffa3e547e2bd94751301e7c5"),
    ("fffffffffffffffffffffffffffffffebaaedce6af48a03bbfd25e8cd0364140", "0000000000000000000000000000000000000000000000000000000000000001", 1, 17, true, "424945310379be667ef9dcbbac55a06295ce870b07029bfcdb2dce28d959f2815b16f8179819e10405eb60e4bbb1db5be8fec185495e1c63dc9dbc7ca8600f11730e1ab98152e56654b2fe1b70532ae0532a9f9fe1"),
    ("fffffffffffffffffffffffffffffffebaaedce6af48a03bbfd25e8cd0364140", "0000000000000000000000000000000000000000000000000000000000000001", 1, 17, false, "4249453119e10405eb60e4bbb1db5be8fec1854945f5285a4bf02b830ed0d146be690d006ef00ad728c244994a3d3d8f6455617f"),
    ("fffffffffffffffffffffffffffffffebaaedce6af48a03bbfd25e8cd0364140", "0000000000000000000000000000000000000000000000000000000000000001", 15, 18, true, "424945310379be667ef9dcbbac55a06295ce870b07029bfcdb2dce28d959f2815b16f81798b2ea0ea65dcdce1f3a5c672eb827a22ff13844410bdc0dfeb517e0872d33cdc220354bf9ae4a49c561a9647e881566e9"),
    ("fffffffffffffffffffffffffffffffebaaedce6af48a03bbfd25e8cd0364140", "0000000000000000000000000000000000000000000000000000000000000001", 15, 18, false, "42494531b2ea0ea65dcdce1f3a5c672eb827a22f3ea606c2167edc666b77c268b3e8c4ed3d38308396660e66f5a006fb92abe7e7"),
    ("fffffffffffffffffffffffffffffffebaaedce6af48a03bbfd25e8cd0364140", "0000000000000000000000000000000000000000000000000000000000000001", 16, 19, true, "424945310379be667ef9dcbbac55a06295ce870b07029bfcdb2dce28d959f2815b16f8179845efbe790ae4700d443622478e91fc06025a0e703c0df932baefb482b04a20045d145cd3e3db0ed4710161c76c9d3ff1eb5c7ba90ed2df2b280e041ec1d7b667"),
    ("fffffffffffffffffffffffffffffffebaaedce6af48a03bbfd25e8cd0364140", "0000000000000000000000000000000000000000000000000000000000000001", 16, 19, false, "4249453145efbe790ae4700d443622478e91fc06025a0e703c0df932baefb482b04a200417580b8fc21142d73b3f2ff44ec92debfc93ca313cebef134c60e9cf93046d35"),
    ("fffffffffffffffffffffffffffffffebaaedce6af48a03bbfd25e8cd0364140", "0000000000000000000000000000000000000000000000000000000000000001", 17, 20, true, "424945310379be667ef9dcbbac55a06295ce870b07029bfcdb2dce28d959f2815b16f81798c5eca66e9a3a168fb37ee0c6859c4d136583ce2a34fd5b5ca6173726b9176f6170f059cb291ce342e0c49094f074ad694c194d2c70f52145d05ff8e19cd64f01"),
    ("fffffffffffffffffffffffffffffffebaaedce6af48a03bbfd25e8cd0364140", "0000000000000000000000000000000000000000000000000000000000000001", 17, 20, false, "42494531c5eca66e9a3a168fb37ee0c6859c4d136583ce2a34fd5b5ca6173726b9176f617259c4bb9218bd2117f9d5a1b206b8cd10b9b58fa0aa72a6e83be513cc5fef3a"),
    ("fffffffffffffffffffffffffffffffebaaedce6af48a03bbfd25e8cd0364140", "0000000000000000000000000000000000000000000000000000000000000001", 33, 23, true, "424945310379be667ef9dcbbac55a06295ce870b07029bfcdb2dce28d959f2815b16f8179893b0fe046d155da5acb264c227f82f450cf3d52099c038b930e49cd9b9f8254c61841fabb166f1a60eece6672ea2fbc5ab426288775e8dd583dc8ce1e8f3e25ffd582c48b08cdbcb6e96e19fc1018626"),
    ("fffffffffffffffffffffffffffffffebaaedce6af48a03bbfd25e8cd0364140", "0000000000000000000000000000000000000000000000000000000000000001", 33, 23, false, "4249453193b0fe046d155da5acb264c227f82f450cf3d52099c038b930e49cd9b9f8254c61841fabb166f1a60eece6672ea2fbc579eca46d60ad2048fb83f47cb0cbca37ec540f9bb218045a9ff7375c74fa8458"),
    ("fffffffffffffffffffffffffffffffebaaedce6af48a03bbfd25e8cd0364140", "fffffffffffffffffffffffffffffffebaaedce6af48a03bbfd25e8cd0364140", 0, 32, true, "424945310379be667ef9dcbbac55a06295ce870b07029bfcdb2dce28d959f2815b16f81798aa11ba37b143d4b74539fd3c7f92d92347e14955d65d8dac7366464880135ceda9a85dc5be001b36a6828620e6fa444a"),
    ("fffffffffffffffffffffffffffffffebaaedce6af48a03bbfd25e8cd0364140", "fffffffffffffffffffffffffffffffebaaedce6af48a03bbfd25e8cd0364140", 0, 32, false, "42494531aa11ba37b143d4b74539fd3c7f92d9233d83c59a5a2095fa833eab79ee6b10e734f02ff3004ea198d0a0dbd2b64c65b5"),
    ("fffffffffffffffffffffffffffffffebaaedce6af48a03bbfd25e8cd0364140", "fffffffffffffffffffffffffffffffebaaedce6af48a03bbfd25e8cd0364140", 1, 33, true, "424945310379be667ef9dcbbac55a06295ce870b07029bfcdb2dce28d959f2815b16f8179825c3550371c6360b5ee931d7276965f30a727565d5b94e4420bb184f3331ba10a0098832570e97bc48e783a15d0032f2"),
    ("fffffffffffffffffffffffffffffffebaaedce6af48a03bbfd25e8cd0364140", "fffffffffffffffffffffffffffffffebaaedce6af48a03bbfd25e8cd0364140", 1, 33, false, "4249453125c3550371c6360b5ee931d7276965f3db725942055e299aef0d338cb4a23efc81b80856cfa7b807fb442a5a2831ab6b"),
    ("fffffffffffffffffffffffffffffffebaaedce6af48a03bbfd25e8cd0364140", "fffffffffffffffffffffffffffffffebaaedce6af48a03bbfd25e8cd0364140", 15, 34, true, "424945310379be667ef9dcbbac55a06295ce870b07029bfcdb2dce28d959f2815b16f81798778bd7db943edbe9cc6a36642867bc2336f683e90db45238d60d8fd14e61cdcbedd9e3dabbd71c13e58293ee8101f786"),
    ("fffffffffffffffffffffffffffffffebaaedce6af48a03bbfd25e8cd0364140", "fffffffffffffffffffffffffffffffebaaedce6af48a03bbfd25e8cd0364140", 15, 34, false, "42494531778bd7db943edbe9cc6a36642867bc23280a3d47af17aee773f005500c711062385094911b87a095f452cce08a56ad47"),
    ("fffffffffffffffffffffffffffffffebaaedce6af48a03bbfd25e8cd0364140", "fffffffffffffffffffffffffffffffebaaedce6af48a03bbfd25e8cd0364140", 16, 35, true, "424945310379be667ef9dcbbac55a06295ce870b07029bfcdb2dce28d959f2815b16f817987fc6dc3fe20e8df8faef82e16477c1472d709f8698c8181bd29fef8560da15afb381cc11ade34be95b222400a691dbd397d2b2a5117f59bdea4658a0d378d4eb"),
    ("fffffffffffffffffffffffffffffffebaaedce6af48a03bbfd25e8cd0364140", "fffffffffffffffffffffffffffffffebaaedce6af48a03bbfd25e8cd0364140", 16, 35, false, "424945317fc6dc3fe20e8df8faef82e16477c1472d709f8698c8181bd29fef8560da15afc5d5b91b633fd093c4b615d56bdba5045db7d90ca3451ffe079b91bf98fa2c1c"),
    ("fffffffffffffffffffffffffffffffebaaedce6af48a03bbfd25e8cd0364140", "fffffffffffffffffffffffffffffffebaaedce6af48a03bbfd25e8cd0364140", 17, 36, true, "424945310379be667ef9dcbbac55a06295ce870b07029bfcdb2dce28d959f2815b16f81798c80e0b35a4b44ed9f564fef9b697f86b9fda2dc659193d11b0e4157611aed32ae6303022ee3385b3aaf2708a2e37f89415de8524d502e45f820f7d4af3a3a4c1"),
    ("fffffffffffffffffffffffffffffffebaaedce6af48a03bbfd25e8cd0364140", "fffffffffffffffffffffffffffffffebaaedce6af48a03bbfd25e8cd0364140", 17, 36, false, "42494531c80e0b35a4b44ed9f564fef9b697f86b9fda2dc659193d11b0e4157611aed32a5222dd2d8ee253eb2b77490325798f37140f577dc8f1f78f363d4967e4462114"),
    ("fffffffffffffffffffffffffffffffebaaedce6af48a03bbfd25e8cd0364140", "fffffffffffffffffffffffffffffffebaaedce6af48a03bbfd25e8cd0364140", 33, 39, true, "424945310379be667ef9dcbbac55a06295ce870b07029bfcdb2dce28d959f2815b16f81798745f200bce222cc2b1d7022f73f852479abcf6d29d2f02f50086d5327fc66e3acfb836fb9b24a3287763776f41ba74a9cb446aa0ef904e29220406fa8d4c27bfb1bd3335591cf5ed378d3f7a9973e9f9"),
    ("fffffffffffffffffffffffffffffffebaaedce6af48a03bbfd25e8cd0364140", "fffffffffffffffffffffffffffffffebaaedce6af48a03bbfd25e8cd0364140", 33, 39, false, "42494531745f200bce222cc2b1d7022f73f852479abcf6d29d2f02f50086d5327fc66e3acfb836fb9b24a3287763776f41ba74a9e18c6a46efa436ec9b9cc5bc16972d8f63766e0ac8a00a7319f357bf83db87f5"),
    ("0000000000000000000000000000000000000000000000000000000000000001", "0000000000000000000000000000000000000000000000000000000000000001", 0, 48, true, "424945310279be667ef9dcbbac55a06295ce870b07029bfcdb2dce28d959f2815b16f81798aa11ba37b143d4b74539fd3c7f92d923ddb26d9c26a7d14ad59aee702d9bfb336c9ec0bfaa815da3f787c4d934abfca0"),
    ("0000000000000000000000000000000000000000000000000000000000000001", "0000000000000000000000000000000000000000000000000000000000000001", 0, 48, false, "42494531aa11ba37b143d4b74539fd3c7f92d9233d83c59a5a2095fa833eab79ee6b10e734f02ff3004ea198d0a0dbd2b64c65b5"),
    ("0000000000000000000000000000000000000000000000000000000000000001", "0000000000000000000000000000000000000000000000000000000000000001", 1, 49, true, "424945310279be667ef9dcbbac55a06295ce870b07029bfcdb2dce28d959f2815b16f81798078548e9ee2007c4e2576d66c9b308f0c9c28c93174fb434db3f6b67284809931a93fcf291f47cefb5e081f320cfd03d"),
    ("0000000000000000000000000000000000000000000000000000000000000001", "0000000000000000000000000000000000000000000000000000000000000001", 1, 49, false, "42494531078548e9ee2007c4e2576d66c9b308f06ca925f09da71714cfb984df94ee40183b0bcf1064d562b0e300e30a69fa8887"),
    ("0000000000000000000000000000000000000000000000000000000000000001", "0000000000000000000000000000000000000000000000000000000000000001", 15, 50, true, "424945310279be667ef9dcbbac55a06295ce870b07029bfcdb2dce28d959f2815b16f817987b5a1c6e3202f4e7b6e22ac33219fd17aed8311edd71da62a927c60454e35004da6997ff69e7525bf495ee845102d71b"),
    ("0000000000000000000000000000000000000000000000000000000000000001", "0000000000000000000000000000000000000000000000000000000000000001", 15, 50, false, "424945317b5a1c6e3202f4e7b6e22ac33219fd1743f873e49aedf034629b9013ffd315150a212d739d73160e81e86093871dc192"),
    ("0000000000000000000000000000000000000000000000000000000000000001", "0000000000000000000000000000000000000000000000000000000000000001", 16, 51, true, "424945310279be667ef9dcbbac55a06295ce870b07029bfcdb2dce28d959f2815b16f81798210731a148c97e4023f473aa2517f9672241fe375719801132eef9dd91a528106d48f10241bd9c19beccb1905943e359d28d80dd7cf07ce32edb9b1abe248802"),
    ("0000000000000000000000000000000000000000000000000000000000000001", "0000000000000000000000000000000000000000000000000000000000000001", 16, 51, false, "42494531210731a148c97e4023f473aa2517f9672241fe375719801132eef9dd91a52810e1931e192ba6294e95a5f19a6338795cbaaf9bb99239e5da90f132cd5ff5a5a9"),
    ("0000000000000000000000000000000000000000000000000000000000000001", "0000000000000000000000000000000000000000000000000000000000000001", 17, 52, true, "424945310279be667ef9dcbbac55a06295ce870b07029bfcdb2dce28d959f2815b16f81798835400a26da322b0174099c52330fe0a328b23a4cc2621f9bb9f26dbfbda43ace1acc65ca34f8b617b3480be5e07927c888556b46b50fd8469d22b315f5493b9"),
    ("0000000000000000000000000000000000000000000000000000000000000001", "0000000000000000000000000000000000000000000000000000000000000001", 17, 52, false, "42494531835400a26da322b0174099c52330fe0a328b23a4cc2621f9bb9f26dbfbda43ac0585bced8426ce022efc8b03d2fe4894ed6da6e05ac281bc962bc88763d2d1e9"),
    ("0000000000000000000000000000000000000000000000000000000000000001", "0000000000000000000000000000000000000000000000000000000000000001", 33, 55, true, "424945310279be667ef9dcbbac55a06295ce870b07029bfcdb2dce28d959f2815b16f817988809644a5077e8ea6f24ce5307a633924db57d82a96eb4612f3fee087732e30b3419d8d30961e28f67b75aa58ec00725f86b20569f42ed288632f1fa66ac1079ba0fe21cbaa67fe73576bd8a0822389b"),
    ("0000000000000000000000000000000000000000000000000000000000000001", "0000000000000000000000000000000000000000000000000000000000000001", 33, 55, false, "424945318809644a5077e8ea6f24ce5307a633924db57d82a96eb4612f3fee087732e30b3419d8d30961e28f67b75aa58ec0072517cca7198f41f04da42262b602149f804f2415114515909a328e6d63ca5882dc"),
    ("77e06abc52bf065cb5164c5deca839d0276911991a2730be4d8d0a0307de7ceb", "2b57c7c5e408ce927eef5e2efb49cfdadde77961d342daa72284bb3d6590862d", 0, 64, true, "424945310339e504d6492b082da96e11e8f039796b06cd4855c101e2492a6f10f3e056a9e7fe34aea1e08a407dabdf22ae5da7b8c158cb72b919e871e17d8c0434fb68c501f529006c603722f2c915f3f28399344f"),
    ("77e06abc52bf065cb5164c5deca839d0276911991a2730be4d8d0a0307de7ceb", "2b57c7c5e408ce927eef5e2efb49cfdadde77961d342daa72284bb3d6590862d", 0, 64, false, "42494531fe34aea1e08a407dabdf22ae5da7b8c14ac31184f6d1361ed4eeb3844d8bf1bdfa4726b8cfd2149002579b1a0346da11"),
    ("77e06abc52bf065cb5164c5deca839d0276911991a2730be4d8d0a0307de7ceb", "2b57c7c5e408ce927eef5e2efb49cfdadde77961d342daa72284bb3d6590862d", 1, 65, true, "424945310339e504d6492b082da96e11e8f039796b06cd4855c101e2492a6f10f3e056a9e734c8c9fb5443dafd153c1e718063060bbe543b31ff6719a024b563374cfa9179a375d6d60e087e0075ae59039db3b6c0"),
    ("77e06abc52bf065cb5164c5deca839d0276911991a2730be4d8d0a0307de7ceb", "2b57c7c5e408ce927eef5e2efb49cfdadde77961d342daa72284bb3d6590862d", 1, 65, false, "4249453134c8c9fb5443dafd153c1e718063060b0d563daca6c0d27c9ad06f5dcaba65fa4ef3ceabf6ee1f61c74ac3482287cf1a"),
    ("77e06abc52bf065cb5164c5deca839d0276911991a2730be4d8d0a0307de7ceb", "2b57c7c5e408ce927eef5e2efb49cfdadde77961d342daa72284bb3d6590862d", 15, 66, true, "424945310339e504d6492b082da96e11e8f039796b06cd4855c101e2492a6f10f3e056a9e78d7d867390b941b73177fc3ea4987c5fc95864f1d32a0462726aae7620faca3cfea2522cee47b6ab1df95ec9b77c574a"),
    ("77e06abc52bf065cb5164c5deca839d0276911991a2730be4d8d0a0307de7ceb", "2b57c7c5e408ce927eef5e2efb49cfdadde77961d342daa72284bb3d6590862d", 15, 66, false, "424945318d7d867390b941b73177fc3ea4987c5f5392b3be656fb8533636ce9b4c7206a541aa4e2924e75ee3dd77e7d7cbbb852b"),
    ("77e06abc52bf065cb5164c5deca839d0276911991a2730be4d8d0a0307de7ceb", "2b57c7c5e408ce927eef5e2efb49cfdadde77961d342daa72284bb3d6590862d", 16, 67, true, "424945310339e504d6492b082da96e11e8f039796b06cd4855c101e2492a6f10f3e056a9e71ddb485758886ea1eb375c472ed9bc6ad14ff463bbb4c178639de0293be12ae4cd55435d857ff89ceb2f660f144e62bbc4395212d3491e0cd19ba17ecc27335d"),
    ("77e06abc52bf065cb5164c5deca839d0276911991a2730be4d8d0a0307de7ceb", "2b57c7c5e408ce927eef5e2efb49cfdadde77961d342daa72284bb3d6590862d", 16, 67, false, "424945311ddb485758886ea1eb375c472ed9bc6ad14ff463bbb4c178639de0293be12ae4271a408bb9ba7b117ac8e9e057f2956d02885559f564119f0c518d663489ccb8"),
    ("77e06abc52bf065cb5164c5deca839d0276911991a2730be4d8d0a0307de7ceb", "2b57c7c5e408ce927eef5e2efb49cfdadde77961d342daa72284bb3d6590862d", 17, 68, true, "424945310339e504d6492b082da96e11e8f039796b06cd4855c101e2492a6f10f3e056a9e7f647db0b049b48c33ee580d636ff0cd2e108cec6d15874531657212a3ff743e86f31d80931f67eccb3c081fe78a529d48a7fa0d2d824851e244c7c196e737543"),
    ("77e06abc52bf065cb5164c5deca839d0276911991a2730be4d8d0a0307de7ceb", "2b57c7c5e408ce927eef5e2efb49cfdadde77961d342daa72284bb3d6590862d", 17, 68, false, "42494531f647db0b049b48c33ee580d636ff0cd2e108cec6d15874531657212a3ff743e8b5ad804197589e093ed285a9eb8f86fe73499bb80d3f4a3aed0f63a83191c97c"),
    ("77e06abc52bf065cb5164c5deca839d0276911991a2730be4d8d0a0307de7ceb", "2b57c7c5e408ce927eef5e2efb49cfdadde77961d342daa72284bb3d6590862d", 31, 69, true, "424945310339e504d6492b082da96e11e8f039796b06cd4855c101e2492a6f10f3e056a9e768fbd9017bea5084b0bc0f7c524f4d0b212419a7d9e54dad614ad37923421e306bd5faa442cb0fa7056917f85477bf1e0c8e77100be23250968bdc38775df743"),
    ("77e06abc52bf065cb5164c5deca839d0276911991a2730be4d8d0a0307de7ceb", "2b57c7c5e408ce927eef5e2efb49cfdadde77961d342daa72284bb3d6590862d", 31, 69, false, "4249453168fbd9017bea5084b0bc0f7c524f4d0b212419a7d9e54dad614ad37923421e3014593fc9c2dd40027e565f1b6c6bbfedccd3e8fd32de59d8a470d6602d0e015b"),
    ("77e06abc52bf065cb5164c5deca839d0276911991a2730be4d8d0a0307de7ceb", "2b57c7c5e408ce927eef5e2efb49cfdadde77961d342daa72284bb3d6590862d", 32, 70, true, "424945310339e504d6492b082da96e11e8f039796b06cd4855c101e2492a6f10f3e056a9e751a9b7e6bcd446ec22d1df83ac696d73f5160e73231fa3f10eb681244a6a75090536c5481b988639f254d43d6b5737d20beab16f69f0f75ce61abd2510647bacbf46071150cd833eedad5ab6833fc4f9"),
    ("77e06abc52bf065cb5164c5deca839d0276911991a2730be4d8d0a0307de7ceb", "2b57c7c5e408ce927eef5e2efb49cfdadde77961d342daa72284bb3d6590862d", 32, 70, false, "4249453151a9b7e6bcd446ec22d1df83ac696d73f5160e73231fa3f10eb681244a6a75090536c5481b988639f254d43d6b5737d268e78bfb5dfa8e1b69bcbe2b4d5bffc59ef681ed1fbf17046627bd05704a434a"),
    ("77e06abc52bf065cb5164c5deca839d0276911991a2730be4d8d0a0307de7ceb", "2b57c7c5e408ce927eef5e2efb49cfdadde77961d342daa72284bb3d6590862d", 33, 71, true, "424945310339e504d6492b082da96e11e8f039796b06cd4855c101e2492a6f10f3e056a9e777412700d89cd89a7dd241a24ed100fd460658dc65646e68ebf42c3864267b3082b1544295f08e53246eab4c83bf33b9e87956fe8332ac65b7372f365cc0287befacdd6a14eb241e32a9c80432d551eb"),
    ("77e06abc52bf065cb5164c5deca839d0276911991a2730be4d8d0a0307de7ceb", "2b57c7c5e408ce927eef5e2efb49cfdadde77961d342daa72284bb3d6590862d", 33, 71, false, "4249453177412700d89cd89a7dd241a24ed100fd460658dc65646e68ebf42c3864267b3082b1544295f08e53246eab4c83bf33b94944e785c6bb22bc07e0ee0d09c88dfd9fa2b7451fff4baf13ab46c7cdaefd7e"),
    ("77e06abc52bf065cb5164c5deca839d0276911991a2730be4d8d0a0307de7ceb", "2b57c7c5e408ce927eef5e2efb49cfdadde77961d342daa72284bb3d6590862d", 47, 72, true, "424945310339e504d6492b082da96e11e8f039796b06cd4855c101e2492a6f10f3e056a9e7706710c13cf51f263193d9dc09e2260d8374e5e75c57083cad97d4518eed1da1001d0e15b1abf4d06d691914d86fad7d9ee53f8fca72712b8253627d814f215d4951f729cff261a50571f532f15a6bfa"),
    ("77e06abc52bf065cb5164c5deca839d0276911991a2730be4d8d0a0307de7ceb", "2b57c7c5e408ce927eef5e2efb49cfdadde77961d342daa72284bb3d6590862d", 47, 72, false, "42494531706710c13cf51f263193d9dc09e2260d8374e5e75c57083cad97d4518eed1da1001d0e15b1abf4d06d691914d86fad7d84ca4273fcee67b0ca2f5c15414d252d5525e39f5c81217a39897049d1c2ca50"),
    ("77e06abc52bf065cb5164c5deca839d0276911991a2730be4d8d0a0307de7ceb", "2b57c7c5e408ce927eef5e2efb49cfdadde77961d342daa72284bb3d6590862d", 48, 73, true, "424945310339e504d6492b082da96e11e8f039796b06cd4855c101e2492a6f10f3e056a9e7bc1bbe69ad0985f1fb11b78384099b840ad27e87ae82382189a4da000554c2094a5d154dd992d0f88a65251de1ea7f564275e6d6a5ed61a5aa78110fca594c4c8ca058922633c09655be3f132af755695e161a36d7f64f3d47559ca30e3847d3"),
    ("77e06abc52bf065cb5164c5deca839d0276911991a2730be4d8d0a0307de7ceb", "2b57c7c5e408ce927eef5e2efb49cfdadde77961d342daa72284bb3d6590862d", 48, 73, false, "42494531bc1bbe69ad0985f1fb11b78384099b840ad27e87ae82382189a4da000554c2094a5d154dd992d0f88a65251de1ea7f564275e6d6a5ed61a5aa78110fca594c4cc80a57d5d08b46025889140fdc731b3a561c91e9e3c38e0fd5c78b3428db47eb"),
    ("77e06abc52bf065cb5164c5deca839d0276911991a2730be4d8d0a0307de7ceb", "2b57c7c5e408ce927eef5e2efb49cfdadde77961d342daa72284bb3d6590862d", 255, 74, true, "98431fd94bf02321fdcc008657c22df6804a04528d96c36c5c6a63b99571ef5e"),
    ("77e06abc52bf065cb5164c5deca839d0276911991a2730be4d8d0a0307de7ceb", "2b57c7c5e408ce927eef5e2efb49cfdadde77961d342daa72284bb3d6590862d", 255, 74, false, "877cf4e110cf7e3601720305639e70cfac940c96c4ed2ae1db1ba3dce1eb7ee8"),
    ("77e06abc52bf065cb5164c5deca839d0276911991a2730be4d8d0a0307de7ceb", "2b57c7c5e408ce927eef5e2efb49cfdadde77961d342daa72284bb3d6590862d", 256, 75, true, "b74e6ade9605a52f637dcbaae84971b745ffb2a6f08b93a055a22d24f856caa7"),
    ("77e06abc52bf065cb5164c5deca839d0276911991a2730be4d8d0a0307de7ceb", "2b57c7c5e408ce927eef5e2efb49cfdadde77961d342daa72284bb3d6590862d", 256, 75, false, "471053c12fd0f6143b6e32ff7f76947d590b20500900520e676eb6c8e679c4bb"),
    ("77e06abc52bf065cb5164c5deca839d0276911991a2730be4d8d0a0307de7ceb", "2b57c7c5e408ce927eef5e2efb49cfdadde77961d342daa72284bb3d6590862d", 1000, 76, true, "6aa87f580d40b21d9cca7056c27db1206b8f4279e339abaa36e650ab0e8698ec"),
    ("77e06abc52bf065cb5164c5deca839d0276911991a2730be4d8d0a0307de7ceb", "2b57c7c5e408ce927eef5e2efb49cfdadde77961d342daa72284bb3d6590862d", 1000, 76, false, "5cf334df3f423670404728d50a4b9d955d333276e7ec83880f5796361ec87b16"),
    ("77e06abc52bf065cb5164c5deca839d0276911991a2730be4d8d0a0307de7ceb", "2b57c7c5e408ce927eef5e2efb49cfdadde77961d342daa72284bb3d6590862d", 4096, 77, true, "17bb607a6316781767b2b7fb0d3cabf8519c268a5d7ce9a790a77d0cb2a91e6b"),
    ("77e06abc52bf065cb5164c5deca839d0276911991a2730be4d8d0a0307de7ceb", "2b57c7c5e408ce927eef5e2efb49cfdadde77961d342daa72284bb3d6590862d", 4096, 77, false, "2aebc478d0681824622d53ddf554d000e39bc124fb507e394f6fbcbeedca0221"),
    ("77e06abc52bf065cb5164c5deca839d0276911991a2730be4d8d0a0307de7ceb", "2b57c7c5e408ce927eef5e2efb49cfdadde77961d342daa72284bb3d6590862d", 20001, 78, true, "a6fb714094434859b43a60e668d3f09deabb7e6892b496e13ce4131e34498850"),
    ("77e06abc52bf065cb5164c5deca839d0276911991a2730be4d8d0a0307de7ceb", "2b57c7c5e408ce927eef5e2efb49cfdadde77961d342daa72284bb3d6590862d", 20001, 78, false, "81321d57a478e86a497d39c406dd033dee2f84d5af6440d9eefa99ecb698d478"),
    ("2bd806c97f0e00af1a1fc3328fa763a9269723c8db8fac4f93af71db186d6e90", "81b637d8fcd2c6da6359e6963113a1170de795e4b725b84d1e0b4cfd9ec58ce9", 0, 80, true, "42494531039997a497d964fc1a62885b05a51166a65a90df00492c8d7cf61d6accf54803bec724bdc44ca6a69420effbfd2ef9d2200f7d592e146e5a3825cb8354a02d343a8f347bb3356fa649fff0b467ab6dc83d"),
    ("2bd806c97f0e00af1a1fc3328fa763a9269723c8db8fac4f93af71db186d6e90", "81b637d8fcd2c6da6359e6963113a1170de795e4b725b84d1e0b4cfd9ec58ce9", 0, 80, false, "42494531c724bdc44ca6a69420effbfd2ef9d220f42a7bbcf2b8ac1ea4893e675db9a3599cb0d0866df5b786a77aeb75b032f6b8"),
    ("2bd806c97f0e00af1a1fc3328fa763a9269723c8db8fac4f93af71db186d6e90", "81b637d8fcd2c6da6359e6963113a1170de795e4b725b84d1e0b4cfd9ec58ce9", 1, 81, true, "42494531039997a497d964fc1a62885b05a51166a65a90df00492c8d7cf61d6accf54803be2de142ba2b2d3849d982c85306c883177411389bf0bd3f1270d417f22a197ccc0fd64f2d5b1be565bc6b9fc3237411a7"),
    ("2bd806c97f0e00af1a1fc3328fa763a9269723c8db8fac4f93af71db186d6e90", "81b637d8fcd2c6da6359e6963113a1170de795e4b725b84d1e0b4cfd9ec58ce9", 1, 81, false, "424945312de142ba2b2d3849d982c85306c88317164fcfadfce7503d89516d54cc59cf3cf18d9025d42e64566e8c48aec357200b"),
    ("2bd806c97f0e00af1a1fc3328fa763a9269723c8db8fac4f93af71db186d6e90", "81b637d8fcd2c6da6359e6963113a1170de795e4b725b84d1e0b4cfd9ec58ce9", 15, 82, true, "42494531039997a497d964fc1a62885b05a51166a65a90df00492c8d7cf61d6accf54803becaf8f92ca40ff584898925ae918ac5a2d597371eedc1d4e349a995724c3ea3fad9f272063b023c861069208bed5269de"),
    ("2bd806c97f0e00af1a1fc3328fa763a9269723c8db8fac4f93af71db186d6e90", "81b637d8fcd2c6da6359e6963113a1170de795e4b725b84d1e0b4cfd9ec58ce9", 15, 82, false, "42494531caf8f92ca40ff584898925ae918ac5a2797e73603906bf12be6434da9abd9718c4f65dbdf631178a3bc0a77786b31bdf"),
    ("2bd806c97f0e00af1a1fc3328fa763a9269723c8db8fac4f93af71db186d6e90", "81b637d8fcd2c6da6359e6963113a1170de795e4b725b84d1e0b4cfd9ec58ce9", 16, 83, true, "42494531039997a497d964fc1a62885b05a51166a65a90df00492c8d7cf61d6accf54803beb9353bbcbdc06e41d020639d5b578bb988930cd19e2dfbac2e844150c9de6fef64d958a4ca41dbb97fdac61e4b0797c77d65ebe7ed43417070e52d469c304596"),
    ("2bd806c97f0e00af1a1fc3328fa763a9269723c8db8fac4f93af71db186d6e90", "81b637d8fcd2c6da6359e6963113a1170de795e4b725b84d1e0b4cfd9ec58ce9", 16, 83, false, "42494531b9353bbcbdc06e41d020639d5b578bb988930cd19e2dfbac2e844150c9de6fef96f9a484120f7013db12ea6c71e2cc57644bb448b0e52750de83213931e12c44"),
    ("2bd806c97f0e00af1a1fc3328fa763a9269723c8db8fac4f93af71db186d6e90", "81b637d8fcd2c6da6359e6963113a1170de795e4b725b84d1e0b4cfd9ec58ce9", 17, 84, true, "42494531039997a497d964fc1a62885b05a51166a65a90df00492c8d7cf61d6accf54803be2e816f3c4904722976b1f7c37561822845bf5af73267aaf34b99fed7025ac47bdaafdd9963f35b065bb41645720c4a3f0f414cbca8a734a98cebfe4b228044cd"),
    ("2bd806c97f0e00af1a1fc3328fa763a9269723c8db8fac4f93af71db186d6e90", "81b637d8fcd2c6da6359e6963113a1170de795e4b725b84d1e0b4cfd9ec58ce9", 17, 84, false, "424945312e816f3c4904722976b1f7c37561822845bf5af73267aaf34b99fed7025ac47b49928078ecc71d005b46b2f6c9057c435c6a5ee8f6d16f347df15616d41ffd3d"),
    ("2bd806c97f0e00af1a1fc3328fa763a9269723c8db8fac4f93af71db186d6e90", "81b637d8fcd2c6da6359e6963113a1170de795e4b725b84d1e0b4cfd9ec58ce9", 31, 85, true, "42494531039997a497d964fc1a62885b05a51166a65a90df00492c8d7cf61d6accf54803beb2ff516d4ddbf68797179d5cf2ec67199d1ecf6bbe3d1ae32309a2d85e0ad892421279b245124502b910addfebbd571be35e267731237c2054e7eec1bc77af0f"),
    ("2bd806c97f0e00af1a1fc3328fa763a9269723c8db8fac4f93af71db186d6e90", "81b637d8fcd2c6da6359e6963113a1170de795e4b725b84d1e0b4cfd9ec58ce9", 31, 85, false, "42494531b2ff516d4ddbf68797179d5cf2ec67199d1ecf6bbe3d1ae32309a2d85e0ad8925f6d38e32f8f0cdb70de2ad873d8a5466571c9b61ac31f4a376fa9c44444c15b"),
    ("2bd806c97f0e00af1a1fc3328fa763a9269723c8db8fac4f93af71db186d6e90", "81b637d8fcd2c6da6359e6963113a1170de795e4b725b84d1e0b4cfd9ec58ce9", 32, 86, true, "42494531039997a497d964fc1a62885b05a51166a65a90df00492c8d7cf61d6accf54803be945d82184f99d32bfe58c453d97f211e5b2a42f9912c14e34d4101c4cd5100a241e83e0c2ba4b2ff1f2a8d02d8cbb07707cae01414781a18b4ed9f97dd81654d412a1bc6449556074ed419966dbc9922"),
    ("2bd806c97f0e00af1a1fc3328fa763a9269723c8db8fac4f93af71db186d6e90", "81b637d8fcd2c6da6359e6963113a1170de795e4b725b84d1e0b4cfd9ec58ce9", 32, 86, false, "42494531945d82184f99d32bfe58c453d97f211e5b2a42f9912c14e34d4101c4cd5100a241e83e0c2ba4b2ff1f2a8d02d8cbb07722d1813275e4cb91d253b82f1e16f2e4b70ca2a2f7d0bab96d84df7d9f006751"),
    ("2bd806c97f0e00af1a1fc3328fa763a9269723c8db8fac4f93af71db186d6e90", "81b637d8fcd2c6da6359e6963113a1170de795e4b725b84d1e0b4cfd9ec58ce9", 33, 87, true, "42494531039997a497d964fc1a62885b05a51166a65a90df00492c8d7cf61d6accf54803be51098c2439f1bc1f33e1705cfe72b848e09731aa41efed91f5d8aa32c65803493ed5abb355942cb5cae4511464d7a1d5d066c7d9c5022e6914529430101f17e9dcaffdaac823d8f60b4a328852ff9a3c"),
    ("2bd806c97f0e00af1a1fc3328fa763a9269723c8db8fac4f93af71db186d6e90", "81b637d8fcd2c6da6359e6963113a1170de795e4b725b84d1e0b4cfd9ec58ce9", 33, 87, false, "4249453151098c2439f1bc1f33e1705cfe72b848e09731aa41efed91f5d8aa32c65803493ed5abb355942cb5cae4511464d7a1d5333e95da34354ccfad86bffc3787c509f92a05af9c3657c67aa922abce0f773a"),
    ("2bd806c97f0e00af1a1fc3328fa763a9269723c8db8fac4f93af71db186d6e90", "81b637d8fcd2c6da6359e6963113a1170de795e4b725b84d1e0b4cfd9ec58ce9", 47, 88, true, "42494531039997a497d964fc1a62885b05a51166a65a90df00492c8d7cf61d6accf54803bed4c7c180310fd6782a100ee28087c1816d32b766f57ab086934a47a672f004ff9dec0e0fa378b50acc9ddec73458e9a853968b913f20384d0b7683f75dc5b47929905fc695cb5816c488cdb694a301a5"),
    ("2bd806c97f0e00af1a1fc3328fa763a9269723c8db8fac4f93af71db186d6e90", "81b637d8fcd2c6da6359e6963113a1170de795e4b725b84d1e0b4cfd9ec58ce9", 47, 88, false, "42494531d4c7c180310fd6782a100ee28087c1816d32b766f57ab086934a47a672f004ff9dec0e0fa378b50acc9ddec73458e9a83526e6568959381fec0639b8e69e2a6216733c5168718cbdf81fafbaa3183dbf"),
    ("2bd806c97f0e00af1a1fc3328fa763a9269723c8db8fac4f93af71db186d6e90", "81b637d8fcd2c6da6359e6963113a1170de795e4b725b84d1e0b4cfd9ec58ce9", 48, 89, true, "42494531039997a497d964fc1a62885b05a51166a65a90df00492c8d7cf61d6accf54803be9697151050e884efd9192726c20831a02d5c48eab45cc855ab9b8c5ee33568a2e8f9dc8b6a546591becd9f621405ed268b623c0cadd67377881463890aa7de436a2ea7394ed101c14916f1e9d1c45863d2700cb1bef7adc8a9f4b610ad4fb98e"),
    ("2bd806c97f0e00af1a1fc3328fa763a9269723c8db8fac4f93af71db186d6e90", "81b637d8fcd2c6da6359e6963113a1170de795e4b725b84d1e0b4cfd9ec58ce9", 48, 89, false, "424945319697151050e884efd9192726c20831a02d5c48eab45cc855ab9b8c5ee33568a2e8f9dc8b6a546591becd9f621405ed268b623c0cadd67377881463890aa7de4352dc61d0324aad8dcd301e02701d1c6f8adddc573a776898f277597b9b26e429"),
    ("2bd806c97f0e00af1a1fc3328fa763a9269723c8db8fac4f93af71db186d6e90", "81b637d8fcd2c6da6359e6963113a1170de795e4b725b84d1e0b4cfd9ec58ce9", 255, 90, true, "ce4e684f160466458abb2cf43586cc0d19962fa77cf0834fdc15d6bce5442e9b"),
    ("2bd806c97f0e00af1a1fc3328fa763a9269723c8db8fac4f93af71db186d6e90", "81b637d8fcd2c6da6359e6963113a1170de795e4b725b84d1e0b4cfd9ec58ce9", 255, 90, false, "7c5c9867e6c52c17d085eeacd265b479fccf1797f805fc73030b6c883dafdfd8"),
    ("2bd806c97f0e00af1a1fc3328fa763a9269723c8db8fac4f93af71db186d6e90", "81b637d8fcd2c6da6359e6963113a1170de795e4b725b84d1e0b4cfd9ec58ce9", 256, 91, true, "8da1700698f83117271eb1bf8ecfaf742aa8bcc9e98f47bfc2cde5bf6286ca36"),
    ("2bd806c97f0e00af1a1fc3328fa763a9269723c8db8fac4f93af71db186d6e90", "81b637d8fcd2c6da6359e6963113a1170de795e4b725b84d1e0b4cfd9ec58ce9", 256, 91, false, "78ea376c6dad7fa4a5dfe53be554f55c66ebb0615fae38554b72692ce9c8dfd9"),
    ("2bd806c97f0e00af1a1fc3328fa763a9269723c8db8fac4f93af71db186d6e90", "81b637d8fcd2c6da6359e6963113a1170de795e4b725b84d1e0b4cfd9ec58ce9", 1000, 92, true, "d1e67fecc12a306f854c4b5b07f90e8dd18792ae3608739ada43017c18cf226e"),
    ("2bd806c97f0e00af1a1fc3328fa763a9269723c8db8fac4f93af71db186d6e90", "81b637d8fcd2c6da6359e6963113a1170de795e4b725b84d1e0b4cfd9ec58ce9", 1000, 92, false, "2d0635726c1e47f4ddc3cab80437c3f3b1c7fd5bf47ff5da29d34b0da1438d46"),
    ("2bd806c97f0e00af1a1fc3328fa763a9269723c8db8fac4f93af71db186d6e90", "81b637d8fcd2c6da6359e6963113a1170de795e4b725b84d1e0b4cfd9ec58ce9", 4096, 93, true, "6030feaab88a89f4d4aaa2ac41557ad72cd2634c10ab2d76606330af27b872ea"),
    ("2bd806c97f0e00af1a1fc3328fa763a9269723c8db8fac4f93af71db186d6e90", "81b637d8fcd2c6da6359e6963113a1170de795e4b725b84d1e0b4cfd9ec58ce9", 4096, 93, false, "676e7cfdb6613b3d6a72bdf12e3bf6eb21fc5ea8b3384ae0dad38da5f166be9b"),
    ("2bd806c97f0e00af1a1fc3328fa763a9269723c8db8fac4f93af71db186d6e90", "81b637d8fcd2c6da6359e6963113a1170de795e4b725b84d1e0b4cfd9ec58ce9", 20001, 94, true, "40e197d1bdb2a51d8c47006ff1823199ef898535344a48a390a878ce4d8c9a52"),
    ("2bd806c97f0e00af1a1fc3328fa763a9269723c8db8fac4f93af71db186d6e90", "81b637d8fcd2c6da6359e6963113a1170de795e4b725b84d1e0b4cfd9ec58ce9", 20001, 94, false, "7e1974ab6cf64e3be64b4049895bf5bf18d275dbf23e5068a6af56c9268f2b2c"),
    ("8000000000000000000000000000000000000000000000000000000000000000", "fffffffffffffffffffffffffffffffebaaedce6af48a03bbfd25e8cd036413f", 0, 96, true, "4249453102b23790a42be63e1b251ad6c94fdef07271ec0aada31db6c3e8bd32043f8be384d99d762a35b857c78eeffc0bca85f23f342705571e75c38e6e23cd465fa99d8cdd450dcdead40f648f6a92b5468de6e4"),
    ("8000000000000000000000000000000000000000000000000000000000000000", "fffffffffffffffffffffffffffffffebaaedce6af48a03bbfd25e8cd036413f", 0, 96, false, "42494531d99d762a35b857c78eeffc0bca85f23f6dbc0d32b5a5ce3fe29a843f627664dfb41a4b7fdd9b23a48eb391810f9c7aa0"),
    ("8000000000000000000000000000000000000000000000000000000000000000", "fffffffffffffffffffffffffffffffebaaedce6af48a03bbfd25e8cd036413f", 1, 97, true, "4249453102b23790a42be63e1b251ad6c94fdef07271ec0aada31db6c3e8bd32043f8be384bba97867d2cd13f9e4ee6df561263dfc2379a6b53a40e5c171bd4be36141e82231a22f8c0460c2028866f617afacc305"),
    ("8000000000000000000000000000000000000000000000000000000000000000", "fffffffffffffffffffffffffffffffebaaedce6af48a03bbfd25e8cd036413f", 1, 97, false, "42494531bba97867d2cd13f9e4ee6df561263dfc500a51c2b2be5aaea68f224338a24e3676640dc8cb86a2c335261f7762615f5f"),
    ("8000000000000000000000000000000000000000000000000000000000000000", "fffffffffffffffffffffffffffffffebaaedce6af48a03bbfd25e8cd036413f", 15, 98, true, "4249453102b23790a42be63e1b251ad6c94fdef07271ec0aada31db6c3e8bd32043f8be384b848f6130dfa95f4de492cfad02690aa2e4c5044a91a79ec85330317f99415d8acb3ff437a78f06e3d282710ce7a66bd"),
    ("8000000000000000000000000000000000000000000000000000000000000000", "fffffffffffffffffffffffffffffffebaaedce6af48a03bbfd25e8cd036413f", 15, 98, false, "42494531b848f6130dfa95f4de492cfad02690aa598d5d9bae08217285310441471f705a8b3a52066f0c00ccaba4f93b3e094513"),
    ("8000000000000000000000000000000000000000000000000000000000000000", "fffffffffffffffffffffffffffffffebaaedce6af48a03bbfd25e8cd036413f", 16, 99, true, "4249453102b23790a42be63e1b251ad6c94fdef07271ec0aada31db6c3e8bd32043f8be384a3dc5a4c59159e574d67db18bd3796b64fb98d4cbeeae92d7b178cfc9bd8d40ebb0a9bca0713a3153d505d132a096a351b7d92c6d52cbc946146c747a20cb3a4"),
    ("8000000000000000000000000000000000000000000000000000000000000000", "fffffffffffffffffffffffffffffffebaaedce6af48a03bbfd25e8cd036413f", 16, 99, false, "42494531a3dc5a4c59159e574d67db18bd3796b64fb98d4cbeeae92d7b178cfc9bd8d40ec2f260f82125d12d2cc80267225f4e6a786cf100977a5228287bbe7e3bd9ad45"),
    ("8000000000000000000000000000000000000000000000000000000000000000", "fffffffffffffffffffffffffffffffebaaedce6af48a03bbfd25e8cd036413f", 17, 100, true, "4249453102b23790a42be63e1b251ad6c94fdef07271ec0aada31db6c3e8bd32043f8be3847561c5cd77fbcc2a0d4a495e9dc63656bdeab29a0123efef475312d939e0690ac12348b11b8f7660218cfd14cb9e4221bc4d009e3a1afe8fc183aee07afb265c"),
    ("8000000000000000000000000000000000000000000000000000000000000000", "fffffffffffffffffffffffffffffffebaaedce6af48a03bbfd25e8cd036413f", 17, 100, false, "424945317561c5cd77fbcc2a0d4a495e9dc63656bdeab29a0123efef475312d939e0690af5bc757a12b901dff70e84a6fa7ef56fe945bf4ae8681b88c959dcce6f69af37"),
    ("8000000000000000000000000000000000000000000000000000000000000000", "fffffffffffffffffffffffffffffffebaaedce6af48a03bbfd25e8cd036413f", 33, 103, true, "4249453102b23790a42be63e1b251ad6c94fdef07271ec0aada31db6c3e8bd32043f8be384f2de3e428dd19de2732ba65c2b11ca2e3ab9c535a5764587ff442c344bbed2df5c78107bf5663461ff94ef9e4691e0ced1fc0d7ee9a1d7f6e424ac8f3d3ac553a585677e4c998ebc7fa2afe1751d533c"),
    ("8000000000000000000000000000000000000000000000000000000000000000", "fffffffffffffffffffffffffffffffebaaedce6af48a03bbfd25e8cd036413f", 33, 103, false, "42494531f2de3e428dd19de2732ba65c2b11ca2e3ab9c535a5764587ff442c344bbed2df5c78107bf5663461ff94ef9e4691e0cedc20d20eb37c86d4e7ef526ed33a28eca67c0bb691aaec7ce9831c1c098292ac"),
    ("00000000000000000000000000000000000000000000000000000000deadbeef", "7fffffffffffffffffffffffffffffff5d576e7357a4501ddfe92f46681b20a1", 0, 112, true, "424945310276d2fdf1302d1fa9556f4df94ec84cefba6d482e54f47c6c2a238c1baa560f0e202eef9baf0df7eea7db15eaad937805e152411fe601c20c64243ed10abd4af1b4bde16c0ab5d51c1330e4facf5eddff"),
    ("00000000000000000000000000000000000000000000000000000000deadbeef", "7fffffffffffffffffffffffffffffff5d576e7357a4501ddfe92f46681b20a1", 0, 112, false, "42494531202eef9baf0df7eea7db15eaad937805a378ec12cf1f69ceadfcb51aba588b71cf5454f415cadd4f2fc3fa438372f20f"),
    ("00000000000000000000000000000000000000000000000000000000deadbeef", "7fffffffffffffffffffffffffffffff5d576e7357a4501ddfe92f46681b20a1", 1, 113, true, "424945310276d2fdf1302d1fa9556f4df94ec84cefba6d482e54f47c6c2a238c1baa560f0e89f102299e7373ed9c19c136d16405ba0311e03026f88fc689c6720faf467c23a019bed564db9857f757eb551feb8d50"),
    ("00000000000000000000000000000000000000000000000000000000deadbeef", "7fffffffffffffffffffffffffffffff5d576e7357a4501ddfe92f46681b20a1", 1, 113, false, "4249453189f102299e7373ed9c19c136d16405ba259ac98f0bf3d7779c980de570f5e1c57b5a7414c859c5d6dcd3dc10be34d3b0"),
    ("00000000000000000000000000000000000000000000000000000000deadbeef", "7fffffffffffffffffffffffffffffff5d576e7357a4501ddfe92f46681b20a1", 15, 114, true, "424945310276d2fdf1302d1fa9556f4df94ec84cefba6d482e54f47c6c2a238c1baa560f0edb5202a55bb8a6f28152225155d273315d2367bfa02a475e7d3e701cf23458fed415f1dbbada427eb246352c3da094cf"),
    ("00000000000000000000000000000000000000000000000000000000deadbeef", "7fffffffffffffffffffffffffffffff5d576e7357a4501ddfe92f46681b20a1", 15, 114, false, "42494531db5202a55bb8a6f28152225155d2733194d655b398a6a8b33002a103179ce54bbddcdd957aebb975de8f6ab990f3bd6b"),
    ("00000000000000000000000000000000000000000000000000000000deadbeef", "7fffffffffffffffffffffffffffffff5d576e7357a4501ddfe92f46681b20a1", 16, 115, true, "424945310276d2fdf1302d1fa9556f4df94ec84cefba6d482e54f47c6c2a238c1baa560f0ed804448643243c982f6354913856fa96880c67d983460cf804375976ba965976a43dfb0455860c957adb48db7262d0a2b6b5bc1bd0625a6aeca87c2e6418315b"),
    ("00000000000000000000000000000000000000000000000000000000deadbeef", "7fffffffffffffffffffffffffffffff5d576e7357a4501ddfe92f46681b20a1", 16, 115, false, "42494531d804448643243c982f6354913856fa96880c67d983460cf804375976ba965976541e52bfc0e6e98df0d1c215aba71a863c9aaa09086c727275bfd02c77cf112e"),
    ("00000000000000000000000000000000000000000000000000000000deadbeef", "7fffffffffffffffffffffffffffffff5d576e7357a4501ddfe92f46681b20a1", 17, 116, true, "424945310276d2fdf1302d1fa9556f4df94ec84cefba6d482e54f47c6c2a238c1baa560f0e96403dcbe555a0caadd9ea8002cf5e904503d3409dff3464b78eb57c6cb629da28f3754343c6b0c6b5a2898a76f5ec4c646867a8bf34a0616454138f9a0ff168"),
    ("00000000000000000000000000000000000000000000000000000000deadbeef", "7fffffffffffffffffffffffffffffff5d576e7357a4501ddfe92f46681b20a1", 17, 116, false, "4249453196403dcbe555a0caadd9ea8002cf5e904503d3409dff3464b78eb57c6cb629da279a370cc57dc7ea7e190534ea4d64b6348071e16331998fd450d502ca40625c"),
    ("00000000000000000000000000000000000000000000000000000000deadbeef", "7fffffffffffffffffffffffffffffff5d576e7357a4501ddfe92f46681b20a1", 33, 119, true, "424945310276d2fdf1302d1fa9556f4df94ec84cefba6d482e54f47c6c2a238c1baa560f0e26e97d3bd1cd4d50158d15bbd7b8cd9970963e3f045bb32d30a31e1f1dd70801f0b6df50fb114e0d72a2093f9a1b0cb9dcf8fe8bc18877a108b22e0dabe11d02a7b09003d0f854e80d5cec5d32f276ff"),
    ("00000000000000000000000000000000000000000000000000000000deadbeef", "7fffffffffffffffffffffffffffffff5d576e7357a4501ddfe92f46681b20a1", 33, 119, false, "4249453126e97d3bd1cd4d50158d15bbd7b8cd9970963e3f045bb32d30a31e1f1dd70801f0b6df50fb114e0d72a2093f9a1b0cb976c235453e79cdd2f455c704bd3998c736d326d122b32319f6cff1b1e8e29021"),
];
