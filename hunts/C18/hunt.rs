// C18 hunt: extended-transaction JSON and CBOR encodings are lossless.
//
// Oracles: a tiny reference wire serialiser written here (ref_tx_bytes), SHA-256d from the sha2 crate,
// and the round-trip invariant itself (structural equality + equality of wire bytes with the reference bytes).
use bsv::*;
use sha2::{Digest, Sha256};

// ---------------------------------------------------------------------------------------------
// reference implementation
// ---------------------------------------------------------------------------------------------
fn varint(n: u64) -> Vec<u8> {
    if n < 0xfd {
        vec![n as u8]
    } else if n <= 0xffff {
        let mut v = vec![0xfd];
        v.extend_from_slice(&(n as u16).to_le_bytes());
        v
    } else if n <= 0xffff_ffff {
        let mut v = vec![0xfe];
        v.extend_from_slice(&(n as u32).to_le_bytes());
        v
    } else {
        let mut v = vec![0xff];
        v.extend_from_slice(&n.to_le_bytes());
        v
    }
}

#[derive(Clone, Debug)]
struct RefIn {
    txid_wire: [u8; 32], // as on the wire (little endian)
    vout: u32,
    script: Vec<u8>,
    sequence: u32,
}
#[derive(Clone, Debug)]
struct RefOut {
    value: u64,
    script: Vec<u8>,
}
#[derive(Clone, Debug)]
struct RefTx {
    version: u32,
    ins: Vec<RefIn>,
    outs: Vec<RefOut>,
    locktime: u32,
}

fn ref_in_bytes(i: &RefIn) -> Vec<u8> {
    let mut b = vec![];
    b.extend_from_slice(&i.txid_wire);
    b.extend_from_slice(&i.vout.to_le_bytes());
    b.extend(varint(i.script.len() as u64));
    b.extend_from_slice(&i.script);
    b.extend_from_slice(&i.sequence.to_le_bytes());
    b
}

fn ref_tx_bytes(tx: &RefTx) -> Vec<u8> {
    let mut b = vec![];
    b.extend_from_slice(&tx.version.to_le_bytes());
    b.extend(varint(tx.ins.len() as u64));
    for i in &tx.ins {
        b.extend(ref_in_bytes(i));
    }
    b.extend(varint(tx.outs.len() as u64));
    for o in &tx.outs {
        b.extend_from_slice(&o.value.to_le_bytes());
        b.extend(varint(o.script.len() as u64));
        b.extend_from_slice(&o.script);
    }
    b.extend_from_slice(&tx.locktime.to_le_bytes());
    b
}

fn ref_txid_hex(wire: &[u8]) -> String {
    let mut h = Sha256::digest(&Sha256::digest(wire)).to_vec();
    h.reverse();
    hex::encode(h)
}

// push encoders for all forms
fn push_direct(d: &[u8]) -> Vec<u8> {
    assert!(!d.is_empty() && d.len() <= 75);
    let mut v = vec![d.len() as u8];
    v.extend_from_slice(d);
    v
}
fn push1(d: &[u8]) -> Vec<u8> {
    let mut v = vec![0x4c, d.len() as u8];
    v.extend_from_slice(d);
    v
}
fn push2(d: &[u8]) -> Vec<u8> {
    let mut v = vec![0x4d];
    v.extend_from_slice(&(d.len() as u16).to_le_bytes());
    v.extend_from_slice(d);
    v
}
fn push4(d: &[u8]) -> Vec<u8> {
    let mut v = vec![0x4e];
    v.extend_from_slice(&(d.len() as u32).to_le_bytes());
    v.extend_from_slice(d);
    v
}
fn pat(n: usize, seed: u8) -> Vec<u8> {
    (0..n).map(|i| (i as u8).wrapping_mul(31).wrapping_add(seed)).collect()
}

struct Rng(u64);
impl Rng {
    fn next(&mut self) -> u64 {
        self.0 ^= self.0 << 13;
        self.0 ^= self.0 >> 7;
        self.0 ^= self.0 << 17;
        self.0
    }
    fn below(&mut self, n: u64) -> u64 {
        self.next() % n
    }
    fn bytes(&mut self, n: usize) -> Vec<u8> {
        (0..n).map(|_| self.next() as u8).collect()
    }
}

const P2PKH: &str = "76a91420bb5c3bfaef0231dc05190e7f1c8e22e098991e88ac";

fn simple_tx_with(script_sig: Vec<u8>, script_pub_key: Vec<u8>) -> RefTx {
    RefTx {
        version: 1,
        ins: vec![RefIn {
            txid_wire: {
                let mut t = [0u8; 32];
                for (i, b) in t.iter_mut().enumerate() {
                    *b = i as u8 + 1;
                }
                t
            },
            vout: 7,
            script: script_sig,
            sequence: 0xfffffffe,
        }],
        outs: vec![RefOut { value: 5000, script: script_pub_key }],
        locktime: 0,
    }
}

/// Full check of a transaction `tx` (already carrying whatever extended fields) against reference wire bytes.
/// Returns Err(description) rather than panicking so that callers can aggregate.
fn check_roundtrips(tx: &Transaction, wire: &[u8]) -> Result<(), String> {
    let txid = ref_txid_hex(wire);
    if tx.to_bytes().map_err(|e| e.to_string())? != wire {
        return Err("precondition: library wire bytes differ from reference".into());
    }

    // JSON string
    let json = tx.to_json_string().map_err(|e| format!("to_json_string: {}", e))?;
    let back = Transaction::from_json_string(&json).map_err(|e| format!("from_json_string: {}", e))?;
    if &back != tx {
        return Err(format!("JSON: structure differs\n  orig {:?}\n  back {:?}", tx, back));
    }
    if back.to_bytes().unwrap() != wire {
        return Err("JSON: wire differs".into());
    }
    if back.get_id_hex().unwrap() != txid {
        return Err("JSON: txid differs".into());
    }
    for i in 0..tx.get_ninputs() {
        let (a, b) = (tx.get_input(i).unwrap(), back.get_input(i).unwrap());
        if a.get_satoshis() != b.get_satoshis() || a.get_locking_script() != b.get_locking_script() {
            return Err("JSON: extended fields differ".into());
        }
    }

    // JSON value
    let val = tx.to_json().map_err(|e| format!("to_json: {}", e))?;
    let back: Transaction = serde_json::from_value(val).map_err(|e| format!("from_value: {}", e))?;
    if &back != tx {
        return Err("JSON value: structure differs".into());
    }

    // CBOR
    let cbor = tx.to_compact_bytes().map_err(|e| format!("to_compact_bytes: {}", e))?;
    let back = Transaction::from_compact_bytes(&cbor).map_err(|e| format!("from_compact_bytes: {}", e))?;
    if &back != tx {
        return Err(format!("CBOR: structure differs\n  orig {:?}\n  back {:?}", tx, back));
    }
    if back.to_bytes().unwrap() != wire {
        return Err("CBOR: wire differs".into());
    }
    if back.get_id_hex().unwrap() != txid {
        return Err("CBOR: txid differs".into());
    }
    let back = Transaction::from_compact_hex(&tx.to_compact_hex().unwrap()).map_err(|e| format!("from_compact_hex: {}", e))?;
    if &back != tx {
        return Err("CBOR hex: structure differs".into());
    }

    // every input on its own
    for i in 0..tx.get_ninputs() {
        let inp = tx.get_input(i).unwrap();
        let wire_in = inp.to_bytes().unwrap();
        let j = inp.to_json_string().map_err(|e| format!("txin to_json_string: {}", e))?;
        let b: TxIn = serde_json::from_str(&j).map_err(|e| format!("txin from json: {}", e))?;
        if b != inp || b.to_bytes().unwrap() != wire_in {
            return Err(format!("TxIn JSON differs for input {}", i));
        }
        let b: TxIn = serde_json::from_value(inp.to_json().unwrap()).map_err(|e| format!("txin from value: {}", e))?;
        if b != inp {
            return Err(format!("TxIn JSON value differs for input {}", i));
        }
        let c = inp.to_compact_bytes().map_err(|e| format!("txin to_compact: {}", e))?;
        let b = TxIn::from_compact_bytes(&c).map_err(|e| format!("txin from_compact: {}", e))?;
        if b != inp || b.to_bytes().unwrap() != wire_in {
            return Err(format!("TxIn CBOR differs for input {}", i));
        }
        let b = TxIn::from_compact_hex(&inp.to_compact_hex().unwrap()).map_err(|e| format!("txin from_compact_hex: {}", e))?;
        if b != inp {
            return Err(format!("TxIn CBOR hex differs for input {}", i));
        }
    }
    Ok(())
}

fn parse_and_check(rt: &RefTx) -> Result<(), String> {
    let wire = ref_tx_bytes(rt);
    let tx = Transaction::from_bytes(&wire).map_err(|e| format!("from_bytes: {}", e))?;
    check_roundtrips(&tx, &wire)
}

// ---------------------------------------------------------------------------------------------
// E01 plain non-coinbase transaction, parsed from reference bytes
// ---------------------------------------------------------------------------------------------
#[test]
fn e01_plain_tx() {
    let sig = pat(72, 3);
    let pk = pat(33, 9);
    let mut ss = push_direct(&sig);
    ss.extend(push_direct(&pk));
    let rt = simple_tx_with(ss, hex::decode(P2PKH).unwrap());
    parse_and_check(&rt).unwrap();
}

// E02 coinbase transaction whose coinbase data is not a valid script (truncated push, unknown opcodes)
#[test]
fn e02_coinbase_variants() {
    let datas: Vec<Vec<u8>> = vec![
        vec![],
        vec![0x00],
        vec![0x03, 0xaa, 0xbb, 0xcc],
        vec![0x4b, 0x01],             // truncated direct push
        vec![0x4e, 0xff, 0xff, 0xff], // truncated pushdata4
        vec![0xff, 0xfe, 0xfd, 0xba], // unknown opcodes
        vec![0x63, 0x63, 0x63],       // unbalanced IFs
        pat(100, 1),
        pat(3000, 7), // > 4096 hex characters
    ];
    for d in datas {
        let rt = RefTx {
            version: 2,
            ins: vec![RefIn { txid_wire: [0; 32], vout: 0xffff_ffff, script: d.clone(), sequence: 0xffff_ffff }],
            outs: vec![RefOut { value: 50_0000_0000, script: hex::decode(P2PKH).unwrap() }],
            locktime: 0,
        };
        let wire = ref_tx_bytes(&rt);
        let tx = Transaction::from_bytes(&wire).unwrap();
        assert!(tx.is_coinbase());
        check_roundtrips(&tx, &wire).unwrap_or_else(|e| panic!("coinbase {}: {}", hex::encode(&d), e));

        // the coinbase input with extended fields set as well
        let mut tx2 = tx.clone();
        let mut i0 = tx2.get_input(0).unwrap();
        i0.set_satoshis(u64::MAX);
        i0.set_locking_script(&Script::from_hex(P2PKH).unwrap());
        tx2.set_input(0, &i0);
        check_roundtrips(&tx2, &wire).unwrap();
    }
}

// E03 coinbase-looking outpoints that are not coinbase (vout ffffffff with a non-zero txid, zero txid with other vout)
// and a coinbase input inside a multi-input transaction (is_coinbase() false, but the input was parsed as coinbase data)
#[test]
fn e03_near_coinbase() {
    let mut t1 = [0u8; 32];
    t1[31] = 1;
    let mk = |txid: [u8; 32], vout: u32, script: Vec<u8>| RefIn { txid_wire: txid, vout, script, sequence: 0 };
    let rt = RefTx {
        version: 1,
        ins: vec![
            mk(t1, 0xffff_ffff, vec![0x51]),
            mk([0; 32], 0, vec![0x02, 0xaa, 0xbb]),
            mk([0; 32], 0xffff_ffff, vec![0x4b, 0x01]), // coinbase outpoint in a 3-input tx
        ],
        outs: vec![],
        locktime: 0xffff_ffff,
    };
    parse_and_check(&rt).unwrap();
}

// E04 64-bit values: outputs and extended input satoshis
#[test]
fn e04_u64_values() {
    let values = [
        0u64,
        1,
        (1 << 53) - 1,
        1 << 53,
        (1 << 53) + 1,
        i64::MAX as u64,
        (i64::MAX as u64) + 1,
        u64::MAX - 1,
        u64::MAX,
        0x8000_0000,
        0xffff_ffff,
        0x1_0000_0000,
        2_100_000_000_000_000,
    ];
    for v in values {
        let mut rt = simple_tx_with(vec![0x51], hex::decode(P2PKH).unwrap());
        rt.outs[0].value = v;
        rt.outs.push(RefOut { value: u64::MAX - v, script: vec![] });
        let wire = ref_tx_bytes(&rt);
        let mut tx = Transaction::from_bytes(&wire).unwrap();
        let mut i0 = tx.get_input(0).unwrap();
        i0.set_satoshis(v);
        tx.set_input(0, &i0);
        check_roundtrips(&tx, &wire).unwrap_or_else(|e| panic!("value {}: {}", v, e));
        // value really arrives
        let back = Transaction::from_json_string(&tx.to_json_string().unwrap()).unwrap();
        assert_eq!(back.get_input(0).unwrap().get_satoshis(), Some(v));
        assert_eq!(back.get_output(0).unwrap().get_satoshis(), v);
        assert_eq!(back.get_output(1).unwrap().get_satoshis(), u64::MAX - v);
        let back = Transaction::from_compact_bytes(&tx.to_compact_bytes().unwrap()).unwrap();
        assert_eq!(back.get_input(0).unwrap().get_satoshis(), Some(v));
        assert_eq!(back.get_output(0).unwrap().get_satoshis(), v);
        // JSON text contains the exact decimal digits
        assert!(tx.to_json_string().unwrap().contains(&format!("\"satoshis\":{}", v)));
        assert!(tx.to_json_string().unwrap().contains(&format!("\"value\":{}", v)));
    }
}

// E05 present / absent extended fields in all four combinations across several inputs
#[test]
fn e05_extended_field_combinations() {
    let mut rt = simple_tx_with(vec![0x51], hex::decode(P2PKH).unwrap());
    for k in 0..3u8 {
        let mut i = rt.ins[0].clone();
        i.txid_wire[0] = 0xf0 + k;
        i.script = push_direct(&pat(10 + k as usize, k));
        rt.ins.push(i);
    }
    let wire = ref_tx_bytes(&rt);
    let mut tx = Transaction::from_bytes(&wire).unwrap();
    let lock = Script::from_hex(P2PKH).unwrap();
    // 0: none, 1: satoshis only, 2: locking only, 3: both
    let mut i1 = tx.get_input(1).unwrap();
    i1.set_satoshis(0);
    tx.set_input(1, &i1);
    let mut i2 = tx.get_input(2).unwrap();
    i2.set_locking_script(&Script::default());
    tx.set_input(2, &i2);
    let mut i3 = tx.get_input(3).unwrap();
    i3.set_satoshis(u64::MAX);
    i3.set_locking_script(&lock);
    tx.set_input(3, &i3);
    check_roundtrips(&tx, &wire).unwrap();

    let back = Transaction::from_json_string(&tx.to_json_string().unwrap()).unwrap();
    assert_eq!(back.get_input(0).unwrap().get_satoshis(), None);
    assert_eq!(back.get_input(0).unwrap().get_locking_script(), None);
    assert_eq!(back.get_input(1).unwrap().get_satoshis(), Some(0));
    assert_eq!(back.get_input(1).unwrap().get_locking_script(), None);
    assert_eq!(back.get_input(2).unwrap().get_satoshis(), None);
    assert_eq!(back.get_input(2).unwrap().get_locking_script_bytes(), Some(vec![]));
    assert_eq!(back.get_input(3).unwrap().get_satoshis(), Some(u64::MAX));
    assert_eq!(back.get_input(3).unwrap().get_locking_script_bytes(), Some(hex::decode(P2PKH).unwrap()));
    assert_eq!(back.satoshis_in(), None);
    // the script_sig / unlocking_script naming must not swap the two scripts
    assert_eq!(back.get_input(3).unwrap().get_unlocking_script().to_bytes(), rt.ins[3].script);
}

// E06 every push form, minimal and non-minimal, including empty pushes
#[test]
fn e06_every_push_form() {
    let mut forms: Vec<Vec<u8>> = vec![vec![0x00], vec![0x4f], vec![0x51], vec![0x60]];
    for n in [1usize, 2, 16, 32, 33, 74, 75] {
        forms.push(push_direct(&pat(n, n as u8)));
    }
    for n in [0usize, 1, 20, 75, 76, 100, 254, 255] {
        forms.push(push1(&pat(n, 5)));
    }
    for n in [0usize, 1, 75, 76, 255, 256, 1000, 4095, 4096, 4097, 65535] {
        forms.push(push2(&pat(n, 6)));
    }
    for n in [0usize, 1, 75, 255, 256, 2047, 2048, 2049, 65535, 65536, 70001] {
        forms.push(push4(&pat(n, 7)));
    }
    // one byte pushes whose value looks like a small number / opcode
    for b in [0x00u8, 0x01, 0x10, 0x16, 0x51, 0x63, 0x67, 0x68, 0x6a, 0x81, 0xff] {
        forms.push(push_direct(&[b]));
    }
    // each on its own as script_sig, script_pub_key and as the extended locking script
    let mut all = vec![];
    for f in &forms {
        all.extend_from_slice(f);
        let rt = simple_tx_with(f.clone(), f.clone());
        let wire = ref_tx_bytes(&rt);
        let mut tx = Transaction::from_bytes(&wire).unwrap();
        let mut i0 = tx.get_input(0).unwrap();
        i0.set_locking_script(&Script::from_bytes(f).unwrap());
        tx.set_input(0, &i0);
        check_roundtrips(&tx, &wire).unwrap_or_else(|e| panic!("form {}..: {}", hex::encode(&f[..f.len().min(8)]), e));
        let back = Transaction::from_compact_bytes(&tx.to_compact_bytes().unwrap()).unwrap();
        assert_eq!(&back.get_input(0).unwrap().get_locking_script_bytes().unwrap(), f);
        let back = Transaction::from_json_string(&tx.to_json_string().unwrap()).unwrap();
        assert_eq!(&back.get_input(0).unwrap().get_locking_script_bytes().unwrap(), f);
    }
    // all in one script
    parse_and_check(&simple_tx_with(all.clone(), all)).unwrap();
}

// E07 every single opcode byte that parses on its own survives
#[test]
fn e07_every_opcode_byte() {
    let mut script = vec![];
    let mut n = 0;
    for b in 0u8..=255 {
        // conditionals, else/endif would need structure; pushes need data
        if (1..=0x4e).contains(&b) || [0x63, 0x64, 0x65, 0x66, 0x67, 0x68, 0x6a].contains(&b) {
            continue;
        }
        if Script::from_bytes(&[b]).is_ok() {
            script.push(b);
            n += 1;
        }
    }
    assert!(n > 100);
    parse_and_check(&simple_tx_with(script.clone(), script)).unwrap();
}

// E08 conditional shapes: empty branches, else present/absent, all four IF codes, code separators, OP_RETURN inside
#[test]
fn e08_conditional_shapes() {
    let shapes: Vec<&str> = vec![
        "6368",                         // IF ENDIF
        "636768",                       // IF ELSE ENDIF
        "6451675268",                   // NOTIF 1 ELSE 2 ENDIF
        "65516768",                     // VERIF 1 ELSE ENDIF
        "66675168",                     // VERNOTIF ELSE 1 ENDIF
        "63636868",                     // IF IF ENDIF ENDIF
        "63636768676368686751ab68",     // mixed
        "6300670068",                   // IF 0 ELSE 0 ENDIF
        "634c00674d000067024e00000000686868", // hmm: built below instead
        "51636a68",                     // 1 IF RETURN ENDIF
        "63ab67abac68ab",               // code separators
        "6301636801676801686368",       // pushes whose data bytes look like IF/ELSE/ENDIF
    ];
    for s in shapes {
        let bytes = hex::decode(s).unwrap();
        if Script::from_bytes(&bytes).is_err() {
            continue;
        }
        parse_and_check(&simple_tx_with(bytes.clone(), bytes)).unwrap_or_else(|e| panic!("shape {}: {}", s, e));
    }
    // empty pushes of every form inside branches
    let mut b = vec![0x63];
    b.extend(push1(&[]));
    b.push(0x67);
    b.extend(push2(&[]));
    b.push(0x64);
    b.extend(push4(&[]));
    b.push(0x00);
    b.push(0x68);
    b.push(0x68);
    parse_and_check(&simple_tx_with(b.clone(), b)).unwrap();
}

fn nested_if(depth: usize) -> Vec<u8> {
    // 1 IF 1 IF ... 1 ... ENDIF ENDIF
    let mut b = vec![];
    for _ in 0..depth {
        b.push(0x51);
        b.push(0x63);
    }
    b.push(0x51);
    for _ in 0..depth {
        b.push(0x68);
    }
    b
}

// E09 moderate nesting depths work in all encodings
#[test]
fn e09_nesting_moderate() {
    for d in [1usize, 2, 5, 10, 20, 40, 50, 58] {
        let s = nested_if(d);
        parse_and_check(&simple_tx_with(s.clone(), s)).unwrap_or_else(|e| panic!("depth {}: {}", d, e));
    }
}

fn run_deep<F: FnOnce() + Send + 'static>(f: F) {
    std::thread::Builder::new().stack_size(512 * 1024 * 1024).spawn(f).unwrap().join().unwrap();
}

// E10 nesting depths that the script parser accepts (MAX_IF_NESTING = 500) in a locking script of an output.
// Oracle: round trip invariant; the script is 3*d+1 bytes and is accepted by Transaction::from_bytes.
#[test]
fn violation_json_nested_conditionals_in_output() {
    run_deep(|| {
        let mut first_fail = None;
        for d in 59..=500usize {
            let s = nested_if(d);
            let rt = simple_tx_with(vec![0x51], s.clone());
            let wire = ref_tx_bytes(&rt);
            let tx = Transaction::from_bytes(&wire).expect("parser accepts this depth");
            let json = tx.to_json_string().expect("serialises to JSON");
            match Transaction::from_json_string(&json) {
                Ok(back) => {
                    assert_eq!(back, tx);
                    assert_eq!(back.to_bytes().unwrap(), wire);
                }
                Err(e) => {
                    first_fail = Some((d, e.to_string(), s.len()));
                    break;
                }
            }
        }
        if let Some((d, e, len)) = first_fail {
            panic!("JSON produced by to_json_string is rejected by from_json_string at conditional depth {} (script of {} bytes): {}", d, len, e);
        }
    });
}

#[test]
fn violation_cbor_nested_conditionals_in_output() {
    run_deep(|| {
        let mut first_fail = None;
        for d in 59..=500usize {
            let s = nested_if(d);
            let rt = simple_tx_with(vec![0x51], s.clone());
            let wire = ref_tx_bytes(&rt);
            let tx = Transaction::from_bytes(&wire).expect("parser accepts this depth");
            let cbor = tx.to_compact_bytes().expect("serialises to CBOR");
            match Transaction::from_compact_bytes(&cbor) {
                Ok(back) => {
                    assert_eq!(back, tx);
                    assert_eq!(back.to_bytes().unwrap(), wire);
                }
                Err(e) => {
                    first_fail = Some((d, e.to_string(), s.len()));
                    break;
                }
            }
        }
        if let Some((d, e, len)) = first_fail {
            panic!("CBOR produced by to_compact_bytes is rejected by from_compact_bytes at conditional depth {} (script of {} bytes): {}", d, len, e);
        }
    });
}

// the same for a single input on its own carrying the extended locking script
#[test]
fn violation_txin_nested_conditionals_extended_locking_script() {
    run_deep(|| {
        let d = 130usize;
        let s = nested_if(d);
        let mut txin = TxIn::new(&pat(32, 1), 0, &Script::from_bytes(&[0x51]).unwrap(), None);
        txin.set_satoshis(1000);
        txin.set_locking_script(&Script::from_bytes(&s).expect("parser accepts depth 130"));
        let wire_in = txin.to_bytes().unwrap();

        let json = txin.to_json_string().unwrap();
        let j: Result<TxIn, _> = serde_json::from_str(&json);
        let cbor = txin.to_compact_bytes().unwrap();
        let c = TxIn::from_compact_bytes(&cbor);
        let mut msgs = vec![];
        match j {
            Ok(b) => {
                assert_eq!(b, txin);
                assert_eq!(b.to_bytes().unwrap(), wire_in);
            }
            Err(e) => msgs.push(format!("JSON: {}", e)),
        }
        match c {
            Ok(b) => {
                assert_eq!(b, txin);
                assert_eq!(b.to_bytes().unwrap(), wire_in);
            }
            Err(e) => msgs.push(format!("CBOR: {}", e)),
        }
        assert!(msgs.is_empty(), "single input with a 130-deep conditional locking script is not read back: {:?}", msgs);
    });
}

// E11 big pushes (beyond ciborium's 4096 byte scratch buffer) in a lone TxIn and a tx
#[test]
fn e11_big_pushes() {
    for n in [2047usize, 2048, 2049, 4095, 4096, 4097, 8192, 100_000, 1_000_000] {
        let d = pat(n, 11);
        let s = if n <= 65535 { push2(&d) } else { push4(&d) };
        let rt = simple_tx_with(s.clone(), s.clone());
        let wire = ref_tx_bytes(&rt);
        let mut tx = Transaction::from_bytes(&wire).unwrap();
        let mut i0 = tx.get_input(0).unwrap();
        i0.set_locking_script(&Script::from_bytes(&s).unwrap());
        i0.set_satoshis(n as u64);
        tx.set_input(0, &i0);
        check_roundtrips(&tx, &wire).unwrap_or_else(|e| panic!("push size {}: {}", n, e));
    }
}

// E12 transactions built through setters / from_script_bits rather than parsed (incl. Push(vec![]) "empty push")
#[test]
fn e12_built_through_api() {
    let bits = vec![
        ScriptBit::Push(vec![]),
        ScriptBit::OpCode(OpCodes::OP_0),
        ScriptBit::PushData(OpCodes::OP_PUSHDATA1, vec![]),
        ScriptBit::PushData(OpCodes::OP_PUSHDATA2, vec![0xab]),
        ScriptBit::PushData(OpCodes::OP_PUSHDATA4, vec![0xcd; 3]),
        ScriptBit::If {
            code: OpCodes::OP_NOTIF,
            pass: vec![],
            fail: Some(vec![]),
        },
        ScriptBit::If {
            code: OpCodes::OP_IF,
            pass: vec![ScriptBit::If { code: OpCodes::OP_VERIF, pass: vec![ScriptBit::Push(vec![0x68])], fail: None }],
            fail: Some(vec![ScriptBit::Push(vec![])]),
        },
        ScriptBit::Push(vec![0xde, 0xad]),
    ];
    let script = Script::from_script_bits(bits);
    let mut tx = Transaction::new(0xffff_ffff, 0xffff_fffe);
    let mut txin = TxIn::new(&pat(32, 77), 0xffff_fffe, &script, Some(0));
    txin.set_satoshis(u64::MAX);
    txin.set_locking_script(&script);
    tx.add_input(&txin);
    tx.add_input(&TxIn::default());
    tx.add_output(&TxOut::new(u64::MAX, &script));
    tx.add_output(&TxOut::new(0, &Script::default()));

    for (name, back) in [
        ("json", Transaction::from_json_string(&tx.to_json_string().unwrap()).unwrap()),
        ("cbor", Transaction::from_compact_bytes(&tx.to_compact_bytes().unwrap()).unwrap()),
    ] {
        assert_eq!(back, tx, "{}", name);
        assert_eq!(back.to_bytes().unwrap(), tx.to_bytes().unwrap(), "{}", name);
        assert_eq!(back.get_input(0).unwrap().get_unlocking_script().to_script_bits(), script.to_script_bits(), "{}", name);
    }
    let back: TxIn = serde_json::from_str(&txin.to_json_string().unwrap()).unwrap();
    assert_eq!(back, txin);
    let back = TxIn::from_compact_bytes(&txin.to_compact_bytes().unwrap()).unwrap();
    assert_eq!(back, txin);
}

// E13 zero inputs / zero outputs / extreme header fields
#[test]
fn e13_degenerate_transactions() {
    for (v, l) in [(0u32, 0u32), (u32::MAX, u32::MAX), (0x8000_0000, 499_999_999), (2, 500_000_000)] {
        let rt = RefTx { version: v, ins: vec![], outs: vec![], locktime: l };
        parse_and_check(&rt).unwrap();
        let mut rt2 = simple_tx_with(vec![], vec![]);
        rt2.version = v;
        rt2.locktime = l;
        rt2.ins[0].vout = v;
        rt2.ins[0].sequence = l;
        parse_and_check(&rt2).unwrap();
    }
}

// E14 prev_tx_id byte order: asymmetric txid survives, and JSON shows the wire byte order reversed (display order)
#[test]
fn e14_prev_txid_order() {
    let rt = simple_tx_with(vec![0x51], vec![0x51]);
    let wire = ref_tx_bytes(&rt);
    let tx = Transaction::from_bytes(&wire).unwrap();
    let back = Transaction::from_json_string(&tx.to_json_string().unwrap()).unwrap();
    let mut display = rt.ins[0].txid_wire.to_vec();
    display.reverse();
    assert_eq!(back.get_input(0).unwrap().get_prev_tx_id(None), display);
    assert_eq!(back.get_input(0).unwrap().get_outpoint_bytes(Some(true))[..32], rt.ins[0].txid_wire[..]);
    let back = Transaction::from_compact_bytes(&tx.to_compact_bytes().unwrap()).unwrap();
    assert_eq!(back.get_input(0).unwrap().get_prev_tx_id(None), display);
    check_roundtrips(&tx, &wire).unwrap();
}

// E15 many inputs and outputs (varint class boundary 252/253) with alternating extended fields
#[test]
fn e15_many_inputs_outputs() {
    for n in [252usize, 253, 300] {
        let mut rt = RefTx { version: 1, ins: vec![], outs: vec![], locktime: 1 };
        for k in 0..n {
            let mut t = [0u8; 32];
            t[0] = k as u8;
            t[1] = (k >> 8) as u8;
            t[31] = 0x80;
            rt.ins.push(RefIn { txid_wire: t, vout: k as u32, script: push_direct(&pat(1 + k % 75, k as u8)), sequence: k as u32 });
            rt.outs.push(RefOut { value: u64::MAX - k as u64, script: push1(&pat(k % 256, 1)) });
        }
        let wire = ref_tx_bytes(&rt);
        let mut tx = Transaction::from_bytes(&wire).unwrap();
        for k in (0..n).step_by(2) {
            let mut i = tx.get_input(k).unwrap();
            i.set_satoshis(u64::MAX - k as u64);
            if k % 4 == 0 {
                i.set_locking_script(&Script::from_bytes(&rt.outs[k].script).unwrap());
            }
            tx.set_input(k, &i);
        }
        check_roundtrips(&tx, &wire).unwrap();
    }
}

// E16 random structured scripts and transactions
fn rand_script(r: &mut Rng, depth: usize, out: &mut Vec<u8>) {
    let n = r.below(6);
    for _ in 0..n {
        match r.below(10) {
            0 => out.push(0x00),
            1 => {
                let len = 1 + r.below(75) as usize;
                out.extend(push_direct(&r.bytes(len)));
            }
            2 => {
                let len = r.below(256) as usize;
                out.extend(push1(&r.bytes(len)));
            }
            3 => {
                let len = r.below(600) as usize;
                out.extend(push2(&r.bytes(len)));
            }
            4 => {
                let len = r.below(300) as usize;
                out.extend(push4(&r.bytes(len)));
            }
            5 | 6 if depth < 6 => {
                out.push([0x63u8, 0x64, 0x65, 0x66][r.below(4) as usize]);
                rand_script(r, depth + 1, out);
                if r.below(2) == 0 {
                    out.push(0x67);
                    rand_script(r, depth + 1, out);
                }
                out.push(0x68);
            }
            _ => {
                // a plain opcode that is not a conditional / push
                let ops = [0x4fu8, 0x51, 0x60, 0x61, 0x69, 0x6b, 0x75, 0x76, 0x7e, 0x7f, 0x87, 0x93, 0xa9, 0xab, 0xac, 0xae, 0xb0, 0xb9];
                out.push(ops[r.below(ops.len() as u64) as usize]);
            }
        }
    }
}

#[test]
fn e16_random_transactions() {
    let mut r = Rng(0x9e3779b97f4a7c15);
    for iter in 0..400 {
        let mut rt = RefTx { version: r.next() as u32, ins: vec![], outs: vec![], locktime: r.next() as u32 };
        let coinbase = r.below(8) == 0;
        let nin = if coinbase { 1 } else { r.below(4) as usize };
        for _ in 0..nin {
            let mut t = [0u8; 32];
            let mut s = vec![];
            let vout;
            if coinbase {
                let n = r.below(100) as usize;
                s = r.bytes(n);
                vout = 0xffff_ffff;
            } else {
                t.copy_from_slice(&r.bytes(32));
                rand_script(&mut r, 0, &mut s);
                vout = r.next() as u32;
            }
            rt.ins.push(RefIn { txid_wire: t, vout, script: s, sequence: r.next() as u32 });
        }
        for _ in 0..r.below(4) {
            let mut s = vec![];
            rand_script(&mut r, 0, &mut s);
            rt.outs.push(RefOut { value: r.next(), script: s });
        }
        let wire = ref_tx_bytes(&rt);
        let mut tx = Transaction::from_bytes(&wire).unwrap_or_else(|e| panic!("iter {} from_bytes {} {}", iter, e, hex::encode(&wire)));
        for k in 0..nin {
            let mut i = tx.get_input(k).unwrap();
            if r.below(2) == 0 {
                i.set_satoshis(r.next());
            }
            if r.below(2) == 0 {
                let mut s = vec![];
                rand_script(&mut r, 0, &mut s);
                i.set_locking_script(&Script::from_bytes(&s).unwrap());
            }
            tx.set_input(k, &i);
        }
        check_roundtrips(&tx, &wire).unwrap_or_else(|e| panic!("iter {}: {}\n{}", iter, e, hex::encode(&wire)));
    }
}

// E17 equality after the sighash cache was populated (object used, then encoded)
#[test]
fn e17_after_sighash_use() {
    let mut ss = push_direct(&pat(71, 3));
    ss.extend(push_direct(&pat(33, 9)));
    let rt = simple_tx_with(ss, hex::decode(P2PKH).unwrap());
    let wire = ref_tx_bytes(&rt);
    let mut tx = Transaction::from_bytes(&wire).unwrap();
    let lock = Script::from_hex(P2PKH).unwrap();
    let _ = tx.sighash_preimage(SigHash::InputsOutputs, 0, &lock, 5000).unwrap();
    let back = Transaction::from_json_string(&tx.to_json_string().unwrap()).unwrap();
    assert_eq!(back.to_bytes().unwrap(), wire);
    assert_eq!(back.get_id_hex().unwrap(), ref_txid_hex(&wire));
    // observable fields
    assert_eq!(back.get_version(), tx.get_version());
    assert_eq!(back.get_n_locktime(), tx.get_n_locktime());
    assert_eq!(back.get_input(0), tx.get_input(0));
    assert_eq!(back.get_output(0), tx.get_output(0));
    println!("E17: `back == tx` after sighash use: {}", back == tx);
    let back2 = Transaction::from_compact_bytes(&tx.to_compact_bytes().unwrap()).unwrap();
    println!("E17: cbor `back == tx` after sighash use: {}", back2 == tx);
    // and the decoded copy computes the same preimage as an untouched parse of the wire bytes
    let mut fresh = Transaction::from_bytes(&wire).unwrap();
    let mut b = back.clone();
    assert_eq!(
        b.sighash_preimage(SigHash::InputsOutputs, 0, &lock, 5000).unwrap(),
        fresh.sighash_preimage(SigHash::InputsOutputs, 0, &lock, 5000).unwrap()
    );
}

// E18 JSON / CBOR documents are insensitive to formatting: pretty printed JSON and reordered keys read back the same
#[test]
fn e18_pretty_and_reordered_json() {
    let mut ss = push_direct(&pat(71, 3));
    ss.extend(hex::decode("63516752686a").unwrap());
    let rt = simple_tx_with(ss, hex::decode(P2PKH).unwrap());
    let wire = ref_tx_bytes(&rt);
    let mut tx = Transaction::from_bytes(&wire).unwrap();
    let mut i0 = tx.get_input(0).unwrap();
    i0.set_satoshis(u64::MAX);
    i0.set_locking_script(&Script::from_hex("63516752686a").unwrap());
    tx.set_input(0, &i0);
    let v = tx.to_json().unwrap();
    let pretty = serde_json::to_string_pretty(&v).unwrap(); // serde_json::Value sorts keys (BTreeMap) => reordered
    let back = Transaction::from_json_string(&pretty).unwrap();
    assert_eq!(back, tx);
    assert_eq!(back.to_bytes().unwrap(), wire);
}

// E19 lenient truncated push after OP_RETURN (known/accepted reading) still round-trips as the object it became
#[test]
fn e19_op_return_tail() {
    let s = hex::decode("006a0548656c6c6f4c0301").unwrap(); // 0 RETURN "Hello" PUSHDATA1 3 <1 byte>: may be refused
    if let Ok(script) = Script::from_bytes(&s) {
        let tx_out = TxOut::new(0, &script);
        let mut tx = Transaction::new(1, 0);
        tx.add_output(&tx_out);
        let w = tx.to_bytes().unwrap();
        check_roundtrips(&tx, &w).unwrap();
    }
    let s = hex::decode("6a050102").unwrap();
    let script = Script::from_bytes(&s).unwrap();
    let mut tx = Transaction::new(1, 0);
    tx.add_output(&TxOut::new(1, &script));
    let w = tx.to_bytes().unwrap();
    check_roundtrips(&tx, &w).unwrap();
}

// E20 Coinbase element in unusual positions (extended locking script of a coinbase input / output of from_coinbase_bytes)
#[test]
fn e20_coinbase_bit_positions() {
    let cb = Script::from_coinbase_bytes(&[0x03, 0x01]).unwrap();
    let mut txin = TxIn::new(&[0u8; 32], 0xffff_ffff, &cb, None);
    txin.set_locking_script(&cb);
    txin.set_satoshis(1);
    let mut tx = Transaction::new(1, 0);
    tx.add_input(&txin);
    tx.add_output(&TxOut::new(1, &cb));
    let w = tx.to_bytes().unwrap();
    check_roundtrips(&tx, &w).unwrap();
    // hand-computed wire of that tx
    let mut expect = vec![1, 0, 0, 0, 1];
    expect.extend([0u8; 32]);
    expect.extend([0xff; 4]);
    expect.extend([2, 3, 1]);
    expect.extend([0xff; 4]);
    expect.push(1);
    expect.extend(1u64.to_le_bytes());
    expect.extend([2, 3, 1]);
    expect.extend([0u8; 4]);
    assert_eq!(w, expect);
}

// E21 a data push whose hex text could be mistaken for something else by the untagged reader
#[test]
fn e21_ambiguous_looking_pushes() {
    // hex text of these pushes: "0", digits only, "e" notations, "coinbase" impossible (not hex) ...
    let datas: Vec<Vec<u8>> = vec![vec![0x00], vec![0x10], vec![0x1e, 0x10], vec![0x12, 0x34, 0x56, 0x78, 0x90], vec![0xde, 0xad, 0xbe, 0xef], vec![0x0a], vec![0xff; 20]];
    for d in datas {
        let s = push_direct(&d);
        parse_and_check(&simple_tx_with(s.clone(), s)).unwrap();
    }
}

// E22 multiple OP_ELSE in one conditional and stray ELSE/ENDIF outside any conditional, if the parser takes them
#[test]
fn e22_multi_else_and_stray_branch_codes() {
    let mut taken = 0;
    for s in ["636751675268", "63675167526753686a", "68", "67", "685167", "6368686751", "646367676868"] {
        let bytes = hex::decode(s).unwrap();
        if Script::from_bytes(&bytes).is_err() {
            continue;
        }
        taken += 1;
        parse_and_check(&simple_tx_with(bytes.clone(), bytes)).unwrap_or_else(|e| panic!("shape {}: {}", s, e));
    }
    println!("E22: {} shapes accepted by the parser and checked", taken);
}

// E23 deepest nesting: the encoders themselves cope on an ordinary 2 MiB thread stack (no overflow), JSON reads back at depth 61
#[test]
fn e23_deep_nesting_encoders_on_small_stack() {
    std::thread::Builder::new()
        .stack_size(2 * 1024 * 1024)
        .spawn(|| {
            let s = nested_if(500);
            let rt = simple_tx_with(s.clone(), s);
            let wire = ref_tx_bytes(&rt);
            let tx = Transaction::from_bytes(&wire).unwrap();
            let j = tx.to_json_string().unwrap();
            let c = tx.to_compact_bytes().unwrap();
            assert!(j.len() > 1000 && c.len() > 1000);
            assert!(Script::from_bytes(&nested_if(501)).is_err());

            let s = nested_if(61);
            let rt = simple_tx_with(s.clone(), s);
            parse_and_check(&rt).unwrap();
        })
        .unwrap()
        .join()
        .unwrap();
}

// E24 object reused after mutation: encodings follow the current state, not an earlier one
#[test]
fn e24_reencode_after_mutation() {
    let rt = simple_tx_with(vec![0x51], hex::decode(P2PKH).unwrap());
    let wire = ref_tx_bytes(&rt);
    let mut tx = Transaction::from_bytes(&wire).unwrap();
    let _ = tx.to_json_string().unwrap();
    let _ = tx.to_compact_bytes().unwrap();
    let _ = tx.sighash_preimage(SigHash::InputsOutputs, 0, &Script::from_hex(P2PKH).unwrap(), 1).unwrap();

    let mut rt2 = rt.clone();
    rt2.ins[0].script = push1(&pat(80, 2));
    rt2.ins[0].sequence = 5;
    rt2.outs[0].value = u64::MAX;
    rt2.outs.insert(0, RefOut { value: 1, script: vec![0x6a] });
    rt2.version = 9;
    rt2.locktime = 77;
    let mut i0 = tx.get_input(0).unwrap();
    i0.set_unlocking_script(&Script::from_bytes(&rt2.ins[0].script).unwrap());
    i0.set_sequence(5);
    i0.set_satoshis(u64::MAX);
    tx.set_input(0, &i0);
    tx.set_output(0, &TxOut::new(u64::MAX, &Script::from_hex(P2PKH).unwrap()));
    tx.prepend_output(&TxOut::new(1, &Script::from_bytes(&[0x6a]).unwrap()));
    tx.set_version(9);
    tx.set_nlocktime(77);
    let wire2 = ref_tx_bytes(&rt2);
    assert_eq!(tx.to_bytes().unwrap(), wire2);
    for back in [
        Transaction::from_json_string(&tx.to_json_string().unwrap()).unwrap(),
        Transaction::from_compact_bytes(&tx.to_compact_bytes().unwrap()).unwrap(),
    ] {
        assert_eq!(back.to_bytes().unwrap(), wire2);
        assert_eq!(back.get_id_hex().unwrap(), ref_txid_hex(&wire2));
        assert_eq!(back.get_input(0).unwrap().get_satoshis(), Some(u64::MAX));
    }
}
