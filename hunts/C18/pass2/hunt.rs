// C18 second pass: extended-transaction JSON and CBOR encodings are lossless.
//
// Oracles used here are independent of the library's encoders:
//   * a reference wire serialiser (`RefTx::wire`) written from the transaction format,
//   * a reference transaction id (double SHA-256 through the sha2 crate, reversed),
//   * the JSON text inspected through serde_json::Value / as plain text for 64-bit values.
use bsv::*;
use num_traits::FromPrimitive;
use sha2::{Digest, Sha256};

// ---------------------------------------------------------------------------------------------
// reference implementation
// ---------------------------------------------------------------------------------------------

fn varint(n: u64) -> Vec<u8> {
    if n < 0xfd {
        vec![n as u8]
    } else if n <= 0xffff {
        let mut v = vec![0xfd];
        v.extend_from_slice(&(n as u16).to_le_bytes());
        v
    } else if n <= 0xffff_ffff {
        let mut v = vec![0xfe];
        v.extend_from_slice(&(n as u32).to_le_bytes());
        v
    } else {
        let mut v = vec![0xff];
        v.extend_from_slice(&n.to_le_bytes());
        v
    }
}

#[derive(Clone, Debug)]
struct RefIn {
    txid_wire: [u8; 32],
    vout: u32,
    script: Vec<u8>,
    sequence: u32,
}

#[derive(Clone, Debug)]
struct RefOut {
    value: u64,
    script: Vec<u8>,
}

#[derive(Clone, Debug)]
struct RefTx {
    version: u32,
    inputs: Vec<RefIn>,
    outputs: Vec<RefOut>,
    locktime: u32,
}

impl RefIn {
    fn wire(&self) -> Vec<u8> {
        let mut b = vec![];
        b.extend_from_slice(&self.txid_wire);
        b.extend_from_slice(&self.vout.to_le_bytes());
        b.extend(varint(self.script.len() as u64));
        b.extend_from_slice(&self.script);
        b.extend_from_slice(&self.sequence.to_le_bytes());
        b
    }
}

impl RefTx {
    fn wire(&self) -> Vec<u8> {
        let mut b = vec![];
        b.extend_from_slice(&self.version.to_le_bytes());
        b.extend(varint(self.inputs.len() as u64));
        for i in &self.inputs {
            b.extend(i.wire());
        }
        b.extend(varint(self.outputs.len() as u64));
        for o in &self.outputs {
            b.extend_from_slice(&o.value.to_le_bytes());
            b.extend(varint(o.script.len() as u64));
            b.extend_from_slice(&o.script);
        }
        b.extend_from_slice(&self.locktime.to_le_bytes());
        b
    }
}

fn ref_txid_hex(wire: &[u8]) -> String {
    let first = Sha256::digest(wire);
    let second = Sha256::digest(&first);
    let mut v = second.to_vec();
    v.reverse();
    hex::encode(v)
}

// xorshift64*
struct Rng(u64);
impl Rng {
    fn next(&mut self) -> u64 {
        self.0 ^= self.0 >> 12;
        self.0 ^= self.0 << 25;
        self.0 ^= self.0 >> 27;
        self.0.wrapping_mul(0x2545F4914F6CDD1D)
    }
    fn below(&mut self, n: u64) -> u64 {
        self.next() % n
    }
    fn bytes(&mut self, n: usize) -> Vec<u8> {
        (0..n).map(|_| self.next() as u8).collect()
    }
}

/// Opcode bytes the library knows that are neither pushes nor flow control nor OP_RETURN.
fn plain_opcodes() -> Vec<u8> {
    (0u16..=255)
        .map(|b| b as u8)
        .filter(|b| OpCodes::from_u8(*b).is_some())
        .filter(|b| *b == 0 || *b > 0x4e)
        .filter(|b| ![0x63u8, 0x64, 0x65, 0x66, 0x67, 0x68, 0x6a].contains(b))
        .collect()
}

/// Script bytes built from the script grammar: opcodes, every push form, balanced conditionals.
fn random_script(rng: &mut Rng, depth: usize, budget: usize) -> Vec<u8> {
    let ops = plain_opcodes();
    let mut out = vec![];
    let n = rng.below(budget as u64 + 1) as usize;
    for _ in 0..n {
        match rng.below(12) {
            0..=3 => out.push(ops[rng.below(ops.len() as u64) as usize]),
            4 | 5 => {
                // direct push 1..=75
                let len = 1 + rng.below(75) as usize;
                out.push(len as u8);
                out.extend(rng.bytes(len));
            }
            6 => {
                // PUSHDATA1, including non-minimal lengths
                let len = [0usize, 1, 75, 76, 255][rng.below(5) as usize];
                out.push(0x4c);
                out.push(len as u8);
                out.extend(rng.bytes(len));
            }
            7 => {
                let len = [0usize, 1, 255, 256, 600][rng.below(5) as usize];
                out.push(0x4d);
                out.extend_from_slice(&(len as u16).to_le_bytes());
                out.extend(rng.bytes(len));
            }
            8 => {
                let len = [0usize, 1, 300][rng.below(3) as usize];
                out.push(0x4e);
                out.extend_from_slice(&(len as u32).to_le_bytes());
                out.extend(rng.bytes(len));
            }
            9 => out.push(0x00), // the empty push
            _ => {
                if depth < 6 {
                    out.push([0x63u8, 0x64][rng.below(2) as usize]);
                    out.extend(random_script(rng, depth + 1, budget / 2));
                    if rng.below(2) == 0 {
                        out.push(0x67);
                        out.extend(random_script(rng, depth + 1, budget / 2));
                    }
                    out.push(0x68);
                }
            }
        }
    }
    out
}

fn random_ref_tx(rng: &mut Rng) -> RefTx {
    let n_in = rng.below(4) as usize;
    let n_out = rng.below(4) as usize;
    let edge32 = [0u32, 1, 0x7fff_ffff, 0x8000_0000, 0xffff_fffe, 0xffff_ffff];
    let edge64 = [0u64, 1, (1 << 53) - 1, 1 << 53, (1 << 53) + 1, i64::MAX as u64, 1 << 63, u64::MAX - 1, u64::MAX];
    RefTx {
        version: edge32[rng.below(6) as usize],
        inputs: (0..n_in)
            .map(|_| {
                let mut txid = [0u8; 32];
                txid.copy_from_slice(&rng.bytes(32));
                RefIn {
                    txid_wire: txid,
                    vout: edge32[rng.below(6) as usize],
                    script: random_script(rng, 0, 8),
                    sequence: edge32[rng.below(6) as usize],
                }
            })
            .collect(),
        outputs: (0..n_out)
            .map(|_| RefOut {
                value: if rng.below(2) == 0 { edge64[rng.below(9) as usize] } else { rng.next() },
                script: random_script(rng, 0, 8),
            })
            .collect(),
        locktime: edge32[rng.below(6) as usize],
    }
}

/// The four decode routes for a whole transaction.
fn all_round_trips(tx: &Transaction) -> Vec<(&'static str, Transaction)> {
    let json = tx.to_json_string().expect("to_json_string");
    let via_json = Transaction::from_json_string(&json).expect("from_json_string");
    let value = tx.to_json().expect("to_json");
    let via_value: Transaction = serde_json::from_value(value).expect("from_value");
    let cbor = tx.to_compact_bytes().expect("to_compact_bytes");
    let via_cbor = Transaction::from_compact_bytes(&cbor).expect("from_compact_bytes");
    let cbor_hex = tx.to_compact_hex().expect("to_compact_hex");
    assert_eq!(cbor_hex, hex::encode(&cbor));
    let via_cbor_hex = Transaction::from_compact_hex(&cbor_hex).expect("from_compact_hex");
    vec![("json", via_json), ("json-value", via_value), ("cbor", via_cbor), ("cbor-hex", via_cbor_hex)]
}

fn assert_lossless(tx: &Transaction, expected_wire: &[u8]) {
    assert_eq!(tx.to_bytes().unwrap(), expected_wire, "precondition: the object serialises to the reference wire bytes");
    let expected_id = ref_txid_hex(expected_wire);
    for (route, back) in all_round_trips(tx) {
        assert_eq!(&back, tx, "{}: decoded transaction differs", route);
        assert_eq!(back.to_bytes().unwrap(), expected_wire, "{}: wire bytes differ", route);
        assert_eq!(back.get_id_hex().unwrap(), expected_id, "{}: txid differs", route);
        for i in 0..tx.get_ninputs() {
            let a = tx.get_input(i).unwrap();
            let b = back.get_input(i).unwrap();
            assert_eq!(a.get_satoshis(), b.get_satoshis(), "{}: satoshis of input {}", route, i);
            assert_eq!(a.get_locking_script_bytes(), b.get_locking_script_bytes(), "{}: locking script of input {}", route, i);
            assert_eq!(a.get_unlocking_script().to_script_bits(), b.get_unlocking_script().to_script_bits());
            assert_eq!(a.get_prev_tx_id(None), b.get_prev_tx_id(None));
            assert_eq!((a.get_vout(), a.get_sequence()), (b.get_vout(), b.get_sequence()));
        }
        for i in 0..tx.get_noutputs() {
            assert_eq!(tx.get_output(i).unwrap().get_satoshis(), back.get_output(i).unwrap().get_satoshis());
        }
    }
}

fn txin_round_trips(txin: &TxIn) -> Vec<(&'static str, TxIn)> {
    let json = txin.to_json_string().expect("txin json");
    let via_json: TxIn = serde_json::from_str(&json).expect("txin from json");
    let via_value: TxIn = serde_json::from_value(txin.to_json().unwrap()).expect("txin from value");
    let via_cbor = TxIn::from_compact_bytes(&txin.to_compact_bytes().unwrap()).expect("txin from cbor");
    let via_cbor_hex = TxIn::from_compact_hex(&txin.to_compact_hex().unwrap()).expect("txin from cbor hex");
    vec![("json", via_json), ("json-value", via_value), ("cbor", via_cbor), ("cbor-hex", via_cbor_hex)]
}

fn assert_txin_lossless(txin: &TxIn, expected_wire: &[u8]) {
    assert_eq!(txin.to_bytes().unwrap(), expected_wire);
    for (route, back) in txin_round_trips(txin) {
        assert_eq!(&back, txin, "{}: decoded input differs", route);
        assert_eq!(back.to_bytes().unwrap(), expected_wire, "{}: input wire differs", route);
        assert_eq!(back.get_satoshis(), txin.get_satoshis(), "{}", route);
        assert_eq!(back.get_locking_script_bytes(), txin.get_locking_script_bytes(), "{}", route);
    }
}

// ---------------------------------------------------------------------------------------------
// experiments
// ---------------------------------------------------------------------------------------------

/// E01 random transactions from reference wire bytes, extended fields set on a random subset.
#[test]
fn e01_random_transactions_round_trip() {
    let mut rng = Rng(0x9E3779B97F4A7C15);
    let edge64 = [0u64, 1, (1 << 53) + 1, i64::MAX as u64, 1 << 63, u64::MAX];
    for round in 0..400 {
        let r = random_ref_tx(&mut rng);
        let wire = r.wire();
        let mut tx = Transaction::from_bytes(&wire).unwrap_or_else(|e| panic!("round {}: reference tx refused: {:?} {}", round, e, hex::encode(&wire)));
        for i in 0..tx.get_ninputs() {
            let mut input = tx.get_input(i).unwrap();
            match rng.below(4) {
                0 => {}
                1 => input.set_satoshis(edge64[rng.below(6) as usize]),
                2 => input.set_locking_script(&Script::from_bytes(&random_script(&mut rng, 0, 8)).unwrap()),
                _ => {
                    input.set_satoshis(rng.next());
                    input.set_locking_script(&Script::from_bytes(&random_script(&mut rng, 0, 8)).unwrap());
                }
            }
            tx.set_input(i, &input);
        }
        assert_lossless(&tx, &wire);
        for (i, rin) in r.inputs.iter().enumerate() {
            assert_txin_lossless(&tx.get_input(i).unwrap(), &rin.wire());
        }
    }
}

/// E02 64-bit values: the JSON text holds the exact decimal digits, both encodings give the value back.
#[test]
fn e02_u64_values_exact() {
    for v in [0u64, 1, (1 << 53) - 1, 1 << 53, (1 << 53) + 1, i64::MAX as u64, (i64::MAX as u64) + 1, u64::MAX - 1, u64::MAX] {
        let r = RefTx {
            version: 1,
            inputs: vec![RefIn { txid_wire: [0x11; 32], vout: 0, script: vec![0x51], sequence: 0xffff_ffff }],
            outputs: vec![RefOut { value: v, script: vec![0x76, 0xa9] }],
            locktime: 0,
        };
        let wire = r.wire();
        let mut tx = Transaction::from_bytes(&wire).unwrap();
        let mut input = tx.get_input(0).unwrap();
        input.set_satoshis(v);
        input.set_locking_script(&Script::from_bytes(&[0x51]).unwrap());
        tx.set_input(0, &input);

        let json = tx.to_json_string().unwrap();
        let digits = format!("{}", v);
        assert!(json.contains(&format!("\"satoshis\":{}", digits)), "{}", json);
        assert!(json.contains(&format!("\"value\":{}", digits)), "{}", json);
        assert!(!json.contains('.') && !json.contains("e+") && !json.contains("E"), "no float notation: {}", json);

        assert_lossless(&tx, &wire);
        assert_txin_lossless(&input, &r.inputs[0].wire());
        for (_, back) in all_round_trips(&tx) {
            assert_eq!(back.get_input(0).unwrap().get_satoshis(), Some(v));
            assert_eq!(back.get_output(0).unwrap().get_satoshis(), v);
            assert_eq!(back.satoshis_out(), v);
            assert_eq!(back.satoshis_in(), Some(v));
        }
    }
}

/// E03 coinbase transactions: arbitrary coinbase data, not necessarily a well-formed script.
#[test]
fn e03_coinbase_transactions() {
    let mut rng = Rng(7);
    let mut datas: Vec<Vec<u8>> = vec![
        vec![],
        vec![0x00],
        vec![0x03, 0xaa, 0xbb, 0xcc],
        vec![0x4b, 0x01],                   // truncated direct push
        vec![0x4c],                         // PUSHDATA1 without a length
        vec![0x4e, 0xff, 0xff, 0xff, 0xff], // PUSHDATA4 declaring 4 GiB
        vec![0xff, 0xfe, 0xba],             // bytes that are no opcodes
        vec![0x63, 0x63, 0x63],             // unterminated conditionals
        vec![0x68, 0x67],
        b"coinbase".to_vec(),
        rng.bytes(100),
        rng.bytes(252),
        rng.bytes(253),
        rng.bytes(5000),
    ];
    datas.push(std::iter::repeat(0x63u8).take(2000).collect()); // 2000 OP_IF bytes are plain data here
    for data in datas {
        let r = RefTx {
            version: 2,
            inputs: vec![RefIn { txid_wire: [0; 32], vout: 0xffff_ffff, script: data.clone(), sequence: 0xffff_ffff }],
            outputs: vec![RefOut { value: 50_0000_0000, script: vec![0x76, 0xa9, 0x14, 1, 2, 3, 4, 5, 6, 7, 8, 9, 10, 11, 12, 13, 14, 15, 16, 17, 18, 19, 20, 0x88, 0xac] }],
            locktime: 0,
        };
        let wire = r.wire();
        let tx = Transaction::from_bytes(&wire).unwrap();
        assert!(tx.is_coinbase());
        assert_lossless(&tx, &wire);
        let lone = TxIn::from_hex(&hex::encode(r.inputs[0].wire())).unwrap();
        assert!(lone.is_coinbase());
        assert_txin_lossless(&lone, &r.inputs[0].wire());
        for (_, back) in all_round_trips(&tx) {
            assert!(back.is_coinbase());
            assert_eq!(back.get_input(0).unwrap().get_unlocking_script().to_bytes(), data);
        }

        // with the extended fields on a coinbase input as well
        let mut tx2 = tx.clone();
        let mut i0 = tx2.get_input(0).unwrap();
        i0.set_satoshis(u64::MAX);
        i0.set_locking_script(&Script::from_coinbase_bytes(&data).unwrap());
        tx2.set_input(0, &i0);
        assert_lossless(&tx2, &wire);
        assert_txin_lossless(&i0, &r.inputs[0].wire());
    }
}

/// E04 an input with the coinbase outpoint next to ordinary inputs; a coinbase outpoint whose script was built, not parsed.
#[test]
fn e04_coinbase_outpoint_mixed_and_built() {
    let r = RefTx {
        version: 1,
        inputs: vec![
            RefIn { txid_wire: [0x22; 32], vout: 1, script: vec![0x02, 0xab, 0xcd], sequence: 5 },
            RefIn { txid_wire: [0; 32], vout: 0xffff_ffff, script: vec![0x4b, 0x01, 0x02], sequence: 0 },
            RefIn { txid_wire: [0; 32], vout: 0xffff_fffe, script: vec![0x51], sequence: 0 },
        ],
        outputs: vec![],
        locktime: 9,
    };
    let wire = r.wire();
    let tx = Transaction::from_bytes(&wire).unwrap();
    assert!(!tx.is_coinbase());
    assert_lossless(&tx, &wire);

    // built through the constructor with a parsed script instead of coinbase data
    let script = Script::from_bytes(&[0x03, 0xaa, 0xbb, 0xcc]).unwrap();
    let built = TxIn::new(&[0u8; 32], 0xffff_ffff, &script, Some(0xffff_ffff));
    let rin = RefIn { txid_wire: [0; 32], vout: 0xffff_ffff, script: vec![0x03, 0xaa, 0xbb, 0xcc], sequence: 0xffff_ffff };
    assert_txin_lossless(&built, &rin.wire());
    let mut tx = Transaction::new(1, 0);
    tx.add_input(&built);
    let wire = RefTx { version: 1, inputs: vec![rin], outputs: vec![], locktime: 0 }.wire();
    assert_lossless(&tx, &wire);
}

/// E05 long data: hex text longer than the 4096-byte scratch buffer of the CBOR reader, OP_PUSHDATA4 above 64 KiB.
#[test]
fn e05_long_pushes() {
    let mut rng = Rng(99);
    for len in [2047usize, 2048, 2049, 4096, 4097, 65535, 65536, 70000] {
        let data = rng.bytes(len);
        let mut script = vec![];
        if len <= 0xffff {
            script.push(0x4d);
            script.extend_from_slice(&(len as u16).to_le_bytes());
        } else {
            script.push(0x4e);
            script.extend_from_slice(&(len as u32).to_le_bytes());
        }
        script.extend_from_slice(&data);
        // also inside a conditional
        let mut nested = vec![0x63];
        nested.extend_from_slice(&script);
        nested.push(0x67);
        nested.extend_from_slice(&script);
        nested.push(0x68);

        let r = RefTx {
            version: 1,
            inputs: vec![RefIn { txid_wire: [0x33; 32], vout: 0, script: script.clone(), sequence: 0 }],
            outputs: vec![RefOut { value: 1, script: nested.clone() }, RefOut { value: 2, script: {
                let mut s = vec![0x00, 0x6a];
                s.extend_from_slice(&script);
                s
            } }],
            locktime: 0,
        };
        let wire = r.wire();
        let mut tx = Transaction::from_bytes(&wire).unwrap();
        let mut i0 = tx.get_input(0).unwrap();
        i0.set_locking_script(&Script::from_bytes(&nested).unwrap());
        i0.set_satoshis(len as u64);
        tx.set_input(0, &i0);
        assert_lossless(&tx, &wire);
        assert_txin_lossless(&i0, &r.inputs[0].wire());
    }
}

/// E06 every push form with boundary lengths, minimal and not, alone in a script.
#[test]
fn e06_push_forms_boundaries() {
    let mut scripts: Vec<Vec<u8>> = vec![];
    for len in 1usize..=75 {
        let mut s = vec![len as u8];
        s.extend(std::iter::repeat(0x10u8).take(len)); // 0x10.. also exercises the "digits" payloads
        scripts.push(s);
    }
    for b in 0u8..=0x16 {
        scripts.push(vec![0x01, b]);
    }
    for len in [0usize, 1, 2, 75, 76, 254, 255] {
        let mut s = vec![0x4c, len as u8];
        s.extend(std::iter::repeat(0xabu8).take(len));
        scripts.push(s);
    }
    for len in [0usize, 1, 75, 255, 256, 0xfffe, 0xffff] {
        let mut s = vec![0x4d];
        s.extend_from_slice(&(len as u16).to_le_bytes());
        s.extend(std::iter::repeat(0xcdu8).take(len));
        scripts.push(s);
    }
    for len in [0usize, 1, 75, 255, 256, 0xffff, 0x10000, 0x10001] {
        let mut s = vec![0x4e];
        s.extend_from_slice(&(len as u32).to_le_bytes());
        s.extend(std::iter::repeat(0xefu8).take(len));
        scripts.push(s);
    }
    scripts.push(vec![0x00]);
    scripts.push(vec![0x00, 0x00, 0x4c, 0x00, 0x4d, 0x00, 0x00, 0x4e, 0x00, 0x00, 0x00, 0x00, 0x4f, 0x51, 0x60]);
    for s in scripts {
        let r = RefTx {
            version: 1,
            inputs: vec![RefIn { txid_wire: [0x44; 32], vout: 7, script: s.clone(), sequence: 1 }],
            outputs: vec![RefOut { value: 3, script: s.clone() }],
            locktime: 0,
        };
        let wire = r.wire();
        let mut tx = Transaction::from_bytes(&wire).unwrap();
        let mut i0 = tx.get_input(0).unwrap();
        i0.set_locking_script(&Script::from_bytes(&s).unwrap());
        tx.set_input(0, &i0);
        assert_lossless(&tx, &wire);
        assert_txin_lossless(&i0, &r.inputs[0].wire());
    }
}

/// E07 scripts built element by element: empty push, flat conditional opcodes, If with Some(empty) / None else-branch,
/// all four conditional opcodes; the object and its bytes must come back unchanged.
#[test]
fn e07_element_built_scripts() {
    use OpCodes::*;
    let cases: Vec<(Vec<ScriptBit>, Vec<u8>)> = vec![
        (vec![ScriptBit::Push(vec![])], vec![0x00]),
        (vec![ScriptBit::Push(vec![]), ScriptBit::OpCode(OP_0), ScriptBit::PushData(OP_PUSHDATA1, vec![])], vec![0x00, 0x00, 0x4c, 0x00]),
        (vec![ScriptBit::OpCode(OP_IF), ScriptBit::OpCode(OP_1), ScriptBit::OpCode(OP_ELSE), ScriptBit::OpCode(OP_ENDIF)], vec![0x63, 0x51, 0x67, 0x68]),
        (vec![ScriptBit::If { code: OP_IF, pass: vec![], fail: None }], vec![0x63, 0x68]),
        (vec![ScriptBit::If { code: OP_IF, pass: vec![], fail: Some(vec![]) }], vec![0x63, 0x67, 0x68]),
        (vec![ScriptBit::If { code: OP_NOTIF, pass: vec![ScriptBit::Push(vec![])], fail: Some(vec![ScriptBit::Push(vec![1])]) }], vec![0x64, 0x00, 0x67, 0x01, 0x01, 0x68]),
        (vec![ScriptBit::If { code: OP_VERIF, pass: vec![ScriptBit::OpCode(OP_ELSE)], fail: Some(vec![ScriptBit::OpCode(OP_ELSE)]) }], vec![0x65, 0x67, 0x67, 0x67, 0x68]),
        (
            vec![ScriptBit::If {
                code: OP_VERNOTIF,
                pass: vec![ScriptBit::If { code: OP_IF, pass: vec![ScriptBit::PushData(OP_PUSHDATA4, vec![9])], fail: Some(vec![]) }],
                fail: None,
            }],
            vec![0x66, 0x63, 0x4e, 1, 0, 0, 0, 9, 0x67, 0x68, 0x68],
        ),
        (vec![ScriptBit::OpCode(OP_ENDIF), ScriptBit::OpCode(OP_ELSE)], vec![0x68, 0x67]),
    ];
    for (bits, bytes) in cases {
        let script = Script::from_script_bits(bits.clone());
        assert_eq!(script.to_bytes(), bytes, "precondition");
        let mut pushed = Script::default();
        for b in &bits {
            pushed.push(b.clone());
        }
        assert_eq!(pushed, script);

        let mut txin = TxIn::new(&[0x55; 32], 3, &script, None);
        txin.set_locking_script(&script);
        txin.set_satoshis(1);
        let rin = RefIn { txid_wire: [0x55; 32], vout: 3, script: bytes.clone(), sequence: 0xffff_ffff };
        assert_txin_lossless(&txin, &rin.wire());
        let mut tx = Transaction::new(1, 0);
        tx.add_input(&txin);
        tx.add_output(&TxOut::new(u64::MAX, &script));
        let wire = RefTx { version: 1, inputs: vec![rin], outputs: vec![RefOut { value: u64::MAX, script: bytes.clone() }], locktime: 0 }.wire();
        assert_lossless(&tx, &wire);
        for (_, back) in all_round_trips(&tx) {
            assert_eq!(back.get_input(0).unwrap().get_unlocking_script().to_script_bits(), bits);
            assert_eq!(back.get_output(0).unwrap().get_script_pub_key().to_script_bits(), bits);
        }
    }
}

/// E08 conditionals that do not balance, as the wire parser accepts them at the top level, and extra OP_ELSE in a branch.
#[test]
fn e08_unbalanced_and_multi_else_from_bytes() {
    for s in [
        vec![0x67u8],
        vec![0x68],
        vec![0x68, 0x67, 0x51],
        vec![0x63, 0x68, 0x68, 0x67],
        vec![0x63, 0x51, 0x67, 0x52, 0x67, 0x53, 0x68],
        vec![0x64, 0x67, 0x67, 0x67, 0x68],
        vec![0x63, 0x64, 0x67, 0x68, 0x67, 0x63, 0x68, 0x68],
        vec![0x6a, 0x63],          // after OP_RETURN conditionals still must balance? (whatever the parser says, if accepted it must round trip)
        vec![0x6a, 0x05, 0x01, 0x02], // lenient truncated push after OP_RETURN: object must still round trip as an object
    ] {
        let parsed = match Script::from_bytes(&s) {
            Ok(p) => p,
            Err(_) => continue,
        };
        let txin = TxIn::new(&[0x66; 32], 0, &parsed, Some(0));
        for (route, back) in txin_round_trips(&txin) {
            assert_eq!(back, txin, "{} {}", route, hex::encode(&s));
            assert_eq!(back.to_bytes().unwrap(), txin.to_bytes().unwrap());
        }
        let mut tx = Transaction::new(1, 0);
        tx.add_input(&txin);
        tx.add_output(&TxOut::new(0, &parsed));
        for (route, back) in all_round_trips(&tx) {
            assert_eq!(back, tx, "{} {}", route, hex::encode(&s));
            assert_eq!(back.to_bytes().unwrap(), tx.to_bytes().unwrap());
        }
    }
}

/// E09 counts across the compact-size boundaries: 252 / 253 / 300 inputs and outputs.
#[test]
fn e09_many_inputs_outputs() {
    for n in [252usize, 253, 300] {
        let r = RefTx {
            version: 1,
            inputs: (0..n).map(|i| RefIn { txid_wire: [i as u8; 32], vout: i as u32, script: vec![0x01, i as u8], sequence: i as u32 }).collect(),
            outputs: (0..n).map(|i| RefOut { value: u64::MAX - i as u64, script: vec![0x63, 0x51, 0x68] }).collect(),
            locktime: 0,
        };
        let wire = r.wire();
        let mut tx = Transaction::from_bytes(&wire).unwrap();
        for i in (0..n).step_by(2) {
            let mut input = tx.get_input(i).unwrap();
            input.set_satoshis(u64::MAX - i as u64);
            tx.set_input(i, &input);
        }
        assert_lossless(&tx, &wire);
    }
}

/// E10 conditionals nested moderately deep (well below the known decoder limits) inside a whole transaction.
#[test]
fn e10_moderate_nesting() {
    for depth in [1usize, 5, 20, 40, 55] {
        let mut s = vec![];
        for i in 0..depth {
            s.push(if i % 2 == 0 { 0x63 } else { 0x64 });
            s.push(0x00);
        }
        for i in 0..depth {
            if i % 3 == 0 {
                s.push(0x67);
                s.extend_from_slice(&[0x02, 0xbe, 0xef]);
            }
            s.push(0x68);
        }
        let r = RefTx {
            version: 1,
            inputs: vec![RefIn { txid_wire: [0x77; 32], vout: 0, script: s.clone(), sequence: 0 }],
            outputs: vec![RefOut { value: 0, script: s.clone() }],
            locktime: 0,
        };
        let wire = r.wire();
        let mut tx = Transaction::from_bytes(&wire).unwrap();
        let mut i0 = tx.get_input(0).unwrap();
        i0.set_locking_script(&Script::from_bytes(&s).unwrap());
        tx.set_input(0, &i0);
        assert_lossless(&tx, &wire);
    }
}

/// E11 the empty transaction and default-ish objects.
#[test]
fn e11_empty_transaction() {
    let r = RefTx { version: 0, inputs: vec![], outputs: vec![], locktime: 0xffff_ffff };
    let wire = r.wire();
    let tx = Transaction::from_bytes(&wire).unwrap();
    assert_lossless(&tx, &wire);
    let tx = Transaction::new(0, 0xffff_ffff);
    assert_lossless(&tx, &wire);
    let d = Transaction::default();
    assert_lossless(&d, &RefTx { version: 2, inputs: vec![], outputs: vec![], locktime: 0 }.wire());
}

/// E12 a decoded transaction behaves like the original afterwards: sighash preimages (invariant: equal to those of the
/// transaction parsed from the reference wire bytes with the same extended fields) and further mutation.
#[test]
fn e12_decoded_transaction_behaves_like_original() {
    let mut rng = Rng(12345);
    for _ in 0..50 {
        let mut r = random_ref_tx(&mut rng);
        if r.inputs.is_empty() {
            r.inputs.push(RefIn { txid_wire: [9; 32], vout: 0, script: vec![], sequence: 0 });
        }
        if r.outputs.is_empty() {
            r.outputs.push(RefOut { value: 1, script: vec![0x51] });
        }
        let wire = r.wire();
        let tx = Transaction::from_bytes(&wire).unwrap();
        let lock = Script::from_bytes(&[0x76, 0xa9, 0x88, 0xac]).unwrap();
        for (route, mut back) in all_round_trips(&tx) {
            let mut fresh = Transaction::from_bytes(&wire).unwrap();
            for sh in [SigHash::InputsOutputs, SigHash::ALL, SigHash::Legacy_InputOutput, SigHash::InputOutput, SigHash::NONE] {
                let a = fresh.sighash_preimage(sh, 0, &lock, u64::MAX);
                let b = back.sighash_preimage(sh, 0, &lock, u64::MAX);
                match (a, b) {
                    (Ok(a), Ok(b)) => assert_eq!(a, b, "{}", route),
                    (Err(_), Err(_)) => {}
                    (a, b) => panic!("{}: {:?} vs {:?}", route, a.is_ok(), b.is_ok()),
                }
            }
            back.add_output(&TxOut::new(5, &lock));
            fresh.add_output(&TxOut::new(5, &lock));
            assert_eq!(back.to_bytes().unwrap(), fresh.to_bytes().unwrap());
            assert_eq!(
                back.sighash_preimage(SigHash::InputsOutputs, 0, &lock, 1).unwrap(),
                fresh.sighash_preimage(SigHash::InputsOutputs, 0, &lock, 1).unwrap()
            );
        }
    }
}

/// E13 the JSON document itself, read independently through serde_json::Value: the fields hold what the reference says.
#[test]
fn e13_json_document_content() {
    let r = RefTx {
        version: 0xffff_ffff,
        inputs: vec![RefIn { txid_wire: core::array::from_fn(|i| i as u8), vout: 0xffff_fffe, script: vec![0x02, 0xaa, 0xbb, 0x00, 0x4c, 0x01, 0xcc], sequence: 0x8000_0000 }],
        outputs: vec![RefOut { value: u64::MAX, script: vec![0x6a] }],
        locktime: 0xffff_ffff,
    };
    let wire = r.wire();
    let mut tx = Transaction::from_bytes(&wire).unwrap();
    let mut i0 = tx.get_input(0).unwrap();
    i0.set_satoshis(u64::MAX);
    i0.set_locking_script(&Script::from_bytes(&[0x51]).unwrap());
    tx.set_input(0, &i0);
    let v: serde_json::Value = serde_json::from_str(&tx.to_json_string().unwrap()).unwrap();
    assert_eq!(v["version"].as_u64(), Some(0xffff_ffff));
    assert_eq!(v["n_locktime"].as_u64(), Some(0xffff_ffff));
    assert_eq!(v["inputs"][0]["vout"].as_u64(), Some(0xffff_fffe));
    assert_eq!(v["inputs"][0]["sequence"].as_u64(), Some(0x8000_0000));
    assert_eq!(v["inputs"][0]["satoshis"].as_u64(), Some(u64::MAX));
    assert_eq!(v["outputs"][0]["value"].as_u64(), Some(u64::MAX));
    // the id is written in one fixed byte order; either way it must be the 32 bytes of the reference
    let id = hex::decode(v["inputs"][0]["prev_tx_id"].as_str().unwrap()).unwrap();
    let mut rev = id.clone();
    rev.reverse();
    assert!(id == r.inputs[0].txid_wire || rev == r.inputs[0].txid_wire);
    assert_eq!(v["inputs"][0]["script_sig"], serde_json::json!(["aabb", "OP_0", ["OP_PUSHDATA1", "cc"]]));
    assert_eq!(v["inputs"][0]["unlocking_script"], serde_json::json!(["OP_1"]));
    assert_lossless(&tx, &wire);
}

/// E14 other ways of reading the same JSON text: bytes, a reader, pretty printed, with reordered keys.
#[test]
fn e14_json_reading_variants() {
    let mut rng = Rng(4242);
    for _ in 0..50 {
        let r = random_ref_tx(&mut rng);
        let wire = r.wire();
        let tx = Transaction::from_bytes(&wire).unwrap();
        let json = tx.to_json_string().unwrap();
        let a: Transaction = serde_json::from_slice(json.as_bytes()).unwrap();
        let b: Transaction = serde_json::from_reader(std::io::Cursor::new(json.as_bytes().to_vec())).unwrap();
        let value: serde_json::Value = serde_json::from_str(&json).unwrap(); // BTreeMap: keys sorted
        let pretty = serde_json::to_string_pretty(&value).unwrap();
        let c = Transaction::from_json_string(&pretty).unwrap();
        for back in [a, b, c] {
            assert_eq!(back, tx);
            assert_eq!(back.to_bytes().unwrap(), wire);
        }
    }
}

/// E15 the state a transaction is in after signing work (hash cache filled) must not matter to the encodings:
/// the decoded transaction equals the one that was encoded.
#[test]
fn violation_transaction_with_filled_hash_cache_does_not_equal_its_round_trip() {
    let r = RefTx {
        version: 1,
        inputs: vec![RefIn { txid_wire: [0x12; 32], vout: 0, script: vec![], sequence: 0xffff_ffff }],
        outputs: vec![RefOut { value: 1000, script: vec![0x76, 0xa9, 0x88, 0xac] }],
        locktime: 0,
    };
    let wire = r.wire();
    let mut tx = Transaction::from_bytes(&wire).unwrap();
    let lock = Script::from_bytes(&[0x76, 0xa9, 0x88, 0xac]).unwrap();
    let mut i0 = tx.get_input(0).unwrap();
    i0.set_satoshis(2000);
    i0.set_locking_script(&lock);
    tx.set_input(0, &i0);
    // the usual flow: compute the preimage to sign (SIGHASH_ALL | FORKID), then hand the extended transaction on
    tx.sighash_preimage(SigHash::InputsOutputs, 0, &lock, 2000).unwrap();

    assert_eq!(tx.to_bytes().unwrap(), wire);
    let via_json = Transaction::from_json_string(&tx.to_json_string().unwrap()).unwrap();
    let via_cbor = Transaction::from_compact_bytes(&tx.to_compact_bytes().unwrap()).unwrap();
    assert_eq!(via_json.to_bytes().unwrap(), wire);
    assert_eq!(via_cbor.to_bytes().unwrap(), wire);
    assert_eq!(via_json.get_input(0), tx.get_input(0));
    assert_eq!(via_json.get_output(0), tx.get_output(0));
    assert!(via_json == tx, "JSON: every visible field is equal but the transactions compare unequal");
    assert!(via_cbor == tx, "CBOR: every visible field is equal but the transactions compare unequal");
}

/// E16 every opcode the library knows, alone, in both branches of a conditional and after OP_RETURN.
#[test]
fn e16_every_known_opcode() {
    for b in plain_opcodes() {
        for s in [vec![b], vec![0x63, b, 0x67, b, 0x68], vec![0x64, b, 0x68, b], vec![0x6a, b], vec![b, 0x6a, 0x01, b]] {
            let r = RefTx {
                version: 1,
                inputs: vec![RefIn { txid_wire: [b; 32], vout: b as u32, script: s.clone(), sequence: 0 }],
                outputs: vec![RefOut { value: b as u64, script: s.clone() }],
                locktime: 0,
            };
            let wire = r.wire();
            let mut tx = Transaction::from_bytes(&wire).unwrap();
            let mut i0 = tx.get_input(0).unwrap();
            i0.set_locking_script(&Script::from_bytes(&s).unwrap());
            tx.set_input(0, &i0);
            assert_lossless(&tx, &wire);
            assert_txin_lossless(&i0, &r.inputs[0].wire());
        }
    }
}

/// E17 the CBOR document read independently (ciborium's generic Value): integers are CBOR unsigned integers holding the
/// exact value, extended fields are present exactly when set.
#[test]
fn e17_cbor_document_content() {
    use ciborium::value::Value;
    fn get<'a>(v: &'a Value, key: &str) -> Option<&'a Value> {
        v.as_map().unwrap().iter().find(|(k, _)| k.as_text() == Some(key)).map(|(_, v)| v)
    }
    let r = RefTx {
        version: 0xffff_ffff,
        inputs: vec![
            RefIn { txid_wire: [0x21; 32], vout: 0xffff_fffe, script: vec![0x51], sequence: 0x8000_0000 },
            RefIn { txid_wire: [0x22; 32], vout: 0, script: vec![], sequence: 0 },
        ],
        outputs: vec![RefOut { value: u64::MAX, script: vec![0x6a] }],
        locktime: 0xffff_ffff,
    };
    let wire = r.wire();
    let mut tx = Transaction::from_bytes(&wire).unwrap();
    let mut i0 = tx.get_input(0).unwrap();
    i0.set_satoshis(u64::MAX);
    i0.set_locking_script(&Script::from_bytes(&[0x00]).unwrap());
    tx.set_input(0, &i0);
    let doc: Value = ciborium::de::from_reader(&tx.to_compact_bytes().unwrap()[..]).unwrap();
    let as_u128 = |v: &Value| -> u128 { u128::try_from(v.as_integer().unwrap()).unwrap() };
    assert_eq!(as_u128(get(&doc, "version").unwrap()), 0xffff_ffff);
    assert_eq!(as_u128(get(&doc, "n_locktime").unwrap()), 0xffff_ffff);
    let inputs = get(&doc, "inputs").unwrap().as_array().unwrap();
    assert_eq!(as_u128(get(&inputs[0], "satoshis").unwrap()), u64::MAX as u128);
    assert_eq!(as_u128(get(&inputs[0], "vout").unwrap()), 0xffff_fffe);
    assert!(get(&inputs[0], "unlocking_script").is_some());
    assert!(get(&inputs[1], "satoshis").is_none());
    assert!(get(&inputs[1], "unlocking_script").is_none());
    let outputs = get(&doc, "outputs").unwrap().as_array().unwrap();
    assert_eq!(as_u128(get(&outputs[0], "value").unwrap()), u64::MAX as u128);
    assert!(get(&doc, "hash_cache").is_none());
    assert_lossless(&tx, &wire);
}

/// E18 an object encoded, mutated and encoded again: the second document reflects the mutation (nothing is memoised),
/// and decoding the first document still gives the first state.
#[test]
fn e18_reuse_after_mutation() {
    let r1 = RefTx {
        version: 1,
        inputs: vec![RefIn { txid_wire: [0x31; 32], vout: 0, script: vec![0x51], sequence: 0 }],
        outputs: vec![RefOut { value: 10, script: vec![0x52] }],
        locktime: 0,
    };
    let mut tx = Transaction::from_bytes(&r1.wire()).unwrap();
    let lock = Script::from_bytes(&[0x53]).unwrap();
    tx.sighash_preimage(SigHash::InputsOutputs, 0, &lock, 1).unwrap();
    let json1 = tx.to_json_string().unwrap();
    let cbor1 = tx.to_compact_bytes().unwrap();

    let mut i0 = tx.get_input(0).unwrap();
    i0.set_satoshis(u64::MAX);
    i0.set_locking_script(&lock);
    i0.set_unlocking_script(&Script::from_bytes(&[0x02, 1, 2]).unwrap());
    i0.set_sequence(7);
    tx.set_input(0, &i0);
    tx.set_output(0, &TxOut::new(u64::MAX, &lock));
    tx.set_version(3);
    tx.set_nlocktime(4);
    let r2 = RefTx {
        version: 3,
        inputs: vec![RefIn { txid_wire: [0x31; 32], vout: 0, script: vec![0x02, 1, 2], sequence: 7 }],
        outputs: vec![RefOut { value: u64::MAX, script: vec![0x53] }],
        locktime: 4,
    };
    let from1 = Transaction::from_json_string(&json1).unwrap();
    assert_eq!(from1.to_bytes().unwrap(), r1.wire());
    assert_eq!(Transaction::from_compact_bytes(&cbor1).unwrap().to_bytes().unwrap(), r1.wire());
    let back_json = Transaction::from_json_string(&tx.to_json_string().unwrap()).unwrap();
    let back_cbor = Transaction::from_compact_bytes(&tx.to_compact_bytes().unwrap()).unwrap();
    for back in [back_json, back_cbor] {
        assert_eq!(back.to_bytes().unwrap(), r2.wire());
        assert_eq!(back.get_id_hex().unwrap(), ref_txid_hex(&r2.wire()));
        assert_eq!(back.get_input(0).unwrap(), i0);
        assert_eq!(back.get_input(0).unwrap().get_satoshis(), Some(u64::MAX));
    }
}

/// E19 nesting close to, but below, the known decoder limits, inside a whole transaction and on a 2 MiB test thread:
/// the call returns (round trip or error), the process does not die.
#[test]
fn e19_nesting_near_limits_returns() {
    for depth in [56usize, 58, 60, 61, 100, 120, 126] {
        let mut s = vec![0x63u8; depth];
        s.extend(vec![0x68u8; depth]);
        let r = RefTx { version: 1, inputs: vec![], outputs: vec![RefOut { value: 0, script: s.clone() }], locktime: 0 };
        let wire = r.wire();
        let tx = Transaction::from_bytes(&wire).unwrap();
        let json = tx.to_json_string().unwrap();
        if let Ok(back) = Transaction::from_json_string(&json) {
            assert_eq!(back.to_bytes().unwrap(), wire);
        }
        let cbor = tx.to_compact_bytes().unwrap();
        if let Ok(back) = Transaction::from_compact_bytes(&cbor) {
            assert_eq!(back.to_bytes().unwrap(), wire);
        }
    }
}

/// E20 byte-exact stability: encoding the decoded transaction gives the same document again (JSON text and CBOR bytes).
#[test]
fn e20_documents_are_stable() {
    let mut rng = Rng(2026);
    for _ in 0..100 {
        let r = random_ref_tx(&mut rng);
        let tx = Transaction::from_bytes(&r.wire()).unwrap();
        let json = tx.to_json_string().unwrap();
        assert_eq!(Transaction::from_json_string(&json).unwrap().to_json_string().unwrap(), json);
        let cbor = tx.to_compact_bytes().unwrap();
        assert_eq!(Transaction::from_compact_bytes(&cbor).unwrap().to_compact_bytes().unwrap(), cbor);
        // and across the two encodings
        assert_eq!(Transaction::from_compact_bytes(&cbor).unwrap().to_json_string().unwrap(), json);
        assert_eq!(Transaction::from_json_string(&json).unwrap().to_compact_bytes().unwrap(), cbor);
    }
}

/// E21 random byte strings that the script parser accepts (including its lenient reading after OP_RETURN):
/// whatever object it built must come back as the same object with the same bytes.
#[test]
fn e21_fuzzed_accepted_scripts() {
    let mut rng = Rng(31337);
    let known: Vec<u8> = (0u16..=255).map(|b| b as u8).filter(|b| OpCodes::from_u8(*b).is_some() || (*b > 0 && *b < 0x4c)).collect();
    let mut accepted = 0;
    for _ in 0..20000 {
        let len = rng.below(24) as usize;
        let s: Vec<u8> = (0..len)
            .map(|_| match rng.below(10) {
                0 => 0x6a,
                1 => [0x63u8, 0x64, 0x67, 0x68][rng.below(4) as usize],
                2 => rng.below(6) as u8,
                3 => [0x4cu8, 0x4d, 0x4e][rng.below(3) as usize],
                _ => known[rng.below(known.len() as u64) as usize],
            })
            .collect();
        let parsed = match Script::from_bytes(&s) {
            Ok(p) => p,
            Err(_) => continue,
        };
        accepted += 1;
        let lenient = parsed.to_bytes() != s; // only the accepted, known lenient reading may differ
        if lenient {
            assert!(s.contains(&0x6a), "bytes changed by parsing without an OP_RETURN: {}", hex::encode(&s));
        }
        let script_bytes = parsed.to_bytes();
        let mut txin = TxIn::new(&[0x42; 32], 1, &parsed, Some(2));
        txin.set_locking_script(&parsed);
        let rin = RefIn { txid_wire: [0x42; 32], vout: 1, script: script_bytes.clone(), sequence: 2 };
        assert_txin_lossless(&txin, &rin.wire());
        let mut tx = Transaction::new(1, 0);
        tx.add_input(&txin);
        tx.add_output(&TxOut::new(rng.next(), &parsed));
        let value = tx.get_output(0).unwrap().get_satoshis();
        let wire = RefTx { version: 1, inputs: vec![rin], outputs: vec![RefOut { value, script: script_bytes }], locktime: 0 }.wire();
        assert_lossless(&tx, &wire);
    }
    assert!(accepted > 2000, "{}", accepted);
}

/// E22 script lengths exactly at the compact-size boundaries (252/253, 0xffff/0x10000) on inputs, outputs and the
/// extended locking script.
#[test]
fn e22_script_length_boundaries() {
    for total in [252usize, 253, 254, 0xffff, 0x10000, 0x10001] {
        // one OP_PUSHDATA2/4 push filling the script to `total` bytes
        let mut s = vec![];
        if total - 3 <= 0xffff {
            let n = total - 3;
            s.push(0x4d);
            s.extend_from_slice(&(n as u16).to_le_bytes());
            s.extend(std::iter::repeat(0x5au8).take(n));
        } else {
            let n = total - 5;
            s.push(0x4e);
            s.extend_from_slice(&(n as u32).to_le_bytes());
            s.extend(std::iter::repeat(0x5au8).take(n));
        }
        assert_eq!(s.len(), total);
        let r = RefTx {
            version: 1,
            inputs: vec![RefIn { txid_wire: [0x88; 32], vout: 0, script: s.clone(), sequence: 0 }],
            outputs: vec![RefOut { value: 1, script: s.clone() }],
            locktime: 0,
        };
        let wire = r.wire();
        let mut tx = Transaction::from_bytes(&wire).unwrap();
        let mut i0 = tx.get_input(0).unwrap();
        i0.set_locking_script(&Script::from_bytes(&s).unwrap());
        tx.set_input(0, &i0);
        assert_lossless(&tx, &wire);
        assert_txin_lossless(&i0, &r.inputs[0].wire());
    }
}

/// E23 diagnosis for the violation above: the only difference is the private hash cache; once the same sighash call
/// has been made on the decoded transaction the two compare equal, and a transaction parsed from the wire shows the same effect.
#[test]
fn e23_hash_cache_is_the_only_difference() {
    let r = RefTx {
        version: 1,
        inputs: vec![RefIn { txid_wire: [0x12; 32], vout: 0, script: vec![], sequence: 0xffff_ffff }],
        outputs: vec![RefOut { value: 1000, script: vec![0x76, 0xa9, 0x88, 0xac] }],
        locktime: 0,
    };
    let wire = r.wire();
    let lock = Script::from_bytes(&[0x76, 0xa9, 0x88, 0xac]).unwrap();
    let mut tx = Transaction::from_bytes(&wire).unwrap();
    let untouched = tx.clone();
    assert_eq!(Transaction::from_json_string(&untouched.to_json_string().unwrap()).unwrap(), untouched);
    tx.sighash_preimage(SigHash::InputsOutputs, 0, &lock, 2000).unwrap();
    // legacy sighash types do not fill the cache
    let mut legacy = untouched.clone();
    legacy.sighash_preimage(SigHash::ALL, 0, &lock, 2000).unwrap();
    assert_eq!(legacy, untouched);

    let mut back = Transaction::from_json_string(&tx.to_json_string().unwrap()).unwrap();
    assert_eq!(back.to_json_string().unwrap(), tx.to_json_string().unwrap());
    assert_eq!(format!("{:?}", back.get_input(0)), format!("{:?}", tx.get_input(0)));
    assert!(format!("{:?}", tx).contains("hash_inputs: Some"));
    assert!(format!("{:?}", back).contains("hash_inputs: None"));
    back.sighash_preimage(SigHash::InputsOutputs, 0, &lock, 2000).unwrap();
    assert_eq!(back, tx);
}
