//! Hunt for violations of PROPERTY C18 (extended-transaction JSON and CBOR encodings are lossless).
//!
//! Oracle: transactions are assembled here, by hand, as wire bytes following the Bitcoin transaction format
//! (version LE32 | varint n_in | {txid(32, wire order) vout LE32 varint len script seq LE32} | varint n_out |
//! {value LE64 varint len script} | locktime LE32); the txid is SHA256d of these bytes, reversed, computed
//! here with the sha2 crate. After every JSON / CBOR round trip the transaction must serialise to the very
//! same bytes, have the same id, and compare equal field by field.

use bsv::*;
use sha2::{Digest, Sha256};

// ------------------------------------------------------------------------------------------------
// reference wire serialiser (oracle)
// ------------------------------------------------------------------------------------------------

fn varint(n: u64) -> Vec<u8> {
    if n < 0xfd {
        vec![n as u8]
    } else if n <= 0xffff {
        let mut v = vec![0xfd];
        v.extend((n as u16).to_le_bytes());
        v
    } else if n <= 0xffff_ffff {
        let mut v = vec![0xfe];
        v.extend((n as u32).to_le_bytes());
        v
    } else {
        let mut v = vec![0xff];
        v.extend(n.to_le_bytes());
        v
    }
}

#[derive(Clone, Debug)]
struct RefIn {
    txid_wire: [u8; 32],
    vout: u32,
    script: Vec<u8>,
    sequence: u32,
    // extended fields
    satoshis: Option<u64>,
    locking: Option<Vec<u8>>,
}

#[derive(Clone, Debug)]
struct RefOut {
    value: u64,
    script: Vec<u8>,
}

#[derive(Clone, Debug)]
struct RefTx {
    version: u32,
    inputs: Vec<RefIn>,
    outputs: Vec<RefOut>,
    locktime: u32,
}

impl RefTx {
    fn wire(&self) -> Vec<u8> {
        let mut b = vec![];
        b.extend(self.version.to_le_bytes());
        b.extend(varint(self.inputs.len() as u64));
        for i in &self.inputs {
            b.extend(i.txid_wire);
            b.extend(i.vout.to_le_bytes());
            b.extend(varint(i.script.len() as u64));
            b.extend(&i.script);
            b.extend(i.sequence.to_le_bytes());
        }
        b.extend(varint(self.outputs.len() as u64));
        for o in &self.outputs {
            b.extend(o.value.to_le_bytes());
            b.extend(varint(o.script.len() as u64));
            b.extend(&o.script);
        }
        b.extend(self.locktime.to_le_bytes());
        b
    }

    fn txid_hex(&self) -> String {
        let h1 = Sha256::digest(&self.wire());
        let mut h2 = Sha256::digest(&h1).to_vec();
        h2.reverse();
        hex::encode(h2)
    }

    /// Builds the library transaction from the wire bytes and then adds the extended fields with the setters.
    fn build(&self) -> Transaction {
        let mut tx = Transaction::from_bytes(&self.wire()).unwrap_or_else(|e| panic!("library refuses wire tx {}: {:?}", hex::encode(self.wire()), e));
        for (n, i) in self.inputs.iter().enumerate() {
            let mut txin = tx.get_input(n).unwrap();
            if let Some(s) = i.satoshis {
                txin.set_satoshis(s);
            }
            if let Some(l) = &i.locking {
                txin.set_locking_script(&Script::from_bytes(l).unwrap());
            }
            tx.set_input(n, &txin);
        }
        tx
    }
}

/// Field-by-field comparison against the reference, plus wire bytes and id.
fn check_against_ref(label: &str, r: &RefTx, tx: &Transaction) {
    assert_eq!(hex::encode(tx.to_bytes().unwrap()), hex::encode(r.wire()), "{}: wire bytes differ", label);
    assert_eq!(tx.get_id_hex().unwrap(), r.txid_hex(), "{}: txid differs", label);
    assert_eq!(tx.get_version(), r.version, "{}: version", label);
    assert_eq!(tx.get_n_locktime(), r.locktime, "{}: locktime", label);
    assert_eq!(tx.get_ninputs(), r.inputs.len(), "{}: n inputs", label);
    assert_eq!(tx.get_noutputs(), r.outputs.len(), "{}: n outputs", label);
    for (n, i) in r.inputs.iter().enumerate() {
        let t = tx.get_input(n).unwrap();
        assert_eq!(t.get_prev_tx_id(Some(true)), i.txid_wire.to_vec(), "{}: input {} prev txid (wire order)", label, n);
        let mut disp = i.txid_wire.to_vec();
        disp.reverse();
        assert_eq!(t.get_prev_tx_id(None), disp, "{}: input {} prev txid (display order)", label, n);
        assert_eq!(t.get_vout(), i.vout, "{}: input {} vout", label, n);
        assert_eq!(hex::encode(t.get_unlocking_script().to_bytes()), hex::encode(&i.script), "{}: input {} script", label, n);
        assert_eq!(t.get_sequence(), i.sequence, "{}: input {} sequence", label, n);
        assert_eq!(t.get_satoshis(), i.satoshis, "{}: input {} satoshis", label, n);
        assert_eq!(t.get_locking_script_bytes().map(hex::encode), i.locking.clone().map(hex::encode), "{}: input {} locking script", label, n);
    }
    for (n, o) in r.outputs.iter().enumerate() {
        let t = tx.get_output(n).unwrap();
        assert_eq!(t.get_satoshis(), o.value, "{}: output {} value", label, n);
        assert_eq!(hex::encode(t.get_script_pub_key().to_bytes()), hex::encode(&o.script), "{}: output {} script", label, n);
    }
}

/// All the routes the property names, for a library transaction. Returns the decoded copies.
fn all_round_trips(tx: &Transaction) -> Vec<(&'static str, Result<Transaction, String>)> {
    let mut out = vec![];
    // JSON string
    out.push((
        "json_string",
        tx.to_json_string().map_err(|e| format!("to_json_string: {:?}", e)).and_then(|s| Transaction::from_json_string(&s).map_err(|e| format!("from_json_string({}): {:?}", clip(&s), e))),
    ));
    // JSON value
    out.push((
        "json_value",
        tx.to_json()
            .map_err(|e| format!("to_json: {:?}", e))
            .and_then(|v| serde_json::from_value::<Transaction>(v.clone()).map_err(|e| format!("from_value({}): {:?}", clip(&v.to_string()), e))),
    ));
    // JSON value -> text -> from_json_string
    out.push((
        "json_value_text",
        tx.to_json()
            .map_err(|e| format!("to_json: {:?}", e))
            .and_then(|v| Transaction::from_json_string(&v.to_string()).map_err(|e| format!("from_json_string({}): {:?}", clip(&v.to_string()), e))),
    ));
    // CBOR bytes
    out.push((
        "cbor_bytes",
        tx.to_compact_bytes()
            .map_err(|e| format!("to_compact_bytes: {:?}", e))
            .and_then(|b| Transaction::from_compact_bytes(&b).map_err(|e| format!("from_compact_bytes({}): {:?}", clip(&hex::encode(&b)), e))),
    ));
    // CBOR hex
    out.push((
        "cbor_hex",
        tx.to_compact_hex()
            .map_err(|e| format!("to_compact_hex: {:?}", e))
            .and_then(|h| Transaction::from_compact_hex(&h).map_err(|e| format!("from_compact_hex({}): {:?}", clip(&h), e))),
    ));
    out
}

fn clip(s: &str) -> String {
    if s.len() > 600 {
        format!("{}...[{} chars]", &s[..600], s.len())
    } else {
        s.to_string()
    }
}

fn assert_lossless_ref(label: &str, r: &RefTx) {
    let tx = r.build();
    check_against_ref(&format!("{} (before any encoding)", label), r, &tx);
    for (route, res) in all_round_trips(&tx) {
        let back = res.unwrap_or_else(|e| panic!("{} via {}: decoding failed: {}\n  wire tx: {}", label, route, e, hex::encode(r.wire())));
        check_against_ref(&format!("{} via {}", label, route), r, &back);
        assert_eq!(back, tx, "{} via {}: PartialEq", label, route);
        // and once more through the other encoding
        let again = Transaction::from_compact_bytes(&Transaction::from_json_string(&back.to_json_string().unwrap()).unwrap().to_compact_bytes().unwrap()).unwrap();
        check_against_ref(&format!("{} via {} then json+cbor", label, route), r, &again);
    }
}

/// For hand-built transactions there is no wire oracle for the element structure, the property itself is a round trip.
fn assert_lossless_tx(label: &str, tx: &Transaction) {
    let wire = tx.to_bytes().unwrap();
    let id = tx.get_id_hex().unwrap();
    for (route, res) in all_round_trips(tx) {
        let back = res.unwrap_or_else(|e| panic!("{} via {}: decoding failed: {}", label, route, e));
        assert_eq!(&back, tx, "{} via {}: PartialEq", label, route);
        assert_eq!(hex::encode(back.to_bytes().unwrap()), hex::encode(&wire), "{} via {}: wire", label, route);
        assert_eq!(back.get_id_hex().unwrap(), id, "{} via {}: id", label, route);
        for n in 0..tx.get_ninputs() {
            let (a, b) = (tx.get_input(n).unwrap(), back.get_input(n).unwrap());
            assert_eq!(a.get_unlocking_script().to_script_bits(), b.get_unlocking_script().to_script_bits(), "{} via {}: input {} elements", label, route, n);
            assert_eq!(a.get_locking_script().map(|s| s.to_script_bits()), b.get_locking_script().map(|s| s.to_script_bits()), "{} via {}: input {} locking elements", label, route, n);
            assert_eq!(a.get_satoshis(), b.get_satoshis(), "{} via {}: input {} satoshis", label, route, n);
            assert_eq!(a.get_prev_tx_id(None), b.get_prev_tx_id(None));
            assert_eq!(a.get_vout(), b.get_vout());
            assert_eq!(a.get_sequence(), b.get_sequence());
        }
        for n in 0..tx.get_noutputs() {
            let (a, b) = (tx.get_output(n).unwrap(), back.get_output(n).unwrap());
            assert_eq!(a.get_satoshis(), b.get_satoshis());
            assert_eq!(a.get_script_pub_key().to_script_bits(), b.get_script_pub_key().to_script_bits(), "{} via {}: output {} elements", label, route, n);
        }
    }
}

fn txin_round_trips(label: &str, txin: &TxIn) {
    // CBOR
    let cb = txin.to_compact_bytes().unwrap();
    let back = TxIn::from_compact_bytes(&cb).unwrap_or_else(|e| panic!("{}: TxIn::from_compact_bytes({}) failed: {:?}", label, clip(&hex::encode(&cb)), e));
    assert_eq!(&back, txin, "{}: TxIn cbor", label);
    assert_eq!(back.to_bytes().unwrap(), txin.to_bytes().unwrap(), "{}: TxIn cbor wire", label);
    let ch = txin.to_compact_hex().unwrap();
    assert_eq!(ch, hex::encode(&cb));
    let back = TxIn::from_compact_hex(&ch).unwrap();
    assert_eq!(&back, txin, "{}: TxIn cbor hex", label);
    // JSON value
    let v = txin.to_json().unwrap();
    let back: TxIn = serde_json::from_value(v.clone()).unwrap_or_else(|e| panic!("{}: TxIn from_value({}) failed: {:?}", label, clip(&v.to_string()), e));
    assert_eq!(&back, txin, "{}: TxIn json value", label);
    let back: TxIn = serde_json::from_str(&v.to_string()).unwrap();
    assert_eq!(&back, txin, "{}: TxIn json value text", label);
    // JSON pretty string
    let s = txin.to_json_string().unwrap();
    let back: TxIn = serde_json::from_str(&s).unwrap_or_else(|e| panic!("{}: TxIn from_str({}) failed: {:?}", label, clip(&s), e));
    assert_eq!(&back, txin, "{}: TxIn json string", label);
    assert_eq!(back.to_bytes().unwrap(), txin.to_bytes().unwrap(), "{}: TxIn json wire", label);
    assert_eq!(back.get_satoshis(), txin.get_satoshis());
    assert_eq!(back.get_locking_script_bytes(), txin.get_locking_script_bytes());
}

// ------------------------------------------------------------------------------------------------
// fixtures
// ------------------------------------------------------------------------------------------------

fn txid(seed: u8) -> [u8; 32] {
    let mut t = [0u8; 32];
    for (i, b) in t.iter_mut().enumerate() {
        *b = seed.wrapping_mul(31).wrapping_add(i as u8 * 7 + 1);
    }
    t
}

fn p2pkh() -> Vec<u8> {
    hex::decode("76a91420bb5c3bfaef0231dc05190e7f1c8e22e098991e88ac").unwrap()
}

fn sig_script() -> Vec<u8> {
    let mut s = vec![0x47];
    s.extend([0x30u8; 0x47]);
    s.push(0x21);
    s.extend([0x02u8; 0x21]);
    s
}

fn simple(script_in: Vec<u8>, script_out: Vec<u8>, locking: Option<Vec<u8>>, satoshis: Option<u64>) -> RefTx {
    RefTx {
        version: 1,
        inputs: vec![RefIn {
            txid_wire: txid(1),
            vout: 3,
            script: script_in,
            sequence: 0xffff_fffe,
            satoshis,
            locking,
        }],
        outputs: vec![RefOut { value: 1234, script: script_out }],
        locktime: 0,
    }
}

// ------------------------------------------------------------------------------------------------
// 1. plain and extended
// ------------------------------------------------------------------------------------------------

#[test]
fn ok_p2pkh_plain() {
    assert_lossless_ref("plain p2pkh", &simple(sig_script(), p2pkh(), None, None));
}

#[test]
fn ok_p2pkh_extended_both_fields() {
    assert_lossless_ref("extended p2pkh", &simple(sig_script(), p2pkh(), Some(p2pkh()), Some(5000)));
}

#[test]
fn ok_only_satoshis() {
    assert_lossless_ref("only satoshis", &simple(sig_script(), p2pkh(), None, Some(0)));
    assert_lossless_ref("only satoshis 1", &simple(sig_script(), p2pkh(), None, Some(1)));
}

#[test]
fn ok_only_locking_script() {
    assert_lossless_ref("only locking", &simple(sig_script(), p2pkh(), Some(p2pkh()), None));
    // an empty locking script is present-but-empty, not absent
    assert_lossless_ref("only empty locking", &simple(sig_script(), p2pkh(), Some(vec![]), None));
}

#[test]
fn ok_mixed_inputs_some_extended() {
    let r = RefTx {
        version: 2,
        inputs: vec![
            RefIn { txid_wire: txid(1), vout: 0, script: sig_script(), sequence: 0, satoshis: Some(7), locking: Some(p2pkh()) },
            RefIn { txid_wire: txid(2), vout: 1, script: vec![], sequence: 1, satoshis: None, locking: None },
            RefIn { txid_wire: txid(3), vout: 2, script: vec![0x51], sequence: u32::MAX, satoshis: Some(u64::MAX), locking: None },
            RefIn { txid_wire: txid(4), vout: u32::MAX - 1, script: vec![0x00], sequence: 0x8000_0000, satoshis: None, locking: Some(vec![0x6a]) },
        ],
        outputs: vec![RefOut { value: 0, script: vec![] }, RefOut { value: u64::MAX, script: p2pkh() }],
        locktime: 499_999_999,
    };
    assert_lossless_ref("mixed", &r);
}

// ------------------------------------------------------------------------------------------------
// 2. 64-bit and 32-bit extremes
// ------------------------------------------------------------------------------------------------

#[test]
fn ok_u64_values_above_2_pow_53() {
    for v in [
        (1u64 << 53) - 1,
        1u64 << 53,
        (1u64 << 53) + 1,
        (1u64 << 63) - 1,
        1u64 << 63,
        (1u64 << 63) + 1,
        u64::MAX - 1,
        u64::MAX,
        21_000_000 * 100_000_000,
        0x0123_4567_89ab_cdef,
    ] {
        let mut r = simple(sig_script(), p2pkh(), Some(p2pkh()), Some(v));
        r.outputs[0].value = v;
        r.outputs.push(RefOut { value: v ^ 1, script: vec![] });
        assert_lossless_ref(&format!("u64 {}", v), &r);

        // the JSON carries the value as an exact decimal number (hand computed text)
        let json = r.build().to_json_string().unwrap();
        assert!(json.contains(&format!("\"value\":{},", v)), "output value {} not written as exact JSON number: {}", v, json);
        assert!(json.contains(&format!("\"satoshis\":{}", v)), "satoshis {} not written as exact JSON number: {}", v, json);
    }
}

#[test]
fn ok_cbor_u64_max_is_a_9_byte_integer() {
    // CBOR: major type 0, additional info 27 => 0x1b followed by 8 bytes big endian (RFC 8949 section 3.1)
    let mut r = simple(vec![], vec![], None, Some(u64::MAX));
    r.outputs[0].value = 0xfedc_ba98_7654_3210;
    let cb = r.build().to_compact_bytes().unwrap();
    let h = hex::encode(cb);
    assert!(h.contains("1bffffffffffffffff"), "{}", h);
    assert!(h.contains("1bfedcba9876543210"), "{}", h);
}

#[test]
fn ok_u32_extremes_version_sequence_locktime_vout() {
    for v in [0u32, 1, 2, i32::MAX as u32, i32::MAX as u32 + 1, 0xdead_beef, u32::MAX - 1, u32::MAX] {
        let mut r = simple(sig_script(), p2pkh(), None, None);
        r.version = v;
        r.locktime = v.wrapping_add(7);
        r.inputs[0].sequence = v.wrapping_mul(3);
        r.inputs[0].vout = v ^ 0x55;
        assert_lossless_ref(&format!("u32 {}", v), &r);
    }
    let mut r = simple(sig_script(), p2pkh(), None, None);
    r.version = u32::MAX;
    r.locktime = u32::MAX;
    r.inputs[0].sequence = u32::MAX;
    r.inputs[0].vout = u32::MAX; // with a non-zero txid this is not a coinbase
    assert_lossless_ref("all u32::MAX", &r);
}

// ------------------------------------------------------------------------------------------------
// 3. coinbase
// ------------------------------------------------------------------------------------------------

fn coinbase(script: Vec<u8>) -> RefTx {
    RefTx {
        version: 1,
        inputs: vec![RefIn { txid_wire: [0; 32], vout: 0xffff_ffff, script, sequence: 0, satoshis: None, locking: None }],
        outputs: vec![RefOut { value: 50 * 100_000_000, script: p2pkh() }],
        locktime: 0,
    }
}

#[test]
fn ok_coinbase_real_block() {
    let script = hex::decode("038d361604747a77610840000000230000004e2f686f77206c6f6e672063616e207468697320626520746573742074657374206170706172656e746c7920707265747479206c6f6e67206f6b20776f772031323334353637383930313220f09fa68d2f").unwrap();
    let r = coinbase(script);
    assert!(r.build().is_coinbase());
    assert_lossless_ref("coinbase", &r);
}

#[test]
fn ok_coinbase_script_that_is_not_a_script() {
    // coinbase data is free-form: truncated pushes, unknown opcodes, unbalanced conditionals
    for s in [
        vec![],
        vec![0x00],
        vec![0x4c],
        vec![0x4e, 0xff, 0xff, 0xff, 0xff],
        vec![0x05, 0x01],
        vec![0xbb, 0xbc, 0xfa],
        vec![0x63],
        vec![0x67, 0x68, 0x68],
        vec![0x6a, 0x4b],
        (0u8..=255).collect::<Vec<u8>>(),
    ] {
        let r = coinbase(s.clone());
        assert_lossless_ref(&format!("coinbase script {}", hex::encode(&s)), &r);
    }
}

#[test]
fn ok_coinbase_with_extended_fields() {
    let mut r = coinbase(vec![0x03, 0x01, 0x02, 0x03]);
    r.inputs[0].satoshis = Some(0);
    r.inputs[0].locking = Some(vec![]);
    assert_lossless_ref("coinbase extended", &r);
    r.inputs[0].satoshis = Some(u64::MAX);
    r.inputs[0].locking = Some(p2pkh());
    assert_lossless_ref("coinbase extended 2", &r);
}

#[test]
fn ok_coinbase_like_outpoints_that_are_not_coinbase() {
    // zero txid but vout != ffffffff, and ffffffff with a non-zero txid: ordinary inputs
    let mut r = simple(vec![0x51, 0x52], p2pkh(), None, None);
    r.inputs[0].txid_wire = [0; 32];
    r.inputs[0].vout = 0xffff_fffe;
    assert_lossless_ref("zero txid", &r);
    let mut r = simple(vec![0x51, 0x52], p2pkh(), None, None);
    r.inputs[0].vout = 0xffff_ffff;
    assert_lossless_ref("vout max", &r);
}

#[test]
fn ok_coinbase_input_among_other_inputs() {
    // not a coinbase *transaction* (two inputs) but the input has the null outpoint
    let r = RefTx {
        version: 1,
        inputs: vec![
            RefIn { txid_wire: txid(9), vout: 0, script: vec![0x51], sequence: 5, satoshis: Some(1), locking: None },
            RefIn { txid_wire: [0; 32], vout: 0xffff_ffff, script: vec![0x4c, 0xff, 0x01], sequence: 6, satoshis: None, locking: None },
        ],
        outputs: vec![],
        locktime: 1,
    };
    assert_lossless_ref("coinbase input second", &r);
}

#[test]
fn ok_coinbase_built_by_hand_from_parsed_script() {
    // a coinbase input whose script was given as ordinary script elements
    let script = Script::from_bytes(&[0x03, 0x01, 0x02, 0x03, 0x51]).unwrap();
    let txin = TxIn::new(&[0u8; 32], 0xffff_ffff, &script, Some(0));
    let mut tx = Transaction::new(1, 0);
    tx.add_input(&txin);
    tx.add_output(&TxOut::new(1, &Script::from_bytes(&p2pkh()).unwrap()));
    assert!(tx.is_coinbase());
    assert_lossless_tx("hand coinbase", &tx);
    txin_round_trips("hand coinbase txin", &txin);
}

// ------------------------------------------------------------------------------------------------
// 4. scripts: push forms
// ------------------------------------------------------------------------------------------------

fn push_forms() -> Vec<(String, Vec<u8>)> {
    let mut v: Vec<(String, Vec<u8>)> = vec![];
    v.push(("empty script".into(), vec![]));
    v.push(("OP_0".into(), vec![0x00]));
    v.push(("OP_0 OP_0".into(), vec![0x00, 0x00]));
    for n in [1usize, 2, 0x4a, 0x4b] {
        let mut s = vec![n as u8];
        s.extend(vec![0xabu8; n]);
        v.push((format!("direct push {}", n), s));
    }
    for n in [0usize, 1, 0x4b, 0x4c, 0xff] {
        let mut s = vec![0x4c, n as u8];
        s.extend(vec![0xcdu8; n]);
        v.push((format!("PUSHDATA1 {}", n), s));
    }
    for n in [0usize, 1, 0x4b, 0xff, 0x100, 0x1000, 0xffff] {
        let mut s = vec![0x4d];
        s.extend((n as u16).to_le_bytes());
        s.extend(vec![0xefu8; n]);
        v.push((format!("PUSHDATA2 {}", n), s));
    }
    for n in [0usize, 1, 0x4b, 0xff, 0x100, 0xffff, 0x10000, 0x10001] {
        let mut s = vec![0x4e];
        s.extend((n as u32).to_le_bytes());
        s.extend(vec![0x12u8; n]);
        v.push((format!("PUSHDATA4 {}", n), s));
    }
    // a one byte push of a small number (non minimal versus OP_1..OP_16, OP_1NEGATE)
    v.push(("push 01 01".into(), vec![0x01, 0x01]));
    v.push(("push 01 81".into(), vec![0x01, 0x81]));
    v.push(("push 01 00".into(), vec![0x01, 0x00]));
    v.push(("push 01 80".into(), vec![0x01, 0x80]));
    // several pushes in a row mixing forms
    v.push(("mixed".into(), vec![0x00, 0x01, 0x00, 0x4c, 0x00, 0x4d, 0x00, 0x00, 0x4e, 0x00, 0x00, 0x00, 0x00, 0x4c, 0x01, 0x00, 0x51, 0x4f]));
    v
}

#[test]
fn ok_every_push_form_keeps_exact_wire_bytes_in_every_position() {
    for (name, s) in push_forms() {
        // in the unlocking script, the output script and the extended locking script
        let r = simple(s.clone(), s.clone(), Some(s.clone()), Some(1));
        assert_lossless_ref(&name, &r);
    }
}

#[test]
fn ok_push_data_that_spells_text() {
    // data whose bytes are ASCII of an opcode name, of hex digits, of JSON
    for data in [&b"OP_DUP"[..], b"OP_0", b"coinbase", b"\"}],", b"00", b"null", b"{\"coinbase\":\"00\"}", "\u{1F98D}".as_bytes(), &[0xff, 0xfe, 0x00, 0x80]] {
        let mut s = vec![data.len() as u8];
        s.extend(data);
        let r = simple(s.clone(), s.clone(), Some(s.clone()), None);
        assert_lossless_ref(&format!("text push {:?}", data), &r);
    }
}

#[test]
fn ok_every_defined_opcode_byte() {
    // every byte value the library's opcode table knows, outside conditionals, alone and all in a row
    let conditional = [0x63u8, 0x64, 0x65, 0x66, 0x67, 0x68];
    let mut all = vec![];
    for b in 0x4fu8..=0xff {
        if conditional.contains(&b) || b == 0x6a {
            continue;
        }
        if Script::from_bytes(&[b]).is_err() {
            continue; // 0xbb..0xfa are not in the table: the library cannot represent such a script at all
        }
        all.push(b);
        let r = simple(vec![b], vec![b, b], Some(vec![b]), None);
        assert_lossless_ref(&format!("opcode {:#x}", b), &r);
    }
    assert!(all.contains(&0xfb) && all.contains(&0xfc) && all.contains(&0xfd) && all.contains(&0xfe) && all.contains(&0xff) && all.contains(&0xba));
    let r = simple(all.clone(), all.clone(), Some(all.clone()), Some(2));
    assert_lossless_ref("all opcodes", &r);
}

#[test]
fn ok_pseudo_opcodes_fb_to_ff() {
    let s = vec![0xfb, 0xfc, 0xfd, 0xfe, 0xff, 0x01, 0xfb, 0xfd];
    assert_lossless_ref("fb..ff", &simple(s.clone(), s.clone(), Some(s), None));
}

// ------------------------------------------------------------------------------------------------
// 5. OP_RETURN
// ------------------------------------------------------------------------------------------------

#[test]
fn ok_op_return_followed_by_wellformed_data() {
    for s in [
        vec![0x6a],
        vec![0x00, 0x6a],
        vec![0x00, 0x6a, 0x02, 0xaa, 0xbb],
        vec![0x6a, 0x4c, 0x00],
        vec![0x6a, 0x68, 0x67, 0x68], // unbalanced ENDIF/ELSE after OP_RETURN
        vec![0x6a, 0x00, 0x00, 0x51],
        vec![0x6a, 0xfb, 0xfc, 0xfd, 0xfe, 0xff],
        vec![0x6a, 0x6a, 0x6a],
        vec![0x51, 0x63, 0x6a, 0x68, 0x6a, 0x01, 0x02],
    ] {
        assert_lossless_ref(&format!("op_return {}", hex::encode(&s)), &simple(vec![0x51], s.clone(), Some(s.clone()), None));
    }
}

/// After OP_RETURN the parser accepts a final push that declares more bytes than remain (sCrypt state). The wire bytes of
/// such a script must survive like any others. (If the library altered them already while parsing, `build` +
/// `check_against_ref (before any encoding)` reports it - that would be a wire round trip defect, outside C18.)
#[test]
fn ok_or_outside_op_return_followed_by_truncated_push() {
    let s = vec![0x6a, 0x05, 0x01, 0x02];
    let tx = Transaction::from_bytes(&simple(vec![0x51], s.clone(), None, None).wire()).unwrap();
    // what the library holds after parsing (whatever that is) must be what comes back from JSON / CBOR
    assert_lossless_tx("op_return truncated push", &tx);
}

// ------------------------------------------------------------------------------------------------
// 6. conditionals
// ------------------------------------------------------------------------------------------------

const IF: u8 = 0x63;
const NOTIF: u8 = 0x64;
const VERIF: u8 = 0x65;
const VERNOTIF: u8 = 0x66;
const ELSE: u8 = 0x67;
const ENDIF: u8 = 0x68;

fn conditional_scripts() -> Vec<Vec<u8>> {
    vec![
        vec![IF, ENDIF],
        vec![NOTIF, ENDIF],
        vec![IF, ELSE, ENDIF],
        vec![NOTIF, ELSE, ENDIF],
        vec![VERIF, ENDIF],
        vec![VERNOTIF, ELSE, ENDIF],
        vec![0x51, IF, 0x52, ENDIF],
        vec![0x51, IF, 0x52, ELSE, 0x53, ENDIF, 0x54],
        vec![0x51, IF, ELSE, 0x53, ENDIF],
        vec![0x51, IF, 0x52, ELSE, ENDIF],
        vec![IF, IF, ENDIF, ENDIF],
        vec![IF, IF, ELSE, ENDIF, ELSE, NOTIF, ENDIF, ENDIF],
        vec![IF, ELSE, IF, ELSE, IF, ELSE, ENDIF, ENDIF, ENDIF],
        vec![IF, NOTIF, IF, NOTIF, IF, 0x00, ENDIF, ENDIF, ENDIF, ENDIF, ENDIF],
        vec![IF, 0x00, ELSE, 0x4c, 0x00, ENDIF],
        vec![IF, 0x01, 0x63, ELSE, 0x01, 0x68, ENDIF], // pushes whose data are conditional opcode bytes
        vec![IF, 0x6a, ENDIF],
        vec![IF, 0x6a, ELSE, 0x6a, ENDIF, 0x6a, IF],
        vec![IF, ENDIF, IF, ENDIF, NOTIF, ELSE, ENDIF],
        vec![IF, 0xab, ELSE, 0xab, 0xab, ENDIF],
        // stray ELSE / ENDIF at top level are kept as plain opcodes by the parser
        vec![ENDIF],
        vec![ELSE],
        vec![ELSE, ENDIF],
        vec![IF, ENDIF, ENDIF],
        vec![IF, ENDIF, ELSE],
    ]
}

#[test]
fn ok_conditionals_all_shapes() {
    for s in conditional_scripts() {
        if Script::from_bytes(&s).is_err() {
            continue;
        }
        assert_lossless_ref(&format!("conditional {}", hex::encode(&s)), &simple(s.clone(), s.clone(), Some(s.clone()), Some(3)));
    }
}

#[test]
fn ok_conditionals_nested_to_moderate_depth() {
    // depth 1..=40: well below every decoder recursion limit (the limits themselves are a known, recorded finding)
    for depth in [1usize, 2, 5, 10, 20, 40] {
        let mut s = vec![];
        for d in 0..depth {
            s.push(if d % 2 == 0 { IF } else { NOTIF });
            s.push(0x51);
        }
        for d in 0..depth {
            if d % 3 == 0 {
                s.push(ELSE);
                s.push(0x00);
            }
            s.push(ENDIF);
        }
        assert_lossless_ref(&format!("nest depth {}", depth), &simple(s.clone(), s.clone(), Some(s.clone()), None));
    }
}

#[test]
fn ok_conditionals_nested_in_else_branch_chain() {
    // IF a ELSE IF b ELSE IF c ... ENDIF ENDIF ENDIF
    let depth = 30;
    let mut s = vec![];
    for _ in 0..depth {
        s.extend([IF, 0x51, ELSE]);
    }
    for _ in 0..depth {
        s.push(ENDIF);
    }
    assert_lossless_ref("else chain", &simple(s.clone(), s.clone(), Some(s), None));
}

// ------------------------------------------------------------------------------------------------
// 7. elements built by hand
// ------------------------------------------------------------------------------------------------

fn hand_tx(bits: Vec<ScriptBit>) -> Transaction {
    let script = Script::from_script_bits(bits);
    let mut txin = TxIn::new(&txid(5), 1, &script, Some(9));
    txin.set_locking_script(&script);
    txin.set_satoshis(77);
    let mut tx = Transaction::new(2, 5);
    tx.add_input(&txin);
    tx.add_input(&TxIn::new(&txid(6), 2, &script, None));
    tx.add_output(&TxOut::new(3, &script));
    tx
}

fn hand_built_scripts() -> Vec<(&'static str, Vec<ScriptBit>)> {
    use OpCodes::*;
    vec![
        ("empty push element", vec![ScriptBit::Push(vec![])]),
        ("empty push next to OP_0", vec![ScriptBit::Push(vec![]), ScriptBit::OpCode(OP_0), ScriptBit::Push(vec![])]),
        ("plain OP_IF .. OP_ENDIF opcodes", vec![ScriptBit::OpCode(OP_IF), ScriptBit::OpCode(OP_1), ScriptBit::OpCode(OP_ELSE), ScriptBit::OpCode(OP_ENDIF)]),
        ("plain unbalanced OP_IF", vec![ScriptBit::OpCode(OP_IF)]),
        ("If block, no else", vec![ScriptBit::If { code: OP_IF, pass: vec![], fail: None }]),
        ("If block, empty else", vec![ScriptBit::If { code: OP_IF, pass: vec![], fail: Some(vec![]) }]),
        ("NOTIF block", vec![ScriptBit::If { code: OP_NOTIF, pass: vec![ScriptBit::Push(vec![1, 2])], fail: Some(vec![ScriptBit::OpCode(OP_DUP)]) }]),
        (
            "If inside If with plain opcodes inside",
            vec![ScriptBit::If {
                code: OP_IF,
                pass: vec![ScriptBit::If { code: OP_NOTIF, pass: vec![ScriptBit::OpCode(OP_IF), ScriptBit::OpCode(OP_ENDIF)], fail: None }],
                fail: Some(vec![ScriptBit::If { code: OP_VERIF, pass: vec![], fail: Some(vec![ScriptBit::Push(vec![])]) }]),
            }],
        ),
        ("If whose code is not a conditional", vec![ScriptBit::If { code: OP_DUP, pass: vec![ScriptBit::OpCode(OP_1)], fail: None }]),
        ("If whose code is OP_PUSHDATA1", vec![ScriptBit::If { code: OP_PUSHDATA1, pass: vec![], fail: None }]),
        ("PushData1 small", vec![ScriptBit::PushData(OP_PUSHDATA1, vec![1])]),
        ("PushData2 empty", vec![ScriptBit::PushData(OP_PUSHDATA2, vec![])]),
        ("PushData4 one", vec![ScriptBit::PushData(OP_PUSHDATA4, vec![0xff])]),
        ("PushData with a non push code", vec![ScriptBit::PushData(OP_DUP, vec![1, 2, 3])]),
        ("PushData with OP_IF code", vec![ScriptBit::PushData(OP_IF, vec![])]),
        ("PushData with OP_0 code", vec![ScriptBit::PushData(OP_0, vec![9])]),
        ("Coinbase element in an ordinary script", vec![ScriptBit::OpCode(OP_1), ScriptBit::Coinbase(vec![1, 2, 3]), ScriptBit::OpCode(OP_2)]),
        ("empty Coinbase element", vec![ScriptBit::Coinbase(vec![])]),
        ("Coinbase inside If", vec![ScriptBit::If { code: OP_IF, pass: vec![ScriptBit::Coinbase(vec![0x63])], fail: None }]),
        ("push opcodes as OpCode elements", vec![ScriptBit::OpCode(OP_PUSHDATA1), ScriptBit::OpCode(OP_PUSHDATA2), ScriptBit::OpCode(OP_PUSHDATA4)]),
        ("pseudo opcodes", vec![ScriptBit::OpCode(OP_DATA), ScriptBit::OpCode(OP_SIG), ScriptBit::OpCode(OP_PUBKEYHASH), ScriptBit::OpCode(OP_PUBKEY), ScriptBit::OpCode(OP_INVALIDOPCODE), ScriptBit::OpCode(OP_INVALID_ABOVE)]),
        ("OP_RETURN then conditionals as opcodes", vec![ScriptBit::OpCode(OP_RETURN), ScriptBit::OpCode(OP_ENDIF), ScriptBit::OpCode(OP_IF)]),
        ("Push of 75 bytes", vec![ScriptBit::Push(vec![7; 75])]),
    ]
}

#[test]
fn ok_hand_built_elements() {
    for (name, bits) in hand_built_scripts() {
        let tx = hand_tx(bits.clone());
        assert_lossless_tx(name, &tx);
        txin_round_trips(name, &tx.get_input(0).unwrap());
        txin_round_trips(name, &tx.get_input(1).unwrap());
    }
}

#[test]
fn ok_hand_built_push_elements_that_are_too_long_for_their_form() {
    // Push with 76, 255, 256, 300 bytes; PushData1 with 256 bytes: the wire form of these is questionable in itself
    // (the length byte wraps) but the JSON/CBOR round trip has to give back the same elements and the same bytes.
    use OpCodes::*;
    for bits in [
        vec![ScriptBit::Push(vec![1; 76])],
        vec![ScriptBit::Push(vec![1; 255])],
        vec![ScriptBit::Push(vec![1; 256])],
        vec![ScriptBit::Push(vec![1; 300])],
        vec![ScriptBit::PushData(OP_PUSHDATA1, vec![2; 256])],
        vec![ScriptBit::PushData(OP_PUSHDATA2, vec![2; 65536])],
    ] {
        assert_lossless_tx("oversized hand push", &hand_tx(bits));
    }
}

#[test]
fn ok_hand_built_prev_tx_id_of_unusual_length() {
    for len in [0usize, 1, 31, 33, 64] {
        let id: Vec<u8> = (0..len as u8).collect();
        let txin = TxIn::new(&id, 0, &Script::default(), None);
        txin_round_trips(&format!("prev_tx_id len {}", len), &txin);
        let mut tx = Transaction::new(1, 0);
        tx.add_input(&txin);
        assert_lossless_tx(&format!("prev_tx_id len {}", len), &tx);
    }
    txin_round_trips("default txin", &TxIn::default());
}

// ------------------------------------------------------------------------------------------------
// 8. structure
// ------------------------------------------------------------------------------------------------

#[test]
fn ok_zero_inputs_zero_outputs() {
    let r = RefTx { version: 1, inputs: vec![], outputs: vec![], locktime: 0 };
    assert_lossless_ref("0 in 0 out", &r);
    let r = RefTx { version: 2, inputs: vec![], outputs: vec![RefOut { value: 1, script: p2pkh() }], locktime: 9 };
    assert_lossless_ref("0 in 1 out", &r);
    let mut r = simple(sig_script(), p2pkh(), Some(p2pkh()), Some(9));
    r.outputs.clear();
    assert_lossless_ref("1 in 0 out", &r);
    assert_lossless_tx("default", &Transaction::default());
    assert_lossless_tx("new", &Transaction::new(u32::MAX, u32::MAX));
}

#[test]
fn ok_many_inputs_and_outputs() {
    // 300 inputs / 300 outputs: counts above the single byte varint range
    let r = RefTx {
        version: 1,
        inputs: (0..300u32)
            .map(|n| RefIn {
                txid_wire: txid(n as u8),
                vout: n,
                script: if n % 2 == 0 { sig_script() } else { vec![] },
                sequence: n,
                satoshis: if n % 3 == 0 { Some(n as u64) } else { None },
                locking: if n % 5 == 0 { Some(p2pkh()) } else { None },
            })
            .collect(),
        outputs: (0..300u64).map(|n| RefOut { value: n << 40, script: if n % 2 == 0 { p2pkh() } else { vec![0x6a, 0x01, n as u8] } }).collect(),
        locktime: 3,
    };
    assert_lossless_ref("300x300", &r);
}

#[test]
fn ok_prev_tx_id_byte_order_is_kept() {
    // an asymmetric txid: 00 01 02 ... 1f on the wire
    let mut t = [0u8; 32];
    for (i, b) in t.iter_mut().enumerate() {
        *b = i as u8;
    }
    let mut r = simple(vec![], vec![], None, None);
    r.inputs[0].txid_wire = t;
    assert_lossless_ref("asymmetric txid", &r);
    // palindromic and nearly-null ids
    let mut t = [0u8; 32];
    t[0] = 1;
    r.inputs[0].txid_wire = t;
    r.inputs[0].vout = u32::MAX;
    assert_lossless_ref("txid 01 00..", &r);
    let mut t = [0u8; 32];
    t[31] = 1;
    r.inputs[0].txid_wire = t;
    assert_lossless_ref("txid ..00 01", &r);
}

#[test]
fn ok_real_transaction_from_the_test_suite() {
    let tx_hex = "01000000029e8d016a7b0dc49a325922d05da1f916d1e4d4f0cb840c9727f3d22ce8d1363f000000008c493046022100e9318720bee5425378b4763b0427158b1051eec8b08442ce3fbfbf7b30202a44022100d4172239ebd701dae2fbaaccd9f038e7ca166707333427e3fb2a2865b19a7f27014104510c67f46d2cbb29476d1f0b794be4cb549ea59ab9cc1e731969a7bf5be95f7ad5e7f904e5ccf50a9dc1714df00fbeb794aa27aaff33260c1032d931a75c56f2ffffffffa3195e7a1ab665473ff717814f6881485dc8759bebe97e31c301ffe7933a656f020000008b48304502201c282f35f3e02a1f32d2089265ad4b561f07ea3c288169dedcf2f785e6065efa022100e8db18aadacb382eed13ee04708f00ba0a9c40e3b21cf91da8859d0f7d99e0c50141042b409e1ebbb43875be5edde9c452c82c01e3903d38fa4fd89f3887a52cb8aea9dc8aec7e2c9d5b3609c03eb16259a2537135a1bf0f9c5fbbcbdbaf83ba402442ffffffff02206b1000000000001976a91420bb5c3bfaef0231dc05190e7f1c8e22e098991e88acf0ca0100000000001976a9149e3e2d23973a04ec1b02be97c30ab9f2f27c3b2c88ac00000000";
    let wire = hex::decode(tx_hex).unwrap();
    let tx = Transaction::from_bytes(&wire).unwrap();
    // known id of this mainnet transaction, computed here
    let h1 = Sha256::digest(&wire);
    let mut id = Sha256::digest(&h1).to_vec();
    id.reverse();
    for (route, res) in all_round_trips(&tx) {
        let back = res.unwrap();
        assert_eq!(back.to_bytes().unwrap(), wire, "{}", route);
        assert_eq!(back.get_id_bytes().unwrap(), id, "{}", route);
        assert_eq!(back, tx);
    }
}

// ------------------------------------------------------------------------------------------------
// 9. TxIn on its own
// ------------------------------------------------------------------------------------------------

#[test]
fn ok_txin_alone_all_shapes() {
    let mut shapes: Vec<RefTx> = vec![
        simple(sig_script(), vec![], None, None),
        simple(sig_script(), vec![], Some(p2pkh()), None),
        simple(sig_script(), vec![], None, Some(u64::MAX)),
        simple(vec![], vec![], Some(vec![]), Some(0)),
        simple(vec![], vec![], Some(p2pkh()), Some((1 << 53) + 1)),
        coinbase(vec![0x4c]),
        coinbase(vec![]),
    ];
    for (_, s) in push_forms() {
        shapes.push(simple(s.clone(), vec![], Some(s), Some(1)));
    }
    for s in conditional_scripts() {
        if Script::from_bytes(&s).is_ok() {
            shapes.push(simple(s.clone(), vec![], Some(s), None));
        }
    }
    for r in shapes {
        let tx = r.build();
        let txin = tx.get_input(0).unwrap();
        let label = format!("txin of {}", clip(&hex::encode(r.wire())));
        txin_round_trips(&label, &txin);
        // oracle: the wire bytes of the input alone
        let i = &r.inputs[0];
        let mut w = i.txid_wire.to_vec();
        w.extend(i.vout.to_le_bytes());
        w.extend(varint(i.script.len() as u64));
        w.extend(&i.script);
        w.extend(i.sequence.to_le_bytes());
        let back = TxIn::from_compact_bytes(&txin.to_compact_bytes().unwrap()).unwrap();
        assert_eq!(hex::encode(back.to_bytes().unwrap()), hex::encode(&w), "{}", label);
        assert_eq!(back.get_satoshis(), i.satoshis);
        assert_eq!(back.get_locking_script_bytes(), i.locking);
        let back: TxIn = serde_json::from_value(txin.to_json().unwrap()).unwrap();
        assert_eq!(hex::encode(back.to_bytes().unwrap()), hex::encode(&w), "{}", label);
        assert_eq!(back.get_satoshis(), i.satoshis);
        assert_eq!(back.get_locking_script_bytes(), i.locking);
    }
}

#[test]
fn ok_txin_json_field_names_do_not_swap_the_two_scripts() {
    // unlocking script = OP_1, locking script = OP_2: after the round trip each must be where it was
    let r = simple(vec![0x51], vec![], Some(vec![0x52]), Some(4));
    let txin = r.build().get_input(0).unwrap();
    let v = txin.to_json().unwrap();
    let back: TxIn = serde_json::from_value(v.clone()).unwrap();
    assert_eq!(back.get_unlocking_script().to_bytes(), vec![0x51], "{}", v);
    assert_eq!(back.get_locking_script_bytes(), Some(vec![0x52]), "{}", v);
    let back = TxIn::from_compact_bytes(&txin.to_compact_bytes().unwrap()).unwrap();
    assert_eq!(back.get_unlocking_script().to_bytes(), vec![0x51]);
    assert_eq!(back.get_locking_script_bytes(), Some(vec![0x52]));
}

// ------------------------------------------------------------------------------------------------
// 10. random transactions
// ------------------------------------------------------------------------------------------------

struct Rng(u64);
impl Rng {
    fn next(&mut self) -> u64 {
        // splitmix64
        self.0 = self.0.wrapping_add(0x9e37_79b9_7f4a_7c15);
        let mut z = self.0;
        z = (z ^ (z >> 30)).wrapping_mul(0xbf58_476d_1ce4_e5b9);
        z = (z ^ (z >> 27)).wrapping_mul(0x94d0_49bb_1331_11eb);
        z ^ (z >> 31)
    }
    fn below(&mut self, n: u64) -> u64 {
        self.next() % n
    }
    fn interesting_u64(&mut self) -> u64 {
        match self.below(8) {
            0 => 0,
            1 => u64::MAX,
            2 => (1 << 53) + self.below(5),
            3 => 1 << self.below(64),
            4 => (1u64 << self.below(64)).wrapping_sub(1),
            5 => self.below(1000),
            _ => self.next(),
        }
    }
    fn interesting_u32(&mut self) -> u32 {
        match self.below(6) {
            0 => 0,
            1 => u32::MAX,
            2 => i32::MAX as u32 + self.below(3) as u32,
            3 => self.below(1000) as u32,
            _ => self.next() as u32,
        }
    }
}

fn random_script(rng: &mut Rng, depth: usize, budget: &mut usize) -> Vec<u8> {
    let plain: Vec<u8> = (0x4fu8..=0xba).chain(0xfb..=0xff).filter(|b| ![0x63, 0x64, 0x65, 0x66, 0x67, 0x68, 0x6a].contains(b)).collect();
    let mut s = vec![];
    let n = rng.below(6);
    for _ in 0..n {
        if *budget == 0 {
            break;
        }
        *budget -= 1;
        match rng.below(12) {
            0 => s.push(0x00),
            1 => {
                let l = 1 + rng.below(0x4b) as usize;
                s.push(l as u8);
                for _ in 0..l {
                    s.push(rng.next() as u8);
                }
            }
            2 => {
                let m = if rng.below(4) == 0 { 256 } else { 4 };
                let l = rng.below(m) as usize;
                s.extend([0x4c, l as u8]);
                for _ in 0..l {
                    s.push(rng.next() as u8);
                }
            }
            3 => {
                let m = if rng.below(6) == 0 { 5000 } else { 4 };
                let l = rng.below(m) as usize;
                s.push(0x4d);
                s.extend((l as u16).to_le_bytes());
                for _ in 0..l {
                    s.push(rng.next() as u8);
                }
            }
            4 => {
                let m = if rng.below(10) == 0 { 70000 } else { 4 };
                let l = rng.below(m) as usize;
                s.push(0x4e);
                s.extend((l as u32).to_le_bytes());
                for _ in 0..l {
                    s.push(rng.next() as u8);
                }
            }
            5 | 6 if depth < 8 => {
                let m = if rng.below(5) == 0 { 4 } else { 2 };
                s.push([IF, NOTIF, VERIF, VERNOTIF][rng.below(m) as usize]);
                s.extend(random_script(rng, depth + 1, budget));
                if rng.below(2) == 0 {
                    s.push(ELSE);
                    s.extend(random_script(rng, depth + 1, budget));
                }
                s.push(ENDIF);
            }
            _ => s.push(plain[rng.below(plain.len() as u64) as usize]),
        }
    }
    s
}

fn random_full_script(rng: &mut Rng) -> Vec<u8> {
    let mut budget = 40;
    let mut s = random_script(rng, 0, &mut budget);
    if rng.below(5) == 0 {
        // OP_RETURN and well-formed but otherwise arbitrary trailing elements, including stray ELSE/ENDIF
        s.push(0x6a);
        let mut budget = 10;
        s.extend(random_script(rng, 0, &mut budget));
        if rng.below(2) == 0 {
            s.push([ELSE, ENDIF][rng.below(2) as usize]);
        }
    }
    s
}

fn random_tx(rng: &mut Rng) -> RefTx {
    let n_in = rng.below(4) as usize;
    let n_out = rng.below(4) as usize;
    let coinbase = rng.below(8) == 0;
    let mut inputs = vec![];
    if coinbase {
        let l = rng.below(100) as usize;
        inputs.push(RefIn {
            txid_wire: [0; 32],
            vout: u32::MAX,
            script: (0..l).map(|_| rng.next() as u8).collect(),
            sequence: rng.interesting_u32(),
            satoshis: if rng.below(4) == 0 { Some(rng.interesting_u64()) } else { None },
            locking: if rng.below(4) == 0 { Some(random_full_script(rng)) } else { None },
        });
    } else {
        for _ in 0..n_in {
            let mut t = [0u8; 32];
            for b in t.iter_mut() {
                *b = rng.next() as u8;
            }
            inputs.push(RefIn {
                txid_wire: t,
                vout: rng.interesting_u32(),
                script: random_full_script(rng),
                sequence: rng.interesting_u32(),
                satoshis: if rng.below(2) == 0 { Some(rng.interesting_u64()) } else { None },
                locking: if rng.below(2) == 0 { Some(random_full_script(rng)) } else { None },
            });
        }
    }
    RefTx {
        version: rng.interesting_u32(),
        inputs,
        outputs: (0..n_out).map(|_| RefOut { value: rng.interesting_u64(), script: random_full_script(rng) }).collect(),
        locktime: rng.interesting_u32(),
    }
}

#[test]
fn ok_random_transactions() {
    // HUNT_C18_SEED / HUNT_C18_ITER widen the sweep (run once with seeds 1..=8 x 5000 iterations: nothing found)
    let seed = std::env::var("HUNT_C18_SEED").ok().and_then(|s| s.parse().ok()).unwrap_or(0xC18u64);
    let iter = std::env::var("HUNT_C18_ITER").ok().and_then(|s| s.parse().ok()).unwrap_or(1500usize);
    let mut rng = Rng(seed);
    for n in 0..iter {
        let r = random_tx(&mut rng);
        assert_lossless_ref(&format!("random tx #{}", n), &r);
        if let Some(i) = r.build().get_input(0) {
            txin_round_trips(&format!("random tx #{} input 0", n), &i);
        }
    }
}

// ------------------------------------------------------------------------------------------------
// 11. sizes
// ------------------------------------------------------------------------------------------------

#[test]
fn ok_long_pushes_beyond_the_cbor_scratch_buffer() {
    // ciborium reads short strings through a 4096 byte scratch buffer: 2047, 2048, 2049 data bytes are 4094, 4096, 4098 hex characters
    for n in [2047usize, 2048, 2049, 4096, 4097, 100_000] {
        let mut s = vec![0x4e];
        s.extend((n as u32).to_le_bytes());
        s.extend((0..n).map(|i| (i * 7) as u8));
        assert_lossless_ref(&format!("long push {}", n), &simple(s.clone(), s.clone(), Some(s), None));
    }
    // coinbase data too
    for n in [2047usize, 2048, 2049, 5000] {
        assert_lossless_ref(&format!("long coinbase {}", n), &coinbase(vec![0x33; n]));
    }
}

#[test]
fn ok_script_with_many_elements() {
    let s: Vec<u8> = std::iter::repeat([0x51u8, 0x00, 0x01, 0xaa, 0x4c, 0x00]).take(5000).flatten().collect();
    assert_lossless_ref("30000 element script", &simple(s.clone(), s, None, None));
}

// ------------------------------------------------------------------------------------------------
// 12. state carried next to the fields
// ------------------------------------------------------------------------------------------------

/// borderline: `Transaction` derives PartialEq over its private sighash cache, which the encodings skip.
#[test]
fn borderline_equality_after_sighash_cache_was_filled() {
    let r = simple(sig_script(), p2pkh(), Some(p2pkh()), Some(5000));
    let mut tx = r.build();
    let _ = tx.sighash_preimage(SigHash::InputsOutputs, 0, &Script::from_bytes(&p2pkh()).unwrap(), 5000).unwrap();
    let back = Transaction::from_json_string(&tx.to_json_string().unwrap()).unwrap();
    check_against_ref("after sighash", &r, &back);
    let back_cbor = Transaction::from_compact_bytes(&tx.to_compact_bytes().unwrap()).unwrap();
    check_against_ref("after sighash", &r, &back_cbor);
    assert_eq!(back_cbor, back);
    assert_eq!(
        back, tx,
        "borderline: a transaction on which sighash_preimage(SIGHASH_ALL|FORKID) was called is != its own JSON round trip \
         although every transaction field, the wire bytes and the id agree (the private hash cache takes part in PartialEq)"
    );
}

// ------------------------------------------------------------------------------------------------
// 13. further routes and recorded observations
// ------------------------------------------------------------------------------------------------

#[test]
fn ok_pretty_printed_json_and_value_number_kinds() {
    let mut r = simple(sig_script(), p2pkh(), Some(vec![IF, 0x00, ELSE, 0x4c, 0x00, ENDIF]), Some(u64::MAX));
    r.outputs[0].value = u64::MAX - 1;
    let tx = r.build();
    let pretty = serde_json::to_string_pretty(&tx).unwrap();
    let back = Transaction::from_json_string(&pretty).unwrap();
    check_against_ref("pretty", &r, &back);
    assert_eq!(back, tx);
    let v = tx.to_json().unwrap();
    assert_eq!(v["outputs"][0]["value"].as_u64(), Some(u64::MAX - 1), "{}", v);
    assert!(v["outputs"][0]["value"].is_u64() && !v["outputs"][0]["value"].is_f64());
    assert_eq!(v["inputs"][0]["satoshis"].as_u64(), Some(u64::MAX), "{}", v);
    assert_eq!(v["inputs"][0]["sequence"].as_u64(), Some(0xffff_fffe));
    // a TxIn taken out of the transaction's JSON is a TxIn JSON
    let txin: TxIn = serde_json::from_value(v["inputs"][0].clone()).unwrap();
    assert_eq!(txin, tx.get_input(0).unwrap());
    assert_eq!(txin.to_json().unwrap(), v["inputs"][0]);
}

#[test]
fn ok_encodings_are_deterministic_and_stable_under_repetition() {
    let mut rng = Rng(77);
    for _ in 0..100 {
        let r = random_tx(&mut rng);
        let tx = r.build();
        let j1 = tx.to_json_string().unwrap();
        let c1 = tx.to_compact_bytes().unwrap();
        let mut cur = tx.clone();
        for _ in 0..3 {
            cur = Transaction::from_compact_bytes(&Transaction::from_json_string(&cur.to_json_string().unwrap()).unwrap().to_compact_bytes().unwrap()).unwrap();
        }
        assert_eq!(cur.to_json_string().unwrap(), j1);
        assert_eq!(cur.to_compact_bytes().unwrap(), c1);
        check_against_ref("repeated", &r, &cur);
    }
}

/// KNOWN (recorded by earlier testers, kept here only to locate the thresholds): the parsers accept 500 levels of
/// nesting, the JSON and CBOR decoders stop earlier.
#[test]
fn known_nesting_thresholds() {
    let script = |depth: usize| {
        let mut s = vec![IF; depth];
        s.extend(vec![ENDIF; depth]);
        s
    };
    let mut first_json_fail = None;
    let mut first_cbor_fail = None;
    for depth in 1..=200usize {
        let tx = simple(vec![], script(depth), None, None).build();
        if first_json_fail.is_none() && Transaction::from_json_string(&tx.to_json_string().unwrap()).is_err() {
            first_json_fail = Some(depth);
        }
        if first_cbor_fail.is_none() && Transaction::from_compact_bytes(&tx.to_compact_bytes().unwrap()).is_err() {
            first_cbor_fail = Some(depth);
        }
    }
    println!("first nesting depth the JSON decoder refuses: {:?}; CBOR: {:?}", first_json_fail, first_cbor_fail);
}

/// OUTSIDE C18 (wire parsing, not the JSON/CBOR encodings): recorded because the brief asks about OP_RETURN followed by
/// arbitrary bytes. Prints what the library makes of such scripts.
#[test]
fn outside_op_return_followed_by_arbitrary_bytes_at_parse_time() {
    for s in [vec![0x6a, 0x05, 0x01, 0x02], vec![0x6a, 0x01], vec![0x6a, 0xbb], vec![0x6a, 0x4c], vec![0x6a, 0x4c, 0x05, 0x01]] {
        let r = simple(vec![], s.clone(), None, None);
        match Transaction::from_bytes(&r.wire()) {
            Ok(tx) => println!("script {} -> parsed, re-serialises as {}", hex::encode(&s), tx.get_output(0).unwrap().get_script_pub_key_hex()),
            Err(e) => println!("script {} -> refused: {:?}", hex::encode(&s), e),
        }
    }
}

/// KNOWN area (nesting): at the deepest nesting the parsers accept (500) encoding must not crash the process and decoding
/// must answer with an error or the right transaction, never a stack overflow or a wrong transaction.
#[test]
fn known_nesting_500_no_crash_no_wrong_answer() {
    let depth = 500;
    let mut s = vec![];
    for _ in 0..depth {
        s.extend([NOTIF, 0x51]);
    }
    for _ in 0..depth {
        s.extend([ELSE, 0x00, ENDIF]);
    }
    let r = simple(s.clone(), s.clone(), Some(s), Some(1));
    let tx = r.build();
    for (route, res) in all_round_trips(&tx) {
        match res {
            Ok(back) => {
                check_against_ref(route, &r, &back);
                println!("{}: depth 500 decoded correctly", route);
            }
            Err(e) => println!("{}: depth 500 refused: {}", route, clip(&e).chars().rev().take(120).collect::<String>().chars().rev().collect::<String>()),
        }
    }
}

#[test]
fn ok_hand_written_alternative_json_forms_normalise_and_then_round_trip() {
    // forms the untagged decoder also accepts: upper case hex, a conditional without its fail key and with the keys in another order, an opcode as a single key map
    let json = r#"{"version":1,"inputs":[{"prev_tx_id":"AA00000000000000000000000000000000000000000000000000000000000001","vout":1,
        "script_sig":["AB",{"pass":["OP_1"],"code":"OP_IF"},{"OP_DUP":null},["OP_PUSHDATA1","FF"],"" ],"sequence":0,"satoshis":null}],"outputs":[],"n_locktime":0,"extra":1}"#;
    let res = Transaction::from_json_string(json);
    if let Err(e) = &res {
        println!("alternative forms: {:?}", e);
    }
    if let Ok(tx) = res {
        // aa 00.. 01 is the wire order in this JSON form (see the fixed JSON in tests/transaction.rs)
        let i = tx.get_input(0).unwrap();
        assert_eq!(hex::encode(i.get_prev_tx_id(Some(true))), "aa00000000000000000000000000000000000000000000000000000000000001");
        assert_eq!(hex::encode(i.get_unlocking_script().to_bytes()), "01ab6351687 64c01ff00".replace(' ', ""));
        assert_lossless_tx("alternative forms", &tx);
    }
}

// ------------------------------------------------------------------------------------------------
// 14. random element trees built by hand (shapes no parser produces)
// ------------------------------------------------------------------------------------------------

fn random_bits(rng: &mut Rng, depth: usize, codes: &[OpCodes]) -> Vec<ScriptBit> {
    let n = rng.below(5);
    let mut v = vec![];
    for _ in 0..n {
        let code = codes[rng.below(codes.len() as u64) as usize];
        let m = [0u64, 1, 2, 75, 76, 300][rng.below(6) as usize];
        let data: Vec<u8> = (0..rng.below(m + 1)).map(|_| rng.next() as u8).collect();
        v.push(match rng.below(7) {
            0 => ScriptBit::Push(data),
            1 => ScriptBit::PushData(code, data),
            2 => ScriptBit::Coinbase(data),
            3 | 4 if depth < 6 => ScriptBit::If {
                code,
                pass: random_bits(rng, depth + 1, codes),
                fail: if rng.below(2) == 0 { Some(random_bits(rng, depth + 1, codes)) } else { None },
            },
            _ => ScriptBit::OpCode(code),
        });
    }
    v
}

#[test]
fn ok_random_hand_built_element_trees() {
    use num_traits::FromPrimitive;
    let codes: Vec<OpCodes> = (0u8..=255).filter_map(OpCodes::from_u8).collect();
    assert!(codes.len() > 100);
    let mut rng = Rng(4242);
    for n in 0..3000 {
        let mut tx = Transaction::new(rng.interesting_u32(), rng.interesting_u32());
        for _ in 0..rng.below(3) {
            let id: Vec<u8> = (0..32).map(|_| rng.next() as u8).collect();
            let mut txin = TxIn::new(&id, rng.interesting_u32(), &Script::from_script_bits(random_bits(&mut rng, 0, &codes)), if rng.below(2) == 0 { Some(rng.interesting_u32()) } else { None });
            if rng.below(2) == 0 {
                txin.set_locking_script(&Script::from_script_bits(random_bits(&mut rng, 0, &codes)));
            }
            if rng.below(2) == 0 {
                txin.set_satoshis(rng.interesting_u64());
            }
            txin_round_trips(&format!("hand tree #{}", n), &txin);
            tx.add_input(&txin);
        }
        for _ in 0..rng.below(3) {
            tx.add_output(&TxOut::new(rng.interesting_u64(), &Script::from_script_bits(random_bits(&mut rng, 0, &codes))));
        }
        assert_lossless_tx(&format!("hand tree #{}", n), &tx);
    }
}
