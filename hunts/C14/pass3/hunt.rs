// Hunt for violations of C14: the interpreter runs non-signature opcodes exactly per Bitcoin SV script semantics.
//
// Oracle: a small reference interpreter written here, modelled on the node's flat evaluation loop (vfExec / vfElse
// condition stacks over the script as a flat list of opcodes and pushes; post-Genesis rules: OP_RETURN at the top
// level ends successfully, inside a conditional it stops execution but conditionals still have to balance; a second
// OP_ELSE is an error; no minimal-encoding requirement; numbers of any size). It shares no code with the library: its
// number codec is written by hand, shifts go through bit vectors.
#![allow(dead_code)]
use bsv::*;
use num_bigint::BigInt;
use num_traits::{FromPrimitive, Signed, ToPrimitive, Zero};
use std::panic::{catch_unwind, AssertUnwindSafe};

type Stack = Vec<Vec<u8>>;

// ------------------------------------------------------------------------------------------------------------------
// Reference implementation
// ------------------------------------------------------------------------------------------------------------------

#[derive(Clone, Debug, PartialEq)]
enum Tok {
    Op(u8),
    /// data, kind: 0 direct push (1..=75 bytes), 1 / 2 / 4 = OP_PUSHDATA1 / 2 / 4
    Push(Vec<u8>, u8),
}

fn ser(toks: &[Tok]) -> Vec<u8> {
    let mut out = vec![];
    for t in toks {
        match t {
            Tok::Op(b) => out.push(*b),
            Tok::Push(d, 0) => {
                assert!(!d.is_empty() && d.len() <= 75);
                out.push(d.len() as u8);
                out.extend(d);
            }
            Tok::Push(d, 1) => {
                out.push(0x4c);
                out.push(d.len() as u8);
                out.extend(d);
            }
            Tok::Push(d, 2) => {
                out.push(0x4d);
                out.extend((d.len() as u16).to_le_bytes());
                out.extend(d);
            }
            Tok::Push(d, _) => {
                out.push(0x4e);
                out.extend((d.len() as u32).to_le_bytes());
                out.extend(d);
            }
        }
    }
    out
}

fn push_tok(d: &[u8]) -> Tok {
    if d.is_empty() {
        Tok::Op(0x00)
    } else if d.len() <= 75 {
        Tok::Push(d.to_vec(), 0)
    } else if d.len() <= 255 {
        Tok::Push(d.to_vec(), 1)
    } else {
        Tok::Push(d.to_vec(), 2)
    }
}

fn dec(b: &[u8]) -> BigInt {
    let n = b.len();
    if n == 0 {
        return BigInt::zero();
    }
    let neg = b[n - 1] & 0x80 != 0;
    let mut v = BigInt::zero();
    for i in (0..n).rev() {
        let byte = if i == n - 1 { b[i] & 0x7f } else { b[i] };
        v = v * 256 + BigInt::from(byte);
    }
    if neg {
        -v
    } else {
        v
    }
}

fn enc(v: &BigInt) -> Vec<u8> {
    if v.is_zero() {
        return vec![];
    }
    let neg = v.is_negative();
    let mut m = v.abs();
    let mut out = vec![];
    let b256 = BigInt::from(256);
    while !m.is_zero() {
        out.push((&m % &b256).to_u8().unwrap());
        m = m / &b256;
    }
    if out[out.len() - 1] & 0x80 != 0 {
        out.push(if neg { 0x80 } else { 0x00 });
    } else if neg {
        let l = out.len();
        out[l - 1] |= 0x80;
    }
    out
}

fn truth(b: &[u8]) -> bool {
    for i in 0..b.len() {
        if b[i] != 0 {
            if i == b.len() - 1 && b[i] == 0x80 {
                return false;
            }
            return true;
        }
    }
    false
}

fn boolv(b: bool) -> Vec<u8> {
    if b {
        vec![1]
    } else {
        vec![]
    }
}

fn to_bits(x: &[u8]) -> Vec<bool> {
    let mut bits = vec![];
    for byte in x {
        for k in (0..8).rev() {
            bits.push(byte >> k & 1 == 1);
        }
    }
    bits
}
fn from_bits(bits: &[bool]) -> Vec<u8> {
    bits.chunks(8).map(|c| c.iter().fold(0u8, |a, b| a << 1 | (*b as u8))).collect()
}
fn shl(x: &[u8], n: &BigInt) -> Vec<u8> {
    let bits = to_bits(x);
    let len = bits.len();
    let n = n.to_usize().unwrap_or(usize::MAX).min(len);
    let mut out = bits[n..].to_vec();
    out.resize(len, false);
    from_bits(&out)
}
fn shr(x: &[u8], n: &BigInt) -> Vec<u8> {
    let bits = to_bits(x);
    let len = bits.len();
    let n = n.to_usize().unwrap_or(usize::MAX).min(len);
    let mut out = vec![false; n];
    out.extend_from_slice(&bits[..len - n]);
    from_bits(&out)
}

fn sha256(d: &[u8]) -> Vec<u8> {
    use sha2::Digest;
    sha2::Sha256::digest(d).to_vec()
}
fn sha1(d: &[u8]) -> Vec<u8> {
    use sha1::Digest;
    sha1::Sha1::digest(d).to_vec()
}
fn ripemd(d: &[u8]) -> Vec<u8> {
    use ripemd160::Digest;
    ripemd160::Ripemd160::digest(d).to_vec()
}

const SKIP: &str = "SKIP";

fn need(st: &Stack, n: usize) -> Result<(), String> {
    if st.len() < n {
        Err("stack".into())
    } else {
        Ok(())
    }
}

/// Executes one non-flow-control opcode
fn exec_op(op: u8, st: &mut Stack, alt: &mut Stack) -> Result<(), String> {
    let zero = BigInt::zero();
    match op {
        0x00 => st.push(vec![]),
        0x4f => st.push(vec![0x81]),
        0x51..=0x60 => st.push(vec![op - 0x50]),
        0x61 | 0xb0 | 0xb3..=0xb9 => {}
        0x69 => {
            need(st, 1)?;
            if !truth(&st.pop().unwrap()) {
                return Err("verify".into());
            }
        }
        0x6b => {
            need(st, 1)?;
            alt.push(st.pop().unwrap());
        }
        0x6c => {
            need(alt, 1)?;
            st.push(alt.pop().unwrap());
        }
        0x6d => {
            need(st, 2)?;
            st.pop();
            st.pop();
        }
        0x6e => {
            need(st, 2)?;
            let n = st.len();
            let (a, b) = (st[n - 2].clone(), st[n - 1].clone());
            st.push(a);
            st.push(b);
        }
        0x6f => {
            need(st, 3)?;
            let n = st.len();
            let (a, b, c) = (st[n - 3].clone(), st[n - 2].clone(), st[n - 1].clone());
            st.push(a);
            st.push(b);
            st.push(c);
        }
        0x70 => {
            need(st, 4)?;
            let n = st.len();
            let (a, b) = (st[n - 4].clone(), st[n - 3].clone());
            st.push(a);
            st.push(b);
        }
        0x71 => {
            need(st, 6)?;
            let n = st.len();
            let a = st.remove(n - 6);
            let b = st.remove(n - 6);
            st.push(a);
            st.push(b);
        }
        0x72 => {
            need(st, 4)?;
            let n = st.len();
            st.swap(n - 4, n - 2);
            st.swap(n - 3, n - 1);
        }
        0x73 => {
            need(st, 1)?;
            let t = st.last().unwrap().clone();
            if truth(&t) {
                st.push(t);
            }
        }
        0x74 => {
            let d = st.len();
            st.push(enc(&BigInt::from(d)));
        }
        0x75 => {
            need(st, 1)?;
            st.pop();
        }
        0x76 => {
            need(st, 1)?;
            let t = st.last().unwrap().clone();
            st.push(t);
        }
        0x77 => {
            need(st, 2)?;
            let n = st.len();
            st.remove(n - 2);
        }
        0x78 => {
            need(st, 2)?;
            let t = st[st.len() - 2].clone();
            st.push(t);
        }
        0x79 | 0x7a => {
            need(st, 2)?;
            let n = dec(&st.pop().unwrap());
            if n < zero || n >= BigInt::from(st.len()) {
                return Err("pick/roll range".into());
            }
            let idx = st.len() - 1 - n.to_usize().unwrap();
            let v = if op == 0x79 { st[idx].clone() } else { st.remove(idx) };
            st.push(v);
        }
        0x7b => {
            need(st, 3)?;
            let n = st.len();
            let a = st.remove(n - 3);
            st.push(a);
        }
        0x7c => {
            need(st, 2)?;
            let n = st.len();
            st.swap(n - 1, n - 2);
        }
        0x7d => {
            need(st, 2)?;
            let n = st.len();
            let t = st[n - 1].clone();
            st.insert(n - 2, t);
        }
        0x7e => {
            need(st, 2)?;
            let b = st.pop().unwrap();
            let mut a = st.pop().unwrap();
            a.extend(b);
            st.push(a);
        }
        0x7f => {
            need(st, 2)?;
            let n = dec(&st.pop().unwrap());
            let x = st.pop().unwrap();
            if n < zero || n > BigInt::from(x.len()) {
                return Err("split range".into());
            }
            let n = n.to_usize().unwrap();
            st.push(x[..n].to_vec());
            st.push(x[n..].to_vec());
        }
        0x80 => {
            need(st, 2)?;
            let size = dec(&st.pop().unwrap());
            let x = st.pop().unwrap();
            if size > BigInt::from(100_000) {
                // the library puts no bound on item sizes (accepted finding): such a case is never handed to it
                return Err(SKIP.into());
            }
            if size < zero {
                return Err("num2bin size".into());
            }
            let mut m = enc(&dec(&x));
            let size = size.to_usize().unwrap();
            if m.len() > size {
                return Err("num2bin impossible".into());
            }
            if m.len() < size {
                let mut sign = 0u8;
                if let Some(l) = m.last_mut() {
                    sign = *l & 0x80;
                    *l &= 0x7f;
                }
                while m.len() < size - 1 {
                    m.push(0);
                }
                m.push(sign);
            }
            st.push(m);
        }
        0x81 => {
            need(st, 1)?;
            let x = st.pop().unwrap();
            st.push(enc(&dec(&x)));
        }
        0x82 => {
            need(st, 1)?;
            let l = st.last().unwrap().len();
            st.push(enc(&BigInt::from(l)));
        }
        0x83 => {
            need(st, 1)?;
            let x = st.pop().unwrap();
            st.push(x.iter().map(|b| b ^ 0xff).collect());
        }
        0x84 | 0x85 | 0x86 => {
            need(st, 2)?;
            let b = st.pop().unwrap();
            let a = st.pop().unwrap();
            if a.len() != b.len() {
                return Err("operand size".into());
            }
            let r = (0..a.len())
                .map(|i| match op {
                    0x84 => a[i] & b[i],
                    0x85 => a[i] | b[i],
                    _ => a[i] ^ b[i],
                })
                .collect();
            st.push(r);
        }
        0x87 | 0x88 => {
            need(st, 2)?;
            let b = st.pop().unwrap();
            let a = st.pop().unwrap();
            if op == 0x87 {
                st.push(boolv(a == b));
            } else if a != b {
                return Err("equalverify".into());
            }
        }
        0x8b | 0x8c | 0x8d | 0x8e | 0x8f | 0x90 | 0x91 | 0x92 => {
            need(st, 1)?;
            let a = dec(&st.pop().unwrap());
            let r = match op {
                0x8b => enc(&(a + 1)),
                0x8c => enc(&(a - 1)),
                0x8d => enc(&(a * 2)),
                0x8e => {
                    // truncation toward zero
                    let q: BigInt = a.abs() / BigInt::from(2);
                    enc(&(if a.is_negative() { -q } else { q }))
                }
                0x8f => enc(&(-a)),
                0x90 => enc(&a.abs()),
                0x91 => boolv(a.is_zero()),
                _ => boolv(!a.is_zero()),
            };
            st.push(r);
        }
        0x93..=0x97 | 0x9a..=0xa4 => {
            need(st, 2)?;
            let b = dec(&st.pop().unwrap());
            let a = dec(&st.pop().unwrap());
            let r = match op {
                0x93 => enc(&(a + b)),
                0x94 => enc(&(a - b)),
                0x95 => enc(&(a * b)),
                0x96 | 0x97 => {
                    if b.is_zero() {
                        return Err("div by zero".into());
                    }
                    let q = a.abs() / b.abs();
                    let r = a.abs() - &q * b.abs();
                    if op == 0x96 {
                        enc(&(if a.is_negative() != b.is_negative() { -q } else { q }))
                    } else {
                        enc(&(if a.is_negative() { -r } else { r }))
                    }
                }
                0x9a => boolv(!a.is_zero() && !b.is_zero()),
                0x9b => boolv(!a.is_zero() || !b.is_zero()),
                0x9c => boolv(a == b),
                0x9d => {
                    if a != b {
                        return Err("numequalverify".into());
                    }
                    return Ok(());
                }
                0x9e => boolv(a != b),
                0x9f => boolv(a < b),
                0xa0 => boolv(a > b),
                0xa1 => boolv(a <= b),
                0xa2 => boolv(a >= b),
                0xa3 => enc(if a < b { &a } else { &b }),
                _ => enc(if a > b { &a } else { &b }),
            };
            st.push(r);
        }
        0x98 | 0x99 => {
            need(st, 2)?;
            let n = dec(&st.pop().unwrap());
            let x = st.pop().unwrap();
            if n < zero {
                return Err("shift negative".into());
            }
            st.push(if op == 0x98 { shl(&x, &n) } else { shr(&x, &n) });
        }
        0xab => {}
        0xa5 => {
            need(st, 3)?;
            let max = dec(&st.pop().unwrap());
            let min = dec(&st.pop().unwrap());
            let x = dec(&st.pop().unwrap());
            st.push(boolv(min <= x && x < max));
        }
        0xa6 => {
            need(st, 1)?;
            let x = st.pop().unwrap();
            st.push(ripemd(&x));
        }
        0xa7 => {
            need(st, 1)?;
            let x = st.pop().unwrap();
            st.push(sha1(&x));
        }
        0xa8 => {
            need(st, 1)?;
            let x = st.pop().unwrap();
            st.push(sha256(&x));
        }
        0xa9 => {
            need(st, 1)?;
            let x = st.pop().unwrap();
            st.push(ripemd(&sha256(&x)));
        }
        0xaa => {
            need(st, 1)?;
            let x = st.pop().unwrap();
            st.push(sha256(&sha256(&x)));
        }
        other => return Err(format!("bad opcode {:#x}", other)),
    }
    Ok(())
}

#[derive(Debug, Clone)]
struct Run {
    err: Option<String>,
    steps: Vec<(Stack, Stack)>,
    stack: Stack,
    alt: Stack,
}

fn ref_run(toks: &[Tok]) -> Run {
    let mut st: Stack = vec![];
    let mut alt: Stack = vec![];
    let mut vf_exec: Vec<bool> = vec![];
    let mut vf_else: Vec<bool> = vec![];
    let mut returned = false;
    let mut steps = vec![];
    let fail = |e: String, steps: Vec<(Stack, Stack)>, st: Stack, alt: Stack| Run { err: Some(e), steps, stack: st, alt };
    for t in toks {
        let f_exec = vf_exec.iter().all(|b| *b) && !returned;
        match t {
            Tok::Push(d, _) => {
                if f_exec {
                    st.push(d.clone());
                    steps.push((st.clone(), alt.clone()));
                }
            }
            Tok::Op(op) => match *op {
                0x63 | 0x64 => {
                    let mut value = false;
                    if f_exec {
                        if st.is_empty() {
                            return fail("if: empty".into(), steps, st, alt);
                        }
                        value = truth(&st.pop().unwrap());
                        if *op == 0x64 {
                            value = !value;
                        }
                        steps.push((st.clone(), alt.clone()));
                    }
                    vf_exec.push(value);
                    vf_else.push(false);
                }
                0x67 => {
                    if vf_exec.is_empty() || *vf_else.last().unwrap() {
                        return fail("else: unbalanced".into(), steps, st, alt);
                    }
                    let l = vf_exec.len();
                    vf_exec[l - 1] = !vf_exec[l - 1];
                    vf_else[l - 1] = true;
                }
                0x68 => {
                    if vf_exec.is_empty() {
                        return fail("endif: unbalanced".into(), steps, st, alt);
                    }
                    vf_exec.pop();
                    vf_else.pop();
                }
                0x6a => {
                    if f_exec {
                        steps.push((st.clone(), alt.clone()));
                        if vf_exec.is_empty() {
                            return Run { err: None, steps, stack: st, alt };
                        }
                        returned = true;
                    }
                }
                o => {
                    if f_exec {
                        if let Err(e) = exec_op(o, &mut st, &mut alt) {
                            return fail(e, steps, st, alt);
                        }
                        steps.push((st.clone(), alt.clone()));
                    }
                }
            },
        }
    }
    if !vf_exec.is_empty() {
        return fail("unbalanced at end".into(), steps, st, alt);
    }
    Run { err: None, steps, stack: st, alt }
}

// ------------------------------------------------------------------------------------------------------------------
// Library side
// ------------------------------------------------------------------------------------------------------------------

fn lib_iter(mut it: Interpreter) -> Run {
    let res = catch_unwind(AssertUnwindSafe(move || {
        let mut steps = vec![];
        let mut err = None;
        let mut guard = 0;
        loop {
            guard += 1;
            if guard > 100_000 {
                err = Some("LOOP".to_string());
                break;
            }
            match it.next() {
                None => break,
                Some(Ok(s)) => steps.push((s.stack.clone(), s.alt_stack.clone())),
                Some(Err(e)) => {
                    err = Some(format!("{}", e));
                    break;
                }
            }
        }
        let s = it.state();
        Run { err, steps, stack: s.stack.clone(), alt: s.alt_stack.clone() }
    }));
    match res {
        Ok(r) => r,
        Err(_) => Run { err: Some("PANIC".into()), steps: vec![], stack: vec![], alt: vec![] },
    }
}

fn lib_run(script: &Script) -> Run {
    lib_iter(Interpreter::from_script(script))
}

fn flat_bits(toks: &[Tok]) -> Vec<ScriptBit> {
    toks.iter()
        .map(|t| match t {
            Tok::Op(b) => ScriptBit::OpCode(OpCodes::from_u8(*b).unwrap()),
            Tok::Push(d, 0) => ScriptBit::Push(d.clone()),
            Tok::Push(d, 1) => ScriptBit::PushData(OpCodes::OP_PUSHDATA1, d.clone()),
            Tok::Push(d, 2) => ScriptBit::PushData(OpCodes::OP_PUSHDATA2, d.clone()),
            Tok::Push(d, _) => ScriptBit::PushData(OpCodes::OP_PUSHDATA4, d.clone()),
        })
        .collect()
}

fn hexs(s: &Stack) -> Vec<String> {
    s.iter().map(hex::encode).collect()
}

/// Compares a library run with the reference; returns a description of the difference
fn diff(r: &Run, l: &Run) -> Option<String> {
    if r.err.as_deref() == Some(SKIP) {
        return None;
    }
    if l.err.as_deref() == Some("PANIC") || l.err.as_deref() == Some("LOOP") {
        return Some(format!("library {:?}", l.err));
    }
    match (&r.err, &l.err) {
        (None, None) => {
            if r.stack != l.stack || r.alt != l.alt {
                return Some(format!("final state: expected {:?} / {:?}, library {:?} / {:?}", hexs(&r.stack), hexs(&r.alt), hexs(&l.stack), hexs(&l.alt)));
            }
            if r.steps != l.steps {
                return Some(format!("steps differ: expected {} steps, library {}", r.steps.len(), l.steps.len()));
            }
            None
        }
        (Some(_), Some(_)) => {
            // the Ok steps agree on their common prefix
            let n = r.steps.len().min(l.steps.len());
            if r.steps[..n] != l.steps[..n] {
                return Some("both fail, but the steps before differ".into());
            }
            None
        }
        (None, Some(e)) => Some(format!("expected success with {:?} / {:?}, library fails: {}", hexs(&r.stack), hexs(&r.alt), e)),
        (Some(e), None) => Some(format!("expected failure ({}), library succeeds with {:?} / {:?}", e, hexs(&l.stack), hexs(&l.alt))),
    }
}

/// Runs the tokens through the given construction route. Err = the route cannot build the script.
fn route(toks: &[Tok], which: usize) -> Result<Run, String> {
    match which {
        0 => Script::from_bytes(&ser(toks)).map(|s| lib_run(&s)).map_err(|e| e.to_string()),
        1 => Ok(lib_run(&Script::from_script_bits(flat_bits(toks)))),
        2 => {
            let mut s = Script::default();
            for b in flat_bits(toks) {
                s.push(b);
            }
            Ok(lib_run(&s))
        }
        3 => {
            // JSON round trip of the flat script
            let s = Script::from_script_bits(flat_bits(toks));
            let j = serde_json::to_string(&s).map_err(|e| e.to_string())?;
            let s2: Script = serde_json::from_str(&j).map_err(|e| e.to_string())?;
            Ok(lib_run(&s2))
        }
        4 => {
            // parsed, then through ASM
            let s = Script::from_bytes(&ser(toks)).map_err(|e| e.to_string())?;
            let s2 = Script::from_asm_string(&s.to_asm_string()).map_err(|e| e.to_string())?;
            Ok(lib_run(&s2))
        }
        5 => {
            // as the locking script of a transaction input with an empty unlocking script
            let s = Script::from_bytes(&ser(toks)).map_err(|e| e.to_string())?;
            let mut txin = TxIn::new(&[7u8; 32], 0, &Script::default(), None);
            txin.set_locking_script(&s);
            txin.set_satoshis(1000);
            let mut tx = Transaction::new(1, 0);
            tx.add_input(&txin);
            Ok(lib_iter(Interpreter::from_transaction(&tx, 0).map_err(|e| e.to_string())?))
        }
        6 => {
            // the leading pushes (the initial stack) as the unlocking script, the rest as the locking script
            let n = toks.iter().take_while(|t| matches!(t, Tok::Push(..)) || matches!(t, Tok::Op(0x00 | 0x4f | 0x51..=0x60))).count();
            let unlocking = Script::from_bytes(&ser(&toks[..n])).map_err(|e| e.to_string())?;
            let locking = Script::from_bytes(&ser(&toks[n..])).map_err(|e| e.to_string())?;
            let mut txin = TxIn::new(&[7u8; 32], 0, &unlocking, None);
            txin.set_locking_script(&locking);
            txin.set_satoshis(1000);
            let mut tx = Transaction::new(1, 0);
            tx.add_input(&txin);
            Ok(lib_iter(Interpreter::from_transaction(&tx, 0).map_err(|e| e.to_string())?))
        }
        7 => {
            // element by element through from_transaction_and_script_bits with a transaction that has no inputs
            Ok(lib_iter(Interpreter::from_transaction_and_script_bits(Transaction::new(1, 0), 0, flat_bits(toks))))
        }
        _ => unreachable!(),
    }
}

const ROUTES: usize = 8;

struct Rng(u64);
impl Rng {
    fn next(&mut self) -> u64 {
        self.0 ^= self.0 << 13;
        self.0 ^= self.0 >> 7;
        self.0 ^= self.0 << 17;
        self.0
    }
    fn below(&mut self, n: usize) -> usize {
        (self.next() % n as u64) as usize
    }
    fn pick<'a, T>(&mut self, v: &'a [T]) -> &'a T {
        &v[self.below(v.len())]
    }
}

fn alphabet() -> Vec<Vec<u8>> {
    [
        "", "00", "80", "01", "81", "02", "03", "05", "7f", "ff", "8000", "8080", "ff7f", "ffff", "0100", "0180", "0000", "0080", "ffffff7f", "ffffffff", "0000008000", "ffffffff7f", "ffffffffff", "000000000000000080",
        "0100000000000000", "abababababababababababababababababababab", "0102030405060708090a0b0c0d0e0f101112131415161718191a1b1c1d1e1f2021", "10", "08", "09", "fe",
    ]
    .iter()
    .map(|h| hex::decode(h).unwrap())
    .collect()
}

const SIMPLE_OPS: &[u8] = &[
    0x00, 0x4f, 0x51, 0x52, 0x53, 0x54, 0x55, 0x56, 0x57, 0x58, 0x59, 0x5a, 0x5b, 0x5c, 0x5d, 0x5e, 0x5f, 0x60, 0x61, 0x69, 0x6b, 0x6c, 0x6d, 0x6e, 0x6f, 0x70, 0x71, 0x72, 0x73, 0x74, 0x75, 0x76, 0x77, 0x78, 0x79, 0x7a, 0x7b, 0x7c,
    0x7d, 0x7e, 0x7f, 0x80, 0x81, 0x82, 0x83, 0x84, 0x85, 0x86, 0x87, 0x88, 0x8b, 0x8c, 0x8d, 0x8e, 0x8f, 0x90, 0x91, 0x92, 0x93, 0x94, 0x95, 0x96, 0x97, 0x98, 0x99, 0x9a, 0x9b, 0x9c, 0x9d, 0x9e, 0x9f, 0xa0, 0xa1, 0xa2, 0xa3, 0xa4,
    0xa5, 0xa6, 0xa7, 0xa8, 0xa9, 0xaa, 0xab, 0xb0, 0xb3, 0xb4, 0xb5, 0xb6, 0xb7, 0xb8, 0xb9,
];

fn arity(op: u8) -> usize {
    match op {
        0x00 | 0x4f | 0x51..=0x61 | 0x74 | 0xab | 0xb0..=0xb9 | 0x6c => 0,
        0x69 | 0x6b | 0x73 | 0x75 | 0x76 | 0x81 | 0x82 | 0x83 | 0x8b..=0x92 | 0xa6..=0xaa => 1,
        0x6f | 0x7b | 0xa5 => 3,
        0x70 | 0x72 => 4,
        0x71 => 6,
        _ => 2,
    }
}

fn show(toks: &[Tok]) -> String {
    format!("{} ({:?})", hex::encode(ser(toks)), Script::from_script_bits(flat_bits(toks)).to_asm_string())
}

// ------------------------------------------------------------------------------------------------------------------
// E1: bounded-exhaustive: every opcode on every stack of up to arity+1 items from the alphabet
// ------------------------------------------------------------------------------------------------------------------
#[test]
fn e01_exhaustive_opcodes_over_alphabet() {
    let full = alphabet();
    let mut failures = vec![];
    let mut cases = 0usize;
    for &op in SIMPLE_OPS {
        let ar = arity(op);
        let alpha: Vec<Vec<u8>> = match ar {
            0..=2 => full.clone(),
            3 => full.iter().take(20).cloned().collect(),
            4 => full.iter().take(8).cloned().collect(),
            _ => full.iter().take(3).cloned().collect(),
        };
        for depth in 0..=ar + 1 {
            let mut idx = vec![0usize; depth];
            'outer: loop {
                let mut toks: Vec<Tok> = idx.iter().map(|i| push_tok(&alpha[*i])).collect();
                toks.push(Tok::Op(op));
                let r = ref_run(&toks);
                if r.err.as_deref() != Some(SKIP) {
                    let l = route(&toks, 0).unwrap();
                    cases += 1;
                    if let Some(d) = diff(&r, &l) {
                        if failures.len() < 30 {
                            failures.push(format!("{}: {}", show(&toks), d));
                        }
                    }
                }
                // FROMALTSTACK: also with an alt stack
                let mut k = 0;
                loop {
                    if k == depth {
                        break 'outer;
                    }
                    idx[k] += 1;
                    if idx[k] < alpha.len() {
                        break;
                    }
                    idx[k] = 0;
                    k += 1;
                }
            }
        }
    }
    println!("e01: {} cases", cases);
    assert!(failures.is_empty(), "{:#?}", failures);
}

// ------------------------------------------------------------------------------------------------------------------
// E2: random longer programs with nested conditionals, OP_RETURN, stray OP_ELSE / OP_ENDIF, through every route
// ------------------------------------------------------------------------------------------------------------------
fn random_program(rng: &mut Rng, alpha: &[Vec<u8>], len: usize, guided: bool) -> Vec<Tok> {
    let mut toks: Vec<Tok> = vec![];
    let mut open = 0usize;
    while toks.len() < len {
        let mut chosen = None;
        for _attempt in 0..6 {
            let roll = rng.below(100);
            let t = if roll < 30 {
                let d = rng.pick(alpha).clone();
                if !d.is_empty() && d.len() <= 75 && rng.below(12) == 0 {
                    Tok::Push(d, [1u8, 2, 4][rng.below(3)])
                } else {
                    push_tok(&d)
                }
            } else if roll < 40 {
                Tok::Op([0x63u8, 0x64][rng.below(2)])
            } else if roll < 46 {
                Tok::Op(0x67)
            } else if roll < 54 {
                Tok::Op(0x68)
            } else if roll < 57 {
                Tok::Op(0x6a)
            } else {
                Tok::Op(*rng.pick(SIMPLE_OPS))
            };
            if !guided {
                chosen = Some(t);
                break;
            }
            // keep a token that does not make the reference fail (mostly)
            let mut cand = toks.clone();
            cand.push(t.clone());
            // close open conditionals for the trial
            let r = ref_run(&cand);
            let ok = match &r.err {
                None => true,
                Some(e) => e == "unbalanced at end",
            };
            if ok || rng.below(10) == 0 {
                chosen = Some(t);
                break;
            }
            chosen = Some(t);
        }
        let t = chosen.unwrap();
        match t {
            Tok::Op(0x63) | Tok::Op(0x64) => open += 1,
            Tok::Op(0x68) => open = open.saturating_sub(1),
            _ => {}
        }
        toks.push(t);
    }
    // mostly close what is open
    if rng.below(8) != 0 {
        for _ in 0..open {
            toks.push(Tok::Op(0x68));
        }
    }
    toks
}

#[test]
fn e02_random_programs_all_routes() {
    let alpha = alphabet();
    let mut rng = Rng(0x9e3779b97f4a7c15);
    let mut failures: Vec<String> = vec![];
    let mut parse_rejects_of_valid = vec![];
    let (mut n_ok, mut n_fail) = (0, 0);
    let mut n_unparseable_valid = 0;
    for i in 0..150_000 {
        let len = 2 + rng.below(22);
        let toks = random_program(&mut rng, &alpha, len, i % 4 != 0);
        let r = ref_run(&toks);
        if r.err.as_deref() == Some(SKIP) {
            continue;
        }
        if r.err.is_none() {
            n_ok += 1
        } else {
            n_fail += 1
        }
        // Known and set aside: (a) ASM text reads the tokens 10..16 as OP_10..OP_16 (accepted finding), so the ASM route is
        // skipped for scripts pushing such a byte; (b) scripts that end at a top-level OP_RETURN and have an unclosed OP_IF
        // behind it cannot be parsed at all and are covered by violation_* tests below.
        let asm_alias = toks.iter().any(|t| matches!(t, Tok::Push(d, _) if d.len() == 1 && (0x10..=0x16).contains(&d[0])));
        let unparseable = Script::from_bytes(&ser(&toks)).is_err();
        if unparseable && r.err.is_none() {
            n_unparseable_valid += 1;
            continue;
        }
        for which in 0..ROUTES {
            if which == 4 && asm_alias {
                continue;
            }
            match route(&toks, which) {
                Ok(l) => {
                    if let Some(d) = diff(&r, &l) {
                        if failures.len() < 40 {
                            failures.push(format!("route {} {}: {}", which, show(&toks), d));
                        }
                    }
                }
                Err(e) => {
                    if r.err.is_none() && parse_rejects_of_valid.len() < 10 {
                        parse_rejects_of_valid.push(format!("route {} {}: {}", which, show(&toks), e));
                    }
                }
            }
        }
    }
    println!("e02: reference ok {} / fail {}; valid but unparseable {}", n_ok, n_fail, n_unparseable_valid);
    println!("e02: scripts valid per reference that a route refuses to build: {:#?}", parse_rejects_of_valid);
    assert!(failures.is_empty(), "{:#?}", failures);
}

// ------------------------------------------------------------------------------------------------------------------
// E3: bounded-exhaustive control flow: every sequence of up to 7 tokens over a small control-flow alphabet
// ------------------------------------------------------------------------------------------------------------------
#[test]
fn e03_exhaustive_control_flow() {
    let alpha: Vec<Tok> = vec![Tok::Op(0x00), Tok::Op(0x51), Tok::Op(0x63), Tok::Op(0x64), Tok::Op(0x67), Tok::Op(0x68), Tok::Op(0x6a), Tok::Op(0x69), Tok::Op(0x52)];
    let mut failures = vec![];
    let mut unparseable_valid = 0usize;
    let mut first_unparseable = None;
    let mut cases = 0usize;
    for len in 0..=7usize {
        let mut idx = vec![0usize; len];
        'outer: loop {
            let toks: Vec<Tok> = idx.iter().map(|i| alpha[*i].clone()).collect();
            let r = ref_run(&toks);
            cases += 1;
            let unparseable = Script::from_bytes(&ser(&toks)).is_err();
            if unparseable && r.err.is_none() {
                unparseable_valid += 1;
                if first_unparseable.is_none() {
                    first_unparseable = Some(show(&toks));
                }
            } else {
                for which in [0usize, 1, 5] {
                    if let Ok(l) = route(&toks, which) {
                        if let Some(d) = diff(&r, &l) {
                            if failures.len() < 40 {
                                failures.push(format!("route {} {}: {}", which, show(&toks), d));
                            }
                        }
                    }
                }
            }
            let mut k = 0;
            loop {
                if k == len {
                    break 'outer;
                }
                idx[k] += 1;
                if idx[k] < alpha.len() {
                    break;
                }
                idx[k] = 0;
                k += 1;
            }
        }
    }
    println!("e03: {} sequences; valid per reference but unparseable: {} (first: {:?})", cases, unparseable_valid, first_unparseable);
    assert!(failures.is_empty(), "{:#?}", failures);
}

// ------------------------------------------------------------------------------------------------------------------
// Helpers for hand-written cases
// ------------------------------------------------------------------------------------------------------------------
fn op(name: &str) -> ScriptBit {
    use std::str::FromStr;
    ScriptBit::OpCode(OpCodes::from_str(name).unwrap())
}
fn h(s: &str) -> Vec<u8> {
    hex::decode(s).unwrap()
}
fn stack_of(items: &[&str]) -> Stack {
    items.iter().map(|s| h(s)).collect()
}
/// Reference result for the script given as bytes (flat tokens are recovered with a tiny tokenizer written here)
fn tokenize(bytes: &[u8]) -> Vec<Tok> {
    let mut toks = vec![];
    let mut i = 0;
    while i < bytes.len() {
        let b = bytes[i];
        i += 1;
        match b {
            1..=75 => {
                toks.push(Tok::Push(bytes[i..i + b as usize].to_vec(), 0));
                i += b as usize;
            }
            0x4c => {
                let n = bytes[i] as usize;
                toks.push(Tok::Push(bytes[i + 1..i + 1 + n].to_vec(), 1));
                i += 1 + n;
            }
            0x4d => {
                let n = u16::from_le_bytes([bytes[i], bytes[i + 1]]) as usize;
                toks.push(Tok::Push(bytes[i + 2..i + 2 + n].to_vec(), 2));
                i += 2 + n;
            }
            0x4e => {
                let n = u32::from_le_bytes([bytes[i], bytes[i + 1], bytes[i + 2], bytes[i + 3]]) as usize;
                toks.push(Tok::Push(bytes[i + 4..i + 4 + n].to_vec(), 4));
                i += 4 + n;
            }
            o => toks.push(Tok::Op(o)),
        }
    }
    toks
}

fn check_hex(script_hex: &str) -> Option<String> {
    let toks = tokenize(&h(script_hex));
    let r = ref_run(&toks);
    let l = route(&toks, 0).unwrap();
    diff(&r, &l).map(|d| format!("{}: {}", show(&toks), d))
}

// ------------------------------------------------------------------------------------------------------------------
// E4: hand-computed vectors (oracle: arithmetic done by hand from the specification)
// ------------------------------------------------------------------------------------------------------------------
#[test]
fn e04_hand_vectors() {
    // (asm, expected main stack)
    let cases: Vec<(&str, Vec<&str>)> = vec![
        // carries and sign byte
        ("7f OP_1ADD", vec!["8000"]),
        ("ff00 OP_1ADD", vec!["0001"]),
        ("ff OP_1SUB", vec!["8080"]),
        ("8080 OP_1ADD", vec!["ff"]),
        ("81 OP_1ADD", vec![""]),
        ("ffffffff7f OP_1ADD", vec!["000000008000"]),
        // 2^64 * 2^64 = 2^128: 16 zero bytes then 01
        ("000000000000000001 000000000000000001 OP_MUL", vec!["0000000000000000000000000000000001"]),
        // -(2^63)
        ("000000000000008000 OP_NEGATE", vec!["000000000000008080"]),
        // truncation toward zero, remainder takes the sign of the dividend
        ("87 OP_2 OP_DIV", vec!["83"]),
        ("87 OP_2 OP_MOD", vec!["81"]),
        ("OP_7 82 OP_DIV", vec!["83"]),
        ("OP_7 82 OP_MOD", vec!["01"]),
        ("87 82 OP_DIV", vec!["03"]),
        ("87 82 OP_MOD", vec!["81"]),
        ("87 OP_2DIV", vec!["83"]),
        ("81 OP_2DIV", vec![""]),
        // 2^40 / 3 = 366503875925 = 0x5555555555
        ("000000000001 OP_3 OP_DIV", vec!["5555555555"]),
        ("000000000001 OP_3 OP_MOD", vec!["01"]),
        // OP_WITHIN: lower bound inclusive, upper exclusive
        ("OP_2 OP_2 OP_5 OP_WITHIN", vec!["01"]),
        ("OP_5 OP_2 OP_5 OP_WITHIN", vec![""]),
        // shifts are bitwise on the byte string, big-endian bit order, length kept
        ("0180 OP_1 OP_LSHIFT", vec!["0300"]),
        ("0180 OP_1 OP_RSHIFT", vec!["00c0"]),
        ("ffff OP_9 OP_RSHIFT", vec!["007f"]),
        ("ffff OP_16 OP_LSHIFT", vec!["0000"]),
        ("ffff 0000000000000000000001 OP_LSHIFT", vec!["0000"]),
        ("OP_0 OP_5 OP_LSHIFT", vec![""]),
        // num2bin / bin2num
        ("81 OP_4 OP_NUM2BIN", vec!["01000080"]),
        ("0000000080 OP_1 OP_NUM2BIN", vec!["00"]),
        ("0000000080 OP_0 OP_NUM2BIN", vec![""]),
        ("0100000080 OP_BIN2NUM", vec!["81"]),
        ("ff000080 OP_BIN2NUM", vec!["ff80"]),
        ("ff0000 OP_BIN2NUM", vec!["ff00"]),
        // split / cat / size
        ("aabbcc OP_0 OP_SPLIT", vec!["", "aabbcc"]),
        ("aabbcc OP_3 OP_SPLIT", vec!["aabbcc", ""]),
        ("aabbcc 0100 OP_SPLIT", vec!["aa", "bbcc"]),
        ("OP_0 OP_0 OP_SPLIT", vec!["", ""]),
        ("OP_0 OP_0 OP_CAT", vec![""]),
        ("OP_0 OP_SIZE", vec!["", ""]),
        // truthiness
        ("0000 OP_NOT", vec!["01"]),
        ("0080 OP_NOT", vec!["01"]),
        ("8000 OP_NOT", vec![""]),
        ("000080 OP_IFDUP", vec!["000080"]),
        ("000100 OP_IFDUP", vec!["000100", "000100"]),
        ("0080 OP_IF OP_2 OP_ELSE OP_3 OP_ENDIF", vec!["03"]),
        ("8000 OP_NOTIF OP_2 OP_ELSE OP_3 OP_ENDIF", vec!["03"]),
        // stack juggling
        ("OP_1 OP_2 OP_3 OP_4 OP_5 OP_6 OP_2ROT", vec!["03", "04", "05", "06", "01", "02"]),
        ("OP_1 OP_2 OP_3 OP_4 OP_2OVER", vec!["01", "02", "03", "04", "01", "02"]),
        ("OP_1 OP_2 OP_3 OP_4 OP_2SWAP", vec!["03", "04", "01", "02"]),
        ("OP_1 OP_2 OP_TUCK", vec!["02", "01", "02"]),
        ("OP_1 OP_2 OP_3 OP_ROT", vec!["02", "03", "01"]),
        ("OP_1 OP_2 OP_3 OP_2 OP_ROLL", vec!["02", "03", "01"]),
        ("OP_1 OP_2 OP_3 OP_2 OP_PICK", vec!["01", "02", "03", "01"]),
        ("OP_1 OP_2 OP_3 80 OP_PICK", vec!["01", "02", "03", "03"]),
        // hashes of the empty string and of "abc" (published test vectors)
        ("OP_0 OP_SHA256", vec!["e3b0c44298fc1c149afbf4c8996fb92427ae41e4649b934ca495991b7852b855"]),
        ("616263 OP_SHA256", vec!["ba7816bf8f01cfea414140de5dae2223b00361a396177a9cb410ff61f20015ad"]),
        ("OP_0 OP_SHA1", vec!["da39a3ee5e6b4b0d3255bfef95601890afd80709"]),
        ("616263 OP_SHA1", vec!["a9993e364706816aba3e25717850c26c9cd0d89d"]),
        ("OP_0 OP_RIPEMD160", vec!["9c1185a5c5e9fc54612808977ee8f548b2258d31"]),
        ("616263 OP_RIPEMD160", vec!["8eb208f7e05d987a9b044a8e98c6b087f15a0bfc"]),
        ("OP_0 OP_HASH256", vec!["5df6e0e2761359d30a8275058e299fcc0381534545f55cf43e41983f5d4c9456"]),
        ("OP_0 OP_HASH160", vec!["b472a266d0bd89c13706a4132ccfb16f7c3b9fcb"]),
    ];
    let mut failures = vec![];
    for (asm, expected) in &cases {
        let script = Script::from_asm_string(asm).unwrap();
        let l = lib_run(&script);
        if l.err.is_some() || l.stack != stack_of(expected) {
            failures.push(format!("{}: expected {:?}, library {:?} err {:?}", asm, expected, hexs(&l.stack), l.err));
        }
        // the reference agrees with the hand computation, too
        let r = ref_run(&tokenize(&script.to_bytes()));
        assert!(r.err.is_none() && r.stack == stack_of(expected), "reference disagrees on {}: {:?}", asm, hexs(&r.stack));
    }
    // failures prescribed by the specification
    for asm in [
        "OP_1 OP_0 OP_DIV", "OP_1 80 OP_MOD", "OP_1 0000 OP_DIV", "aabb OP_3 OP_SPLIT", "aabb 81 OP_SPLIT", "aa aabb OP_AND", "OP_1 81 OP_LSHIFT", "OP_1 81 OP_RSHIFT", "OP_1 OP_1 OP_PICK", "OP_1 81 OP_PICK", "OP_1 81 OP_ROLL",
        "8000 OP_1 OP_NUM2BIN", "OP_1 81 OP_NUM2BIN", "OP_0 OP_VERIFY", "80 OP_VERIFY", "OP_1 OP_2 OP_EQUALVERIFY", "OP_1 0100 OP_EQUALVERIFY", "OP_1 OP_2 OP_NUMEQUALVERIFY", "OP_FROMALTSTACK", "OP_IF OP_ENDIF", "OP_1 OP_2DUP", "OP_1 OP_2 OP_3DUP",
        "OP_1 OP_2 OP_3 OP_2OVER", "OP_1 OP_2 OP_3 OP_4 OP_5 OP_2ROT", "OP_1 OP_2 OP_3 OP_2SWAP", "OP_1 OP_NIP", "OP_1 OP_TUCK", "OP_1 OP_OVER", "OP_1 OP_2 OP_ROT", "OP_1 OP_SWAP", "OP_1 OP_2 OP_WITHIN",
    ] {
        let script = Script::from_asm_string(asm).unwrap();
        let l = lib_run(&script);
        if l.err.is_none() {
            failures.push(format!("{}: expected failure, library succeeds with {:?}", asm, hexs(&l.stack)));
        }
        assert!(ref_run(&tokenize(&script.to_bytes())).err.is_some(), "reference disagrees on {}", asm);
    }
    assert!(failures.is_empty(), "{:#?}", failures);
}

// ------------------------------------------------------------------------------------------------------------------
// E5: sweeps over lengths, counts and indices: shifts, NUM2BIN, SPLIT, PICK / ROLL on deep stacks, SIZE / DEPTH
// ------------------------------------------------------------------------------------------------------------------
#[test]
fn e05_boundary_sweeps() {
    let mut failures = vec![];
    let mut check = |toks: Vec<Tok>| {
        let r = ref_run(&toks);
        let l = route(&toks, 0).unwrap();
        if let Some(d) = diff(&r, &l) {
            if failures.len() < 20 {
                failures.push(format!("{}: {}", show(&toks), d));
            }
        }
    };
    // shifts of 0..=5-byte strings by every count up to length*8+9, counts encoded minimally and non-minimally
    let mut rng = Rng(12345);
    for len in 0..=5usize {
        for _ in 0..6 {
            let x: Vec<u8> = (0..len).map(|_| rng.next() as u8).collect();
            for n in 0..=(len * 8 + 9) {
                for shift_op in [0x98u8, 0x99] {
                    let mut count = enc(&BigInt::from(n));
                    check(vec![push_tok(&x), push_tok(&count), Tok::Op(shift_op)]);
                    if !count.is_empty() {
                        let l = count.len();
                        // non-minimal: move the sign bit into a padding of three further bytes
                        count[l - 1] &= 0x7f;
                        count.extend([0, 0, 0]);
                        check(vec![push_tok(&x), push_tok(&count), Tok::Op(shift_op)]);
                    }
                }
            }
        }
    }
    // NUM2BIN: every value of the alphabet to every size 0..=12; SPLIT at every position -1..=len+1
    for v in alphabet() {
        for size in 0..=12i64 {
            check(vec![push_tok(&v), push_tok(&enc(&BigInt::from(size))), Tok::Op(0x80)]);
        }
        for pos in -1..=(v.len() as i64 + 1) {
            check(vec![push_tok(&v), push_tok(&enc(&BigInt::from(pos))), Tok::Op(0x7f)]);
        }
    }
    // sizes around the one / two byte script number boundaries
    for len in [0usize, 1, 75, 76, 127, 128, 129, 255, 256, 257, 32767, 32768, 65535, 65536, 70000] {
        let blob: Vec<u8> = (0..len).map(|i| (i % 251) as u8 + 1).collect();
        let kind = if len == 0 {
            None
        } else if len <= 75 {
            Some(0)
        } else if len <= 255 {
            Some(1)
        } else if len <= 65535 {
            Some(2)
        } else {
            Some(4)
        };
        let push = match kind {
            None => Tok::Op(0),
            Some(k) => Tok::Push(blob.clone(), k),
        };
        check(vec![push.clone(), Tok::Op(0x82)]);
        check(vec![push.clone(), Tok::Op(0x76), Tok::Op(0x7e), Tok::Op(0x82), Tok::Op(0x77)]);
        check(vec![push.clone(), Tok::Op(0x83), Tok::Op(0xa8)]);
        // the same data through every push encoding that can carry it
        for k in [1u8, 2, 4] {
            if len > 0 && (k != 1 || len <= 255) && (k != 2 || len <= 65535) {
                check(vec![Tok::Push(blob.clone(), k), Tok::Op(0x82)]);
            }
        }
    }
    // pushes of no data through OP_PUSHDATA1/2/4
    for k in [1u8, 2, 4] {
        check(vec![Tok::Push(vec![], k), Tok::Op(0x82)]);
        check(vec![Tok::Push(vec![], k), Tok::Op(0x63), Tok::Op(0x52), Tok::Op(0x67), Tok::Op(0x53), Tok::Op(0x68)]);
    }
    // deep stacks: DEPTH, PICK and ROLL with one and two byte indices, at and beyond the end
    for depth in [0usize, 1, 127, 128, 129, 255, 256, 300] {
        let base: Vec<Tok> = (0..depth).map(|i| push_tok(&enc(&BigInt::from(i + 1000)))).collect();
        let mut t = base.clone();
        t.push(Tok::Op(0x74));
        check(t);
        for idx in [0i64, 1, 126, 127, 128, 129, 254, 255, 256, 299, 300, 301, -1] {
            for o in [0x79u8, 0x7a] {
                let mut t = base.clone();
                t.push(push_tok(&enc(&BigInt::from(idx))));
                t.push(Tok::Op(o));
                check(t);
            }
        }
    }
    // alt stack round trips and order
    check(tokenize(&h("5152536b6b6b6c6c6c")));
    check(tokenize(&h("51526b6b6c")));
    check(tokenize(&h("516b6c6c")));
    assert!(failures.is_empty(), "{:#?}", failures);
}

// ------------------------------------------------------------------------------------------------------------------
// E6: deep and wide conditional structures
// ------------------------------------------------------------------------------------------------------------------
#[test]
fn e06_deep_and_wide_conditionals() {
    let mut failures = vec![];
    let mut check = |toks: Vec<Tok>, what: &str| {
        let r = ref_run(&toks);
        for which in [0usize, 1] {
            match route(&toks, which) {
                Ok(l) => {
                    if let Some(d) = diff(&r, &l) {
                        failures.push(format!("{} route {}: {}", what, which, d));
                    }
                }
                Err(e) => failures.push(format!("{} route {}: refused: {}", what, which, e)),
            }
        }
    };
    for depth in [1usize, 2, 3, 50, 500] {
        // depth nested true conditionals around: OP_7 / OP_RETURN / nothing
        for inner in [vec![Tok::Op(0x57)], vec![Tok::Op(0x57), Tok::Op(0x6a), Tok::Op(0x58)], vec![]] {
            let mut t = vec![];
            for _ in 0..depth {
                t.push(Tok::Op(0x51));
                t.push(Tok::Op(0x63));
            }
            t.extend(inner.clone());
            for i in 0..depth {
                if i % 2 == 0 {
                    t.push(Tok::Op(0x67));
                    t.push(Tok::Op(0x59));
                }
                t.push(Tok::Op(0x68));
            }
            check(t.clone(), &format!("nested {} inner {:?}", depth, inner));
            // the same with a stray OP_ENDIF behind it
            t.push(Tok::Op(0x68));
            check(t, &format!("nested {} + stray endif, inner {:?}", depth, inner));
        }
        // alternating false / true: the branch taken alternates between else and pass
        let mut t = vec![];
        for i in 0..depth {
            t.push(Tok::Op(if i % 2 == 0 { 0x00 } else { 0x51 }));
            t.push(Tok::Op(0x63));
            if i % 2 == 0 {
                t.push(Tok::Op(0x55));
                t.push(Tok::Op(0x67));
            }
        }
        t.push(Tok::Op(0x5a));
        for i in (0..depth).rev() {
            if i % 2 == 1 {
                t.push(Tok::Op(0x67));
                t.push(Tok::Op(0x56));
            }
            t.push(Tok::Op(0x68));
        }
        check(t, &format!("alternating {}", depth));
    }
    // many conditionals one after the other, an OP_RETURN inside the last one
    for tail in [vec![], vec![Tok::Op(0x68)], vec![Tok::Op(0x51), Tok::Op(0x63), Tok::Op(0x67), Tok::Op(0x67), Tok::Op(0x68)], vec![Tok::Op(0x00), Tok::Op(0x63), Tok::Op(0x63), Tok::Op(0x67), Tok::Op(0x68), Tok::Op(0x68)]] {
        let mut t = vec![];
        for i in 0..600 {
            t.push(Tok::Op(if i % 3 == 0 { 0x00 } else { 0x51 }));
            t.push(Tok::Op(if i % 2 == 0 { 0x63 } else { 0x64 }));
            t.push(Tok::Op(0x52));
            t.push(Tok::Op(0x67));
            t.push(Tok::Op(0x53));
            t.push(Tok::Op(0x68));
            t.push(Tok::Op(0x75));
        }
        t.extend([Tok::Op(0x51), Tok::Op(0x63), Tok::Op(0x54), Tok::Op(0x6a), Tok::Op(0x55), Tok::Op(0x68), Tok::Op(0x56)]);
        t.extend(tail.clone());
        check(t, &format!("wide, tail {:?}", tail));
    }
    assert!(failures.is_empty(), "{:#?}", failures);
}

// ------------------------------------------------------------------------------------------------------------------
// E7: an interpreter cloned or sent through JSON in the middle of a run continues to the same result
// ------------------------------------------------------------------------------------------------------------------
#[test]
fn e07_clone_and_serde_mid_run() {
    let alpha = alphabet();
    let mut rng = Rng(0xdeadbeefcafef00d);
    let mut failures = vec![];
    let mut done = 0;
    while done < 3000 {
        let len = 4 + rng.below(16);
        let toks = random_program(&mut rng, &alpha, len, true);
        let r = ref_run(&toks);
        if r.err.as_deref() == Some(SKIP) {
            continue;
        }
        let script = match Script::from_bytes(&ser(&toks)) {
            Ok(s) => s,
            Err(_) => continue,
        };
        done += 1;
        let total_steps = lib_run(&script).steps.len();
        for cut in 0..=total_steps {
            let mut it = Interpreter::from_script(&script);
            let mut steps = vec![];
            for _ in 0..cut {
                if let Some(Ok(s)) = it.next() {
                    steps.push((s.stack.clone(), s.alt_stack.clone()));
                }
            }
            // clone
            let mut l = lib_iter(it.clone());
            let mut all = steps.clone();
            all.extend(l.steps.clone());
            l.steps = all;
            if let Some(d) = diff(&r, &l) {
                failures.push(format!("clone after {} steps {}: {}", cut, show(&toks), d));
            }
            // JSON
            let json = serde_json::to_string(&it).unwrap();
            let back: Interpreter = serde_json::from_str(&json).unwrap();
            let mut l = lib_iter(back);
            let mut all = steps.clone();
            all.extend(l.steps.clone());
            l.steps = all;
            if let Some(d) = diff(&r, &l) {
                failures.push(format!("json after {} steps {}: {}", cut, show(&toks), d));
            }
        }
        // the script object is not changed by being run
        assert_eq!(script.to_bytes(), ser(&toks));
        if failures.len() > 10 {
            break;
        }
    }
    assert!(failures.is_empty(), "{:#?}", failures);
}

// ------------------------------------------------------------------------------------------------------------------
// E8: a parsed (nested) script sent through JSON and CBOR runs the same
// ------------------------------------------------------------------------------------------------------------------
#[test]
fn e08_nested_script_through_serde() {
    let alpha = alphabet();
    let mut rng = Rng(0x1234567890abcdef);
    let mut failures = vec![];
    for _ in 0..20_000 {
        let len = 3 + rng.below(16);
        let toks = random_program(&mut rng, &alpha, len, true);
        let r = ref_run(&toks);
        if r.err.as_deref() == Some(SKIP) {
            continue;
        }
        let script = match Script::from_bytes(&ser(&toks)) {
            Ok(s) => s,
            Err(_) => continue,
        };
        let json = serde_json::to_string(&script).unwrap();
        match serde_json::from_str::<Script>(&json) {
            Ok(back) => {
                if let Some(d) = diff(&r, &lib_run(&back)) {
                    failures.push(format!("json {} {}: {}", json, show(&toks), d));
                }
            }
            Err(e) => failures.push(format!("json {} does not read back: {}", json, e)),
        }
        let mut cbor = vec![];
        ciborium::ser::into_writer(&script, &mut cbor).unwrap();
        match ciborium::de::from_reader::<Script, _>(&cbor[..]) {
            Ok(back) => {
                if let Some(d) = diff(&r, &lib_run(&back)) {
                    failures.push(format!("cbor {}: {}", show(&toks), d));
                }
            }
            Err(e) => failures.push(format!("cbor of {} does not read back: {}", show(&toks), e)),
        }
        if failures.len() > 10 {
            break;
        }
    }
    assert!(failures.is_empty(), "{:#?}", failures);
}

// ------------------------------------------------------------------------------------------------------------------
// E9 / V1: a top-level OP_RETURN ends the script successfully whatever follows it
// ------------------------------------------------------------------------------------------------------------------

/// Passing companion: without a conditional in front, the library itself lets a top-level OP_RETURN hide an unclosed OP_IF
#[test]
fn e09_top_level_return_hides_unclosed_if_when_no_conditional_precedes() {
    let script = Script::from_script_bits(vec![op("OP_1"), op("OP_RETURN"), op("OP_IF")]);
    let l = lib_run(&script);
    assert!(l.err.is_none(), "{:?}", l.err);
    assert_eq!(l.stack, stack_of(&["01"]));
    // reference
    let r = ref_run(&tokenize(&h("516a63")));
    assert!(r.err.is_none());
    assert_eq!(r.stack, stack_of(&["01"]));
}

/// 1 IF 2 ENDIF RETURN IF: the conditional is complete before the top-level OP_RETURN; the script succeeds with [2]
/// (node: "OP_RETURN at the top level terminates successfully; the rest of the script does not matter, even unbalanced IFs")
#[test]
fn violation_top_level_return_after_a_conditional_then_unclosed_if_element_built() {
    let toks = tokenize(&h("516352686a63")); // 1 IF 2 ENDIF | RETURN | IF
    let r = ref_run(&toks);
    assert!(r.err.is_none());
    assert_eq!(r.stack, stack_of(&["02"]));

    let mut script = Script::default();
    for name in ["OP_1", "OP_IF", "OP_2", "OP_ENDIF", "OP_RETURN", "OP_IF"] {
        script.push(op(name));
    }
    assert_eq!(script.to_hex(), "516352686a63");
    let l = lib_run(&script);
    assert!(l.err.is_none(), "expected success with [02]; library: {:?} after steps {:?}", l.err, l.steps);
    assert_eq!(l.stack, stack_of(&["02"]));
}

/// The same for a false condition and for what follows being an unclosed OP_NOTIF with more code behind it
#[test]
fn violation_top_level_return_after_a_skipped_conditional_then_unclosed_notif_element_built() {
    // 0 IF 2 ENDIF 7 RETURN 0 NOTIF 3
    let toks = tokenize(&h("00635268576a006453"));
    let r = ref_run(&toks);
    assert!(r.err.is_none());
    assert_eq!(r.stack, stack_of(&["07"]));
    let l = route(&toks, 1).unwrap();
    assert!(l.err.is_none(), "expected success with [07]; library: {:?}", l.err);
    assert_eq!(l.stack, stack_of(&["07"]));
}

/// The byte and ASM readers refuse the same scripts outright (every script with an unclosed OP_IF behind a top-level OP_RETURN)
#[test]
fn violation_top_level_return_then_unclosed_if_cannot_be_read_from_bytes() {
    for script_hex in ["516a63", "516352686a63"] {
        let r = ref_run(&tokenize(&h(script_hex)));
        assert!(r.err.is_none());
        let script = Script::from_hex(script_hex);
        assert!(script.is_ok(), "{}: valid script (succeeds with {:?}) is refused: {:?}", script_hex, hexs(&r.stack), script.err());
        let l = lib_run(&script.unwrap());
        assert!(l.err.is_none());
        assert_eq!(l.stack, r.stack);
    }
}

// ------------------------------------------------------------------------------------------------------------------
// E10 / V2: conditionals written as plain opcodes inside the branch of a conditional block
// ------------------------------------------------------------------------------------------------------------------

/// Companion (passes): plain conditional opcodes at the top level, next to and around blocks, are folded
#[test]
fn e10_plain_conditionals_around_blocks_are_folded() {
    // 1 IF <block: 1 IF 2 ENDIF> ELSE 3 ENDIF
    let inner = ScriptBit::If { code: OpCodes::OP_IF, pass: vec![op("OP_2")], fail: None };
    let script = Script::from_script_bits(vec![op("OP_1"), op("OP_IF"), op("OP_1"), inner, op("OP_ELSE"), op("OP_3"), op("OP_ENDIF")]);
    assert_eq!(script.to_hex(), "516351635268675368");
    let r = ref_run(&tokenize(&script.to_bytes()));
    let l = lib_run(&script);
    assert!(diff(&r, &l).is_none(), "{:?}", diff(&r, &l));
    assert_eq!(l.stack, stack_of(&["02"]));
}

/// The branch of a block assembled from a script that was itself assembled opcode by opcode:
/// 1 IF [1 IF 2 ENDIF] ENDIF has the bytes 51 63 51 63 52 68 68 and succeeds with [2]
#[test]
fn violation_plain_conditional_inside_a_block_branch_is_not_folded() {
    let mut branch = Script::default();
    for name in ["OP_1", "OP_IF", "OP_2", "OP_ENDIF"] {
        branch.push(op(name));
    }
    let script = Script::from_script_bits(vec![op("OP_1"), ScriptBit::If { code: OpCodes::OP_IF, pass: branch.to_script_bits(), fail: None }]);
    assert_eq!(script.to_hex(), "51635163526868");
    let r = ref_run(&tokenize(&script.to_bytes()));
    assert!(r.err.is_none());
    assert_eq!(r.stack, stack_of(&["02"]));
    // the same bytes read back run fine
    let parsed = lib_run(&Script::from_hex("51635163526868").unwrap());
    assert!(parsed.err.is_none());
    assert_eq!(parsed.stack, stack_of(&["02"]));

    let l = lib_run(&script);
    assert!(l.err.is_none(), "expected success with [02]; library: {:?}", l.err);
    assert_eq!(l.stack, stack_of(&["02"]));
}

/// Worse: a wrong result without any error. 0 IF 2 ELSE 3 ENDIF with the OP_ELSE held as a plain opcode in the block's
/// first branch has the bytes 00 63 52 67 53 68 and leaves [3]; the library succeeds with an empty stack.
#[test]
fn violation_plain_else_inside_a_block_branch_gives_a_wrong_stack() {
    let script = Script::from_script_bits(vec![op("OP_0"), ScriptBit::If { code: OpCodes::OP_IF, pass: vec![op("OP_2"), op("OP_ELSE"), op("OP_3")], fail: None }]);
    assert_eq!(script.to_hex(), "006352675368");
    let r = ref_run(&tokenize(&script.to_bytes()));
    assert!(r.err.is_none());
    assert_eq!(r.stack, stack_of(&["03"]));
    let l = lib_run(&script);
    assert!(l.err.is_none());
    assert_eq!(l.stack, stack_of(&["03"]), "library stack {:?}", hexs(&l.stack));
}

// ------------------------------------------------------------------------------------------------------------------
// E11: an interpreter read from JSON that lacks `script_positions` (the field is #[serde(default)])
// ------------------------------------------------------------------------------------------------------------------
#[test]
fn e11_interpreter_json_without_script_positions() {
    // 0 IF ENDIF RETURN ENDIF: a top-level OP_RETURN, success with an empty stack
    let script = Script::from_hex("0063686a68").unwrap();
    let r = ref_run(&tokenize(&script.to_bytes()));
    assert!(r.err.is_none());
    let it = Interpreter::from_script(&script);
    let mut v: serde_json::Value = serde_json::to_value(&it).unwrap();
    assert!(diff(&r, &lib_iter(serde_json::from_value(v.clone()).unwrap())).is_none());
    v.as_object_mut().unwrap().remove("script_positions");
    let l = lib_iter(serde_json::from_value(v).unwrap());
    println!("e11: without script_positions: {:?} (expected success)", l.err);
}

// ------------------------------------------------------------------------------------------------------------------
// E12: explicit elements handed to from_transaction_and_script_bits together with an input that has scripts of its own
// ------------------------------------------------------------------------------------------------------------------
#[test]
fn e12_explicit_elements_with_an_input_that_has_its_own_scripts() {
    let unlocking = Script::from_hex("01aa01bb").unwrap();
    let locking = Script::from_hex("7551").unwrap();
    let mut txin = TxIn::new(&[7u8; 32], 0, &unlocking, None);
    txin.set_locking_script(&locking);
    txin.set_satoshis(1000);
    let mut tx = Transaction::new(1, 0);
    tx.add_input(&txin);
    // 1 RETURN 0 VERIFY as one script succeeds with [1]
    let toks = tokenize(&h("516a0069"));
    let r = ref_run(&toks);
    assert!(r.err.is_none());
    let l = lib_iter(Interpreter::from_transaction_and_script_bits(tx, 0, flat_bits(&toks)));
    println!("e12: 1 RETURN 0 VERIFY with an input whose unlocking script has two elements: {:?} {:?} (as one script: success with [01])", l.err, hexs(&l.stack));
}

// ------------------------------------------------------------------------------------------------------------------
// E13: stepping past the end, running after stepping, running twice
// ------------------------------------------------------------------------------------------------------------------
#[test]
fn e13_iteration_protocol() {
    let alpha = alphabet();
    let mut rng = Rng(77);
    for _ in 0..3000 {
        let len = 3 + rng.below(12);
        let toks = random_program(&mut rng, &alpha, len, true);
        let r = ref_run(&toks);
        if r.err.as_deref() == Some(SKIP) {
            continue;
        }
        let script = match Script::from_bytes(&ser(&toks)) {
            Ok(s) => s,
            Err(_) => continue,
        };
        let mut it = Interpreter::from_script(&script);
        let mut oks = 0;
        let mut errs = 0;
        for _ in 0..(toks.len() * 3 + 10) {
            match it.next() {
                Some(Ok(_)) => oks += 1,
                Some(Err(_)) => errs += 1,
                None => {}
            }
        }
        assert!(errs <= 1, "{}", show(&toks));
        assert_eq!(errs == 1, r.err.is_some(), "{}", show(&toks));
        if r.err.is_none() {
            assert_eq!(oks, r.steps.len(), "{}", show(&toks));
            assert_eq!(it.state().stack, r.stack);
            assert_eq!(it.state().alt_stack, r.alt);
            // nothing more happens
            assert!(it.next().is_none());
            assert_eq!(it.state().stack, r.stack);
        } else {
            // the state is the one before the failing step
            let n = oks.min(r.steps.len());
            if n > 0 && oks <= r.steps.len() {
                assert_eq!(it.state().stack, r.steps[oks - 1].0, "{}", show(&toks));
                assert_eq!(it.state().alt_stack, r.steps[oks - 1].1, "{}", show(&toks));
            }
        }
    }
}

// ------------------------------------------------------------------------------------------------------------------
// E14: element trees nested by the test itself (not by the library's reader): fail = None without OP_ELSE, Some(..) with one,
// against the reference run over the bytes
// ------------------------------------------------------------------------------------------------------------------
fn nest(toks: &[Tok], pos: &mut usize, rng: &mut Rng, top: bool) -> Option<(Vec<ScriptBit>, u8)> {
    // returns the elements up to (and consuming) an OP_ELSE / OP_ENDIF (returned as the terminator) or the end (0)
    let mut out = vec![];
    while *pos < toks.len() {
        let t = toks[*pos].clone();
        *pos += 1;
        match t {
            Tok::Op(c @ (0x63 | 0x64)) => {
                let (pass, term) = nest(toks, pos, rng, false)?;
                let fail = match term {
                    0x67 => {
                        let (fail, term2) = nest(toks, pos, rng, false)?;
                        if term2 != 0x68 {
                            return None;
                        }
                        Some(fail)
                    }
                    0x68 => None,
                    _ => return None,
                };
                out.push(ScriptBit::If { code: if c == 0x63 { OpCodes::OP_IF } else { OpCodes::OP_NOTIF }, pass, fail });
            }
            Tok::Op(c @ (0x67 | 0x68)) => {
                if top {
                    return None;
                }
                return Some((out, c));
            }
            other => out.extend(flat_bits(&[other])),
        }
    }
    if top {
        Some((out, 0))
    } else {
        None
    }
}

#[test]
fn e14_trees_nested_by_the_test() {
    let alpha = alphabet();
    let mut rng = Rng(0xabcdef0123456789);
    let mut failures = vec![];
    let mut n = 0;
    while n < 30_000 {
        let len = 3 + rng.below(18);
        let toks = random_program(&mut rng, &alpha, len, true);
        let r = ref_run(&toks);
        if r.err.as_deref() == Some(SKIP) {
            continue;
        }
        let mut pos = 0;
        let tree = match nest(&toks, &mut pos, &mut rng, true) {
            Some((t, _)) => t,
            None => continue,
        };
        n += 1;
        let script = Script::from_script_bits(tree.clone());
        assert_eq!(script.to_bytes(), ser(&toks));
        if let Some(d) = diff(&r, &lib_run(&script)) {
            failures.push(format!("tree {}: {}", show(&toks), d));
        }
        let l = lib_iter(Interpreter::from_transaction_and_script_bits(Transaction::new(1, 0), 0, tree));
        if let Some(d) = diff(&r, &l) {
            failures.push(format!("tree via from_transaction_and_script_bits {}: {}", show(&toks), d));
        }
        if failures.len() > 10 {
            break;
        }
    }
    assert!(failures.is_empty(), "{:#?}", failures);
}

// ------------------------------------------------------------------------------------------------------------------
// E15: small facts quoted in the report
// ------------------------------------------------------------------------------------------------------------------
#[test]
fn e15_facts_quoted_in_the_report() {
    // a block in front of the top-level OP_RETURN, a plain unclosed OP_IF behind it: the fallback keeps the block and the script succeeds
    let script = Script::from_script_bits(vec![op("OP_1"), ScriptBit::If { code: OpCodes::OP_IF, pass: vec![op("OP_2")], fail: None }, op("OP_RETURN"), op("OP_IF")]);
    assert_eq!(script.to_hex(), "516352686a63");
    let l = lib_run(&script);
    assert!(l.err.is_none());
    assert_eq!(l.stack, stack_of(&["02"]));
    // Interpreter::script() after a run holds the spliced branch
    let mut it = Interpreter::from_script(&Script::from_hex("51635268").unwrap());
    while let Some(s) = it.next() {
        s.unwrap();
    }
    println!("e15: script() after running 51635268: {}", it.script().to_hex());
    // from_transaction with an input index out of range
    let res = catch_unwind(|| Interpreter::from_transaction(&Transaction::new(1, 0), 3).is_ok());
    println!("e15: from_transaction with an index out of range: {:?}", res.map_err(|_| "panic"));
    println!("e15: {} simple opcodes in E1", SIMPLE_OPS.len());
}
