//! C14 hunt: the interpreter against an independent reference of Bitcoin SV (post-Genesis, consensus rules)
//! script semantics for the non-signature opcodes.
//!
//! The reference (`reference` module) works on the raw script bytes, with opcode byte values, operand order,
//! number decoding/encoding and conditional handling written from the Bitcoin SV specification / node
//! behaviour (EvalScript), not from the library.
#![allow(clippy::all)]

use bsv::*;
use num_bigint::{BigInt, BigUint};
use num_traits::{Signed, ToPrimitive, Zero};

// ---------------------------------------------------------------------------------------------------------
// Reference implementation
// ---------------------------------------------------------------------------------------------------------
mod op {
    pub const PUSHDATA1: u8 = 0x4c;
    pub const PUSHDATA2: u8 = 0x4d;
    pub const PUSHDATA4: u8 = 0x4e;
    pub const NEG1: u8 = 0x4f;
    pub const N1: u8 = 0x51;
    pub const N16: u8 = 0x60;
    pub const NOP: u8 = 0x61;
    pub const IF: u8 = 0x63;
    pub const NOTIF: u8 = 0x64;
    pub const VERIF: u8 = 0x65;
    pub const VERNOTIF: u8 = 0x66;
    pub const ELSE: u8 = 0x67;
    pub const ENDIF: u8 = 0x68;
    pub const VERIFY: u8 = 0x69;
    pub const RETURN: u8 = 0x6a;
    pub const TOALT: u8 = 0x6b;
    pub const FROMALT: u8 = 0x6c;
    pub const DROP2: u8 = 0x6d;
    pub const DUP2: u8 = 0x6e;
    pub const DUP3: u8 = 0x6f;
    pub const OVER2: u8 = 0x70;
    pub const ROT2: u8 = 0x71;
    pub const SWAP2: u8 = 0x72;
    pub const IFDUP: u8 = 0x73;
    pub const DEPTH: u8 = 0x74;
    pub const DROP: u8 = 0x75;
    pub const DUP: u8 = 0x76;
    pub const NIP: u8 = 0x77;
    pub const OVER: u8 = 0x78;
    pub const PICK: u8 = 0x79;
    pub const ROLL: u8 = 0x7a;
    pub const ROT: u8 = 0x7b;
    pub const SWAP: u8 = 0x7c;
    pub const TUCK: u8 = 0x7d;
    pub const CAT: u8 = 0x7e;
    pub const SPLIT: u8 = 0x7f;
    pub const NUM2BIN: u8 = 0x80;
    pub const BIN2NUM: u8 = 0x81;
    pub const SIZE: u8 = 0x82;
    pub const INVERT: u8 = 0x83;
    pub const AND: u8 = 0x84;
    pub const OR: u8 = 0x85;
    pub const XOR: u8 = 0x86;
    pub const EQUAL: u8 = 0x87;
    pub const EQUALVERIFY: u8 = 0x88;
    pub const ADD1: u8 = 0x8b;
    pub const SUB1: u8 = 0x8c;
    pub const MUL2: u8 = 0x8d;
    pub const DIV2: u8 = 0x8e;
    pub const NEGATE: u8 = 0x8f;
    pub const ABS: u8 = 0x90;
    pub const NOT: u8 = 0x91;
    pub const NOTEQUAL0: u8 = 0x92;
    pub const ADD: u8 = 0x93;
    pub const SUB: u8 = 0x94;
    pub const MUL: u8 = 0x95;
    pub const DIV: u8 = 0x96;
    pub const MOD: u8 = 0x97;
    pub const LSHIFT: u8 = 0x98;
    pub const RSHIFT: u8 = 0x99;
    pub const BOOLAND: u8 = 0x9a;
    pub const BOOLOR: u8 = 0x9b;
    pub const NUMEQUAL: u8 = 0x9c;
    pub const NUMEQUALVERIFY: u8 = 0x9d;
    pub const NUMNOTEQUAL: u8 = 0x9e;
    pub const LESSTHAN: u8 = 0x9f;
    pub const GREATERTHAN: u8 = 0xa0;
    pub const LESSTHANOREQUAL: u8 = 0xa1;
    pub const GREATERTHANOREQUAL: u8 = 0xa2;
    pub const MIN: u8 = 0xa3;
    pub const MAX: u8 = 0xa4;
    pub const WITHIN: u8 = 0xa5;
    pub const RIPEMD160: u8 = 0xa6;
    pub const SHA1: u8 = 0xa7;
    pub const SHA256: u8 = 0xa8;
    pub const HASH160: u8 = 0xa9;
    pub const HASH256: u8 = 0xaa;
    pub const CODESEPARATOR: u8 = 0xab;
    pub const NOP1: u8 = 0xb0;
    pub const NOP4: u8 = 0xb3;
    pub const NOP10: u8 = 0xb9;
}

/// Opcodes (other than pushes and conditionals) that the experiments draw from, with their arity.
const OPS: &[(u8, usize, &str)] = &[
    (op::NEG1, 0, "1NEGATE"),
    (0x00, 0, "0"),
    (0x51, 0, "1"),
    (0x52, 0, "2"),
    (0x58, 0, "8"),
    (0x60, 0, "16"),
    (op::NOP, 0, "NOP"),
    (op::VERIFY, 1, "VERIFY"),
    (op::RETURN, 0, "RETURN"),
    (op::TOALT, 1, "TOALTSTACK"),
    (op::FROMALT, 0, "FROMALTSTACK"),
    (op::DROP2, 2, "2DROP"),
    (op::DUP2, 2, "2DUP"),
    (op::DUP3, 3, "3DUP"),
    (op::OVER2, 4, "2OVER"),
    (op::ROT2, 6, "2ROT"),
    (op::SWAP2, 4, "2SWAP"),
    (op::IFDUP, 1, "IFDUP"),
    (op::DEPTH, 0, "DEPTH"),
    (op::DROP, 1, "DROP"),
    (op::DUP, 1, "DUP"),
    (op::NIP, 2, "NIP"),
    (op::OVER, 2, "OVER"),
    (op::PICK, 2, "PICK"),
    (op::ROLL, 2, "ROLL"),
    (op::ROT, 3, "ROT"),
    (op::SWAP, 2, "SWAP"),
    (op::TUCK, 2, "TUCK"),
    (op::CAT, 2, "CAT"),
    (op::SPLIT, 2, "SPLIT"),
    (op::NUM2BIN, 2, "NUM2BIN"),
    (op::BIN2NUM, 1, "BIN2NUM"),
    (op::SIZE, 1, "SIZE"),
    (op::INVERT, 1, "INVERT"),
    (op::AND, 2, "AND"),
    (op::OR, 2, "OR"),
    (op::XOR, 2, "XOR"),
    (op::EQUAL, 2, "EQUAL"),
    (op::EQUALVERIFY, 2, "EQUALVERIFY"),
    (op::ADD1, 1, "1ADD"),
    (op::SUB1, 1, "1SUB"),
    (op::MUL2, 1, "2MUL"),
    (op::DIV2, 1, "2DIV"),
    (op::NEGATE, 1, "NEGATE"),
    (op::ABS, 1, "ABS"),
    (op::NOT, 1, "NOT"),
    (op::NOTEQUAL0, 1, "0NOTEQUAL"),
    (op::ADD, 2, "ADD"),
    (op::SUB, 2, "SUB"),
    (op::MUL, 2, "MUL"),
    (op::DIV, 2, "DIV"),
    (op::MOD, 2, "MOD"),
    (op::LSHIFT, 2, "LSHIFT"),
    (op::RSHIFT, 2, "RSHIFT"),
    (op::BOOLAND, 2, "BOOLAND"),
    (op::BOOLOR, 2, "BOOLOR"),
    (op::NUMEQUAL, 2, "NUMEQUAL"),
    (op::NUMEQUALVERIFY, 2, "NUMEQUALVERIFY"),
    (op::NUMNOTEQUAL, 2, "NUMNOTEQUAL"),
    (op::LESSTHAN, 2, "LESSTHAN"),
    (op::GREATERTHAN, 2, "GREATERTHAN"),
    (op::LESSTHANOREQUAL, 2, "LESSTHANOREQUAL"),
    (op::GREATERTHANOREQUAL, 2, "GREATERTHANOREQUAL"),
    (op::MIN, 2, "MIN"),
    (op::MAX, 2, "MAX"),
    (op::WITHIN, 3, "WITHIN"),
    (op::RIPEMD160, 1, "RIPEMD160"),
    (op::SHA1, 1, "SHA1"),
    (op::SHA256, 1, "SHA256"),
    (op::HASH160, 1, "HASH160"),
    (op::HASH256, 1, "HASH256"),
    (op::CODESEPARATOR, 0, "CODESEPARATOR"),
    (op::NOP1, 0, "NOP1"),
    (op::NOP4, 0, "NOP4"),
    (op::NOP10, 0, "NOP10"),
];

mod reference {
    use super::*;

    #[derive(Debug, Clone, PartialEq, Eq)]
    pub enum Outcome {
        /// Script evaluation fails (any script error)
        Fail,
        /// Evaluation ran through; final stacks (success = stack non-empty and top is true)
        Done { stack: Vec<Vec<u8>>, alt: Vec<Vec<u8>> },
        /// The reference declines (would need an absurd allocation)
        Skip,
    }

    /// Rule set. `index_len_limit`: when Some(n), operands that are read as a position / size / shift count
    /// (PICK, ROLL, SPLIT, NUM2BIN, LSHIFT, RSHIFT) fail if longer than n bytes. Bitcoin SV post-Genesis
    /// has no such 4-byte limit (None); Some(4) is used to factor the separately reported finding out of the
    /// broad differential runs.
    #[derive(Clone, Copy)]
    pub struct Rules {
        pub index_len_limit: Option<usize>,
    }
    pub const BSV: Rules = Rules { index_len_limit: None };
    pub const BSV_BUT_4BYTE_INDEX: Rules = Rules { index_len_limit: Some(4) };

    pub fn cast_to_bool(v: &[u8]) -> bool {
        for i in 0..v.len() {
            if v[i] != 0 {
                // negative zero
                if i == v.len() - 1 && v[i] == 0x80 {
                    return false;
                }
                return true;
            }
        }
        false
    }

    /// little-endian sign-magnitude
    pub fn decode(v: &[u8]) -> BigInt {
        if v.is_empty() {
            return BigInt::zero();
        }
        let mut acc = BigUint::zero();
        for (i, b) in v.iter().enumerate().rev() {
            let b = if i == v.len() - 1 { b & 0x7f } else { *b };
            acc = acc * 256u32 + b as u32;
        }
        let n = BigInt::from(acc);
        if v[v.len() - 1] & 0x80 != 0 {
            -n
        } else {
            n
        }
    }

    pub fn encode(n: &BigInt) -> Vec<u8> {
        if n.is_zero() {
            return vec![];
        }
        let neg = n.is_negative();
        let mut mag = n.abs().to_biguint().unwrap();
        let mut out = vec![];
        while !mag.is_zero() {
            out.push((&mag % 256u32).to_u8().unwrap());
            mag = mag / 256u32;
        }
        if out[out.len() - 1] & 0x80 != 0 {
            out.push(if neg { 0x80 } else { 0x00 });
        } else if neg {
            let l = out.len();
            out[l - 1] |= 0x80;
        }
        out
    }

    fn boolean(b: bool) -> Vec<u8> {
        if b {
            vec![1]
        } else {
            vec![]
        }
    }

    /// truncated division on magnitudes
    fn div_trunc(a: &BigInt, b: &BigInt) -> BigInt {
        let q = BigInt::from(a.abs().to_biguint().unwrap() / b.abs().to_biguint().unwrap());
        if a.is_negative() != b.is_negative() {
            -q
        } else {
            q
        }
    }
    fn rem_trunc(a: &BigInt, b: &BigInt) -> BigInt {
        let r = BigInt::from(a.abs().to_biguint().unwrap() % b.abs().to_biguint().unwrap());
        if a.is_negative() {
            -r
        } else {
            r
        }
    }

    fn shift(data: &[u8], n: &BigInt, left: bool) -> Vec<u8> {
        let total = data.len() * 8;
        if *n >= BigInt::from(total) {
            return vec![0; data.len()];
        }
        let n = n.to_usize().unwrap();
        let bit = |i: usize| -> bool { (data[i / 8] >> (7 - (i % 8))) & 1 == 1 };
        let mut out = vec![0u8; data.len()];
        for i in 0..total {
            let src: Option<usize> = if left {
                if i + n < total {
                    Some(i + n)
                } else {
                    None
                }
            } else if i >= n {
                Some(i - n)
            } else {
                None
            };
            if let Some(s) = src {
                if bit(s) {
                    out[i / 8] |= 1 << (7 - (i % 8));
                }
            }
        }
        out
    }

    fn sha256(d: &[u8]) -> Vec<u8> {
        use sha2::Digest;
        sha2::Sha256::digest(d).to_vec()
    }
    fn sha1(d: &[u8]) -> Vec<u8> {
        use sha1::Digest;
        sha1::Sha1::digest(d).to_vec()
    }
    fn ripemd(d: &[u8]) -> Vec<u8> {
        use ripemd160::Digest;
        ripemd160::Ripemd160::digest(d).to_vec()
    }

    type R = Result<(), ()>;

    fn need(st: &Vec<Vec<u8>>, n: usize) -> R {
        if st.len() < n {
            Err(())
        } else {
            Ok(())
        }
    }

    fn index_operand(v: &[u8], rules: Rules) -> Result<BigInt, ()> {
        if let Some(l) = rules.index_len_limit {
            if v.len() > l {
                return Err(());
            }
        }
        Ok(decode(v))
    }

    /// Executes one non-push, non-conditional, non-RETURN opcode. Err(()) = script failure. Ok(false) = Skip.
    pub fn exec(opc: u8, st: &mut Vec<Vec<u8>>, alt: &mut Vec<Vec<u8>>, rules: Rules) -> Result<bool, ()> {
        let top = |st: &Vec<Vec<u8>>, i: usize| -> Vec<u8> { st[st.len() - i].clone() };
        match opc {
            op::NEG1 => st.push(vec![0x81]),
            op::N1..=op::N16 => st.push(vec![opc - 0x50]),
            op::NOP | op::NOP1 | op::NOP4..=op::NOP10 | op::CODESEPARATOR => {}
            op::VERIFY => {
                need(st, 1)?;
                if !cast_to_bool(&top(st, 1)) {
                    return Err(());
                }
                st.pop();
            }
            op::TOALT => {
                need(st, 1)?;
                alt.push(st.pop().unwrap());
            }
            op::FROMALT => {
                need(alt, 1)?;
                st.push(alt.pop().unwrap());
            }
            op::DROP2 => {
                need(st, 2)?;
                st.pop();
                st.pop();
            }
            op::DUP2 => {
                need(st, 2)?;
                let (a, b) = (top(st, 2), top(st, 1));
                st.push(a);
                st.push(b);
            }
            op::DUP3 => {
                need(st, 3)?;
                let (a, b, c) = (top(st, 3), top(st, 2), top(st, 1));
                st.push(a);
                st.push(b);
                st.push(c);
            }
            op::OVER2 => {
                need(st, 4)?;
                let (a, b) = (top(st, 4), top(st, 3));
                st.push(a);
                st.push(b);
            }
            op::ROT2 => {
                need(st, 6)?;
                let l = st.len();
                let a = st.remove(l - 6);
                let b = st.remove(l - 6);
                st.push(a);
                st.push(b);
            }
            op::SWAP2 => {
                need(st, 4)?;
                let l = st.len();
                st.swap(l - 4, l - 2);
                st.swap(l - 3, l - 1);
            }
            op::IFDUP => {
                need(st, 1)?;
                let a = top(st, 1);
                if cast_to_bool(&a) {
                    st.push(a);
                }
            }
            op::DEPTH => {
                let n = encode(&BigInt::from(st.len()));
                st.push(n);
            }
            op::DROP => {
                need(st, 1)?;
                st.pop();
            }
            op::DUP => {
                need(st, 1)?;
                let a = top(st, 1);
                st.push(a);
            }
            op::NIP => {
                need(st, 2)?;
                let l = st.len();
                st.remove(l - 2);
            }
            op::OVER => {
                need(st, 2)?;
                let a = top(st, 2);
                st.push(a);
            }
            op::PICK | op::ROLL => {
                need(st, 2)?;
                let n = index_operand(&top(st, 1), rules)?;
                st.pop();
                if n.is_negative() || n >= BigInt::from(st.len()) {
                    return Err(());
                }
                let n = n.to_usize().unwrap();
                let l = st.len();
                let v = st[l - 1 - n].clone();
                if opc == op::ROLL {
                    st.remove(l - 1 - n);
                }
                st.push(v);
            }
            op::ROT => {
                need(st, 3)?;
                let l = st.len();
                let a = st.remove(l - 3);
                st.push(a);
            }
            op::SWAP => {
                need(st, 2)?;
                let l = st.len();
                st.swap(l - 1, l - 2);
            }
            op::TUCK => {
                need(st, 2)?;
                let a = top(st, 1);
                let l = st.len();
                st.insert(l - 2, a);
            }
            op::CAT => {
                need(st, 2)?;
                let b = st.pop().unwrap();
                let mut a = st.pop().unwrap();
                a.extend(b);
                st.push(a);
            }
            op::SPLIT => {
                need(st, 2)?;
                let n = index_operand(&top(st, 1), rules)?;
                let data = top(st, 2);
                if n.is_negative() || n > BigInt::from(data.len()) {
                    return Err(());
                }
                let n = n.to_usize().unwrap();
                st.pop();
                st.pop();
                st.push(data[..n].to_vec());
                st.push(data[n..].to_vec());
            }
            op::NUM2BIN => {
                need(st, 2)?;
                let n = index_operand(&top(st, 1), rules)?;
                if n.is_negative() || n > BigInt::from(i32::MAX) {
                    return Err(());
                }
                let size = n.to_usize().unwrap();
                st.pop();
                let mut raw = encode(&decode(&st.pop().unwrap()));
                if raw.len() > size {
                    return Err(());
                }
                if size > 2_000_000 {
                    return Ok(false);
                }
                if raw.len() < size {
                    let mut sign = 0u8;
                    if let Some(l) = raw.last_mut() {
                        sign = *l & 0x80;
                        *l &= 0x7f;
                    }
                    while raw.len() < size - 1 {
                        raw.push(0);
                    }
                    raw.push(sign);
                }
                st.push(raw);
            }
            op::BIN2NUM => {
                need(st, 1)?;
                let a = st.pop().unwrap();
                st.push(encode(&decode(&a)));
            }
            op::SIZE => {
                need(st, 1)?;
                let n = encode(&BigInt::from(top(st, 1).len()));
                st.push(n);
            }
            op::INVERT => {
                need(st, 1)?;
                let a = st.pop().unwrap();
                st.push(a.iter().map(|b| b ^ 0xff).collect());
            }
            op::AND | op::OR | op::XOR => {
                need(st, 2)?;
                let b = top(st, 1);
                let a = top(st, 2);
                if a.len() != b.len() {
                    return Err(());
                }
                st.pop();
                st.pop();
                let mut out = vec![];
                for i in 0..a.len() {
                    out.push(match opc {
                        op::AND => a[i] & b[i],
                        op::OR => a[i] | b[i],
                        _ => a[i] ^ b[i],
                    });
                }
                st.push(out);
            }
            op::EQUAL | op::EQUALVERIFY => {
                need(st, 2)?;
                let b = st.pop().unwrap();
                let a = st.pop().unwrap();
                let eq = a == b;
                if opc == op::EQUALVERIFY {
                    if !eq {
                        return Err(());
                    }
                } else {
                    st.push(boolean(eq));
                }
            }
            op::ADD1 | op::SUB1 | op::MUL2 | op::DIV2 | op::NEGATE | op::ABS | op::NOT | op::NOTEQUAL0 => {
                need(st, 1)?;
                let a = decode(&st.pop().unwrap());
                let r = match opc {
                    op::ADD1 => a + 1,
                    op::SUB1 => a - 1,
                    op::MUL2 => a * 2,
                    op::DIV2 => div_trunc(&a, &BigInt::from(2)),
                    op::NEGATE => -a,
                    op::ABS => a.abs(),
                    op::NOT => BigInt::from(a.is_zero() as u8),
                    _ => BigInt::from(!a.is_zero() as u8),
                };
                st.push(encode(&r));
            }
            op::ADD
            | op::SUB
            | op::MUL
            | op::DIV
            | op::MOD
            | op::BOOLAND
            | op::BOOLOR
            | op::NUMEQUAL
            | op::NUMEQUALVERIFY
            | op::NUMNOTEQUAL
            | op::LESSTHAN
            | op::GREATERTHAN
            | op::LESSTHANOREQUAL
            | op::GREATERTHANOREQUAL
            | op::MIN
            | op::MAX => {
                need(st, 2)?;
                let b = decode(&top(st, 1));
                let a = decode(&top(st, 2));
                let tf = |x: bool| BigInt::from(x as u8);
                let r = match opc {
                    op::ADD => &a + &b,
                    op::SUB => &a - &b,
                    op::MUL => &a * &b,
                    op::DIV => {
                        if b.is_zero() {
                            return Err(());
                        }
                        div_trunc(&a, &b)
                    }
                    op::MOD => {
                        if b.is_zero() {
                            return Err(());
                        }
                        rem_trunc(&a, &b)
                    }
                    op::BOOLAND => tf(!a.is_zero() && !b.is_zero()),
                    op::BOOLOR => tf(!a.is_zero() || !b.is_zero()),
                    op::NUMEQUAL | op::NUMEQUALVERIFY => tf(a == b),
                    op::NUMNOTEQUAL => tf(a != b),
                    op::LESSTHAN => tf(a < b),
                    op::GREATERTHAN => tf(a > b),
                    op::LESSTHANOREQUAL => tf(a <= b),
                    op::GREATERTHANOREQUAL => tf(a >= b),
                    op::MIN => {
                        if a < b {
                            a.clone()
                        } else {
                            b.clone()
                        }
                    }
                    _ => {
                        if a > b {
                            a.clone()
                        } else {
                            b.clone()
                        }
                    }
                };
                st.pop();
                st.pop();
                if opc == op::NUMEQUALVERIFY {
                    if r.is_zero() {
                        return Err(());
                    }
                } else {
                    st.push(encode(&r));
                }
            }
            op::LSHIFT | op::RSHIFT => {
                need(st, 2)?;
                let n = index_operand(&top(st, 1), rules)?;
                if n.is_negative() {
                    return Err(());
                }
                st.pop();
                let data = st.pop().unwrap();
                st.push(shift(&data, &n, opc == op::LSHIFT));
            }
            op::WITHIN => {
                need(st, 3)?;
                let max = decode(&st.pop().unwrap());
                let min = decode(&st.pop().unwrap());
                let x = decode(&st.pop().unwrap());
                st.push(boolean(min <= x && x < max));
            }
            op::RIPEMD160 | op::SHA1 | op::SHA256 | op::HASH160 | op::HASH256 => {
                need(st, 1)?;
                let d = st.pop().unwrap();
                st.push(match opc {
                    op::RIPEMD160 => ripemd(&d),
                    op::SHA1 => sha1(&d),
                    op::SHA256 => sha256(&d),
                    op::HASH160 => ripemd(&sha256(&d)),
                    _ => sha256(&sha256(&d)),
                });
            }
            _ => return Err(()), // anything else: bad / disabled opcode when executed
        }
        Ok(true)
    }

    /// EvalScript over raw bytes, post-Genesis consensus rules, empty initial stacks.
    pub fn run(script: &[u8], rules: Rules) -> Outcome {
        let mut st: Vec<Vec<u8>> = vec![];
        let mut alt: Vec<Vec<u8>> = vec![];
        let mut vf_exec: Vec<bool> = vec![];
        let mut else_seen: Vec<bool> = vec![];
        let mut non_top_level_return = false;
        let mut pc = 0usize;
        while pc < script.len() {
            let opc = script[pc];
            pc += 1;
            // GetOp
            let mut data: Option<Vec<u8>> = None;
            if opc <= op::PUSHDATA4 {
                let len = if opc < op::PUSHDATA1 {
                    opc as usize
                } else {
                    let w = match opc {
                        op::PUSHDATA1 => 1,
                        op::PUSHDATA2 => 2,
                        _ => 4,
                    };
                    if pc + w > script.len() {
                        return Outcome::Fail;
                    }
                    let mut l = 0usize;
                    for i in 0..w {
                        l |= (script[pc + i] as usize) << (8 * i);
                    }
                    pc += w;
                    l
                };
                if pc + len > script.len() {
                    return Outcome::Fail;
                }
                data = Some(script[pc..pc + len].to_vec());
                pc += len;
            }
            let f_exec = vf_exec.iter().all(|x| *x) && (!non_top_level_return || opc == op::RETURN);
            if let Some(d) = data {
                if f_exec {
                    st.push(d);
                }
                continue;
            }
            if !(f_exec || (op::IF..=op::ENDIF).contains(&opc)) {
                continue;
            }
            match opc {
                op::IF | op::NOTIF => {
                    let mut v = false;
                    if f_exec {
                        if st.is_empty() {
                            return Outcome::Fail;
                        }
                        v = cast_to_bool(&st.pop().unwrap());
                        if opc == op::NOTIF {
                            v = !v;
                        }
                    }
                    vf_exec.push(v);
                    else_seen.push(false);
                }
                op::VERIF | op::VERNOTIF => return Outcome::Fail,
                op::ELSE => {
                    // After Genesis only one ELSE is allowed per IF
                    if vf_exec.is_empty() || *else_seen.last().unwrap() {
                        return Outcome::Fail;
                    }
                    let l = vf_exec.len();
                    vf_exec[l - 1] = !vf_exec[l - 1];
                    else_seen[l - 1] = true;
                }
                op::ENDIF => {
                    if vf_exec.is_empty() {
                        return Outcome::Fail;
                    }
                    vf_exec.pop();
                    else_seen.pop();
                }
                op::RETURN => {
                    if vf_exec.is_empty() {
                        // terminates successfully, whatever follows
                        return Outcome::Done { stack: st, alt };
                    }
                    non_top_level_return = true;
                }
                _ => match exec(opc, &mut st, &mut alt, rules) {
                    Err(()) => return Outcome::Fail,
                    Ok(false) => return Outcome::Skip,
                    Ok(true) => {}
                },
            }
        }
        if !vf_exec.is_empty() {
            return Outcome::Fail;
        }
        Outcome::Done { stack: st, alt }
    }
}

use reference::{Outcome, Rules, BSV, BSV_BUT_4BYTE_INDEX};

// ---------------------------------------------------------------------------------------------------------
// Library driver
// ---------------------------------------------------------------------------------------------------------
#[derive(Debug, Clone, PartialEq, Eq)]
enum Lib {
    ParseError(String),
    ExecError(String),
    Panic,
    Done { stack: Vec<Vec<u8>>, alt: Vec<Vec<u8>> },
}

fn drive(mut interp: Interpreter) -> Lib {
    // Stepping through the iterator (run() prints every state)
    let mut guard = 0usize;
    loop {
        guard += 1;
        assert!(guard < 1_000_000, "interpreter does not terminate");
        match interp.next() {
            None => break,
            Some(Ok(_)) => {}
            Some(Err(e)) => return Lib::ExecError(e.to_string()),
        }
    }
    let state = interp.state();
    Lib::Done { stack: state.stack.clone(), alt: state.alt_stack.clone() }
}

fn lib_run_script(script: &Script) -> Lib {
    let script = script.clone();
    match std::panic::catch_unwind(move || drive(Interpreter::from_script(&script))) {
        Ok(l) => l,
        Err(_) => Lib::Panic,
    }
}

fn lib_run_bytes(bytes: &[u8]) -> Lib {
    let bytes = bytes.to_vec();
    match std::panic::catch_unwind(move || match Script::from_bytes(&bytes) {
        Ok(s) => drive(Interpreter::from_script(&s)),
        Err(e) => Lib::ParseError(e.to_string()),
    }) {
        Ok(l) => l,
        Err(_) => Lib::Panic,
    }
}

fn agree(r: &Outcome, l: &Lib) -> bool {
    match (r, l) {
        (Outcome::Skip, _) => true,
        (Outcome::Fail, Lib::ParseError(_)) | (Outcome::Fail, Lib::ExecError(_)) => true,
        (Outcome::Done { stack, alt }, Lib::Done { stack: ls, alt: la }) => stack == ls && alt == la,
        _ => false,
    }
}

fn success(stack: &[Vec<u8>]) -> bool {
    stack.last().map(|t| reference::cast_to_bool(t)).unwrap_or(false)
}

fn push_bytes(data: &[u8]) -> Vec<u8> {
    let mut out = vec![];
    let l = data.len();
    if l == 0 {
        out.push(0x00);
    } else if l <= 75 {
        out.push(l as u8);
    } else if l <= 255 {
        out.push(op::PUSHDATA1);
        out.push(l as u8);
    } else if l <= 65535 {
        out.push(op::PUSHDATA2);
        out.extend((l as u16).to_le_bytes());
    } else {
        out.push(op::PUSHDATA4);
        out.extend((l as u32).to_le_bytes());
    }
    out.extend(data);
    out
}

fn program(stack: &[&[u8]], ops: &[u8]) -> Vec<u8> {
    let mut out = vec![];
    for item in stack {
        out.extend(push_bytes(item));
    }
    out.extend(ops);
    out
}

fn check(script: &[u8], rules: Rules) -> Result<(), String> {
    let r = reference::run(script, rules);
    if r == Outcome::Skip {
        return Ok(());
    }
    let l = lib_run_bytes(script);
    if agree(&r, &l) {
        Ok(())
    } else {
        Err(format!("script {}\n   reference: {:?}\n   library:   {:?}", hex::encode(script), r, l))
    }
}

fn alphabet() -> Vec<Vec<u8>> {
    vec![
        vec![],
        vec![0x00],
        vec![0x80],
        vec![0x00, 0x00],
        vec![0x00, 0x80],
        vec![0x01],
        vec![0x81],
        vec![0x02],
        vec![0x03],
        vec![0x08],
        vec![0x09],
        vec![0x7f],
        vec![0xff],
        vec![0x80, 0x00],
        vec![0x80, 0x80],
        vec![0x01, 0x00],
        vec![0x01, 0x80],
        vec![0xff, 0x7f],
        vec![0xff, 0xff],
        vec![0x00, 0x01],
        vec![0xff, 0xff, 0x7f],
        vec![0x00, 0x00, 0x80, 0x00],
        vec![0xff, 0xff, 0xff, 0x7f],
        vec![0xff, 0xff, 0xff, 0xff],
        vec![0x02, 0x00, 0x00, 0x80],
        vec![0x00, 0x00, 0x00, 0x80, 0x00],
        vec![0x00, 0x00, 0x00, 0x80, 0x80],
        vec![0x01, 0x00, 0x00, 0x00, 0x00],
        vec![0x02, 0x00, 0x00, 0x00, 0x00, 0x00, 0x00, 0x00, 0x80],
        vec![0xff, 0xff, 0xff, 0xff, 0xff, 0xff, 0xff, 0xff, 0x7f],
        vec![0xff, 0xff, 0xff, 0xff, 0xff, 0xff, 0xff, 0xff, 0xff],
        (1..=20).collect(),
        (0..33).map(|i| (i * 37 + 200) as u8).collect(),
        vec![0xab; 80],
        vec![0x00; 80],
        {
            let mut v = vec![0x00; 80];
            v[79] = 0x80;
            v
        },
    ]
}

struct Rng(u64);
impl Rng {
    fn next(&mut self) -> u64 {
        self.0 ^= self.0 << 13;
        self.0 ^= self.0 >> 7;
        self.0 ^= self.0 << 17;
        self.0
    }
    fn below(&mut self, n: usize) -> usize {
        (self.next() % n as u64) as usize
    }
    fn chance(&mut self, percent: usize) -> bool {
        self.below(100) < percent
    }
}

// ---------------------------------------------------------------------------------------------------------
// E01  sanity of the reference itself against hand-computed cases from the specification
// ---------------------------------------------------------------------------------------------------------
#[test]
fn e01_reference_self_check() {
    use reference::*;
    assert_eq!(encode(&BigInt::from(0)), Vec::<u8>::new());
    assert_eq!(encode(&BigInt::from(127)), vec![0x7f]);
    assert_eq!(encode(&BigInt::from(128)), vec![0x80, 0x00]);
    assert_eq!(encode(&BigInt::from(-128)), vec![0x80, 0x80]);
    assert_eq!(encode(&BigInt::from(-1)), vec![0x81]);
    assert_eq!(encode(&BigInt::from(32768)), vec![0x00, 0x80, 0x00]);
    assert_eq!(decode(&[0x00, 0x80]), BigInt::from(0));
    assert_eq!(decode(&[0x01, 0x00, 0x80]), BigInt::from(-1));
    assert_eq!(decode(&[0xff, 0xff, 0xff, 0xff]), BigInt::from(-0x7fffffffi64));
    assert!(!cast_to_bool(&[0x00, 0x80]));
    assert!(cast_to_bool(&[0x80, 0x00]));
    // 7 3 DIV = 2 ; -7 3 DIV = -2 ; -7 3 MOD = -1 ; 7 -3 MOD = 1
    let d = |s: &[u8]| match run(s, BSV) {
        Outcome::Done { stack, .. } => stack,
        o => panic!("{:?}", o),
    };
    assert_eq!(d(&[0x57, 0x53, op::DIV]), vec![vec![2]]);
    assert_eq!(d(&[0x57, op::NEGATE, 0x53, op::DIV]), vec![vec![0x82]]);
    assert_eq!(d(&[0x57, op::NEGATE, 0x53, op::MOD]), vec![vec![0x81]]);
    assert_eq!(d(&[0x57, 0x53, op::NEGATE, op::MOD]), vec![vec![0x01]]);
    // 1 2 3 ROT -> 2 3 1 ; 1 2 TUCK -> 2 1 2
    assert_eq!(d(&[0x51, 0x52, 0x53, op::ROT]), vec![vec![2], vec![3], vec![1]]);
    assert_eq!(d(&[0x51, 0x52, op::TUCK]), vec![vec![2], vec![1], vec![2]]);
    // 0x8001 1 LSHIFT = 0x0002 ; 0x8001 1 RSHIFT = 0x4000
    assert_eq!(d(&[2, 0x80, 0x01, 0x51, op::LSHIFT]), vec![vec![0x00, 0x02]]);
    assert_eq!(d(&[2, 0x80, 0x01, 0x51, op::RSHIFT]), vec![vec![0x40, 0x00]]);
    // conditionals
    assert_eq!(d(&[0x00, op::IF, 0x52, op::ELSE, 0x53, op::ENDIF]), vec![vec![3]]);
    assert_eq!(d(&[0x00, op::NOTIF, 0x52, op::ELSE, 0x53, op::ENDIF]), vec![vec![2]]);
    assert_eq!(run(&[0x51, op::IF, 0x52], BSV), Outcome::Fail);
    assert_eq!(run(&[0x51, op::ENDIF], BSV), Outcome::Fail);
    assert_eq!(run(&[0x51, op::IF, 0x52, op::ELSE, 0x53, op::ELSE, 0x54, op::ENDIF], BSV), Outcome::Fail);
    // top level RETURN ends the script, garbage after it is irrelevant
    assert_eq!(d(&[0x51, op::RETURN, op::IF, 0xff, 0x4c]), vec![vec![1]]);
}

// ---------------------------------------------------------------------------------------------------------
// E02  hashing opcodes against published test vectors
// ---------------------------------------------------------------------------------------------------------
#[test]
fn e02_hash_opcodes_known_vectors() {
    let cases: Vec<(&[u8], u8, &str)> = vec![
        (b"", op::SHA1, "da39a3ee5e6b4b0d3255bfef95601890afd80709"),
        (b"abc", op::SHA1, "a9993e364706816aba3e25717850c26c9cd0d89d"),
        (b"", op::RIPEMD160, "9c1185a5c5e9fc54612808977ee8f548b2258d31"),
        (b"abc", op::RIPEMD160, "8eb208f7e05d987a9b044a8e98c6b087f15a0bfc"),
        (b"", op::SHA256, "e3b0c44298fc1c149afbf4c8996fb92427ae41e4649b934ca495991b7852b855"),
        (b"abc", op::SHA256, "ba7816bf8f01cfea414140de5dae2223b00361a396177a9cb410ff61f20015ad"),
        // sha256d("") and hash160("") are widely published
        (b"", op::HASH256, "5df6e0e2761359d30a8275058e299fcc0381534545f55cf43e41983f5d4c9456"),
        (b"", op::HASH160, "b472a266d0bd89c13706a4132ccfb16f7c3b9fcb"),
    ];
    for (data, opc, expected) in cases {
        let script = program(&[data], &[opc]);
        match lib_run_bytes(&script) {
            Lib::Done { stack, alt } => {
                assert_eq!(stack.len(), 1);
                assert!(alt.is_empty());
                assert_eq!(hex::encode(&stack[0]), expected, "opcode {:#x} on {:?}", opc, data);
            }
            other => panic!("{:?}", other),
        }
    }
}

// ---------------------------------------------------------------------------------------------------------
// E03  bounded-exhaustive: every opcode on every stack of depth 0..=arity+1 from the alphabet.
//      Index operands are held to the library's 4-byte limit here; the limit itself is the subject of
//      violation_index_operands_longer_than_four_bytes.
// ---------------------------------------------------------------------------------------------------------
fn exhaustive(rules: Rules, max_report: usize) -> (usize, Vec<String>) {
    let alpha = alphabet();
    let small: Vec<Vec<u8>> = vec![vec![], vec![0x01], vec![0x02, 0x00], vec![0x80], vec![0xaa, 0xbb, 0xcc]];
    let mut failures = vec![];
    let mut count = 0usize;
    for (opc, arity, name) in OPS {
        let max_depth = arity + 1;
        let values: &Vec<Vec<u8>> = if *arity >= 3 && *opc != op::WITHIN { &small } else { &alpha };
        let values: Vec<Vec<u8>> = if *opc == op::WITHIN || *opc == op::DUP3 || *opc == op::ROT {
            // depth 4 over the full alphabet is 1.3M scripts per opcode; thin the alphabet a little
            alpha.iter().enumerate().filter(|(i, _)| i % 2 == 0 || *i < 8).map(|(_, v)| v.clone()).collect()
        } else {
            values.clone()
        };
        for depth in 0..=max_depth {
            let mut idx = vec![0usize; depth];
            'outer: loop {
                let items: Vec<&[u8]> = idx.iter().map(|i| values[*i].as_slice()).collect();
                let script = program(&items, &[*opc]);
                count += 1;
                if let Err(e) = check(&script, rules) {
                    if failures.len() < max_report {
                        failures.push(format!("OP_{} depth {}: {}", name, depth, e));
                    } else {
                        return (count, failures);
                    }
                }
                // also with something on the alt stack for the alt stack opcodes
                if *opc == op::FROMALT || *opc == op::TOALT {
                    let mut s = program(&[&[0x05], &[]], &[op::TOALT, op::TOALT]);
                    s.extend(&script);
                    if let Err(e) = check(&s, rules) {
                        failures.push(format!("OP_{} (alt) depth {}: {}", name, depth, e));
                    }
                }
                let mut k = 0;
                loop {
                    if k == depth {
                        break 'outer;
                    }
                    idx[k] += 1;
                    if idx[k] < values.len() {
                        break;
                    }
                    idx[k] = 0;
                    k += 1;
                }
            }
        }
    }
    (count, failures)
}

#[test]
fn e03_every_opcode_on_every_small_stack() {
    let (count, failures) = exhaustive(BSV_BUT_4BYTE_INDEX, 40);
    println!("e03: {} scripts compared", count);
    assert!(failures.is_empty(), "{} disagreements, e.g.\n{}", failures.len(), failures.join("\n"));
}

// ---------------------------------------------------------------------------------------------------------
// E04  conditionals: every IF/NOTIF x ELSE/no-ELSE x nesting shape x condition value from the alphabet
// ---------------------------------------------------------------------------------------------------------
#[test]
fn e04_conditionals_exhaustive_shapes() {
    let alpha = alphabet();
    let mut failures = vec![];
    let mut count = 0;
    let ifs = [op::IF, op::NOTIF];
    for c1 in &alpha {
        for c2 in &alpha {
            for i1 in ifs {
                for i2 in ifs {
                    for shape in 0..10 {
                        let mut s = vec![];
                        s.extend(push_bytes(c2));
                        s.extend(push_bytes(c1));
                        match shape {
                            0 => s.extend([i1, 0x52, op::ENDIF, 0x59]),
                            1 => s.extend([i1, 0x52, op::ELSE, 0x53, op::ENDIF, 0x59]),
                            2 => s.extend([i1, op::ELSE, op::ENDIF]),
                            3 => s.extend([i1, i2, 0x52, op::ELSE, 0x53, op::ENDIF, op::ELSE, 0x54, op::ENDIF, op::DEPTH]),
                            4 => s.extend([i1, 0x55, op::ELSE, i2, 0x52, op::ELSE, 0x53, op::ENDIF, 0x56, op::ENDIF, op::DEPTH]),
                            5 => s.extend([i1, op::DROP, 0x51, i2, op::RETURN, op::ENDIF, 0x57, op::ELSE, op::TOALT, op::ENDIF, 0x58]),
                            6 => s.extend([i1, op::TOALT, op::ELSE, op::DUP, op::ENDIF, op::DEPTH, op::FROMALT]),
                            7 => s.extend([i1, op::VERIFY, 0x51, op::ELSE, op::RETURN, op::ENDIF, 0x00]),
                            8 => s.extend([i1, i2, op::ENDIF, op::ENDIF, 0x51, op::IF, op::ENDIF]),
                            // unexecuted branches may hold opcodes that would fail if executed
                            _ => s.extend([i1, op::ADD, op::FROMALT, op::PICK, op::ELSE, op::DIV, op::ENDIF, op::DEPTH]),
                        }
                        count += 1;
                        if let Err(e) = check(&s, BSV) {
                            if failures.len() < 20 {
                                failures.push(e);
                            }
                        }
                    }
                }
            }
        }
    }
    println!("e04: {} scripts compared", count);
    assert!(failures.is_empty(), "{}", failures.join("\n"));
}

// ---------------------------------------------------------------------------------------------------------
// E05  random longer programs with nested, balanced conditionals (single ELSE per IF)
// ---------------------------------------------------------------------------------------------------------
fn random_item(rng: &mut Rng, alpha: &[Vec<u8>]) -> Vec<u8> {
    if rng.chance(70) {
        alpha[rng.below(alpha.len())].clone()
    } else {
        let l = rng.below(7);
        (0..l).map(|_| rng.next() as u8).collect()
    }
}

fn random_block(rng: &mut Rng, alpha: &[Vec<u8>], depth: usize, len: usize) -> Vec<u8> {
    let mut out = vec![];
    for _ in 0..len {
        let r = rng.below(100);
        if r < 40 {
            out.extend(push_bytes(&random_item(rng, alpha)));
        } else if r < 50 && depth < 4 {
            if rng.chance(60) {
                out.extend(push_bytes(&random_item(rng, alpha)));
            }
            out.push(if rng.chance(50) { op::IF } else { op::NOTIF });
            let l = rng.below(5);
            out.extend(random_block(rng, alpha, depth + 1, l));
            if rng.chance(60) {
                out.push(op::ELSE);
                let l = rng.below(5);
                out.extend(random_block(rng, alpha, depth + 1, l));
            }
            out.push(op::ENDIF);
        } else {
            let (opc, _, _) = OPS[rng.below(OPS.len())];
            if opc == op::RETURN && rng.chance(80) {
                continue;
            }
            out.push(opc);
        }
    }
    out
}

/// Builds a program step by step, mostly keeping only steps that the reference can execute, so that
/// programs get long without dying on the first missing operand.
fn random_program(rng: &mut Rng, alpha: &[Vec<u8>], rules: Rules) -> Vec<u8> {
    let mut prog = vec![];
    let steps = 5 + rng.below(40);
    for _ in 0..steps {
        let piece = random_block(rng, alpha, 0, 1);
        let mut candidate = prog.clone();
        candidate.extend(&piece);
        match reference::run(&candidate, rules) {
            Outcome::Fail if rng.chance(93) => continue,
            Outcome::Skip => continue,
            Outcome::Done { ref stack, .. } if stack.iter().any(|i| i.len() > 5000) => continue,
            _ => prog = candidate,
        }
    }
    prog
}

#[test]
fn e05_random_programs() {
    let alpha = alphabet();
    let mut rng = Rng(0x9E3779B97F4A7C15);
    let mut failures = vec![];
    let (mut done, mut failed) = (0, 0);
    let mut executed: std::collections::BTreeSet<String> = Default::default();
    let mut longest = 0usize;
    for round in 0..60_000 {
        let prog = random_program(&mut rng, &alpha, BSV_BUT_4BYTE_INDEX);
        if round % 10 == 0 {
            if let Ok(s) = Script::from_bytes(&prog) {
                let mut i = Interpreter::from_script(&s);
                while let Some(Ok(_)) = i.next() {}
                longest = longest.max(i.state().executed_opcodes.len());
                for o in i.state().executed_opcodes {
                    executed.insert(o.to_string());
                }
            }
        }
        match reference::run(&prog, BSV_BUT_4BYTE_INDEX) {
            Outcome::Done { .. } => done += 1,
            Outcome::Fail => failed += 1,
            _ => {}
        }
        if let Err(e) = check(&prog, BSV_BUT_4BYTE_INDEX) {
            if failures.len() < 20 {
                failures.push(e);
            }
        }
    }
    println!("e05: reference outcomes: {} ran through, {} failed; longest run {} steps; {} distinct opcodes executed: {:?}", done, failed, longest, executed.len(), executed);
    assert!(failures.is_empty(), "{}", failures.join("\n"));
}

// ---------------------------------------------------------------------------------------------------------
// E06  the same random programs through the other construction routes: ASM text, JSON, hex;
//      and step-by-step execution equals the reference after every prefix
// ---------------------------------------------------------------------------------------------------------
#[test]
fn e06_construction_routes_and_prefix_states() {
    let alpha = alphabet();
    let mut rng = Rng(0xD1B54A32D192ED03);
    let mut failures = vec![];
    for _ in 0..6_000 {
        let prog = random_program(&mut rng, &alpha, BSV_BUT_4BYTE_INDEX);
        let script = match Script::from_bytes(&prog) {
            Ok(s) => s,
            Err(_) => continue,
        };
        let direct = lib_run_script(&script);
        // hex
        let via_hex = lib_run_script(&Script::from_hex(&script.to_hex()).unwrap());
        // JSON
        let json = serde_json::to_string(&script).unwrap();
        let via_json = lib_run_script(&serde_json::from_str::<Script>(&json).unwrap());
        if direct != via_hex || direct != via_json {
            failures.push(format!("{}: routes differ {:?} / {:?} / {:?}", hex::encode(&prog), direct, via_hex, via_json));
        }
        // ASM: only when no one-byte push 0x10..0x16 style ambiguity can arise (accepted item 2): compare
        // only if the text re-parses to the same bytes.
        if let Ok(via_asm) = Script::from_asm_string(&script.to_asm_string()) {
            if via_asm.to_bytes() == script.to_bytes() || {
                // pushes may be re-encoded minimally; compare by reference on the re-parsed bytes instead
                false
            } {
                let r = lib_run_script(&via_asm);
                if r != direct {
                    failures.push(format!("{}: asm route differs {:?} / {:?}", hex::encode(&prog), direct, r));
                }
            } else if let Err(e) = check(&via_asm.to_bytes(), BSV_BUT_4BYTE_INDEX) {
                // whatever ASM produced is still a script: it must run per the reference as well
                failures.push(format!("asm reparsed: {}", e));
            }
        }
    }
    assert!(failures.is_empty(), "{}", failures[..failures.len().min(10)].join("\n"));
}

// Prefix property at top level: running the first k top-level elements gives the reference result for them.
#[test]
fn e07_stepwise_states_match_reference_prefixes() {
    let alpha = alphabet();
    let mut rng = Rng(0x1234567887654321);
    let mut failures = vec![];
    for _ in 0..4_000 {
        // flat programs (no conditionals, no RETURN) so that "prefix" is well defined byte-wise
        let mut pieces: Vec<Vec<u8>> = vec![];
        let mut prog = vec![];
        for _ in 0..(3 + rng.below(25)) {
            let piece = if rng.chance(45) {
                push_bytes(&random_item(&mut rng, &alpha))
            } else {
                let (opc, _, _) = OPS[rng.below(OPS.len())];
                if opc == op::RETURN {
                    continue;
                }
                vec![opc]
            };
            let mut cand = prog.clone();
            cand.extend(&piece);
            match reference::run(&cand, BSV_BUT_4BYTE_INDEX) {
                Outcome::Done { ref stack, .. } if stack.iter().all(|i| i.len() < 5000) => {
                    prog = cand;
                    pieces.push(piece);
                }
                _ => {}
            }
        }
        let script = Script::from_bytes(&prog).unwrap();
        let mut interp = Interpreter::from_script(&script);
        let mut prefix = vec![];
        for piece in &pieces {
            prefix.extend(piece);
            let state = match interp.next() {
                Some(Ok(s)) => s,
                other => {
                    failures.push(format!("{}: step gave {:?}", hex::encode(&prog), other.map(|r| r.map(|_| ()).map_err(|e| e.to_string()))));
                    break;
                }
            };
            let expected = reference::run(&prefix, BSV_BUT_4BYTE_INDEX);
            let got = Lib::Done { stack: state.stack.clone(), alt: state.alt_stack.clone() };
            if !agree(&expected, &got) {
                failures.push(format!("{} after {}: {:?} vs {:?}", hex::encode(&prog), hex::encode(&prefix), expected, got));
                break;
            }
            // state() agrees with the yielded state
            let st = interp.state();
            if st.stack != state.stack || st.alt_stack != state.alt_stack {
                failures.push(format!("{}: state() differs from yielded state", hex::encode(&prog)));
            }
        }
        if interp.next().is_some() {
            failures.push(format!("{}: more steps than elements", hex::encode(&prog)));
        }
    }
    assert!(failures.is_empty(), "{}", failures[..failures.len().min(10)].join("\n"));
}

// ---------------------------------------------------------------------------------------------------------
// E08  arithmetic on large numbers cross-checked with i128 (independent of num-bigint)
// ---------------------------------------------------------------------------------------------------------
fn enc_i128(v: i128) -> Vec<u8> {
    if v == 0 {
        return vec![];
    }
    let neg = v < 0;
    let mut m = v.unsigned_abs();
    let mut out = vec![];
    while m > 0 {
        out.push((m & 0xff) as u8);
        m >>= 8;
    }
    if out[out.len() - 1] & 0x80 != 0 {
        out.push(if neg { 0x80 } else { 0 });
    } else if neg {
        let l = out.len();
        out[l - 1] |= 0x80;
    }
    out
}

#[test]
fn e08_arithmetic_against_i128() {
    let interesting: Vec<i128> = vec![
        0,
        1,
        -1,
        2,
        -2,
        3,
        -3,
        7,
        -7,
        127,
        128,
        -127,
        -128,
        255,
        256,
        -255,
        -256,
        32767,
        32768,
        -32768,
        8388607,
        8388608,
        -8388608,
        2147483647,
        2147483648,
        -2147483647,
        -2147483648,
        4294967295,
        4294967296,
        -4294967296,
        9223372036854775807,
        -9223372036854775807,
        9223372036854775808,
        -9223372036854775808,
        18446744073709551615,
        18446744073709551616,
        -18446744073709551616,
        1234567890123456789,
        -987654321098765432,
    ];
    let mut failures = vec![];
    for &a in &interesting {
        for &b in &interesting {
            let mut cases: Vec<(u8, Option<i128>)> = vec![
                (op::ADD, Some(a + b)),
                (op::SUB, Some(a - b)),
                (op::MUL, a.checked_mul(b)),
                (op::DIV, if b == 0 { None } else { Some(a / b) }),
                (op::MOD, if b == 0 { None } else { Some(a % b) }),
                (op::MIN, Some(a.min(b))),
                (op::MAX, Some(a.max(b))),
                (op::NUMEQUAL, Some((a == b) as i128)),
                (op::NUMNOTEQUAL, Some((a != b) as i128)),
                (op::LESSTHAN, Some((a < b) as i128)),
                (op::GREATERTHAN, Some((a > b) as i128)),
                (op::LESSTHANOREQUAL, Some((a <= b) as i128)),
                (op::GREATERTHANOREQUAL, Some((a >= b) as i128)),
                (op::BOOLAND, Some((a != 0 && b != 0) as i128)),
                (op::BOOLOR, Some((a != 0 || b != 0) as i128)),
            ];
            if a.checked_mul(b).is_none() {
                cases.retain(|c| c.0 != op::MUL);
            }
            for (opc, expected) in cases {
                let script = program(&[&enc_i128(a), &enc_i128(b)], &[opc]);
                let got = lib_run_bytes(&script);
                let ok = match (&expected, &got) {
                    (Some(v), Lib::Done { stack, alt }) => alt.is_empty() && stack == &vec![enc_i128(*v)],
                    (None, Lib::ExecError(_)) => true,
                    _ => false,
                };
                if !ok {
                    failures.push(format!("{} {} op {:#x}: expected {:?} got {:?}", a, b, opc, expected.map(enc_i128), got));
                }
            }
        }
        // unary
        let unary: Vec<(u8, i128)> = vec![
            (op::ADD1, a + 1),
            (op::SUB1, a - 1),
            (op::NEGATE, -a),
            (op::ABS, a.abs()),
            (op::NOT, (a == 0) as i128),
            (op::NOTEQUAL0, (a != 0) as i128),
            (op::MUL2, a * 2),
            (op::DIV2, a / 2),
            (op::BIN2NUM, a),
        ];
        for (opc, expected) in unary {
            // also through a non-minimal encoding of the operand (padded with a zero byte, sign moved up)
            let minimal = enc_i128(a);
            let mut padded = minimal.clone();
            let sign = padded.last().map(|l| l & 0x80).unwrap_or(0);
            if let Some(l) = padded.last_mut() {
                *l &= 0x7f;
            }
            padded.push(0);
            padded.push(sign);
            for operand in [minimal, padded] {
                let script = program(&[&operand], &[opc]);
                match lib_run_bytes(&script) {
                    Lib::Done { stack, alt } if alt.is_empty() && stack == vec![enc_i128(expected)] => {}
                    other => failures.push(format!("{} ({}) op {:#x}: expected {:?} got {:?}", a, hex::encode(&operand), opc, enc_i128(expected), other)),
                }
            }
        }
    }
    // WITHIN
    for &x in &interesting[..20] {
        for &lo in &interesting[..20] {
            for &hi in &interesting[..20] {
                let script = program(&[&enc_i128(x), &enc_i128(lo), &enc_i128(hi)], &[op::WITHIN]);
                let expected = enc_i128((lo <= x && x < hi) as i128);
                match lib_run_bytes(&script) {
                    Lib::Done { stack, .. } if stack == vec![expected.clone()] => {}
                    other => failures.push(format!("{} {} {} WITHIN: {:?}", x, lo, hi, other)),
                }
            }
        }
    }
    assert!(failures.is_empty(), "{} failures:\n{}", failures.len(), failures[..failures.len().min(15)].join("\n"));
}

// ---------------------------------------------------------------------------------------------------------
// E09  shifts, exhaustively for 1..3 byte strings patterns and all counts 0..=25 (bit-vector oracle in the
//      reference), plus NUM2BIN / SPLIT / CAT round trips
// ---------------------------------------------------------------------------------------------------------
#[test]
fn e09_shifts_and_splice_round_trips() {
    let mut failures = vec![];
    let datas: Vec<Vec<u8>> = vec![
        vec![],
        vec![0x01],
        vec![0x80],
        vec![0xff],
        vec![0xa5],
        vec![0x80, 0x01],
        vec![0x12, 0x34],
        vec![0xff, 0xff],
        vec![0x01, 0x02, 0x03],
        vec![0x80, 0x00, 0x01],
        vec![0xde, 0xad, 0xbe, 0xef, 0x55],
    ];
    for d in &datas {
        for n in 0..=45i128 {
            for opc in [op::LSHIFT, op::RSHIFT] {
                let script = program(&[d, &enc_i128(n)], &[opc]);
                if let Err(e) = check(&script, BSV) {
                    failures.push(e);
                }
            }
        }
        // x n SPLIT CAT == x for every n
        for n in 0..=d.len() {
            let script = program(&[d, &enc_i128(n as i128)], &[op::SPLIT, op::CAT]);
            match lib_run_bytes(&script) {
                Lib::Done { stack, .. } if stack == vec![d.clone()] => {}
                other => failures.push(format!("split/cat {:?} {}: {:?}", d, n, other)),
            }
        }
        // NUM2BIN then BIN2NUM is the minimal encoding, for every admissible size
        let minimal = reference::encode(&reference::decode(d));
        for size in 0..=8usize {
            let script = program(&[d, &enc_i128(size as i128)], &[op::NUM2BIN, op::DUP, op::SIZE, op::NIP, op::SWAP, op::BIN2NUM]);
            let got = lib_run_bytes(&script);
            if size < minimal.len() {
                if !matches!(got, Lib::ExecError(_)) {
                    failures.push(format!("num2bin {:?} {} should fail: {:?}", d, size, got));
                }
            } else {
                match got {
                    Lib::Done { stack, .. } if stack == vec![enc_i128(size as i128), minimal.clone()] => {}
                    other => failures.push(format!("num2bin {:?} {}: {:?}", d, size, other)),
                }
            }
        }
    }
    assert!(failures.is_empty(), "{}", failures[..failures.len().min(15)].join("\n"));
}

// ---------------------------------------------------------------------------------------------------------
// E10  a failing step leaves main and alt stack as they were; the error repeats; state() stays readable
// ---------------------------------------------------------------------------------------------------------
#[test]
fn e10_failing_step_keeps_stacks() {
    let alpha = alphabet();
    let mut bad = vec![];
    for (opc, arity, name) in OPS {
        if *arity == 0 {
            continue;
        }
        for depth in 0..*arity {
            let items: Vec<&[u8]> = (0..depth).map(|i| alpha[5 + i].as_slice()).collect();
            let mut script = program(&[&[0x33]], &[op::TOALT]);
            script.extend(program(&items, &[*opc]));
            let s = Script::from_bytes(&script).unwrap();
            let mut interp = Interpreter::from_script(&s);
            let mut last_ok = None;
            let mut err = false;
            for _ in 0..20 {
                match interp.next() {
                    Some(Ok(st)) => last_ok = Some(st),
                    Some(Err(_)) => {
                        err = true;
                        break;
                    }
                    None => break,
                }
            }
            if !err {
                bad.push(format!("OP_{} with {} operands did not fail", name, depth));
                continue;
            }
            let before = last_ok.unwrap();
            let after = interp.state();
            if before.stack != after.stack || before.alt_stack != after.alt_stack {
                bad.push(format!("OP_{} with {} operands changed the stacks while failing", name, depth));
            }
            if !matches!(interp.next(), Some(Err(_))) {
                bad.push(format!("OP_{}: the failure does not repeat", name));
            }
        }
    }
    assert!(bad.is_empty(), "{}", bad.join("\n"));
}

// ---------------------------------------------------------------------------------------------------------
// E11  pushes of every encoding (direct, PUSHDATA1/2/4, empty PUSHDATA) land on the stack unchanged
// ---------------------------------------------------------------------------------------------------------
#[test]
fn e11_push_encodings() {
    let mut failures = vec![];
    for len in [0usize, 1, 2, 75, 76, 255, 256, 520, 521, 65535, 65536, 70000] {
        let data: Vec<u8> = (0..len).map(|i| (i * 7 + 3) as u8).collect();
        let mut encodings: Vec<Vec<u8>> = vec![push_bytes(&data)];
        if len <= 255 {
            let mut e = vec![op::PUSHDATA1, len as u8];
            e.extend(&data);
            encodings.push(e);
        }
        if len <= 65535 {
            let mut e = vec![op::PUSHDATA2];
            e.extend((len as u16).to_le_bytes());
            e.extend(&data);
            encodings.push(e);
        }
        let mut e = vec![op::PUSHDATA4];
        e.extend((len as u32).to_le_bytes());
        e.extend(&data);
        encodings.push(e);
        for enc in encodings {
            let mut script = enc.clone();
            script.extend([op::SIZE]);
            if let Err(e) = check(&script, BSV) {
                failures.push(e.chars().take(300).collect::<String>());
            }
        }
    }
    // truncated pushes are failures
    for s in [vec![0x05, 1, 2], vec![op::PUSHDATA1], vec![op::PUSHDATA1, 3, 1], vec![op::PUSHDATA2, 1], vec![op::PUSHDATA4, 1, 0, 0, 0]] {
        if let Err(e) = check(&s, BSV) {
            failures.push(e);
        }
    }
    assert!(failures.is_empty(), "{}", failures.join("\n"));
}

// ---------------------------------------------------------------------------------------------------------
// E12  deep nesting and long else chains of well-formed conditionals
// ---------------------------------------------------------------------------------------------------------
#[test]
fn e12_deep_nesting() {
    let mut failures = vec![];
    for depth in [1usize, 2, 10, 100, 499, 500] {
        for cond in [0x00u8, 0x51] {
            // cond IF cond IF ... 7 ... ELSE 8 ENDIF ... ELSE 8 ENDIF
            let mut s = vec![];
            for _ in 0..depth {
                s.extend([cond, op::IF]);
            }
            s.push(0x57);
            for _ in 0..depth {
                s.extend([op::ELSE, 0x58, op::ENDIF]);
            }
            s.push(op::DEPTH);
            if let Err(e) = check(&s, BSV) {
                failures.push(e.chars().take(400).collect::<String>());
            }
        }
    }
    assert!(failures.is_empty(), "{}", failures.join("\n"));
}

// ---------------------------------------------------------------------------------------------------------
// E13  Interpreter serde round trip in the middle of a run keeps executing identically
// ---------------------------------------------------------------------------------------------------------
#[test]
fn e13_interpreter_json_round_trip_mid_run() {
    let alpha = alphabet();
    let mut rng = Rng(0xfeedfacecafebeef);
    let mut failures = vec![];
    for _ in 0..1500 {
        let prog = random_program(&mut rng, &alpha, BSV_BUT_4BYTE_INDEX);
        let script = match Script::from_bytes(&prog) {
            Ok(s) => s,
            Err(_) => continue,
        };
        let expected = lib_run_script(&script);
        let mut interp = Interpreter::from_script(&script);
        let k = rng.below(8);
        let mut died = false;
        for _ in 0..k {
            if let Some(Err(_)) = interp.next() {
                died = true;
                break;
            }
        }
        if died {
            continue;
        }
        let json = serde_json::to_string(&interp).unwrap();
        let revived: Interpreter = serde_json::from_str(&json).unwrap();
        let got = drive(revived);
        let cloned = drive(interp.clone());
        if got != expected || cloned != expected {
            failures.push(format!("{} after {} steps: {:?} / {:?} / {:?}", hex::encode(&prog), k, expected, got, cloned));
        }
    }
    assert!(failures.is_empty(), "{}", failures[..failures.len().min(5)].join("\n"));
}

// ---------------------------------------------------------------------------------------------------------
// E15  deep stacks: DEPTH, PICK and ROLL with one- and two-byte indices
// ---------------------------------------------------------------------------------------------------------
#[test]
fn e15_deep_stacks_and_multibyte_indices() {
    let mut failures = vec![];
    for n in [127usize, 128, 255, 256, 300, 700] {
        let mut base = vec![];
        for i in 0..n {
            base.extend(push_bytes(&enc_i128(i as i128 + 1)));
        }
        for idx in [0usize, 1, 126, 127, 128, 255, 256, n - 1, n, n + 1] {
            for opc in [op::PICK, op::ROLL] {
                let mut s = base.clone();
                s.extend(push_bytes(&enc_i128(idx as i128)));
                s.extend([opc, op::DEPTH]);
                // hand oracle for the top two items
                let r = lib_run_bytes(&s);
                if idx >= n {
                    if !matches!(r, Lib::ExecError(_)) {
                        failures.push(format!("n {} idx {} op {:#x}: should fail", n, idx, opc));
                    }
                } else {
                    match &r {
                        Lib::Done { stack, .. } => {
                            let depth = if opc == op::PICK { n + 1 } else { n };
                            let l = stack.len();
                            if l != depth + 1 || stack[l - 1] != enc_i128(depth as i128) || stack[l - 2] != enc_i128((n - idx) as i128) {
                                failures.push(format!("n {} idx {} op {:#x}: top {:?} {:?}", n, idx, opc, stack[l - 2], stack[l - 1]));
                            }
                        }
                        other => failures.push(format!("n {} idx {} op {:#x}: {:?}", n, idx, opc, other)),
                    }
                }
                if n <= 300 {
                    if let Err(e) = check(&s, BSV) {
                        failures.push(e.chars().take(200).collect::<String>());
                    }
                }
            }
        }
    }
    assert!(failures.is_empty(), "{}", failures[..failures.len().min(10)].join("\n"));
}

// =========================================================================================================
// Violations
// =========================================================================================================

/// V1. Position / size / shift-count operands longer than four bytes. Bitcoin SV (post-Genesis) reads these
/// operands as script numbers of any length (non-minimal encodings are consensus-valid), and a shift by at
/// least the bit length gives all zero bytes. The library fails with NumberOutOfRange.
#[test]
fn violation_index_operands_longer_than_four_bytes() {
    let one5: &[u8] = &[0x01, 0x00, 0x00, 0x00, 0x00]; // 1, non-minimal, five bytes
    let two_to_31: &[u8] = &[0x00, 0x00, 0x00, 0x80, 0x00]; // 2^31, minimal, five bytes
    let mut failures = vec![];
    let mut expect = |name: &str, script: Vec<u8>, stack: Vec<Vec<u8>>| {
        // hand-computed expectation, and the reference agrees with it
        assert_eq!(reference::run(&script, BSV), Outcome::Done { stack: stack.clone(), alt: vec![] }, "{}", name);
        let got = lib_run_bytes(&script);
        if got != (Lib::Done { stack, alt: vec![] }) {
            failures.push(format!("{}: {} -> {:?}", name, hex::encode(&script), got));
        }
    };
    // a b <1> PICK -> a b a
    expect("PICK", program(&[&[0xaa], &[0xbb], one5], &[op::PICK]), vec![vec![0xaa], vec![0xbb], vec![0xaa]]);
    // a b <1> ROLL -> b a
    expect("ROLL", program(&[&[0xaa], &[0xbb], one5], &[op::ROLL]), vec![vec![0xbb], vec![0xaa]]);
    // aabb <1> SPLIT -> aa bb
    expect("SPLIT", program(&[&[0xaa, 0xbb], one5], &[op::SPLIT]), vec![vec![0xaa], vec![0xbb]]);
    // 05 <1> NUM2BIN -> 05
    expect("NUM2BIN", program(&[&[0x05], one5], &[op::NUM2BIN]), vec![vec![0x05]]);
    // 81 <1> LSHIFT -> 02 ; 81 <1> RSHIFT -> 40
    expect("LSHIFT by non-minimal 1", program(&[&[0x81], one5], &[op::LSHIFT]), vec![vec![0x02]]);
    expect("RSHIFT by non-minimal 1", program(&[&[0x81], one5], &[op::RSHIFT]), vec![vec![0x40]]);
    // ffff <2^31> LSHIFT -> 0000 ; same for RSHIFT
    expect("LSHIFT by 2^31", program(&[&[0xff, 0xff], two_to_31], &[op::LSHIFT]), vec![vec![0x00, 0x00]]);
    expect("RSHIFT by 2^31", program(&[&[0xff, 0xff], two_to_31], &[op::RSHIFT]), vec![vec![0x00, 0x00]]);
    // the count can be the result of arithmetic done by the script itself: 2^30 2^30 ADD
    let two_to_30: &[u8] = &[0x00, 0x00, 0x00, 0x40];
    expect("LSHIFT by computed 2^31", program(&[&[0xff], two_to_30, two_to_30], &[op::ADD, op::LSHIFT]), vec![vec![0x00]]);
    assert!(failures.is_empty(), "{} of 9 cases differ:\n{}", failures.len(), failures.join("\n"));
}

/// The same finding through the bounded-exhaustive run with the true rule set: the only disagreements are
/// the six opcodes that read a position / size / count.
#[test]
fn e14_exhaustive_disagreements_are_confined_to_index_operands() {
    let (_, failures) = exhaustive(BSV, 1_000_000);
    let names = ["OP_PICK ", "OP_ROLL ", "OP_SPLIT ", "OP_NUM2BIN ", "OP_LSHIFT ", "OP_RSHIFT "];
    let other: Vec<&String> = failures.iter().filter(|f| !names.iter().any(|n| f.starts_with(n))).collect();
    println!("e14: {} disagreements under the unrestricted rule set, {} outside the six index opcodes", failures.len(), other.len());
    assert!(other.is_empty(), "{}", other.iter().take(10).map(|s| s.as_str()).collect::<Vec<_>>().join("\n"));
}

/// V2. OP_ELSE / OP_ENDIF without an open OP_IF. Bitcoin SV: SCRIPT_ERR_UNBALANCED_CONDITIONAL, the script
/// fails. The library parses such scripts and executes the stray opcode as a no-op, so the script succeeds.
#[test]
fn violation_stray_else_and_endif_are_no_ops() {
    let mut failures = vec![];
    let scripts: Vec<Vec<u8>> = vec![
        vec![0x51, op::ENDIF],
        vec![0x51, op::ELSE],
        vec![0x51, op::ELSE, 0x52, op::ENDIF],
        vec![0x51, op::IF, 0x52, op::ENDIF, op::ENDIF],
        vec![0x00, op::IF, 0x00, op::ENDIF, op::ELSE, 0x51],
    ];
    for s in scripts {
        assert_eq!(reference::run(&s, BSV), Outcome::Fail);
        let via_bytes = lib_run_bytes(&s);
        if !matches!(via_bytes, Lib::ParseError(_) | Lib::ExecError(_)) {
            failures.push(format!("{} (from_bytes): must fail, got {:?} (success = {})", hex::encode(&s), via_bytes, matches!(&via_bytes, Lib::Done{stack, ..} if success(stack))));
        }
    }
    // same through ASM text
    let asm = Script::from_asm_string("OP_1 OP_ENDIF");
    if let Ok(script) = asm {
        let r = lib_run_script(&script);
        if !matches!(r, Lib::ExecError(_)) {
            failures.push(format!("ASM 'OP_1 OP_ENDIF': must fail, got {:?}", r));
        }
    }
    assert!(failures.is_empty(), "\n{}", failures.join("\n"));
}

/// V3. A second OP_ELSE inside one conditional. Bitcoin SV post-Genesis: the script fails (unbalanced
/// conditional). Before Genesis every further ELSE toggled execution again. The library does neither: the
/// second ELSE is a no-op inside the else branch, so `0 IF 2 ELSE 3 ELSE 4 ENDIF` leaves 3 4 (pre-Genesis: 3;
/// post-Genesis: failure) and `1 IF 2 ELSE 3 ELSE 4 ENDIF` leaves 2 (pre-Genesis: 2 4; post-Genesis: failure).
#[test]
fn violation_second_else_in_one_conditional() {
    let mut failures = vec![];
    for cond in [0x00u8, 0x51] {
        let s = vec![cond, op::IF, 0x52, op::ELSE, 0x53, op::ELSE, 0x54, op::ENDIF];
        assert_eq!(reference::run(&s, BSV), Outcome::Fail);
        let pre_genesis: Vec<Vec<u8>> = if cond == 0 { vec![vec![3]] } else { vec![vec![2], vec![4]] };
        let got = lib_run_bytes(&s);
        let acceptable = match &got {
            Lib::ParseError(_) | Lib::ExecError(_) => true,
            // (not even the historical toggle semantics)
            Lib::Done { stack, .. } => {
                let _ = stack == &pre_genesis;
                false
            }
            Lib::Panic => false,
        };
        if !acceptable {
            failures.push(format!("{}: Bitcoin SV fails the script (pre-Genesis rules would leave {:?}); library: {:?}", hex::encode(&s), pre_genesis, got));
        }
    }
    assert!(failures.is_empty(), "\n{}", failures.join("\n"));
}

/// V4. A script assembled element by element through the public builders (Script::push / push_array /
/// from_script_bits with plain opcodes, exactly what map/ASM tokens produce before nesting) serialises to the
/// right bytes, but the interpreter runs its OP_IF / OP_NOTIF / OP_ELSE / OP_ENDIF as no-ops: the condition is
/// not popped and both branches run.
#[test]
fn violation_conditionals_built_with_push_are_no_ops() {
    let mut script = Script::default();
    for opc in [OpCodes::OP_0, OpCodes::OP_IF, OpCodes::OP_2, OpCodes::OP_ELSE, OpCodes::OP_3, OpCodes::OP_ENDIF] {
        script.push(ScriptBit::OpCode(opc));
    }
    let bytes = script.to_bytes();
    assert_eq!(bytes, vec![0x00, op::IF, 0x52, op::ELSE, 0x53, op::ENDIF], "serialisation is the intended script");
    // 0 IF 2 ELSE 3 ENDIF leaves 3
    let expected = Outcome::Done { stack: vec![vec![3]], alt: vec![] };
    assert_eq!(reference::run(&bytes, BSV), expected);
    // parsed from its own bytes the library agrees...
    assert_eq!(lib_run_bytes(&bytes), Lib::Done { stack: vec![vec![3]], alt: vec![] });
    // ...but run as built it does not
    let got = lib_run_script(&script);
    assert_eq!(got, Lib::Done { stack: vec![vec![3]], alt: vec![] }, "script built with Script::push, bytes {}", hex::encode(&bytes));
}

/// V5 (parser level, lower confidence). A top-level OP_RETURN ends a Bitcoin SV script successfully; what follows
/// is never looked at again, "even in presence of unbalanced IFs" (EvalScript). The library's only ways to get
/// such a script into the interpreter (from_bytes / from_hex / from_asm_string) refuse it, so the prescribed
/// outcome (success, stack [1]) cannot be obtained.
#[test]
fn violation_unbalanced_conditional_after_top_level_return() {
    let s = vec![0x51, op::RETURN, op::IF];
    assert_eq!(reference::run(&s, BSV), Outcome::Done { stack: vec![vec![1]], alt: vec![] });
    assert_eq!(lib_run_bytes(&s), Lib::Done { stack: vec![vec![1]], alt: vec![] });
}

// ---------------------------------------------------------------------------------------------------------
// Borderline observations (documented, not counted as violations): these tests only print.
// ---------------------------------------------------------------------------------------------------------
#[test]
fn observation_parser_rejections_after_top_level_return_and_unexecuted_return() {
    // (a) After a top-level OP_RETURN nothing matters to Bitcoin SV, not even unbalanced conditionals; the
    //     library cannot parse such a script at all (so it can only "fail").
    let s = vec![0x51, op::RETURN, op::IF];
    println!("obs a: {} reference {:?} library {:?}", hex::encode(&s), reference::run(&s, BSV), lib_run_bytes(&s));
    let s = vec![0x51, op::RETURN, op::ENDIF];
    println!("obs a': {} reference {:?} library {:?}", hex::encode(&s), reference::run(&s, BSV), lib_run_bytes(&s));
    // (b) Accepted item (1) in action when the OP_RETURN is in a branch that is not executed: the truncated
    //     final push is executed with the bytes that are there. Bitcoin SV fails the script.
    let s = vec![0x00, op::IF, op::RETURN, op::ENDIF, 0x05, 0x01];
    println!("obs b: {} reference {:?} library {:?}", hex::encode(&s), reference::run(&s, BSV), lib_run_bytes(&s));
    // (c) OP_NOP2 / OP_NOP3 (the former CLTV / CSV) are plain no-ops after Genesis; the library fails them.
    let s = vec![0x51, 0xb1];
    println!("obs c: {} library {:?}", hex::encode(&s), lib_run_bytes(&s));
    // (d) OP_VERIF / OP_VERNOTIF are parsed as conditionals and executed like OP_IF / OP_NOTIF; Bitcoin SV fails
    //     them even in a branch that is not executed. (Outside the opcode list of the property.)
    for s in [vec![0x51, op::VERIF, 0x52, op::ENDIF], vec![0x00, op::VERNOTIF, 0x52, op::ENDIF], vec![0x00, op::IF, op::VERIF, op::ENDIF, op::ENDIF, 0x51]] {
        println!("obs d: {} reference {:?} library {:?}", hex::encode(&s), reference::run(&s, BSV), lib_run_bytes(&s));
    }
}
