// Hunt for violations of property C14 (non-signature opcodes run exactly per Bitcoin SV script semantics).
// Oracle: a small reference interpreter written here from the Bitcoin SV node's EvalScript (post-Genesis rules),
// plus hand-computed expectations.
#![allow(dead_code)]

use bsv::{Interpreter, OpCodes, Script, ScriptBit};
use num_bigint::BigInt;
use num_traits::{FromPrimitive, Signed, ToPrimitive, Zero};

// ---------------------------------------------------------------------------------------------
// Reference
// ---------------------------------------------------------------------------------------------

#[derive(Clone, Debug, PartialEq)]
enum Tok {
    Push(Vec<u8>),
    Op(u8),
}

const OP_0: u8 = 0;
const OP_1NEGATE: u8 = 79;
const OP_1: u8 = 81;
const OP_16: u8 = 96;
const OP_2: u8 = 82;
const OP_3: u8 = 83;
const OP_4: u8 = 84;
const OP_5: u8 = 85;
const OP_7: u8 = 87;
const OP_NOP: u8 = 97;
const OP_IF: u8 = 99;
const OP_NOTIF: u8 = 100;
const OP_ELSE: u8 = 103;
const OP_ENDIF: u8 = 104;
const OP_VERIFY: u8 = 105;
const OP_RETURN: u8 = 106;
const OP_TOALTSTACK: u8 = 107;
const OP_FROMALTSTACK: u8 = 108;
const OP_2DROP: u8 = 109;
const OP_2DUP: u8 = 110;
const OP_3DUP: u8 = 111;
const OP_2OVER: u8 = 112;
const OP_2ROT: u8 = 113;
const OP_2SWAP: u8 = 114;
const OP_IFDUP: u8 = 115;
const OP_DEPTH: u8 = 116;
const OP_DROP: u8 = 117;
const OP_DUP: u8 = 118;
const OP_NIP: u8 = 119;
const OP_OVER: u8 = 120;
const OP_PICK: u8 = 121;
const OP_ROLL: u8 = 122;
const OP_ROT: u8 = 123;
const OP_SWAP: u8 = 124;
const OP_TUCK: u8 = 125;
const OP_CAT: u8 = 126;
const OP_SPLIT: u8 = 127;
const OP_NUM2BIN: u8 = 128;
const OP_BIN2NUM: u8 = 129;
const OP_SIZE: u8 = 130;
const OP_INVERT: u8 = 131;
const OP_AND: u8 = 132;
const OP_OR: u8 = 133;
const OP_XOR: u8 = 134;
const OP_EQUAL: u8 = 135;
const OP_EQUALVERIFY: u8 = 136;
const OP_1ADD: u8 = 139;
const OP_1SUB: u8 = 140;
const OP_2MUL: u8 = 141;
const OP_2DIV: u8 = 142;
const OP_NEGATE: u8 = 143;
const OP_ABS: u8 = 144;
const OP_NOT: u8 = 145;
const OP_0NOTEQUAL: u8 = 146;
const OP_ADD: u8 = 147;
const OP_SUB: u8 = 148;
const OP_MUL: u8 = 149;
const OP_DIV: u8 = 150;
const OP_MOD: u8 = 151;
const OP_LSHIFT: u8 = 152;
const OP_RSHIFT: u8 = 153;
const OP_BOOLAND: u8 = 154;
const OP_BOOLOR: u8 = 155;
const OP_NUMEQUAL: u8 = 156;
const OP_NUMEQUALVERIFY: u8 = 157;
const OP_NUMNOTEQUAL: u8 = 158;
const OP_LESSTHAN: u8 = 159;
const OP_GREATERTHAN: u8 = 160;
const OP_LESSTHANOREQUAL: u8 = 161;
const OP_GREATERTHANOREQUAL: u8 = 162;
const OP_MIN: u8 = 163;
const OP_MAX: u8 = 164;
const OP_WITHIN: u8 = 165;
const OP_RIPEMD160: u8 = 166;
const OP_SHA1: u8 = 167;
const OP_SHA256: u8 = 168;
const OP_HASH160: u8 = 169;
const OP_HASH256: u8 = 170;

/// CScriptNum decoding: little-endian magnitude, sign in the top bit of the last byte
fn ref_num(data: &[u8]) -> BigInt {
    let mut acc = BigInt::zero();
    if data.is_empty() {
        return acc;
    }
    for (i, b) in data.iter().enumerate() {
        let byte = if i == data.len() - 1 { b & 0x7f } else { *b };
        acc += BigInt::from(byte) << (8 * i);
    }
    if data[data.len() - 1] & 0x80 != 0 {
        -acc
    } else {
        acc
    }
}

/// CScriptNum::getvch: minimal encoding
fn ref_enc(n: &BigInt) -> Vec<u8> {
    if n.is_zero() {
        return vec![];
    }
    let neg = n.is_negative();
    let mut abs = n.abs();
    let mut out = vec![];
    let ff = BigInt::from(0xff);
    while !abs.is_zero() {
        out.push((&abs & &ff).to_u8().unwrap());
        abs >>= 8;
    }
    if out[out.len() - 1] & 0x80 != 0 {
        out.push(if neg { 0x80 } else { 0 });
    } else if neg {
        let l = out.len();
        out[l - 1] |= 0x80;
    }
    out
}

/// CastToBool
fn ref_bool(data: &[u8]) -> bool {
    for i in 0..data.len() {
        if data[i] != 0 {
            if i == data.len() - 1 && data[i] == 0x80 {
                return false;
            }
            return true;
        }
    }
    false
}

fn ref_b(b: bool) -> Vec<u8> {
    if b {
        vec![1]
    } else {
        vec![]
    }
}

fn ref_lshift(x: &[u8], n: usize) -> Vec<u8> {
    // whole string is one big-endian bit string
    let total = x.len() * 8;
    let mut out = vec![0u8; x.len()];
    for bit in 0..total {
        // bit 0 = most significant bit of byte 0
        let src = bit.checked_add(n);
        if let Some(src) = src {
            if src < total && (x[src / 8] >> (7 - src % 8)) & 1 == 1 {
                out[bit / 8] |= 1 << (7 - bit % 8);
            }
        }
    }
    out
}

fn ref_rshift(x: &[u8], n: usize) -> Vec<u8> {
    let total = x.len() * 8;
    let mut out = vec![0u8; x.len()];
    for bit in 0..total {
        if bit >= n {
            let src = bit - n;
            if (x[src / 8] >> (7 - src % 8)) & 1 == 1 {
                out[bit / 8] |= 1 << (7 - bit % 8);
            }
        }
    }
    out
}

fn sha256(d: &[u8]) -> Vec<u8> {
    use sha2::Digest;
    sha2::Sha256::digest(d).to_vec()
}
fn sha1(d: &[u8]) -> Vec<u8> {
    use sha1::Digest;
    sha1::Sha1::digest(d).to_vec()
}
fn ripemd(d: &[u8]) -> Vec<u8> {
    use ripemd160::Digest;
    ripemd160::Ripemd160::digest(d).to_vec()
}

type Stacks = (Vec<Vec<u8>>, Vec<Vec<u8>>);

thread_local! {
    static ENDED_AT_TOP_LEVEL_RETURN: std::cell::Cell<bool> = std::cell::Cell::new(false);
    static TRACE: std::cell::RefCell<Vec<Stacks>> = std::cell::RefCell::new(vec![]);
}

/// Reference EvalScript (post-Genesis): Ok((stack, altstack)) when the script runs without a script error
fn ref_run(toks: &[Tok]) -> Result<Stacks, String> {
    let mut st: Vec<Vec<u8>> = vec![];
    let mut alt: Vec<Vec<u8>> = vec![];
    let mut vf_exec: Vec<bool> = vec![];
    let mut vf_else: Vec<bool> = vec![];
    let mut non_top_level_return = false;
    ENDED_AT_TOP_LEVEL_RETURN.with(|f| f.set(false));
    TRACE.with(|t| t.borrow_mut().clear());

    macro_rules! need {
        ($n:expr) => {
            if st.len() < $n {
                return Err(format!("invalid stack operation (need {})", $n));
            }
        };
    }
    macro_rules! pop {
        () => {
            st.pop().unwrap()
        };
    }

    for tok in toks {
        let f_exec = !vf_exec.iter().any(|b| !*b) && !non_top_level_return;
        match tok {
            Tok::Push(d) => {
                if f_exec {
                    st.push(d.clone());
                    TRACE.with(|t| t.borrow_mut().push((st.clone(), alt.clone())));
                }
            }
            Tok::Op(op) => {
                let op = *op;
                if !(f_exec || (OP_IF..=OP_ENDIF).contains(&op)) {
                    continue;
                }
                let traced = f_exec && op != OP_ELSE && op != OP_ENDIF && op != OP_RETURN;
                match op {
                    OP_0 => st.push(vec![]),
                    OP_1NEGATE => st.push(vec![0x81]),
                    OP_1..=OP_16 => st.push(vec![op - 80]),
                    OP_NOP | 176 | 179..=185 => {}
                    OP_IF | OP_NOTIF => {
                        let mut value = false;
                        if f_exec {
                            need!(1);
                            value = ref_bool(&pop!());
                            if op == OP_NOTIF {
                                value = !value;
                            }
                        }
                        vf_exec.push(value);
                        vf_else.push(true);
                    }
                    OP_ELSE => {
                        if vf_exec.is_empty() {
                            return Err("unbalanced: else".into());
                        }
                        if !*vf_else.last().unwrap() {
                            return Err("unbalanced: second else".into());
                        }
                        *vf_else.last_mut().unwrap() = false;
                        let l = vf_exec.len();
                        vf_exec[l - 1] = !vf_exec[l - 1];
                    }
                    OP_ENDIF => {
                        if vf_exec.is_empty() {
                            return Err("unbalanced: endif".into());
                        }
                        vf_exec.pop();
                        vf_else.pop();
                    }
                    OP_VERIFY => {
                        need!(1);
                        if !ref_bool(&pop!()) {
                            return Err("verify".into());
                        }
                    }
                    OP_RETURN => {
                        TRACE.with(|t| t.borrow_mut().push((st.clone(), alt.clone())));
                        if vf_exec.is_empty() {
                            ENDED_AT_TOP_LEVEL_RETURN.with(|f| f.set(true));
                            return Ok((st, alt));
                        }
                        non_top_level_return = true;
                        continue;
                    }
                    OP_TOALTSTACK => {
                        need!(1);
                        alt.push(pop!());
                    }
                    OP_FROMALTSTACK => {
                        if alt.is_empty() {
                            return Err("invalid altstack operation".into());
                        }
                        st.push(alt.pop().unwrap());
                    }
                    OP_2DROP => {
                        need!(2);
                        pop!();
                        pop!();
                    }
                    OP_2DUP => {
                        need!(2);
                        let l = st.len();
                        let (a, b) = (st[l - 2].clone(), st[l - 1].clone());
                        st.push(a);
                        st.push(b);
                    }
                    OP_3DUP => {
                        need!(3);
                        let l = st.len();
                        let (a, b, c) = (st[l - 3].clone(), st[l - 2].clone(), st[l - 1].clone());
                        st.push(a);
                        st.push(b);
                        st.push(c);
                    }
                    OP_2OVER => {
                        need!(4);
                        let l = st.len();
                        let (a, b) = (st[l - 4].clone(), st[l - 3].clone());
                        st.push(a);
                        st.push(b);
                    }
                    OP_2ROT => {
                        need!(6);
                        let l = st.len();
                        let a = st.remove(l - 6);
                        let b = st.remove(l - 6);
                        st.push(a);
                        st.push(b);
                    }
                    OP_2SWAP => {
                        need!(4);
                        let l = st.len();
                        st.swap(l - 4, l - 2);
                        st.swap(l - 3, l - 1);
                    }
                    OP_IFDUP => {
                        need!(1);
                        let t = st.last().unwrap().clone();
                        if ref_bool(&t) {
                            st.push(t);
                        }
                    }
                    OP_DEPTH => {
                        let d = ref_enc(&BigInt::from(st.len()));
                        st.push(d);
                    }
                    OP_DROP => {
                        need!(1);
                        pop!();
                    }
                    OP_DUP => {
                        need!(1);
                        let t = st.last().unwrap().clone();
                        st.push(t);
                    }
                    OP_NIP => {
                        need!(2);
                        let l = st.len();
                        st.remove(l - 2);
                    }
                    OP_OVER => {
                        need!(2);
                        let t = st[st.len() - 2].clone();
                        st.push(t);
                    }
                    OP_PICK | OP_ROLL => {
                        need!(2);
                        let n = ref_num(&pop!());
                        if n.is_negative() || n >= BigInt::from(st.len()) {
                            return Err("pick/roll range".into());
                        }
                        let n = n.to_usize().unwrap();
                        let idx = st.len() - 1 - n;
                        let v = st[idx].clone();
                        if op == OP_ROLL {
                            st.remove(idx);
                        }
                        st.push(v);
                    }
                    OP_ROT => {
                        need!(3);
                        let l = st.len();
                        let a = st.remove(l - 3);
                        st.push(a);
                    }
                    OP_SWAP => {
                        need!(2);
                        let l = st.len();
                        st.swap(l - 1, l - 2);
                    }
                    OP_TUCK => {
                        need!(2);
                        let l = st.len();
                        let t = st[l - 1].clone();
                        st.insert(l - 2, t);
                    }
                    OP_CAT => {
                        need!(2);
                        let b = pop!();
                        let mut a = pop!();
                        a.extend(b);
                        st.push(a);
                    }
                    OP_SPLIT => {
                        need!(2);
                        let n = ref_num(&pop!());
                        let x = pop!();
                        if n.is_negative() || n > BigInt::from(x.len()) {
                            return Err("split range".into());
                        }
                        let n = n.to_usize().unwrap();
                        st.push(x[..n].to_vec());
                        st.push(x[n..].to_vec());
                    }
                    OP_NUM2BIN => {
                        need!(2);
                        let n = ref_num(&pop!());
                        if n > BigInt::from(100_000) {
                            // the library allocates up to 2 GiB here (sizes above INT_MAX are clamped to INT_MAX, where
                            // Bitcoin SV fails with SCRIPT_ERR_PUSH_SIZE): not exercised on a shared machine
                            return Err("SKIP".into());
                        }
                        if n.is_negative() {
                            return Err("num2bin size".into());
                        }
                        let size = n.to_usize().unwrap();
                        let mut raw = ref_enc(&ref_num(&pop!()));
                        if raw.len() > size {
                            return Err("impossible encoding".into());
                        }
                        if raw.len() < size {
                            let mut sign = 0;
                            if let Some(l) = raw.last_mut() {
                                sign = *l & 0x80;
                                *l &= 0x7f;
                            }
                            while raw.len() < size - 1 {
                                raw.push(0);
                            }
                            raw.push(sign);
                        }
                        st.push(raw);
                    }
                    OP_BIN2NUM => {
                        need!(1);
                        let v = ref_enc(&ref_num(&pop!()));
                        st.push(v);
                    }
                    OP_SIZE => {
                        need!(1);
                        let v = ref_enc(&BigInt::from(st.last().unwrap().len()));
                        st.push(v);
                    }
                    OP_INVERT => {
                        need!(1);
                        let v: Vec<u8> = pop!().iter().map(|b| !b).collect();
                        st.push(v);
                    }
                    OP_AND | OP_OR | OP_XOR => {
                        need!(2);
                        let b = pop!();
                        let a = pop!();
                        if a.len() != b.len() {
                            return Err("operand size".into());
                        }
                        let v = a
                            .iter()
                            .zip(b.iter())
                            .map(|(x, y)| match op {
                                OP_AND => x & y,
                                OP_OR => x | y,
                                _ => x ^ y,
                            })
                            .collect();
                        st.push(v);
                    }
                    OP_EQUAL | OP_EQUALVERIFY => {
                        need!(2);
                        let b = pop!();
                        let a = pop!();
                        if op == OP_EQUAL {
                            st.push(ref_b(a == b));
                        } else if a != b {
                            return Err("equalverify".into());
                        }
                    }
                    OP_1ADD | OP_1SUB | OP_2MUL | OP_2DIV | OP_NEGATE | OP_ABS | OP_NOT | OP_0NOTEQUAL => {
                        need!(1);
                        let a = ref_num(&pop!());
                        let two = BigInt::from(2);
                        let r = match op {
                            OP_1ADD => ref_enc(&(a + 1)),
                            OP_1SUB => ref_enc(&(a - 1)),
                            OP_2MUL => ref_enc(&(a * two)),
                            OP_2DIV => {
                                // truncation toward zero
                                let q = a.abs() / two;
                                ref_enc(&if a.is_negative() { -q } else { q })
                            }
                            OP_NEGATE => ref_enc(&-a),
                            OP_ABS => ref_enc(&a.abs()),
                            OP_NOT => ref_b(a.is_zero()),
                            _ => ref_b(!a.is_zero()),
                        };
                        st.push(r);
                    }
                    OP_ADD | OP_SUB | OP_MUL | OP_DIV | OP_MOD | OP_BOOLAND | OP_BOOLOR | OP_NUMEQUAL | OP_NUMEQUALVERIFY | OP_NUMNOTEQUAL | OP_LESSTHAN | OP_GREATERTHAN
                    | OP_LESSTHANOREQUAL | OP_GREATERTHANOREQUAL | OP_MIN | OP_MAX => {
                        need!(2);
                        let b = ref_num(&pop!());
                        let a = ref_num(&pop!());
                        let r = match op {
                            OP_ADD => ref_enc(&(a + b)),
                            OP_SUB => ref_enc(&(a - b)),
                            OP_MUL => ref_enc(&(a * b)),
                            OP_DIV | OP_MOD => {
                                if b.is_zero() {
                                    return Err("div by zero".into());
                                }
                                // truncated division computed on magnitudes, independent of BigInt's operator semantics
                                let q = a.abs() / b.abs();
                                let q = if a.is_negative() != b.is_negative() { -q } else { q };
                                let r = &a - &q * &b;
                                if op == OP_DIV {
                                    ref_enc(&q)
                                } else {
                                    ref_enc(&r)
                                }
                            }
                            OP_BOOLAND => ref_b(!a.is_zero() && !b.is_zero()),
                            OP_BOOLOR => ref_b(!a.is_zero() || !b.is_zero()),
                            OP_NUMEQUAL => ref_b(a == b),
                            OP_NUMEQUALVERIFY => {
                                if a != b {
                                    return Err("numequalverify".into());
                                }
                                TRACE.with(|t| t.borrow_mut().push((st.clone(), alt.clone())));
                                continue;
                            }
                            OP_NUMNOTEQUAL => ref_b(a != b),
                            OP_LESSTHAN => ref_b(a < b),
                            OP_GREATERTHAN => ref_b(a > b),
                            OP_LESSTHANOREQUAL => ref_b(a <= b),
                            OP_GREATERTHANOREQUAL => ref_b(a >= b),
                            OP_MIN => ref_enc(if a < b { &a } else { &b }),
                            _ => ref_enc(if a > b { &a } else { &b }),
                        };
                        st.push(r);
                    }
                    OP_LSHIFT | OP_RSHIFT => {
                        need!(2);
                        let n = ref_num(&pop!());
                        if n.is_negative() {
                            return Err("shift negative".into());
                        }
                        let x = pop!();
                        let n = n.to_usize().unwrap_or(usize::MAX);
                        st.push(if op == OP_LSHIFT { ref_lshift(&x, n) } else { ref_rshift(&x, n) });
                    }
                    OP_WITHIN => {
                        need!(3);
                        let max = ref_num(&pop!());
                        let min = ref_num(&pop!());
                        let x = ref_num(&pop!());
                        st.push(ref_b(min <= x && x < max));
                    }
                    OP_RIPEMD160 | OP_SHA1 | OP_SHA256 | OP_HASH160 | OP_HASH256 => {
                        need!(1);
                        let d = pop!();
                        st.push(match op {
                            OP_RIPEMD160 => ripemd(&d),
                            OP_SHA1 => sha1(&d),
                            OP_SHA256 => sha256(&d),
                            OP_HASH160 => ripemd(&sha256(&d)),
                            _ => sha256(&sha256(&d)),
                        });
                    }
                    other => return Err(format!("bad opcode {}", other)),
                }
                if traced {
                    TRACE.with(|t| t.borrow_mut().push((st.clone(), alt.clone())));
                }
            }
        }
    }
    if !vf_exec.is_empty() {
        return Err("unbalanced at end".into());
    }
    Ok((st, alt))
}

// ---------------------------------------------------------------------------------------------
// Library drivers
// ---------------------------------------------------------------------------------------------

fn tok_bytes(toks: &[Tok]) -> Vec<u8> {
    let mut out = vec![];
    for t in toks {
        match t {
            Tok::Op(o) => out.push(*o),
            Tok::Push(d) => {
                if d.is_empty() {
                    out.push(0);
                } else if d.len() < 76 {
                    out.push(d.len() as u8);
                    out.extend(d);
                } else if d.len() < 256 {
                    out.push(76);
                    out.push(d.len() as u8);
                    out.extend(d);
                } else {
                    out.push(77);
                    out.extend((d.len() as u16).to_le_bytes());
                    out.extend(d);
                }
            }
        }
    }
    out
}

fn tok_bits(toks: &[Tok]) -> Vec<ScriptBit> {
    toks.iter()
        .map(|t| match t {
            Tok::Op(o) => ScriptBit::OpCode(OpCodes::from_u8(*o).expect("opcode")),
            Tok::Push(d) if d.is_empty() => ScriptBit::OpCode(OpCodes::OP_0),
            Tok::Push(d) if d.len() < 76 => ScriptBit::Push(d.clone()),
            Tok::Push(d) if d.len() < 256 => ScriptBit::PushData(OpCodes::OP_PUSHDATA1, d.clone()),
            Tok::Push(d) => ScriptBit::PushData(OpCodes::OP_PUSHDATA2, d.clone()),
        })
        .collect()
}

/// Interpreter::run prints every state, which the test harness buffers: used sparingly
fn lib_run_script_with_run(script: &Script) -> Result<Stacks, String> {
    let mut i = Interpreter::from_script(script);
    match i.run() {
        Ok(()) => Ok((i.state().stack.clone(), i.state().alt_stack.clone())),
        Err(e) => Err(e.to_string()),
    }
}

fn lib_run_script(script: &Script) -> Result<Stacks, String> {
    lib_step_script(script)
}

/// Runs through Iterator::next, step by step
fn lib_step_script(script: &Script) -> Result<Stacks, String> {
    let mut i = Interpreter::from_script(script);
    let mut guard = 0;
    while let Some(r) = i.next() {
        if let Err(e) = r {
            return Err(e.to_string());
        }
        guard += 1;
        assert!(guard < 1_000_000, "stepping does not end");
    }
    Ok((i.state().stack.clone(), i.state().alt_stack.clone()))
}

/// Parsed from bytes
fn lib_bytes(toks: &[Tok]) -> Result<Stacks, String> {
    let script = Script::from_bytes(&tok_bytes(toks)).map_err(|e| format!("PARSE: {}", e))?;
    lib_run_script(&script)
}

/// Built element by element
fn lib_bits(toks: &[Tok]) -> Result<Stacks, String> {
    lib_run_script(&Script::from_script_bits(tok_bits(toks)))
}

fn is_skip(r: &Result<Stacks, String>) -> bool {
    matches!(r, Err(e) if e == "SKIP")
}

fn same(a: &Result<Stacks, String>, b: &Result<Stacks, String>) -> bool {
    match (a, b) {
        (Ok(x), Ok(y)) => x == y,
        (Err(_), Err(_)) => true,
        _ => false,
    }
}

fn show(toks: &[Tok]) -> String {
    toks.iter()
        .map(|t| match t {
            Tok::Op(o) => OpCodes::from_u8(*o).map(|c| c.to_string()).unwrap_or(format!("0x{:02x}", o)),
            Tok::Push(d) => format!("<{}>", hex::encode(d)),
        })
        .collect::<Vec<_>>()
        .join(" ")
}

fn p(d: &[u8]) -> Tok {
    Tok::Push(d.to_vec())
}
fn o(c: u8) -> Tok {
    Tok::Op(c)
}

/// All routes against the reference; returns a description of the first mismatch
fn check_all(toks: &[Tok]) -> Option<String> {
    let want = ref_run(toks);
    if is_skip(&want) {
        return None;
    }
    static CALLS: std::sync::atomic::AtomicUsize = std::sync::atomic::AtomicUsize::new(0);
    let mut routes: Vec<(&str, Result<Stacks, String>)> = vec![("from_bytes+next", lib_bytes(toks)), ("from_script_bits+next", lib_bits(toks))];
    if CALLS.fetch_add(1, std::sync::atomic::Ordering::Relaxed) % 64 == 0 {
        routes.push(("from_script_bits+run", lib_run_script_with_run(&Script::from_script_bits(tok_bits(toks)))));
    }
    for (name, got) in routes {
        if !same(&got, &want) {
            return Some(format!("script [{}] via {}: library {:?}, Bitcoin SV semantics {:?}", show(toks), name, got, want));
        }
    }
    None
}

struct Rng(u64);
impl Rng {
    fn next(&mut self) -> u64 {
        self.0 ^= self.0 << 13;
        self.0 ^= self.0 >> 7;
        self.0 ^= self.0 << 17;
        self.0
    }
    fn below(&mut self, n: usize) -> usize {
        (self.next() % n as u64) as usize
    }
}

fn alphabet() -> Vec<Vec<u8>> {
    vec![
        vec![],
        vec![0x00],
        vec![0x80],
        vec![0x00, 0x00],
        vec![0x00, 0x80],
        vec![0x01],
        vec![0x81],
        vec![0x02],
        vec![0x03],
        vec![0x7f],
        vec![0xff],
        vec![0x80, 0x00],
        vec![0x80, 0x80],
        vec![0xff, 0x7f],
        vec![0xff, 0xff],
        vec![0x01, 0x00],
        vec![0x01, 0x80],
        vec![0x01, 0x00, 0x00, 0x00, 0x00],
        vec![0x01, 0x00, 0x00, 0x00, 0x80],
        vec![0xff, 0xff, 0xff, 0x7f],
        vec![0xff, 0xff, 0xff, 0xff],
        vec![0x00, 0x00, 0x00, 0x80, 0x00],
        vec![0x00, 0x00, 0x00, 0x80, 0x80],
        vec![0xff, 0xff, 0xff, 0xff, 0xff, 0xff, 0xff, 0x7f],
        vec![0xff, 0xff, 0xff, 0xff, 0xff, 0xff, 0xff, 0xff],
        vec![0x00, 0x00, 0x00, 0x00, 0x00, 0x00, 0x00, 0x80, 0x00],
        vec![0x12, 0x34, 0x56, 0x78, 0x9a, 0xbc, 0xde, 0xf0, 0x11, 0x22, 0x33],
        vec![0xab; 40],
        (0..100u8).collect(),
    ]
}

fn all_ops() -> Vec<u8> {
    let mut v: Vec<u8> = vec![OP_0, OP_1NEGATE, OP_NOP, OP_VERIFY];
    v.extend(OP_1..=OP_16);
    v.extend(OP_TOALTSTACK..=OP_TUCK);
    v.extend(OP_CAT..=OP_EQUALVERIFY);
    v.extend(OP_1ADD..=OP_HASH256);
    v
}

fn arity(op: u8) -> usize {
    match op {
        OP_0 | OP_1NEGATE | OP_NOP | OP_DEPTH | OP_FROMALTSTACK => 0,
        OP_1..=OP_16 => 0,
        OP_2ROT => 6,
        OP_2OVER | OP_2SWAP => 4,
        OP_3DUP | OP_ROT | OP_WITHIN => 3,
        OP_2DROP | OP_2DUP | OP_NIP | OP_OVER | OP_PICK | OP_ROLL | OP_SWAP | OP_TUCK | OP_CAT | OP_SPLIT | OP_NUM2BIN | OP_AND | OP_OR | OP_XOR | OP_EQUAL | OP_EQUALVERIFY => 2,
        OP_ADD..=OP_MAX => 2,
        _ => 1,
    }
}


// ---------------------------------------------------------------------------------------------
// Experiments
// ---------------------------------------------------------------------------------------------

fn report(fails: Vec<String>, what: &str) {
    assert!(fails.is_empty(), "{}: {} mismatches, first ones:\n{}", what, fails.len(), fails.iter().take(8).cloned().collect::<Vec<_>>().join("\n"));
}

/// E1: every opcode on every stack of 0..=2 items from the alphabet (and arity+1 deep stacks below)
#[test]
fn ok_exhaustive_up_to_two_operands() {
    let alpha = alphabet();
    let mut fails = vec![];
    for op in all_ops() {
        let mut stacks: Vec<Vec<Vec<u8>>> = vec![vec![]];
        for a in &alpha {
            stacks.push(vec![a.clone()]);
            for b in &alpha {
                stacks.push(vec![a.clone(), b.clone()]);
            }
        }
        for st in stacks {
            let mut toks: Vec<Tok> = st.iter().map(|d| p(d)).collect();
            toks.push(o(op));
            let want = ref_run(&toks);
            if is_skip(&want) {
                continue;
            }
            let got = lib_bits(&toks);
            if !same(&got, &want) {
                fails.push(format!("[{}]: library {:?}, expected {:?}", show(&toks), got, want));
            }
        }
    }
    report(fails, "exhaustive 0..2 operands");
}

/// E2: three-operand stacks for the opcodes that look that deep, over a smaller alphabet
#[test]
fn ok_exhaustive_three_operands() {
    let alpha: Vec<Vec<u8>> = alphabet().into_iter().take(24).collect();
    let mut fails = vec![];
    for op in all_ops().into_iter().filter(|op| arity(*op) >= 2) {
        for a in &alpha {
            for b in &alpha {
                for c in &alpha {
                    let toks = vec![p(a), p(b), p(c), o(op)];
                    let want = ref_run(&toks);
                    if is_skip(&want) {
                        continue;
                    }
                    let got = lib_bits(&toks);
                    if !same(&got, &want) {
                        fails.push(format!("[{}]: library {:?}, expected {:?}", show(&toks), got, want));
                    }
                }
            }
        }
    }
    report(fails, "exhaustive 3 operands");
}

/// E3: deep-stack opcodes (2OVER, 2SWAP, 2ROT, PICK, ROLL) on stacks of 0..=7 distinguishable items
#[test]
fn ok_deep_stack_ops() {
    let mut fails = vec![];
    for op in [OP_2OVER, OP_2SWAP, OP_2ROT, OP_3DUP, OP_ROT, OP_TUCK, OP_NIP, OP_OVER, OP_2DUP, OP_2DROP, OP_DEPTH, OP_SWAP] {
        for depth in 0..=7u8 {
            let mut toks: Vec<Tok> = (0..depth).map(|i| p(&[0x10 + i, 0xaa])).collect();
            toks.push(o(op));
            if let Some(f) = check_all(&toks) {
                fails.push(f);
            }
        }
    }
    for op in [OP_PICK, OP_ROLL] {
        for depth in 0..=5u8 {
            for idx in alphabet() {
                let mut toks: Vec<Tok> = (0..depth).map(|i| p(&[0x10 + i, 0xaa])).collect();
                toks.push(p(&idx));
                toks.push(o(op));
                if let Some(f) = check_all(&toks) {
                    fails.push(f);
                }
            }
        }
    }
    report(fails, "deep stack ops");
}

fn random_value(rng: &mut Rng) -> Vec<u8> {
    let alpha = alphabet();
    match rng.below(4) {
        0 => alpha[rng.below(alpha.len())].clone(),
        1 => vec![rng.below(256) as u8],
        2 => {
            let n = rng.below(12);
            (0..n).map(|_| rng.below(256) as u8).collect()
        }
        _ => vec![rng.below(6) as u8],
    }
}

/// Random balanced-or-not program with conditionals and OP_RETURN
fn random_program(rng: &mut Rng, len: usize, cond_weight: usize, ret_weight: usize) -> Vec<Tok> {
    let ops = all_ops();
    let mut toks = vec![];
    let mut open = 0usize;
    for _ in 0..len {
        let r = rng.below(100);
        if r < 35 {
            toks.push(p(&random_value(rng)));
        } else if r < 35 + cond_weight {
            match rng.below(10) {
                0..=3 => {
                    toks.push(p(&random_value(rng)));
                    toks.push(o(if rng.below(2) == 0 { OP_IF } else { OP_NOTIF }));
                    open += 1;
                }
                4..=5 => toks.push(o(OP_ELSE)),
                _ => {
                    toks.push(o(OP_ENDIF));
                    open = open.saturating_sub(1);
                }
            }
        } else if r < 35 + cond_weight + ret_weight {
            toks.push(o(OP_RETURN));
        } else {
            toks.push(o(ops[rng.below(ops.len())]));
        }
    }
    // mostly close what is open
    if rng.below(10) != 0 {
        for _ in 0..open {
            toks.push(o(OP_ENDIF));
        }
    }
    toks
}

/// E4: random straight-line programs
#[test]
fn ok_random_straight_line_programs() {
    let mut rng = Rng(0x9e3779b97f4a7c15);
    let mut fails = vec![];
    for _ in 0..30000 {
        let len = 1 + rng.below(14);
        let toks = random_program(&mut rng, len, 0, 0);
        if let Some(f) = check_all(&toks) {
            fails.push(f);
        }
    }
    report(fails, "random straight-line programs");
}

/// E5: random programs with conditionals but without OP_RETURN
#[test]
fn ok_random_conditional_programs() {
    let mut rng = Rng(0x1234567);
    let mut fails = vec![];
    for _ in 0..30000 {
        let len = 1 + rng.below(16);
        let toks = random_program(&mut rng, len, 30, 0);
        if let Some(f) = check_all(&toks) {
            fails.push(f);
        }
    }
    report(fails, "random conditional programs");
}

/// E6: random programs with conditionals and OP_RETURN, element-built route only (from_bytes refuses some by design of the parser)
#[test]
fn ok_random_conditional_return_programs_element_built_other_than_known() {
    let mut rng = Rng(0xabcdef01);
    let mut fails = vec![];
    for _ in 0..200000 {
        let len = 1 + rng.below(14);
        let toks = random_program(&mut rng, len, 35, 8);
        let want = ref_run(&toks);
        if is_skip(&want) {
            continue;
        }
        let got = lib_bits(&toks);
        let known = v1_shape(&toks) && want.is_ok() && matches!(&got, Err(e) if e.contains("unbalanced"));
        if !same(&got, &want) && !known {
            fails.push((toks.len(), format!("[{}] element-built: library {:?}, expected {:?}", show(&toks), got, want)));
        }
    }
    fails.sort();
    report(fails.into_iter().map(|f| f.1).collect(), "random conditional+return programs (element-built)");
}

/// E7: same through from_bytes
#[test]
fn ok_random_conditional_return_programs_from_bytes_other_than_known() {
    let mut rng = Rng(0x77777);
    let mut fails = vec![];
    for _ in 0..200000 {
        let len = 1 + rng.below(14);
        let toks = random_program(&mut rng, len, 35, 8);
        let want = ref_run(&toks);
        if is_skip(&want) {
            continue;
        }
        let got = lib_bytes(&toks);
        let known = want.is_ok() && toks.contains(&o(OP_RETURN)) && matches!(&got, Err(e) if e.starts_with("PARSE"));
        if !same(&got, &want) && !known {
            fails.push((toks.len(), format!("[{}] from_bytes: library {:?}, expected {:?}", show(&toks), got, want)));
        }
    }
    fails.sort();
    report(fails.into_iter().map(|f| f.1).collect(), "random conditional+return programs (from_bytes)");
}

// ---------------------------------------------------------------------------------------------
// Violations
// ---------------------------------------------------------------------------------------------

/// V1. Element-built script: an executed OP_RETURN inside a taken branch, then (after the block) a top-level OP_RETURN followed by a
/// balanced conditional. Bitcoin SV (post-Genesis EvalScript): the OP_RETURN inside the branch only stops execution
/// (nonTopLevelReturnAfterGenesis), the rest is scanned for IF/ELSE/ENDIF balance only; the later OP_RETURN is not executed;
/// OP_IF OP_ENDIF balances; the script succeeds with stack []. The same script read from its bytes succeeds in the library.
#[test]
fn violation_element_built_return_in_branch_then_top_level_return_then_conditional() {
    let toks = vec![o(OP_1), o(OP_IF), o(OP_RETURN), o(OP_ENDIF), o(OP_RETURN), o(OP_IF), o(OP_ENDIF)];
    let want = ref_run(&toks);
    assert_eq!(want, Ok((vec![], vec![])), "reference sanity");
    let parsed = lib_bytes(&toks);
    let built = lib_bits(&toks);
    assert!(
        same(&built, &want),
        "script [{}] built with Script::from_script_bits: library {:?}; Bitcoin SV semantics {:?}; the same script via Script::from_bytes gives {:?}",
        show(&toks),
        built,
        want,
        parsed
    );
}

/// V1 through Script::push, with a value left on the stack and OP_NOTIF / OP_ELSE in the tail
#[test]
fn violation_element_built_return_in_branch_tail_after_top_level_return_push_route() {
    let toks = vec![o(OP_5), o(OP_1), o(OP_IF), o(OP_RETURN), o(OP_ENDIF), o(OP_RETURN), o(OP_NOTIF), o(OP_2), o(OP_ELSE), o(OP_3), o(OP_ENDIF)];
    let want = ref_run(&toks);
    assert_eq!(want, Ok((vec![vec![5]], vec![])), "reference sanity");
    let mut script = Script::default();
    for bit in tok_bits(&toks) {
        script.push(bit);
    }
    let got = lib_run_script(&script);
    assert!(same(&got, &want), "script [{}] built with Script::push: library {:?}; Bitcoin SV semantics {:?}", show(&toks), got, want);
}

fn lib_asm(toks: &[Tok]) -> Option<Result<Stacks, String>> {
    if toks.iter().any(|t| matches!(t, Tok::Push(d) if d.len() == 1 && (0x10..=0x16).contains(&d[0]))) {
        return None; // "10".."16" read back as OP_10..OP_16: an ASM matter, not C14
    }
    let asm = toks
        .iter()
        .map(|t| match t {
            Tok::Op(c) => OpCodes::from_u8(*c).unwrap().to_string(),
            Tok::Push(d) if d.is_empty() => "0".to_string(),
            Tok::Push(d) => hex::encode(d),
        })
        .collect::<Vec<_>>()
        .join(" ");
    Some(Script::from_asm_string(&asm).map_err(|e| format!("PARSE: {}", e)).and_then(|s| lib_run_script(&s)))
}

/// E8: programs with exactly one OP_RETURN anywhere: element-built has no known exclusions; from_bytes / from_asm_string only
/// exclude "parser refuses what follows an executed top-level OP_RETURN"
#[test]
fn ok_random_programs_with_one_return() {
    let mut rng = Rng(0x5151_5151);
    let mut fails = vec![];
    for _ in 0..200000 {
        let len = 1 + rng.below(12);
        let mut toks = random_program(&mut rng, len, 40, 0);
        let at = rng.below(toks.len() + 1);
        toks.insert(at, o(OP_RETURN));
        let want = ref_run(&toks);
        if is_skip(&want) {
            continue;
        }
        let top = ENDED_AT_TOP_LEVEL_RETURN.with(|f| f.get());
        let got = lib_bits(&toks);
        if !same(&got, &want) {
            fails.push((toks.len(), format!("[{}] element-built: library {:?}, expected {:?}", show(&toks), got, want)));
        }
        for (route, got) in [("from_bytes", Some(lib_bytes(&toks))), ("from_asm_string", lib_asm(&toks))] {
            if let Some(got) = got {
                let known = top && matches!(&got, Err(e) if e.starts_with("PARSE"));
                if !same(&got, &want) && !known {
                    fails.push((toks.len(), format!("[{}] {}: library {:?}, expected {:?}", show(&toks), route, got, want)));
                }
            }
        }
    }
    fails.sort();
    report(fails.into_iter().map(|f| f.1).collect(), "programs with one OP_RETURN");
}

/// E9: the state after every executed element (Iterator::next) equals the reference's state after the same element
#[test]
fn ok_step_by_step_states() {
    let mut rng = Rng(0xfeed_beef);
    let mut fails = vec![];
    for round in 0..100000 {
        let len = 1 + rng.below(14);
        let toks = random_program(&mut rng, len, if round % 2 == 0 { 30 } else { 0 }, if round % 4 == 0 { 5 } else { 0 });
        let want = ref_run(&toks);
        if is_skip(&want) {
            continue;
        }
        let trace: Vec<Stacks> = TRACE.with(|t| t.borrow().clone());
        let script = if round % 3 == 0 {
            match Script::from_bytes(&tok_bytes(&toks)) {
                Ok(s) => s,
                Err(_) => continue,
            }
        } else {
            Script::from_script_bits(tok_bits(&toks))
        };
        let mut i = Interpreter::from_script(&script);
        let mut states = vec![];
        let mut failed = false;
        while let Some(r) = i.next() {
            match r {
                Ok(state) => {
                    let observed = (i.state().stack.clone(), i.state().alt_stack.clone());
                    if (state.stack.clone(), state.alt_stack.clone()) != observed {
                        fails.push(format!("[{}]: yielded state differs from state()", show(&toks)));
                    }
                    states.push(observed)
                }
                Err(_) => {
                    failed = true;
                    break;
                }
            }
        }
        if failed != want.is_err() {
            continue; // outcome mismatches are the subject of the other experiments
        }
        // on failure the reference trace may hold fewer entries than executed (it fails inside the element); compare the common prefix
        let n = if failed { states.len().min(trace.len()) } else { states.len().max(trace.len()) };
        for k in 0..n {
            if states.get(k) != trace.get(k) {
                fails.push(format!("[{}]: after executed element #{} library {:?}, expected {:?}", show(&toks), k, states.get(k), trace.get(k)));
                break;
            }
        }
    }
    report(fails, "step by step states");
}

/// The shape of violation V1: an OP_RETURN inside a conditional, later a top-level OP_RETURN, and a conditional opcode after that
fn v1_shape(toks: &[Tok]) -> bool {
    let mut depth = 0usize;
    let mut inner_return = false;
    for (i, t) in toks.iter().enumerate() {
        match t {
            Tok::Op(OP_IF) | Tok::Op(OP_NOTIF) => depth += 1,
            Tok::Op(OP_ENDIF) => depth = depth.saturating_sub(1),
            Tok::Op(OP_RETURN) if depth > 0 => inner_return = true,
            Tok::Op(OP_RETURN) => return inner_return && toks[i + 1..].iter().any(|t| matches!(t, Tok::Op(OP_IF) | Tok::Op(OP_NOTIF) | Tok::Op(OP_ELSE) | Tok::Op(OP_ENDIF))),
            _ => {}
        }
    }
    false
}

#[derive(Clone, Debug)]
enum Node {
    Leaf(Tok),
    If(u8, Vec<Node>, Option<Vec<Node>>),
}

/// Own parser of well-formed token lists into a tree; None when not well-formed (stray / repeated else, unbalanced)
fn parse_tree(toks: &[Tok], pos: &mut usize, nested: bool) -> Option<(Vec<Node>, Option<u8>)> {
    let mut out = vec![];
    while *pos < toks.len() {
        let t = toks[*pos].clone();
        *pos += 1;
        match t {
            Tok::Op(c) if c == OP_IF || c == OP_NOTIF => {
                let (pass, end) = parse_tree(toks, pos, true)?;
                match end {
                    Some(OP_ENDIF) => out.push(Node::If(c, pass, None)),
                    Some(OP_ELSE) => {
                        let (fail, end) = parse_tree(toks, pos, true)?;
                        if end != Some(OP_ENDIF) {
                            return None;
                        }
                        out.push(Node::If(c, pass, Some(fail)));
                    }
                    _ => return None,
                }
            }
            Tok::Op(c) if c == OP_ELSE || c == OP_ENDIF => {
                if !nested {
                    return None;
                }
                return Some((out, Some(c)));
            }
            other => out.push(Node::Leaf(other)),
        }
    }
    if nested {
        None
    } else {
        Some((out, None))
    }
}

/// Emits the tree with every conditional randomly as a ScriptBit::If block or as plain opcodes
fn emit_mixed(nodes: &[Node], rng: &mut Rng, out: &mut Vec<ScriptBit>) {
    for n in nodes {
        match n {
            Node::Leaf(t) => out.extend(tok_bits(std::slice::from_ref(t))),
            Node::If(code, pass, fail) => {
                let code_op = OpCodes::from_u8(*code).unwrap();
                if rng.below(2) == 0 {
                    let mut pb = vec![];
                    emit_mixed(pass, rng, &mut pb);
                    let fb = fail.as_ref().map(|f| {
                        let mut fb = vec![];
                        emit_mixed(f, rng, &mut fb);
                        fb
                    });
                    out.push(ScriptBit::If { code: code_op, pass: pb, fail: fb });
                } else {
                    out.push(ScriptBit::OpCode(code_op));
                    emit_mixed(pass, rng, out);
                    if let Some(f) = fail {
                        out.push(ScriptBit::OpCode(OpCodes::OP_ELSE));
                        emit_mixed(f, rng, out);
                    }
                    out.push(ScriptBit::OpCode(OpCodes::OP_ENDIF));
                }
            }
        }
    }
}

/// E10: scripts holding a mixture of conditional blocks and plain conditional opcodes, at every depth
#[test]
fn ok_mixed_blocks_and_plain_conditionals() {
    let mut rng = Rng(0xc0ffee);
    let mut fails = vec![];
    let mut tried = 0;
    for round in 0..400000 {
        let len = 2 + rng.below(14);
        let toks = random_program(&mut rng, len, 45, if round % 3 == 0 { 6 } else { 0 });
        let mut pos = 0;
        let tree = match parse_tree(&toks, &mut pos, false) {
            Some((t, _)) => t,
            None => continue,
        };
        let want = ref_run(&toks);
        if is_skip(&want) {
            continue;
        }
        tried += 1;
        let mut bits = vec![];
        emit_mixed(&tree, &mut rng, &mut bits);
        assert_eq!(Script::from_script_bits(bits.clone()).to_bytes(), tok_bytes(&toks), "mixed form serialises to the same bytes");
        let got = lib_run_script(&Script::from_script_bits(bits.clone()));
        if !same(&got, &want) && !v1_shape(&toks) {
            fails.push((toks.len(), format!("[{}] as {:?}: library {:?}, expected {:?}", show(&toks), bits, got, want)));
        }
    }
    assert!(tried > 20000, "only {} well-formed programs", tried);
    fails.sort_by_key(|f| f.0);
    report(fails.into_iter().map(|f| f.1).collect(), "mixed blocks and plain conditionals");
}

// ---------------------------------------------------------------------------------------------
// Targeted experiments
// ---------------------------------------------------------------------------------------------

fn stack_of(r: &Result<Stacks, String>) -> Vec<String> {
    r.as_ref().expect("script runs").0.iter().map(hex::encode).collect()
}

/// E11: hand-computed big-number vectors (independent of the reference's BigInt code)
#[test]
fn ok_hand_computed_big_number_vectors() {
    // (a, b, op, expected) all as script-number hex
    let cases: Vec<(&str, &str, u8, &str)> = vec![
        // 2^64 * 2^64 = 2^128
        ("000000000000000001", "000000000000000001", OP_MUL, "0000000000000000000000000000000001"),
        // (2^63) encoded with a sign byte; -(2^63) * 2 = -(2^64)
        ("000000000000008080", "02", OP_MUL, "000000000000000081"),
        // 0xffffffff + 1 = 0x100000000
        ("ffffffff00", "01", OP_ADD, "0000000001"),
        // 2^31-1 + 1 = 2^31 needs five bytes
        ("ffffff7f", "01", OP_ADD, "0000008000"),
        // -(2^31-1) - 1 = -2^31
        ("ffffffff", "01", OP_SUB, "0000008080"),
        // 127 + 1 = 128 -> 8000
        ("7f", "01", OP_ADD, "8000"),
        // -127 - 1 = -128 -> 8080
        ("ff", "01", OP_SUB, "8080"),
        // 1 - 1 = 0 -> empty, -1 + 1 = 0 -> empty
        ("01", "01", OP_SUB, ""),
        ("81", "01", OP_ADD, ""),
        // -7 / 2 = -3 ; -7 % 2 = -1 ; 7 / -2 = -3 ; 7 % -2 = 1 ; -7 / -2 = 3 ; -7 % -2 = -1
        ("87", "02", OP_DIV, "83"),
        ("87", "02", OP_MOD, "81"),
        ("07", "82", OP_DIV, "83"),
        ("07", "82", OP_MOD, "01"),
        ("87", "82", OP_DIV, "03"),
        ("87", "82", OP_MOD, "81"),
        // -1 / 2 = 0 (not negative zero), -1 % 1 = 0
        ("81", "02", OP_DIV, ""),
        ("81", "01", OP_MOD, ""),
        // 2^72 / 2^8 = 2^64
        ("00000000000000000001", "0001", OP_DIV, "000000000000000001"),
        // non-minimal operands: 0x0100 (=1, padded) + negative zero
        ("010000", "0080", OP_ADD, "01"),
        // min / max with negative zero and padded numbers
        ("80", "0000", OP_MIN, ""),
        ("81", "0080", OP_MAX, ""),
        ("010000", "02", OP_MIN, "01"),
        // comparisons across widths
        ("ffffffffffffffff7f", "ffffffffffffffffff", OP_GREATERTHAN, "01"),
        ("ffffffffffffffffff", "ffffffffffffffff7f", OP_LESSTHAN, "01"),
        ("0000000000000000", "80", OP_NUMEQUAL, "01"),
        ("00", "", OP_NUMNOTEQUAL, ""),
        ("05", "05", OP_LESSTHANOREQUAL, "01"),
        ("05", "05", OP_GREATERTHANOREQUAL, "01"),
        ("05", "05", OP_LESSTHAN, ""),
        // booleans on blobs
        ("000000", "0080", OP_BOOLOR, ""),
        ("000001", "0080", OP_BOOLOR, "01"),
        ("000001", "0080", OP_BOOLAND, ""),
        ("000001", "80", OP_BOOLAND, ""),
        ("8000", "0100", OP_BOOLAND, "01"),
    ];
    let mut fails = vec![];
    for (a, b, op, want) in cases {
        let toks = vec![p(&hex::decode(a).unwrap()), p(&hex::decode(b).unwrap()), o(op)];
        for (route, got) in [("bytes", lib_bytes(&toks)), ("bits", lib_bits(&toks))] {
            match &got {
                Ok((st, alt)) if st.len() == 1 && hex::encode(&st[0]) == want && alt.is_empty() => {}
                _ => fails.push(format!("[{}] {}: library {:?}, expected [{}]", show(&toks), route, got, want)),
            }
        }
    }
    report(fails, "hand-computed vectors");
}

/// E12: unary hand vectors
#[test]
fn ok_hand_computed_unary_vectors() {
    let cases: Vec<(&str, u8, &str)> = vec![
        ("", OP_NEGATE, ""),
        ("80", OP_NEGATE, ""),
        ("0080", OP_NEGATE, ""),
        ("80", OP_ABS, ""),
        ("0000", OP_ABS, ""),
        ("ff", OP_ABS, "7f"),
        ("ffffffffff", OP_ABS, "ffffffff7f"),
        ("ffffffff7f", OP_NEGATE, "ffffffffff"),
        ("8000", OP_NEGATE, "8080"),
        ("7f", OP_1ADD, "8000"),
        ("ff", OP_1SUB, "8080"),
        ("81", OP_1ADD, ""),
        ("01", OP_1SUB, ""),
        ("", OP_1SUB, "81"),
        ("80", OP_1ADD, "01"),
        ("ffffff7f", OP_1ADD, "0000008000"),
        ("", OP_NOT, "01"),
        ("80", OP_NOT, "01"),
        ("000080", OP_NOT, "01"),
        ("02", OP_NOT, ""),
        ("0100", OP_NOT, ""),
        ("81", OP_NOT, ""),
        ("80", OP_0NOTEQUAL, ""),
        ("0200", OP_0NOTEQUAL, "01"),
        ("0000000000000000000080", OP_0NOTEQUAL, ""),
        ("0000000000000000000100", OP_0NOTEQUAL, "01"),
        ("40", OP_2MUL, "8000"),
        ("c0", OP_2MUL, "8080"),
        ("83", OP_2DIV, "81"),
        ("81", OP_2DIV, ""),
        ("010000", OP_BIN2NUM, "01"),
        ("010080", OP_BIN2NUM, "81"),
        ("800000", OP_BIN2NUM, "8000"),
        ("800080", OP_BIN2NUM, "8080"),
        ("000080", OP_BIN2NUM, ""),
        ("80", OP_BIN2NUM, ""),
        ("ff00", OP_BIN2NUM, "ff00"),
        ("ff7f", OP_INVERT, "0080"),
        ("", OP_INVERT, ""),
        ("", OP_SIZE, ""),
        // hashes of the empty string
        ("", OP_SHA256, "e3b0c44298fc1c149afbf4c8996fb92427ae41e4649b934ca495991b7852b855"),
        ("", OP_SHA1, "da39a3ee5e6b4b0d3255bfef95601890afd80709"),
        ("", OP_RIPEMD160, "9c1185a5c5e9fc54612808977ee8f548b2258d31"),
        ("", OP_HASH160, "b472a266d0bd89c13706a4132ccfb16f7c3b9fcb"),
        ("", OP_HASH256, "5df6e0e2761359d30a8275058e299fcc0381534545f55cf43e41983f5d4c9456"),
        // "abc"
        ("616263", OP_SHA256, "ba7816bf8f01cfea414140de5dae2223b00361a396177a9cb410ff61f20015ad"),
        ("616263", OP_SHA1, "a9993e364706816aba3e25717850c26c9cd0d89d"),
        ("616263", OP_RIPEMD160, "8eb208f7e05d987a9b044a8e98c6b087f15a0bfc"),
    ];
    let mut fails = vec![];
    for (a, op, want) in cases {
        let toks = vec![p(&hex::decode(a).unwrap()), o(op)];
        for (route, got) in [("bytes", lib_bytes(&toks)), ("bits", lib_bits(&toks))] {
            let last = got.as_ref().ok().and_then(|(st, _)| st.last().map(hex::encode));
            let expected_depth = if op == OP_SIZE { 2 } else { 1 };
            if last.as_deref() != Some(want) || got.as_ref().unwrap().0.len() != expected_depth {
                fails.push(format!("[{}] {}: library {:?}, expected top [{}]", show(&toks), route, got, want));
            }
        }
    }
    report(fails, "unary hand vectors");
}

/// E13: OP_LSHIFT / OP_RSHIFT hand vectors: the byte string is one big-endian bit string
#[test]
fn ok_shift_hand_vectors() {
    let cases: Vec<(&str, &str, u8, &str)> = vec![
        ("0001", "01", OP_LSHIFT, "0002"),
        ("0080", "01", OP_LSHIFT, "0100"),
        ("8000", "01", OP_LSHIFT, "0000"),
        ("0100", "01", OP_RSHIFT, "0080"),
        ("0001", "01", OP_RSHIFT, "0000"),
        ("123456", "04", OP_LSHIFT, "234560"),
        ("123456", "04", OP_RSHIFT, "012345"),
        ("123456", "08", OP_LSHIFT, "345600"),
        ("123456", "0c", OP_RSHIFT, "000123"),
        ("123456", "18", OP_RSHIFT, "000000"),
        ("123456", "17", OP_RSHIFT, "000000"),
        ("923456", "17", OP_RSHIFT, "000001"),
        ("123457", "17", OP_LSHIFT, "800000"),
        ("ffffff", "ffffffffffffffff7f", OP_LSHIFT, "000000"),
        ("ffffff", "0000000001", OP_RSHIFT, "000000"),
        ("ffffff", "", OP_LSHIFT, "ffffff"),
        ("ffffff", "80", OP_RSHIFT, "ffffff"),
        ("ffffff", "0100", OP_RSHIFT, "7fffff"),
        ("", "05", OP_LSHIFT, ""),
    ];
    let mut fails = vec![];
    for (a, b, op, want) in cases {
        let toks = vec![p(&hex::decode(a).unwrap()), p(&hex::decode(b).unwrap()), o(op)];
        let got = lib_bits(&toks);
        match &got {
            Ok((st, _)) if st.len() == 1 && hex::encode(&st[0]) == want => {}
            _ => fails.push(format!("[{}]: library {:?}, expected [{}]", show(&toks), got, want)),
        }
    }
    for neg in ["81", "0180", "ffffffffff"] {
        let toks = vec![p(&[0xff]), p(&hex::decode(neg).unwrap()), o(OP_LSHIFT)];
        if lib_bits(&toks).is_ok() {
            fails.push(format!("[{}]: must fail (negative shift)", show(&toks)));
        }
    }
    report(fails, "shift vectors");
}

/// E14: OP_NUM2BIN / OP_SPLIT / OP_CAT hand vectors
#[test]
fn ok_splice_hand_vectors() {
    let ok_cases: Vec<(Vec<&str>, u8, Vec<&str>)> = vec![
        (vec!["01", "04"], OP_NUM2BIN, vec!["01000000"]),
        (vec!["81", "04"], OP_NUM2BIN, vec!["01000080"]),
        (vec!["", "03"], OP_NUM2BIN, vec!["000000"]),
        (vec!["80", "03"], OP_NUM2BIN, vec!["000000"]),
        (vec!["80", ""], OP_NUM2BIN, vec![""]),
        (vec!["0000000080", "00"], OP_NUM2BIN, vec![""]),
        (vec!["0100000080", "01"], OP_NUM2BIN, vec!["81"]),
        (vec!["0100000080", "02"], OP_NUM2BIN, vec!["0180"]),
        (vec!["ff00", "02"], OP_NUM2BIN, vec!["ff00"]),
        (vec!["ff00", "0300"], OP_NUM2BIN, vec!["ff0000"]),
        (vec!["ff80", "03"], OP_NUM2BIN, vec!["ff0080"]),
        (vec!["abcd", ""], OP_SPLIT, vec!["", "abcd"]),
        (vec!["abcd", "02"], OP_SPLIT, vec!["abcd", ""]),
        (vec!["abcd", "01"], OP_SPLIT, vec!["ab", "cd"]),
        (vec!["abcd", "0100000000"], OP_SPLIT, vec!["ab", "cd"]),
        (vec!["abcd", "80"], OP_SPLIT, vec!["", "abcd"]),
        (vec!["", ""], OP_SPLIT, vec!["", ""]),
        (vec!["ab", "cd"], OP_CAT, vec!["abcd"]),
        (vec!["", ""], OP_CAT, vec![""]),
        (vec!["", "cd"], OP_CAT, vec!["cd"]),
    ];
    let mut fails = vec![];
    for (ins, op, outs) in ok_cases {
        let mut toks: Vec<Tok> = ins.iter().map(|h| p(&hex::decode(h).unwrap())).collect();
        toks.push(o(op));
        let got = lib_bits(&toks);
        if got.as_ref().map(|(st, _)| st.iter().map(hex::encode).collect::<Vec<_>>()).ok() != Some(outs.iter().map(|s| s.to_string()).collect::<Vec<_>>()) {
            fails.push(format!("[{}]: library {:?}, expected {:?}", show(&toks), got, outs));
        }
    }
    let err_cases: Vec<(Vec<&str>, u8)> = vec![
        (vec!["ff00", "01"], OP_NUM2BIN),
        (vec!["01", "81"], OP_NUM2BIN),
        (vec!["01", ""], OP_NUM2BIN),
        (vec!["abcd", "03"], OP_SPLIT),
        (vec!["abcd", "81"], OP_SPLIT),
        (vec!["abcd", "ffffffffffffff7f"], OP_SPLIT),
        (vec!["abcd", "ffffffffffffffff"], OP_SPLIT),
        (vec!["abcd", "ab"], OP_AND),
        (vec!["", "00"], OP_OR),
        (vec!["05", ""], OP_DIV),
        (vec!["05", "80"], OP_MOD),
        (vec!["05", "000080"], OP_DIV),
    ];
    for (ins, op) in err_cases {
        let mut toks: Vec<Tok> = ins.iter().map(|h| p(&hex::decode(h).unwrap())).collect();
        toks.push(o(op));
        let got = lib_bits(&toks);
        if got.is_ok() {
            fails.push(format!("[{}]: library {:?}, expected failure", show(&toks), got));
        }
    }
    report(fails, "splice vectors");
}

/// E15: truthiness of every alphabet value through IF, NOTIF, VERIFY, IFDUP on all construction routes
#[test]
fn ok_truthiness_everywhere() {
    let mut fails = vec![];
    let mut values = alphabet();
    values.extend(vec![vec![0u8; 100], { let mut v = vec![0u8; 100]; v[99] = 0x80; v }, { let mut v = vec![0u8; 100]; v[0] = 0x80; v }, vec![0x80, 0x00], vec![0x00, 0x80, 0x00]]);
    for v in values {
        let truth = v.iter().enumerate().any(|(i, b)| *b != 0 && !(i == v.len() - 1 && *b == 0x80));
        let progs: Vec<(Vec<Tok>, Result<Vec<Vec<u8>>, ()>)> = vec![
            (vec![p(&v), o(OP_IF), o(OP_2), o(OP_ELSE), o(OP_3), o(OP_ENDIF)], Ok(vec![vec![if truth { 2 } else { 3 }]])),
            (vec![p(&v), o(OP_NOTIF), o(OP_2), o(OP_ELSE), o(OP_3), o(OP_ENDIF)], Ok(vec![vec![if truth { 3 } else { 2 }]])),
            (vec![p(&v), o(OP_IF), o(OP_2), o(OP_ENDIF)], Ok(if truth { vec![vec![2]] } else { vec![] })),
            (vec![p(&v), o(OP_NOTIF), o(OP_2), o(OP_ENDIF)], Ok(if truth { vec![] } else { vec![vec![2]] })),
            (vec![o(OP_5), p(&v), o(OP_VERIFY)], if truth { Ok(vec![vec![5]]) } else { Err(()) }),
            (vec![p(&v), o(OP_IFDUP)], Ok(if truth { vec![v.clone(), v.clone()] } else { vec![v.clone()] })),
            (vec![p(&v), o(OP_DUP), o(OP_EQUALVERIFY), o(OP_4)], Ok(vec![vec![4]])),
        ];
        for (toks, want) in progs {
            let mut routes = vec![("bytes", lib_bytes(&toks)), ("bits", lib_bits(&toks)), ("run", lib_run_script_with_run(&Script::from_script_bits(tok_bits(&toks))))];
            if let Some(r) = lib_asm(&toks) {
                routes.push(("asm", r));
            }
            for (route, got) in routes {
                let good = match (&got, &want) {
                    (Ok((st, alt)), Ok(w)) => st == w && alt.is_empty(),
                    (Err(_), Err(())) => true,
                    _ => false,
                };
                if !good {
                    fails.push(format!("[{}] {}: library {:?}, expected {:?}", show(&toks), route, got, want));
                }
            }
        }
    }
    report(fails, "truthiness");
}

/// E16: push forms: OP_PUSHDATA1/2/4 with short and empty data feed conditionals like any push
#[test]
fn ok_pushdata_forms() {
    let cases: Vec<(&str, Vec<&str>)> = vec![
        ("4c00 63 52 67 53 68", vec!["03"]),
        ("4d0000 64 52 67 53 68", vec!["02"]),
        ("4e00000000 63 52 67 53 68", vec!["03"]),
        ("4c0180 63 52 67 53 68", vec!["03"]),
        ("4d02000080 63 52 67 53 68", vec!["03"]),
        ("4d02008000 63 52 67 53 68", vec!["02"]),
        ("4e0100000001 63 4c03aabbcc 67 53 68", vec!["aabbcc"]),
        ("00 4c0100 87", vec![""]),
        ("4c00 4d0000 87", vec!["01"]),
    ];
    let mut fails = vec![];
    for (hexs, want) in cases {
        let bytes = hex::decode(hexs.replace(' ', "")).unwrap();
        let got = Script::from_bytes(&bytes).map_err(|e| e.to_string()).and_then(|s| lib_run_script(&s));
        if got.as_ref().map(|(st, _)| st.iter().map(hex::encode).collect::<Vec<_>>()).ok() != Some(want.iter().map(|s| s.to_string()).collect::<Vec<_>>()) {
            fails.push(format!("{}: library {:?}, expected {:?}", hexs, got, want));
        }
    }
    report(fails, "pushdata forms");
}

/// E17: alt stack is a separate LIFO; FROMALTSTACK on empty fails; order is preserved
#[test]
fn ok_alt_stack_moves() {
    let toks = vec![o(OP_1), o(OP_2), o(OP_3), o(OP_TOALTSTACK), o(OP_TOALTSTACK), o(OP_4), o(OP_FROMALTSTACK)];
    let got = lib_bits(&toks);
    assert_eq!(got, Ok((vec![vec![1], vec![4], vec![2]], vec![vec![3]])), "[{}]", show(&toks));
    assert!(lib_bits(&[o(OP_1), o(OP_FROMALTSTACK)]).is_err());
    assert!(lib_bits(&[o(OP_TOALTSTACK)]).is_err());
    // the alt stack survives a conditional and an OP_RETURN
    let toks = vec![o(OP_5), o(OP_TOALTSTACK), o(OP_1), o(OP_IF), o(OP_FROMALTSTACK), o(OP_DUP), o(OP_TOALTSTACK), o(OP_ENDIF), o(OP_RETURN), o(OP_FROMALTSTACK)];
    assert_eq!(lib_bits(&toks), Ok((vec![vec![5]], vec![vec![5]])), "[{}]", show(&toks));
    assert_eq!(lib_bytes(&toks), Ok((vec![vec![5]], vec![vec![5]])), "[{}]", show(&toks));
}

/// E18: conditionals nested 150 deep, every level taken / not taken, all routes
#[test]
fn ok_nesting_150_levels() {
    for taken in [true, false] {
        let mut toks = vec![];
        for _ in 0..150 {
            toks.push(o(if taken { OP_1 } else { OP_0 }));
            toks.push(o(if taken { OP_IF } else { OP_NOTIF }));
        }
        toks.push(o(OP_5));
        for _ in 0..150 {
            toks.push(o(OP_ELSE));
            toks.push(o(OP_4));
            toks.push(o(OP_ENDIF));
        }
        toks.push(o(OP_3));
        let want = ref_run(&toks);
        assert_eq!(want, Ok((vec![vec![5], vec![3]], vec![])));
        assert_eq!(lib_bytes(&toks), want);
        assert_eq!(lib_bits(&toks), want);
    }
    // first level not taken: nothing inside runs, the inner conditionals consume nothing
    let mut toks = vec![o(OP_0), o(OP_IF)];
    for _ in 0..100 {
        toks.push(o(OP_IF));
    }
    toks.push(o(OP_RETURN));
    for _ in 0..100 {
        toks.push(o(OP_ENDIF));
    }
    toks.push(o(OP_ENDIF));
    toks.push(o(OP_7));
    assert_eq!(lib_bytes(&toks), Ok((vec![vec![7]], vec![])));
    assert_eq!(lib_bits(&toks), Ok((vec![vec![7]], vec![])));
}

// ---------------------------------------------------------------------------------------------
// Borderline items (parser side of the execution property) and more V1 forms
// ---------------------------------------------------------------------------------------------

/// V1 with the conditional that holds the OP_RETURN already a block (parsed), the rest pushed behind it
#[test]
fn violation_parsed_block_then_pushed_top_level_return_and_conditional() {
    let mut script = Script::from_asm_string("OP_1 OP_IF OP_RETURN OP_ENDIF").unwrap();
    script.push(ScriptBit::OpCode(OpCodes::OP_RETURN));
    script.push(ScriptBit::OpCode(OpCodes::OP_1));
    script.push(ScriptBit::OpCode(OpCodes::OP_IF));
    script.push(ScriptBit::OpCode(OpCodes::OP_ENDIF));
    let toks = vec![o(OP_1), o(OP_IF), o(OP_RETURN), o(OP_ENDIF), o(OP_RETURN), o(OP_1), o(OP_IF), o(OP_ENDIF)];
    assert_eq!(script.to_bytes(), tok_bytes(&toks));
    let want = ref_run(&toks);
    assert_eq!(want, Ok((vec![], vec![])));
    let reparsed = lib_run_script(&Script::from_bytes(&script.to_bytes()).unwrap());
    let got = lib_run_script(&script);
    assert!(same(&got, &want), "script [{}] (parsed block + Script::push): library {:?}; Bitcoin SV semantics {:?}; re-read from its own bytes the library gives {:?}", show(&toks), got, want, reparsed);
}

/// Borderline B1: what follows an executed top-level OP_RETURN does not affect validity in Bitcoin SV ("even in presence of
/// unbalanced IFs"); Script::from_bytes / from_asm_string refuse such a script, so it can only be run when element-built
#[test]
fn borderline_parser_refuses_unbalanced_tail_after_top_level_return() {
    let toks = vec![o(OP_1), o(OP_RETURN), o(OP_IF)];
    assert_eq!(ref_run(&toks), Ok((vec![vec![1]], vec![])));
    assert_eq!(lib_bits(&toks), Ok((vec![vec![1]], vec![])), "element-built runs");
    let parsed = lib_bytes(&toks);
    assert!(same(&parsed, &ref_run(&toks)), "script 51 6a 63 [{}] via from_bytes: library {:?}; Bitcoin SV: success with stack [01]", show(&toks), parsed);
}

/// Borderline B2: bytes 00 63 6a 68 05 01 = OP_0 OP_IF OP_RETURN OP_ENDIF <push of 5 bytes, 1 present>. The OP_RETURN is in a branch
/// that is not taken, so Bitcoin SV goes on reading the script and fails on the truncated push (GetOp fails: SCRIPT_ERR_BAD_OPCODE).
/// The library's parser switches to lenient reading after ANY 0x6a byte and the script runs to success.
#[test]
fn borderline_truncated_push_after_unexecuted_return_runs() {
    let bytes = hex::decode("00636a680501").unwrap();
    let got = Script::from_bytes(&bytes).map_err(|e| format!("PARSE: {}", e)).and_then(|s| lib_run_script(&s));
    assert!(got.is_err(), "bytes 00636a680501: library {:?}; Bitcoin SV: failure (truncated push is reached by the script reader)", got);
}

/// Borderline B2b: the same with the OP_RETURN executed inside a taken branch: Bitcoin SV still scans the rest for balance, reads the
/// truncated push and fails
#[test]
fn borderline_truncated_push_after_return_in_taken_branch_runs() {
    let bytes = hex::decode("51636a680501").unwrap();
    let got = Script::from_bytes(&bytes).map_err(|e| format!("PARSE: {}", e)).and_then(|s| lib_run_script(&s));
    assert!(got.is_err(), "bytes 51636a680501: library {:?}; Bitcoin SV: failure (truncated push is reached by the script reader)", got);
}

/// Control for B2: a truncated push after an executed top-level OP_RETURN is never read by Bitcoin SV
#[test]
fn ok_truncated_push_after_top_level_return() {
    let bytes = hex::decode("516a0501").unwrap();
    let got = Script::from_bytes(&bytes).map_err(|e| format!("PARSE: {}", e)).and_then(|s| lib_run_script(&s));
    assert_eq!(got, Ok((vec![vec![1]], vec![])));
    // and without any OP_RETURN the parser refuses it
    assert!(Script::from_bytes(&hex::decode("510501").unwrap()).is_err());
}

/// Borderline B3 (NOT RUN: needs > 4 GiB): <01> <ffffffffffffff7f> OP_NUM2BIN. Bitcoin SV: size > INT_MAX is SCRIPT_ERR_PUSH_SIZE.
/// The library clamps the size to i32::MAX (pop_number) and builds a 2 GiB item (or aborts the process when memory runs out).
#[test]
#[ignore]
fn borderline_num2bin_size_above_int_max_is_clamped() {
    let toks = vec![p(&[1]), p(&hex::decode("ffffffffffffff7f").unwrap()), o(OP_NUM2BIN)];
    let got = lib_bits(&toks).map(|(st, _)| st.iter().map(|i| i.len()).collect::<Vec<_>>());
    assert!(got.is_err(), "[{}]: library builds items of lengths {:?}; Bitcoin SV fails (size above INT_MAX)", show(&toks), got);
}

/// E19: OP_SIZE / OP_DEPTH results across the 1-, 2-, 3- and 4-byte script number boundaries
#[test]
fn ok_size_and_depth_boundaries() {
    for (len, want) in [(127usize, "7f"), (128, "8000"), (255, "ff00"), (256, "0001"), (32767, "ff7f"), (32768, "008000"), (65535, "ffff00"), (65536, "000001"), (8388607, "ffff7f"), (8388608, "00008000")] {
        // build the item from a 1-byte push by CAT doubling plus remainder pushes, so that scripts stay small
        let mut toks = vec![p(&[0xee])];
        let mut have = 1usize;
        while have * 2 <= len {
            toks.push(o(OP_DUP));
            toks.push(o(OP_CAT));
            have *= 2;
        }
        // add the remainder by splitting a copy
        if have < len {
            let rest = len - have;
            toks.push(o(OP_DUP));
            toks.push(p(&ref_enc(&BigInt::from(rest))));
            toks.push(o(OP_SPLIT));
            toks.push(o(OP_DROP));
            toks.push(o(OP_CAT));
        }
        toks.push(o(OP_SIZE));
        toks.push(o(OP_NIP));
        let got = lib_bits(&toks);
        assert_eq!(stack_of(&got), vec![want.to_string()], "item of {} bytes, OP_SIZE", len);
    }
    for (depth, want) in [(0usize, ""), (1, "01"), (16, "10"), (127, "7f"), (128, "8000"), (300, "2c01")] {
        let mut toks: Vec<Tok> = (0..depth).map(|_| o(OP_1)).collect();
        toks.push(o(OP_DEPTH));
        let got = lib_bits(&toks);
        assert_eq!(got.as_ref().unwrap().0.len(), depth + 1);
        assert_eq!(hex::encode(got.unwrap().0.last().unwrap()), want, "depth {}", depth);
    }
}

/// E20: constants
#[test]
fn ok_numeric_constants() {
    let mut toks = vec![o(OP_0), o(OP_1NEGATE)];
    toks.extend((OP_1..=OP_16).map(o));
    let mut want: Vec<Vec<u8>> = vec![vec![], vec![0x81]];
    want.extend((1..=16u8).map(|n| vec![n]));
    assert_eq!(lib_bits(&toks), Ok((want.clone(), vec![])));
    assert_eq!(lib_bytes(&toks), Ok((want.clone(), vec![])));
    assert_eq!(lib_asm(&toks).unwrap(), Ok((want, vec![])));
    // OP_1NEGATE OP_ABS = 1, OP_16 OP_1ADD = 17, OP_1NEGATE OP_NEGATE OP_1 OP_EQUAL
    assert_eq!(stack_of(&lib_bits(&[o(OP_1NEGATE), o(OP_ABS), o(OP_16), o(OP_1ADD), o(OP_1NEGATE), o(OP_NEGATE), o(OP_1), o(OP_EQUAL)])), vec!["01", "11", "01"]);
}

/// Borderline B1b: data after an executed top-level OP_RETURN that is not well-formed script (a PUSHDATA1 running past the end, a byte
/// that is no opcode of the library) makes from_bytes refuse the whole script; Bitcoin SV never reads those bytes
#[test]
fn borderline_parser_refuses_data_after_top_level_return() {
    let mut refused = vec![];
    for h in ["516a4c0501", "516aba", "516a67", "006a4d"] {
        if let Err(e) = Script::from_bytes(&hex::decode(h).unwrap()) {
            refused.push(format!("{}: {}", h, e));
        }
    }
    assert!(refused.is_empty(), "Bitcoin SV runs these to success (nothing after an executed top-level OP_RETURN is read); from_bytes refuses: {:?}", refused);
}
