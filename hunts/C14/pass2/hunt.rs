// Second-pass hunt for C14: interpreter vs. Bitcoin SV script semantics (non-signature opcodes).
// Public API only. Oracle: `mod reference` below (own sign-magnitude arithmetic, raw script bytes, vfExec-style
// conditionals exactly as in the BSV node's EvalScript after Genesis) plus hand-computed values.
#![allow(clippy::all)]
use bsv::*;
use num_traits::FromPrimitive;
use std::collections::BTreeMap;

type Stacks = (Vec<Vec<u8>>, Vec<Vec<u8>>);

// ------------------------------------------------------------------------------------------------
// Reference interpreter (independent of the library)
// ------------------------------------------------------------------------------------------------
mod reference {
    use std::cmp::Ordering;

    /// Sign-magnitude integer, magnitude little-endian base 256 without trailing zero bytes (zero = empty).
    #[derive(Clone, Debug, PartialEq, Eq)]
    pub struct Num {
        pub neg: bool,
        pub mag: Vec<u8>,
    }

    fn trim(mut m: Vec<u8>) -> Vec<u8> {
        while m.last() == Some(&0) {
            m.pop();
        }
        m
    }
    fn cmp_mag(a: &[u8], b: &[u8]) -> Ordering {
        if a.len() != b.len() {
            return a.len().cmp(&b.len());
        }
        for i in (0..a.len()).rev() {
            if a[i] != b[i] {
                return a[i].cmp(&b[i]);
            }
        }
        Ordering::Equal
    }
    fn add_mag(a: &[u8], b: &[u8]) -> Vec<u8> {
        let mut out = vec![];
        let mut carry = 0u16;
        for i in 0..a.len().max(b.len()) {
            let s = *a.get(i).unwrap_or(&0) as u16 + *b.get(i).unwrap_or(&0) as u16 + carry;
            out.push(s as u8);
            carry = s >> 8;
        }
        if carry > 0 {
            out.push(carry as u8);
        }
        trim(out)
    }
    /// a - b, requires a >= b
    fn sub_mag(a: &[u8], b: &[u8]) -> Vec<u8> {
        let mut out = vec![];
        let mut borrow = 0i16;
        for i in 0..a.len() {
            let mut d = a[i] as i16 - *b.get(i).unwrap_or(&0) as i16 - borrow;
            if d < 0 {
                d += 256;
                borrow = 1;
            } else {
                borrow = 0;
            }
            out.push(d as u8);
        }
        assert_eq!(borrow, 0);
        trim(out)
    }
    fn mul_mag(a: &[u8], b: &[u8]) -> Vec<u8> {
        let mut out = vec![0u32; a.len() + b.len() + 1];
        for i in 0..a.len() {
            let mut carry = 0u32;
            for j in 0..b.len() {
                let t = out[i + j] + a[i] as u32 * b[j] as u32 + carry;
                out[i + j] = t & 0xff;
                carry = t >> 8;
            }
            let mut k = i + b.len();
            while carry > 0 {
                let t = out[k] + carry;
                out[k] = t & 0xff;
                carry = t >> 8;
                k += 1;
            }
        }
        trim(out.into_iter().map(|x| x as u8).collect())
    }
    /// (quotient, remainder) of magnitudes, bit-by-bit long division; d != 0
    fn divmod_mag(n: &[u8], d: &[u8]) -> (Vec<u8>, Vec<u8>) {
        let mut q = vec![0u8; n.len()];
        let mut r: Vec<u8> = vec![];
        for bit in (0..n.len() * 8).rev() {
            // r = r*2 + bit
            let mut carry = (n[bit / 8] >> (bit % 8)) & 1;
            for byte in r.iter_mut() {
                let nc = *byte >> 7;
                *byte = (*byte << 1) | carry;
                carry = nc;
            }
            if carry > 0 {
                r.push(carry);
            }
            r = trim(r);
            if cmp_mag(&r, d) != Ordering::Less {
                r = sub_mag(&r, d);
                q[bit / 8] |= 1 << (bit % 8);
            }
        }
        (trim(q), r)
    }

    impl Num {
        pub fn zero() -> Num {
            Num { neg: false, mag: vec![] }
        }
        pub fn from_i64(v: i64) -> Num {
            let mag = trim((v.unsigned_abs()).to_le_bytes().to_vec());
            Num { neg: v < 0 && !mag.is_empty(), mag }
        }
        fn norm(mut self) -> Num {
            self.mag = trim(self.mag);
            if self.mag.is_empty() {
                self.neg = false;
            }
            self
        }
        pub fn is_zero(&self) -> bool {
            self.mag.is_empty()
        }
        pub fn decode(b: &[u8]) -> Num {
            if b.is_empty() {
                return Num::zero();
            }
            let mut m = b.to_vec();
            let last = m.len() - 1;
            let neg = m[last] & 0x80 != 0;
            m[last] &= 0x7f;
            Num { neg, mag: m }.norm()
        }
        pub fn encode(&self) -> Vec<u8> {
            if self.mag.is_empty() {
                return vec![];
            }
            let mut out = self.mag.clone();
            if out[out.len() - 1] & 0x80 != 0 {
                out.push(if self.neg { 0x80 } else { 0x00 });
            } else if self.neg {
                let l = out.len() - 1;
                out[l] |= 0x80;
            }
            out
        }
        pub fn negated(&self) -> Num {
            Num { neg: !self.neg, mag: self.mag.clone() }.norm()
        }
        pub fn abs(&self) -> Num {
            Num { neg: false, mag: self.mag.clone() }
        }
        pub fn add(&self, o: &Num) -> Num {
            if self.neg == o.neg {
                return Num { neg: self.neg, mag: add_mag(&self.mag, &o.mag) }.norm();
            }
            match cmp_mag(&self.mag, &o.mag) {
                Ordering::Equal => Num::zero(),
                Ordering::Greater => Num { neg: self.neg, mag: sub_mag(&self.mag, &o.mag) }.norm(),
                Ordering::Less => Num { neg: o.neg, mag: sub_mag(&o.mag, &self.mag) }.norm(),
            }
        }
        pub fn sub(&self, o: &Num) -> Num {
            self.add(&o.negated())
        }
        pub fn mul(&self, o: &Num) -> Num {
            Num { neg: self.neg != o.neg, mag: mul_mag(&self.mag, &o.mag) }.norm()
        }
        /// C++ semantics: quotient truncated towards zero, remainder has the sign of the dividend
        pub fn div(&self, o: &Num) -> Num {
            let (q, _) = divmod_mag(&self.mag, &o.mag);
            Num { neg: self.neg != o.neg, mag: q }.norm()
        }
        pub fn rem(&self, o: &Num) -> Num {
            let (_, r) = divmod_mag(&self.mag, &o.mag);
            Num { neg: self.neg, mag: r }.norm()
        }
        pub fn cmp(&self, o: &Num) -> Ordering {
            match (self.neg, o.neg) {
                (false, true) => Ordering::Greater,
                (true, false) => Ordering::Less,
                (false, false) => cmp_mag(&self.mag, &o.mag),
                (true, true) => cmp_mag(&o.mag, &self.mag),
            }
        }
        /// None when negative or larger than fits a u64
        pub fn to_index(&self) -> Option<u64> {
            if self.neg || self.mag.len() > 8 {
                return None;
            }
            let mut b = [0u8; 8];
            b[..self.mag.len()].copy_from_slice(&self.mag);
            Some(u64::from_le_bytes(b))
        }
    }

    pub fn truthy(b: &[u8]) -> bool {
        for (i, x) in b.iter().enumerate() {
            if *x != 0 {
                return !(i == b.len() - 1 && *x == 0x80);
            }
        }
        false
    }

    /// Shifts of a byte string seen as one big-endian bit vector, length kept.
    pub fn shift(data: &[u8], n: u64, left: bool) -> Vec<u8> {
        let bits = data.len() as u64 * 8;
        let get = |i: u64| -> u8 { (data[(i / 8) as usize] >> (7 - (i % 8))) & 1 };
        let mut out = vec![0u8; data.len()];
        for i in 0..bits {
            // bit i of the output (0 = most significant)
            let src = if left {
                i.checked_add(n).filter(|s| *s < bits)
            } else {
                i.checked_sub(n)
            };
            if let Some(s) = src {
                out[(i / 8) as usize] |= get(s) << (7 - (i % 8));
            }
        }
        out
    }

    pub fn sha256(d: &[u8]) -> Vec<u8> {
        use sha2::Digest;
        sha2::Sha256::digest(d).to_vec()
    }
    pub fn sha1(d: &[u8]) -> Vec<u8> {
        use sha1::Digest;
        sha1::Sha1::digest(d).to_vec()
    }
    pub fn ripemd160(d: &[u8]) -> Vec<u8> {
        use ripemd160::Digest;
        ripemd160::Ripemd160::digest(d).to_vec()
    }

    #[derive(Default, Debug, Clone)]
    pub struct Meta {
        /// an OP_RETURN was executed outside every conditional (evaluation ended there)
        pub top_level_return: bool,
        /// an OP_RETURN was executed inside a conditional (execution stops, grammar is still checked)
        pub inner_return: bool,
        /// an item grew beyond 4096 bytes or a size operand beyond 100000: outside what these experiments look at
        pub huge: bool,
    }

    pub type Outcome = Result<(Vec<Vec<u8>>, Vec<Vec<u8>>), &'static str>;

    pub fn eval(script: &[u8]) -> (Outcome, Meta) {
        let mut meta = Meta::default();
        let r = eval_inner(script, vec![], &mut meta);
        (r, meta)
    }

    pub fn eval_inner(script: &[u8], initial: Vec<Vec<u8>>, meta: &mut Meta) -> Outcome {
        let mut stack: Vec<Vec<u8>> = initial;
        let mut alt: Vec<Vec<u8>> = vec![];
        let mut vf_exec: Vec<bool> = vec![];
        let mut vf_else: Vec<bool> = vec![];
        let mut inner_return = false;
        let mut pc = 0usize;

        macro_rules! need {
            ($n:expr) => {
                if stack.len() < $n {
                    return Err("invalid stack operation");
                }
            };
        }
        macro_rules! top {
            ($i:expr) => {
                stack[stack.len() - $i].clone()
            };
        }

        while pc < script.len() {
            let op = script[pc];
            pc += 1;
            let mut data: Vec<u8> = vec![];
            if op >= 1 && op <= 0x4e {
                let len = match op {
                    1..=75 => op as usize,
                    0x4c => {
                        if pc + 1 > script.len() {
                            return Err("bad opcode");
                        }
                        pc += 1;
                        script[pc - 1] as usize
                    }
                    0x4d => {
                        if pc + 2 > script.len() {
                            return Err("bad opcode");
                        }
                        pc += 2;
                        u16::from_le_bytes([script[pc - 2], script[pc - 1]]) as usize
                    }
                    _ => {
                        if pc + 4 > script.len() {
                            return Err("bad opcode");
                        }
                        pc += 4;
                        u32::from_le_bytes([script[pc - 4], script[pc - 3], script[pc - 2], script[pc - 1]]) as usize
                    }
                };
                if pc + len > script.len() {
                    return Err("bad opcode");
                }
                data = script[pc..pc + len].to_vec();
                pc += len;
            }
            let fexec = vf_exec.iter().all(|x| *x) && !inner_return;

            if fexec && op <= 0x4e {
                stack.push(data);
                continue;
            }
            if !(fexec || (0x63..=0x68).contains(&op)) {
                continue;
            }
            let num = |b: &Vec<u8>| Num::decode(b);
            let boolv = |b: bool| if b { vec![1u8] } else { vec![] };
            match op {
                0x4f => stack.push(vec![0x81]),
                0x51..=0x60 => stack.push(vec![op - 0x50]),
                0x61 | 0xb0 | 0xb3..=0xb9 => {}
                0x63 | 0x64 => {
                    let mut v = false;
                    if fexec {
                        if stack.is_empty() {
                            return Err("unbalanced conditional (no condition)");
                        }
                        v = truthy(&stack.pop().unwrap());
                        if op == 0x64 {
                            v = !v;
                        }
                    }
                    vf_exec.push(v);
                    vf_else.push(false);
                }
                0x65 | 0x66 => return Err("bad opcode"),
                0x67 => {
                    if vf_exec.is_empty() || *vf_else.last().unwrap() {
                        return Err("unbalanced conditional");
                    }
                    let l = vf_exec.len() - 1;
                    vf_exec[l] = !vf_exec[l];
                    vf_else[l] = true;
                }
                0x68 => {
                    if vf_exec.is_empty() {
                        return Err("unbalanced conditional");
                    }
                    vf_exec.pop();
                    vf_else.pop();
                }
                0x69 => {
                    need!(1);
                    if !truthy(&stack.pop().unwrap()) {
                        return Err("verify");
                    }
                }
                0x6a => {
                    if vf_exec.is_empty() {
                        meta.top_level_return = true;
                        return Ok((stack, alt));
                    }
                    inner_return = true;
                    meta.inner_return = true;
                }
                0x6b => {
                    need!(1);
                    alt.push(stack.pop().unwrap());
                }
                0x6c => {
                    if alt.is_empty() {
                        return Err("invalid altstack operation");
                    }
                    stack.push(alt.pop().unwrap());
                }
                0x6d => {
                    need!(2);
                    stack.pop();
                    stack.pop();
                }
                0x6e => {
                    need!(2);
                    let (a, b) = (top!(2), top!(1));
                    stack.push(a);
                    stack.push(b);
                }
                0x6f => {
                    need!(3);
                    let (a, b, c) = (top!(3), top!(2), top!(1));
                    stack.push(a);
                    stack.push(b);
                    stack.push(c);
                }
                0x70 => {
                    need!(4);
                    let (a, b) = (top!(4), top!(3));
                    stack.push(a);
                    stack.push(b);
                }
                0x71 => {
                    need!(6);
                    let l = stack.len();
                    let a = stack.remove(l - 6);
                    let b = stack.remove(l - 6);
                    stack.push(a);
                    stack.push(b);
                }
                0x72 => {
                    need!(4);
                    let l = stack.len();
                    stack.swap(l - 4, l - 2);
                    stack.swap(l - 3, l - 1);
                }
                0x73 => {
                    need!(1);
                    let t = top!(1);
                    if truthy(&t) {
                        stack.push(t);
                    }
                }
                0x74 => {
                    let d = Num::from_i64(stack.len() as i64).encode();
                    stack.push(d);
                }
                0x75 => {
                    need!(1);
                    stack.pop();
                }
                0x76 => {
                    need!(1);
                    let t = top!(1);
                    stack.push(t);
                }
                0x77 => {
                    need!(2);
                    let l = stack.len();
                    stack.remove(l - 2);
                }
                0x78 => {
                    need!(2);
                    let t = top!(2);
                    stack.push(t);
                }
                0x79 | 0x7a => {
                    need!(2);
                    let n = num(&stack.pop().unwrap()).to_index();
                    let n = match n {
                        Some(n) if (n as u128) < stack.len() as u128 => n as usize,
                        _ => return Err("invalid stack operation (pick/roll index)"),
                    };
                    let idx = stack.len() - 1 - n;
                    let item = if op == 0x79 { stack[idx].clone() } else { stack.remove(idx) };
                    stack.push(item);
                }
                0x7b => {
                    need!(3);
                    let l = stack.len();
                    let a = stack.remove(l - 3);
                    stack.push(a);
                }
                0x7c => {
                    need!(2);
                    let l = stack.len();
                    stack.swap(l - 1, l - 2);
                }
                0x7d => {
                    need!(2);
                    let t = top!(1);
                    let l = stack.len();
                    stack.insert(l - 2, t);
                }
                0x7e => {
                    need!(2);
                    let b = stack.pop().unwrap();
                    let mut a = stack.pop().unwrap();
                    a.extend(b);
                    stack.push(a);
                }
                0x7f => {
                    need!(2);
                    let n = num(&stack.pop().unwrap()).to_index();
                    let x = stack.pop().unwrap();
                    match n {
                        Some(n) if n <= x.len() as u64 => {
                            stack.push(x[..n as usize].to_vec());
                            stack.push(x[n as usize..].to_vec());
                        }
                        _ => return Err("invalid split range"),
                    }
                }
                0x80 => {
                    need!(2);
                    let size_num = num(&stack.pop().unwrap());
                    let size = size_num.to_index();
                    let mut raw = num(&stack.pop().unwrap()).encode();
                    let size = match size {
                        Some(s) if s <= 100000 => s as usize,
                        Some(_) => {
                            meta.huge = true;
                            return Err("push size");
                        }
                        None => {
                            meta.huge = !size_num.neg;
                            return Err("invalid number range / push size");
                        }
                    };
                    if raw.len() > size {
                        return Err("impossible encoding");
                    }
                    if raw.len() < size {
                        let mut sign = 0u8;
                        if let Some(l) = raw.last_mut() {
                            sign = *l & 0x80;
                            *l &= 0x7f;
                        }
                        while raw.len() < size - 1 {
                            raw.push(0);
                        }
                        raw.push(sign);
                    }
                    stack.push(raw);
                }
                0x81 => {
                    need!(1);
                    let n = num(&stack.pop().unwrap()).encode();
                    stack.push(n);
                }
                0x82 => {
                    need!(1);
                    let n = Num::from_i64(top!(1).len() as i64).encode();
                    stack.push(n);
                }
                0x83 => {
                    need!(1);
                    let v: Vec<u8> = stack.pop().unwrap().iter().map(|b| !b).collect();
                    stack.push(v);
                }
                0x84 | 0x85 | 0x86 => {
                    need!(2);
                    let b = stack.pop().unwrap();
                    let a = stack.pop().unwrap();
                    if a.len() != b.len() {
                        return Err("invalid operand size");
                    }
                    let v: Vec<u8> = a
                        .iter()
                        .zip(b.iter())
                        .map(|(x, y)| match op {
                            0x84 => x & y,
                            0x85 => x | y,
                            _ => x ^ y,
                        })
                        .collect();
                    stack.push(v);
                }
                0x87 | 0x88 => {
                    need!(2);
                    let b = stack.pop().unwrap();
                    let a = stack.pop().unwrap();
                    if op == 0x87 {
                        stack.push(boolv(a == b));
                    } else if a != b {
                        return Err("equalverify");
                    }
                }
                0x8b | 0x8c | 0x8f | 0x90 | 0x91 | 0x92 => {
                    need!(1);
                    let a = num(&stack.pop().unwrap());
                    let r = match op {
                        0x8b => a.add(&Num::from_i64(1)).encode(),
                        0x8c => a.sub(&Num::from_i64(1)).encode(),
                        0x8f => a.negated().encode(),
                        0x90 => a.abs().encode(),
                        0x91 => boolv(a.is_zero()),
                        _ => boolv(!a.is_zero()),
                    };
                    stack.push(r);
                }
                0x93..=0x97 | 0x9a..=0xa4 => {
                    need!(2);
                    let b = num(&stack.pop().unwrap());
                    let a = num(&stack.pop().unwrap());
                    use std::cmp::Ordering::*;
                    let c = a.cmp(&b);
                    let r = match op {
                        0x93 => a.add(&b).encode(),
                        0x94 => a.sub(&b).encode(),
                        0x95 => a.mul(&b).encode(),
                        0x96 => {
                            if b.is_zero() {
                                return Err("div by zero");
                            }
                            a.div(&b).encode()
                        }
                        0x97 => {
                            if b.is_zero() {
                                return Err("mod by zero");
                            }
                            a.rem(&b).encode()
                        }
                        0x9a => boolv(!a.is_zero() && !b.is_zero()),
                        0x9b => boolv(!a.is_zero() || !b.is_zero()),
                        0x9c => boolv(c == Equal),
                        0x9d => {
                            if c != Equal {
                                return Err("numequalverify");
                            }
                            continue;
                        }
                        0x9e => boolv(c != Equal),
                        0x9f => boolv(c == Less),
                        0xa0 => boolv(c == Greater),
                        0xa1 => boolv(c != Greater),
                        0xa2 => boolv(c != Less),
                        0xa3 => (if c == Less { a } else { b }).encode(),
                        0xa4 => (if c == Greater { a } else { b }).encode(),
                        _ => unreachable!(),
                    };
                    stack.push(r);
                }
                0x98 | 0x99 => {
                    need!(2);
                    let n = num(&stack.pop().unwrap());
                    if n.neg {
                        return Err("invalid number range");
                    }
                    let x = stack.pop().unwrap();
                    let n = n.to_index().unwrap_or(u64::MAX);
                    stack.push(shift(&x, n, op == 0x98));
                }
                0xa5 => {
                    need!(3);
                    let max = num(&stack.pop().unwrap());
                    let min = num(&stack.pop().unwrap());
                    let x = num(&stack.pop().unwrap());
                    use std::cmp::Ordering::*;
                    stack.push(boolv(x.cmp(&min) != Less && x.cmp(&max) == Less));
                }
                0xa6..=0xaa => {
                    need!(1);
                    let d = stack.pop().unwrap();
                    stack.push(match op {
                        0xa6 => ripemd160(&d),
                        0xa7 => sha1(&d),
                        0xa8 => sha256(&d),
                        0xa9 => ripemd160(&sha256(&d)),
                        _ => sha256(&sha256(&d)),
                    });
                }
                _ => return Err("bad opcode (not modelled)"),
            }
            if stack.last().map_or(false, |t| t.len() > 4096) {
                meta.huge = true;
                return Err("huge item");
            }
        }
        if !vf_exec.is_empty() {
            return Err("unbalanced conditional (unclosed)");
        }
        Ok((stack, alt))
    }
}

use reference::Num;

// ------------------------------------------------------------------------------------------------
// Helpers: tokens, routes into the library
// ------------------------------------------------------------------------------------------------

#[derive(Clone, Debug)]
enum Tok {
    Op(u8),
    /// data, encoding: 0 = shortest, 1 = PUSHDATA1, 2 = PUSHDATA2, 4 = PUSHDATA4
    Push(Vec<u8>, u8),
}

fn tok_bytes(t: &Tok) -> Vec<u8> {
    match t {
        Tok::Op(b) => vec![*b],
        Tok::Push(d, enc) => {
            let mut out = vec![];
            let enc = match (*enc, d.len()) {
                (0, 0) => 1, // no direct push of nothing other than OP_0; use PUSHDATA1 0
                (0, 1..=75) => 0,
                (0, 76..=255) => 1,
                (0, _) => 2,
                (e, _) => e,
            };
            match enc {
                0 => out.push(d.len() as u8),
                1 => {
                    out.push(0x4c);
                    out.push(d.len() as u8)
                }
                2 => {
                    out.push(0x4d);
                    out.extend((d.len() as u16).to_le_bytes())
                }
                _ => {
                    out.push(0x4e);
                    out.extend((d.len() as u32).to_le_bytes())
                }
            }
            out.extend(d);
            out
        }
    }
}
fn toks_bytes(t: &[Tok]) -> Vec<u8> {
    t.iter().flat_map(tok_bytes).collect()
}
/// The same script as plain elements, as a user of the builders would assemble it
fn toks_bits(t: &[Tok]) -> Vec<ScriptBit> {
    t.iter()
        .map(|t| match t {
            Tok::Op(b) => ScriptBit::OpCode(OpCodes::from_u8(*b).expect("known opcode")),
            Tok::Push(d, enc) => {
                let enc = match (*enc, d.len()) {
                    (0, 0) => 1,
                    (0, 1..=75) => 0,
                    (0, 76..=255) => 1,
                    (0, _) => 2,
                    (e, _) => e,
                };
                match enc {
                    0 => ScriptBit::Push(d.clone()),
                    1 => ScriptBit::PushData(OpCodes::OP_PUSHDATA1, d.clone()),
                    2 => ScriptBit::PushData(OpCodes::OP_PUSHDATA2, d.clone()),
                    _ => ScriptBit::PushData(OpCodes::OP_PUSHDATA4, d.clone()),
                }
            }
        })
        .collect()
}

/// Runs through the iterator (run() prints every state); Err(text) on failure
fn run_script(s: &Script) -> Result<Stacks, String> {
    let mut i = Interpreter::from_script(s);
    while let Some(r) = i.next() {
        if let Err(e) = r {
            return Err(format!("run: {}", e));
        }
    }
    let st = i.state();
    Ok((st.stack.clone(), st.alt_stack.clone()))
}
fn run_bytes(b: &[u8]) -> Result<Stacks, String> {
    let s = Script::from_bytes(b).map_err(|e| format!("parse: {}", e))?;
    run_script(&s)
}
fn run_hex(h: &str) -> Result<Stacks, String> {
    run_bytes(&hex::decode(h).unwrap())
}
fn run_built(t: &[Tok]) -> Result<Stacks, String> {
    run_script(&Script::from_script_bits(toks_bits(t)))
}
fn h(s: &str) -> Vec<u8> {
    hex::decode(s).unwrap()
}

struct Rng(u64);
impl Rng {
    fn next(&mut self) -> u64 {
        self.0 ^= self.0 << 13;
        self.0 ^= self.0 >> 7;
        self.0 ^= self.0 << 17;
        self.0
    }
    fn below(&mut self, n: usize) -> usize {
        (self.next() % n as u64) as usize
    }
    fn pick<'a, T>(&mut self, v: &'a [T]) -> &'a T {
        &v[self.below(v.len())]
    }
}

fn alphabet() -> Vec<Vec<u8>> {
    let mut v: Vec<Vec<u8>> = ["", "00", "80", "0000", "0080", "01", "81", "02", "05", "7f", "ff", "8000", "ff00", "ff80", "ffff", "0100", "0180", "010000", "01000080", "ffffff7f", "ffffffff", "0000008000", "ffffffffff7f", "0100000000000000", "abcdef"]
        .iter()
        .map(|s| h(s))
        .collect();
    v.push(vec![0x5a; 20]);
    v.push(vec![0xc3; 33]);
    v.push(vec![0u8; 80]);
    let mut nz = vec![0u8; 80];
    nz[79] = 0x80;
    v.push(nz);
    v
}

// ------------------------------------------------------------------------------------------------
// E01: reference self-check against hand-computed values
// ------------------------------------------------------------------------------------------------
#[test]
fn e01_reference_self_check() {
    let n = |v: i64| Num::from_i64(v);
    assert_eq!(Num::decode(&h("ff80")), n(-255));
    assert_eq!(Num::decode(&h("0080")), n(0));
    assert_eq!(n(-255).encode(), h("ff80"));
    assert_eq!(n(128).encode(), h("8000"));
    assert_eq!(n(-128).encode(), h("8080"));
    assert_eq!(n(0).encode(), h(""));
    assert_eq!(n(-7).div(&n(2)), n(-3));
    assert_eq!(n(-7).rem(&n(2)), n(-1));
    assert_eq!(n(7).rem(&n(-2)), n(1));
    assert_eq!(n(7).div(&n(-2)), n(-3));
    assert_eq!(n(1 << 40).mul(&n(-(1 << 20))), Num { neg: true, mag: vec![0, 0, 0, 0, 0, 0, 0, 0x10] });
    assert_eq!(n(i64::MAX).add(&n(i64::MAX)).encode(), h("feffffffffffffff00"));
    assert_eq!(n(1000000007).mul(&n(998244353)).div(&n(998244353)), n(1000000007));
    assert_eq!(n(1000000007 * 3 + 5).rem(&n(1000000007)), n(5));
    assert_eq!(reference::shift(&h("8001"), 1, true), h("0002"));
    assert_eq!(reference::shift(&h("8001"), 1, false), h("4000"));
    assert_eq!(reference::shift(&h("ffff"), 16, true), h("0000"));
    assert_eq!(reference::shift(&h("ffff"), 15, false), h("0001"));
}

#[test]
fn e01b_reference_conditionals_by_hand() {
    let ev = |s: &str| reference::eval(&h(s)).0;
    assert_eq!(ev("006352675368"), Ok((vec![vec![3]], vec![])));
    assert_eq!(ev("516352675368"), Ok((vec![vec![2]], vec![])));
    assert_eq!(ev("006452675368"), Ok((vec![vec![2]], vec![])));
    assert!(ev("5168").is_err());
    assert!(ev("0063526753675468").is_err());
    assert!(ev("5163").is_err());
    assert_eq!(ev("516a63"), Ok((vec![vec![1]], vec![]))); // top-level return: nothing after it matters
    assert_eq!(ev("51636a6855"), Ok((vec![], vec![]))); // return inside a branch: nothing more runs
    assert!(ev("51636a6868").is_err()); // ... but the grammar is still checked
    assert_eq!(ev("00636a6855"), Ok((vec![vec![5]], vec![])));
}

// ------------------------------------------------------------------------------------------------
// E02: exhaustive short scripts over a grammar-heavy alphabet, parsed route and builder route
// ------------------------------------------------------------------------------------------------
fn grammar_exhaustive(max_len: usize) -> BTreeMap<String, (usize, String)> {
    // 0, 1, IF, NOTIF, ELSE, ENDIF, RETURN, DEPTH
    let alpha: [u8; 8] = [0x00, 0x51, 0x63, 0x64, 0x67, 0x68, 0x6a, 0x74];
    let mut classes: BTreeMap<String, (usize, String)> = BTreeMap::new();
    let mut total = 0usize;
    for len in 1..=max_len {
        let count = alpha.len().pow(len as u32);
        for mut k in 0..count {
            let mut bytes = vec![];
            for _ in 0..len {
                bytes.push(alpha[k % alpha.len()]);
                k /= alpha.len();
            }
            total += 1;
            let (expected, meta) = reference::eval(&bytes);
            let toks: Vec<Tok> = bytes.iter().map(|b| Tok::Op(*b)).collect();
            for (route, got) in [("parsed", run_bytes(&bytes)), ("built", run_built(&toks))] {
                let agree = match (&expected, &got) {
                    (Ok(e), Ok(g)) => e == g,
                    (Err(_), Err(_)) => true,
                    _ => false,
                };
                if !agree {
                    let kind = match (&expected, &got) {
                        (Ok(_), Ok(_)) => "both succeed, stacks differ".to_string(),
                        (Ok(_), Err(e)) => format!("BSV succeeds, library fails ({})", e.split(':').next().unwrap()),
                        (Err(_), Ok(_)) => "BSV fails, library succeeds".to_string(),
                        _ => unreachable!(),
                    };
                    let key = format!("{route}: {kind}; top-level return={} inner return={}", meta.top_level_return, meta.inner_return);
                    let e = classes.entry(key).or_insert((0, hex::encode(&bytes)));
                    e.0 += 1;
                }
            }
        }
    }
    println!("grammar exhaustive: {} scripts x 2 routes", total);
    for (k, (n, first)) in &classes {
        println!("  {:6}  {}   e.g. {}", n, k, first);
    }
    classes
}

#[test]
fn e02_grammar_exhaustive_classes() {
    let classes = grammar_exhaustive(6);
    // Every disagreement involves an executed OP_RETURN: without one, accept/reject and stacks always agree.
    for k in classes.keys() {
        assert!(k.contains("return=true"), "disagreement without any OP_RETURN: {}", k);
    }
}

// ------------------------------------------------------------------------------------------------
// V-A: OP_RETURN executed inside a conditional stops execution, but the rest of the script must still balance
// ------------------------------------------------------------------------------------------------
#[test]
fn violation_unbalanced_conditional_after_return_inside_branch() {
    // BSV EvalScript after Genesis: OP_RETURN with a non-empty vfExec sets nonTopLevelReturnAfterGenesis; the loop goes on,
    // nothing executes, but OP_IF/OP_ELSE/OP_ENDIF are still matched and SCRIPT_ERR_UNBALANCED_CONDITIONAL is still raised.
    let cases = [
        ("51636a6868", "1 IF RETURN ENDIF ENDIF"),
        ("51636a6867", "1 IF RETURN ENDIF ELSE"),
        ("006451636a686868", "0 NOTIF 1 IF RETURN ENDIF ENDIF ENDIF"),
        ("51636a68006351675267536768", "1 IF RETURN ENDIF 0 IF 1 ELSE 2 ELSE 3 ENDIF"),
        ("006367516a6868", "0 IF ELSE 1 RETURN ENDIF ENDIF"),
    ];
    let mut bad = vec![];
    for (hx, asm) in cases {
        let (expected, meta) = reference::eval(&h(hx));
        assert!(expected.is_err() && meta.inner_return, "oracle: {} must fail after an inner return", asm);
        let got = run_hex(hx);
        println!("{:<50} {} -> expected failure, got {:?}", asm, hx, got);
        if got.is_ok() {
            bad.push(asm);
        }
        // same through the ASM text
        let asm_script = Script::from_asm_string(&Script::from_hex(hx).unwrap().to_asm_string()).unwrap();
        assert_eq!(asm_script.to_hex(), hx);
        if run_script(&asm_script).is_ok() {
            bad.push(asm);
        }
    }
    // control: the balanced forms succeed in both
    assert_eq!(run_hex("51636a6855"), Ok((vec![], vec![])));
    assert_eq!(reference::eval(&h("51636a6855")).0, Ok((vec![], vec![])));
    assert!(bad.is_empty(), "accepted although unbalanced: {:?}", bad);
}

// ------------------------------------------------------------------------------------------------
// V-B: builder route, balanced conditionals in front of a top-level OP_RETURN, unbalanced remainder behind it
// ------------------------------------------------------------------------------------------------
#[test]
fn violation_built_script_with_unclosed_if_behind_top_level_return() {
    use OpCodes::*;
    let o = ScriptBit::OpCode;
    // 1 IF 2 ENDIF RETURN IF   -- BSV: [2], success (evaluation ends at the top-level OP_RETURN)
    let bits = vec![o(OP_1), o(OP_IF), o(OP_2), o(OP_ENDIF), o(OP_RETURN), o(OP_IF)];
    let script = Script::from_script_bits(bits.clone());
    assert_eq!(script.to_hex(), "516352686a63");
    let expected = reference::eval(&h("516352686a63")).0;
    assert_eq!(expected, Ok((vec![vec![2]], vec![])));
    // control: the same head without the tail runs fine when built
    assert_eq!(run_script(&Script::from_script_bits(bits[..5].to_vec())), Ok((vec![vec![2]], vec![])));
    // control: an unclosed IF behind a top-level return is no obstacle in itself
    assert_eq!(run_script(&Script::from_script_bits(vec![o(OP_2), o(OP_RETURN), o(OP_IF)])), Ok((vec![vec![2]], vec![])));
    let got = run_script(&script);
    println!("built 1 IF 2 ENDIF RETURN IF -> {:?}", got);
    let mut s2 = Script::default();
    s2.push_array(&bits);
    let got2 = run_script(&s2);
    // 0 IF 7 ELSE 8 ENDIF RETURN NOTIF
    let got3 = run_script(&Script::from_script_bits(vec![o(OP_0), o(OP_IF), o(OP_7), o(OP_ELSE), o(OP_8), o(OP_ENDIF), o(OP_RETURN), o(OP_NOTIF)]));
    println!("built 0 IF 7 ELSE 8 ENDIF RETURN NOTIF -> {:?}", got3);
    assert_eq!(got, expected.clone().map_err(|e| e.to_string()));
    assert_eq!(got2, expected.map_err(|e| e.to_string()));
    assert_eq!(got3, Ok((vec![vec![8]], vec![])));
}

// ------------------------------------------------------------------------------------------------
// E03: random full-alphabet programs through four routes (parsed, built from plain elements, Script JSON, Interpreter JSON mid-run)
// ------------------------------------------------------------------------------------------------
const OPS_UNARY: &[u8] = &[0x69, 0x6b, 0x73, 0x75, 0x76, 0x81, 0x82, 0x83, 0x8b, 0x8c, 0x8f, 0x90, 0x91, 0x92, 0xa6, 0xa7, 0xa8, 0xa9, 0xaa];
const OPS_BINARY: &[u8] = &[
    0x6d, 0x6e, 0x77, 0x78, 0x7c, 0x7d, 0x7e, 0x7f, 0x80, 0x84, 0x85, 0x86, 0x87, 0x88, 0x93, 0x94, 0x95, 0x96, 0x97, 0x98, 0x99, 0x9a, 0x9b, 0x9c, 0x9d, 0x9e, 0x9f, 0xa0, 0xa1, 0xa2, 0xa3, 0xa4, 0x79, 0x7a,
];
const OPS_MORE: &[u8] = &[0x6f, 0x7b, 0xa5, 0x70, 0x72, 0x71];
const OPS_NULLARY: &[u8] = &[0x00, 0x4f, 0x51, 0x52, 0x53, 0x58, 0x60, 0x61, 0x74, 0x6c, 0xb0, 0xb9];

fn gen_block(rng: &mut Rng, alpha: &[Vec<u8>], depth: usize, budget: &mut usize, out: &mut Vec<Tok>) {
    let n = 1 + rng.below(8);
    for _ in 0..n {
        if *budget == 0 {
            return;
        }
        *budget -= 1;
        match rng.below(100) {
            0..=34 => {
                let d = rng.pick(alpha).clone();
                let enc = if rng.below(10) == 0 { *rng.pick(&[1u8, 2, 4]) } else { 0 };
                out.push(Tok::Push(d, enc));
            }
            35..=44 => out.push(Tok::Op(*rng.pick(OPS_NULLARY))),
            45..=59 => out.push(Tok::Op(*rng.pick(OPS_UNARY))),
            60..=81 => out.push(Tok::Op(*rng.pick(OPS_BINARY))),
            82..=85 => out.push(Tok::Op(*rng.pick(OPS_MORE))),
            86..=87 => out.push(Tok::Op(0x6a)),
            _ if depth < 4 => {
                out.push(Tok::Op(if rng.below(2) == 0 { 0x63 } else { 0x64 }));
                gen_block(rng, alpha, depth + 1, budget, out);
                if rng.below(2) == 0 {
                    out.push(Tok::Op(0x67));
                    gen_block(rng, alpha, depth + 1, budget, out);
                }
                out.push(Tok::Op(0x68));
            }
            _ => out.push(Tok::Op(0x61)),
        }
    }
}

fn interpreter_json_midway(s: &Script, rng: &mut Rng) -> Result<Stacks, String> {
    let mut i = Interpreter::from_script(s);
    let steps = rng.below(12);
    for _ in 0..steps {
        match i.next() {
            Some(Err(e)) => return Err(format!("run: {}", e)),
            None => break,
            _ => {}
        }
    }
    let mut v: serde_json::Value = serde_json::to_value(&i).map_err(|e| e.to_string())?;
    if rng.below(2) == 0 {
        // the form written by versions that had no position list
        v.as_object_mut().unwrap().remove("script_positions");
    }
    let mut j: Interpreter = serde_json::from_value(v).map_err(|e| format!("json: {}", e))?;
    while let Some(r) = j.next() {
        if let Err(e) = r {
            return Err(format!("run: {}", e));
        }
    }
    Ok((j.state().stack.clone(), j.state().alt_stack.clone()))
}

#[test]
fn e03_random_programs_four_routes() {
    let alpha = alphabet();
    let mut rng = Rng(0x9e3779b97f4a7c15);
    let (mut ok, mut fail, mut mismatches) = (0, 0, vec![]);
    for _ in 0..40000 {
        let mut toks = vec![];
        let mut budget = 30;
        gen_block(&mut rng, &alpha, 0, &mut budget, &mut toks);
        let bytes = toks_bytes(&toks);
        let (expected, meta) = reference::eval(&bytes);
        if meta.huge {
            continue;
        }
        match expected {
            Ok(_) => ok += 1,
            Err(_) => fail += 1,
        }
        let parsed = Script::from_bytes(&bytes).expect("balanced script parses");
        assert_eq!(parsed.to_bytes(), bytes);
        let built = Script::from_script_bits(toks_bits(&toks));
        assert_eq!(built.to_bytes(), bytes);
        let via_json: Script = serde_json::from_str(&serde_json::to_string(&built).unwrap()).unwrap();
        let via_json2: Script = serde_json::from_str(&serde_json::to_string(&parsed).unwrap()).unwrap();
        assert_eq!(via_json2, parsed);
        let routes = [
            ("parsed", run_script(&parsed)),
            ("built", run_script(&built)),
            ("script-json", run_script(&via_json)),
            ("parsed-script-json", run_script(&via_json2)),
            ("interp-json", interpreter_json_midway(&parsed, &mut rng)),
        ];
        for (route, got) in routes {
            let agree = match (&expected, &got) {
                (Ok(e), Ok(g)) => e == g,
                (Err(_), Err(_)) => true,
                _ => false,
            };
            if !agree && mismatches.len() < 10 {
                mismatches.push(format!("{} {} expected {:?} got {:?} meta {:?}", route, hex::encode(&bytes), expected, got, meta));
            }
        }
    }
    println!("random programs: {} succeed, {} fail per the reference", ok, fail);
    for m in &mismatches {
        println!("MISMATCH {}", m);
    }
    assert!(mismatches.is_empty());
}

// ------------------------------------------------------------------------------------------------
// E04: big-number arithmetic against schoolbook arithmetic (operands up to 40 bytes)
// ------------------------------------------------------------------------------------------------
#[test]
fn e04_bignum_arithmetic() {
    let mut rng = Rng(0x1234567);
    let mut checked = 0;
    for _ in 0..6000 {
        let mut rnd_item = |rng: &mut Rng| -> Vec<u8> {
            let len = *rng.pick(&[0usize, 1, 2, 3, 4, 5, 8, 9, 16, 17, 31, 32, 33, 40]);
            let mut v: Vec<u8> = (0..len).map(|_| (rng.next() >> 24) as u8).collect();
            match rng.below(6) {
                0 if len > 0 => v[len - 1] = 0x80,             // negative, top magnitude byte empty
                1 if len > 0 => v[len - 1] = 0x00,             // non-minimal
                2 => v.iter_mut().for_each(|b| *b = 0xff),     // all ones
                3 if len > 1 => { v[len - 1] = 0x80; v[len - 2] |= 0x80; }
                _ => {}
            }
            v
        };
        let a = rnd_item(&mut rng);
        let b = rnd_item(&mut rng);
        for op in [0x93u8, 0x94, 0x95, 0x96, 0x97, 0xa3, 0xa4, 0x9f, 0xa2, 0x9c] {
            let toks = vec![Tok::Push(a.clone(), 0), Tok::Push(b.clone(), 0), Tok::Op(op)];
            let bytes = toks_bytes(&toks);
            let expected = reference::eval(&bytes).0.map_err(|e| e.to_string());
            let got = run_bytes(&bytes);
            match (&expected, &got) {
                (Ok(e), Ok(g)) => assert_eq!(e, g, "{}", hex::encode(&bytes)),
                (Err(_), Err(_)) => {}
                _ => panic!("{} expected {:?} got {:?}", hex::encode(&bytes), expected, got),
            }
            checked += 1;
        }
        // (a*b)/b == a and (a*b)%b == 0 for b != 0, as a script: a b 2DUP MUL SWAP DIV NUMEQUAL
        if !Num::decode(&b).is_zero() {
            let toks = vec![Tok::Push(a.clone(), 0), Tok::Push(b.clone(), 0), Tok::Op(0x6e), Tok::Op(0x95), Tok::Op(0x7c), Tok::Op(0x96), Tok::Op(0x9c)];
            let got = run_bytes(&toks_bytes(&toks)).unwrap();
            assert_eq!(got.0.last().unwrap(), &vec![1u8], "a={} b={}", hex::encode(&a), hex::encode(&b));
        }
    }
    println!("bignum cases checked: {}", checked);
}

// ------------------------------------------------------------------------------------------------
// E05: index / size / count operands in odd encodings (negative zero, padded, two-byte, sign bit in an extra byte)
// ------------------------------------------------------------------------------------------------
#[test]
fn e05_index_operands_by_hand() {
    let ok = |hx: &str, want: &[&str]| {
        let got = run_hex(hx);
        let want: Vec<Vec<u8>> = want.iter().map(|s| h(s)).collect();
        assert_eq!(got, Ok((want, vec![])), "{}", hx);
    };
    let fails = |hx: &str| assert!(run_hex(hx).is_err(), "{} should fail", hx);
    // aa bb <idx> PICK with idx = negative zero (80), padded negative zero (000080), 0100
    ok("01aa01bb018079", &["aa", "bb", "bb"]);
    ok("01aa01bb0300008079", &["aa", "bb", "bb"]);
    ok("01aa01bb0201007a", &["bb", "aa"]);
    fails("01aa01bb01817a"); // -1
    fails("01aa01bb0202007a"); // 2 of 2
    fails("01aa01bb09000000000000000001 7a".replace(' ', "").as_str()); // 2^64
    fails("01aa01bb0900000000000000008179".replace(' ', "").as_str()); // -(2^64)
    // SPLIT at negative zero, at the length, one past the length
    ok("03aabbcc01807f", &["", "aabbcc"]);
    ok("03aabbcc537f", &["aabbcc", ""]);
    fails("03aabbcc547f");
    ok("00007f", &["", ""]);
    fails("00517f");
    // NUM2BIN: size 128 written 8000; -1 to 128 bytes; size below minimal; zero to zero bytes; negative zero operand
    let mut want = vec![0u8; 128];
    want[0] = 1;
    assert_eq!(run_hex("010102800080"), Ok((vec![want.clone()], vec![])));
    want[127] = 0x80;
    assert_eq!(run_hex("018102800080"), Ok((vec![want.clone()], vec![])));
    ok("02ff805380", &["ff0080"]);
    ok("02ff805280", &["ff80"]);
    fails("02ff805180");
    ok("03ff00805280", &["ff80"]); // non-minimal -255 fits two bytes once minimal
    ok("000080", &[""]);
    ok("0180 0080".replace(' ', "").as_str(), &[""]); // negative zero to zero bytes
    ok("0180 5280".replace(' ', "").as_str(), &["0000"]);
    fails("5101 8180".replace(' ', "").as_str()); // size -1
    fails("51 0080".replace(' ', "").as_str()); // 1 does not fit zero bytes
    // shift counts: negative zero is zero, 8*len and beyond give zero bytes, 2^64 gives zero bytes
    ok("02ffff018098", &["ffff"]);
    ok("02ffff6098", &["0000"]);
    ok("02ffff5f99", &["0001"]);
    ok("02ffff5f98", &["8000"]);
    ok("02ffff09000000000000000001 99".replace(' ', "").as_str(), &["0000"]);
    fails("02ffff018198");
    ok("00 5198".replace(' ', "").as_str(), &[""]);
}

// ------------------------------------------------------------------------------------------------
// E06: shifts of long strings by counts around every byte boundary, one- and two-byte counts
// ------------------------------------------------------------------------------------------------
#[test]
fn e06_shifts_long() {
    let mut rng = Rng(77);
    for len in [1usize, 2, 3, 20, 33, 64] {
        let x: Vec<u8> = (0..len).map(|_| (rng.next() >> 11) as u8 | 1).collect();
        for n in 0..(len * 8 + 20) {
            for op in [0x98u8, 0x99] {
                let toks = vec![Tok::Push(x.clone(), 0), Tok::Push(Num::from_i64(n as i64).encode(), 0), Tok::Op(op)];
                let got = run_bytes(&toks_bytes(&toks)).unwrap();
                assert_eq!(got.0, vec![reference::shift(&x, n as u64, op == 0x98)], "len {} n {} op {:x}", len, n, op);
            }
        }
    }
}

// ------------------------------------------------------------------------------------------------
// E07: a failed interpreter is not turned into a success by running it again; states after failure
// ------------------------------------------------------------------------------------------------
#[test]
fn e07_reuse_after_failure_observation() {
    let s = Script::from_hex("5100699155").unwrap(); // 1 0 VERIFY NOT 5
    let mut i = Interpreter::from_script(&s);
    let first = i.run();
    let second = i.run();
    println!("observation: run() after a failed run(): first {:?} second {:?} stack {:?}", first.is_ok(), second.is_ok(), i.state().stack);
    assert!(first.is_err());
}

// ------------------------------------------------------------------------------------------------
// E08: every opcode of the property's set in an unexecuted branch and behind OP_RETURN is inert
// ------------------------------------------------------------------------------------------------
#[test]
fn e08_unexecuted_opcodes_are_inert() {
    let all: Vec<u8> = OPS_UNARY.iter().chain(OPS_BINARY).chain(OPS_MORE).chain(OPS_NULLARY).cloned().collect();
    for op in all {
        for script in [vec![0x55, 0x00, 0x63, op, 0x68], vec![0x55, 0x51, 0x64, op, 0x67, 0x68], vec![0x55, 0x51, 0x63, 0x67, op, 0x68], vec![0x55, 0x6a, op], vec![0x55, 0x51, 0x63, 0x6a, op, 0x68, op]] {
            let expected = reference::eval(&script).0.map_err(|e| e.to_string());
            assert_eq!(expected, Ok((vec![vec![5]], vec![])));
            assert_eq!(run_bytes(&script), expected, "{}", hex::encode(&script));
            let toks: Vec<Tok> = script.iter().map(|b| Tok::Op(*b)).collect();
            assert_eq!(run_built(&toks), expected, "built {}", hex::encode(&script));
        }
    }
}

// ------------------------------------------------------------------------------------------------
// E09: a conditional is decided by truthiness of any byte string, for all four kinds of branch layout
// ------------------------------------------------------------------------------------------------
#[test]
fn e09_condition_values() {
    for cond in alphabet() {
        for opener in [0x63u8, 0x64] {
            for layout in 0..4 {
                let mut toks = vec![Tok::Push(cond.clone(), 0), Tok::Op(opener)];
                match layout {
                    0 => toks.extend([Tok::Op(0x52)]),
                    1 => toks.extend([Tok::Op(0x52), Tok::Op(0x67), Tok::Op(0x53)]),
                    2 => toks.extend([Tok::Op(0x67), Tok::Op(0x53)]),
                    _ => toks.extend([Tok::Op(0x67)]),
                }
                toks.push(Tok::Op(0x68));
                toks.push(Tok::Op(0x74));
                let bytes = toks_bytes(&toks);
                let expected = reference::eval(&bytes).0.map_err(|e| e.to_string());
                assert_eq!(run_bytes(&bytes), expected, "{}", hex::encode(&bytes));
                assert_eq!(run_built(&toks), expected, "built {}", hex::encode(&bytes));
            }
        }
    }
}

// ------------------------------------------------------------------------------------------------
// E10: step-by-step: every state yielded equals the reference run of the elements executed so far
// ------------------------------------------------------------------------------------------------
#[test]
fn e10_stepwise_states_built_route() {
    let alpha = alphabet();
    let mut rng = Rng(4242);
    let mut steps_checked = 0;
    for _ in 0..3000 {
        // straight-line programs: the state after k elements is the result of the first k elements
        let mut toks = vec![];
        for _ in 0..(1 + rng.below(14)) {
            match rng.below(10) {
                0..=4 => toks.push(Tok::Push(rng.pick(&alpha).clone(), 0)),
                5 => toks.push(Tok::Op(*rng.pick(OPS_NULLARY))),
                6 => toks.push(Tok::Op(*rng.pick(OPS_UNARY))),
                _ => toks.push(Tok::Op(*rng.pick(OPS_BINARY))),
            }
        }
        if reference::eval(&toks_bytes(&toks)).1.huge {
            continue;
        }
        let built = Script::from_script_bits(toks_bits(&toks));
        let mut i = Interpreter::from_script(&built);
        for k in 1..=toks.len() {
            let expected = reference::eval(&toks_bytes(&toks[..k])).0;
            let got = i.next();
            match (expected, got) {
                (Ok(e), Some(Ok(st))) => {
                    assert_eq!((st.stack.clone(), st.alt_stack.clone()), e);
                    assert_eq!((i.state().stack.clone(), i.state().alt_stack.clone()), e);
                    steps_checked += 1;
                }
                (Err(_), Some(Err(_))) => {
                    // failure: the stacks visible afterwards are those before the failing element
                    let before = reference::eval(&toks_bytes(&toks[..k - 1])).0.unwrap();
                    assert_eq!((i.state().stack.clone(), i.state().alt_stack.clone()), before);
                    assert!(i.next().is_none());
                    break;
                }
                (e, g) => panic!("step {} of {}: expected {:?}, got {:?}", k, hex::encode(toks_bytes(&toks)), e, g.map(|r| r.map(|s| s.stack))),
            }
        }
    }
    println!("steps checked: {}", steps_checked);
}

// ------------------------------------------------------------------------------------------------
// E11: ASM text route for numeric constants and pushes that are not aliases (values 0x11.., negative, multi-byte)
// ------------------------------------------------------------------------------------------------
#[test]
fn e11_asm_route() {
    let alpha = alphabet();
    let mut rng = Rng(99);
    for _ in 0..3000 {
        let mut toks = vec![];
        let mut budget = 20;
        gen_block(&mut rng, &alpha, 0, &mut budget, &mut toks);
        // pushes whose text would be read as an alias (0..16 written in decimal digits) are the accepted finding: avoid them,
        // and use shortest encodings only (the text form does not record the push opcode)
        let toks: Vec<Tok> = toks
            .into_iter()
            .map(|t| match t {
                Tok::Push(d, _) if d.is_empty() => Tok::Op(0x00),
                Tok::Push(d, _) if d.len() == 1 && hex::encode(&d).parse::<u32>().map_or(false, |v| v <= 16) => Tok::Push(vec![0xaa], 0),
                Tok::Push(d, _) => Tok::Push(d, 0),
                o => o,
            })
            .collect();
        let bytes = toks_bytes(&toks);
        let parsed = Script::from_bytes(&bytes).unwrap();
        let asm = parsed.to_asm_string();
        let re = Script::from_asm_string(&asm).unwrap();
        let (expected, meta) = reference::eval(&bytes);
        if meta.huge {
            continue;
        }
        let expected = expected.map_err(|e| e.to_string());
        let got = run_script(&re);
        match (&expected, &got) {
            (Ok(e), Ok(g)) => assert_eq!(e, g, "{}", asm),
            (Err(_), Err(_)) => {}
            _ => panic!("{}: expected {:?} got {:?}", asm, expected, got),
        }
    }
}

// ------------------------------------------------------------------------------------------------
// E12: nesting depth boundaries on the builder route (499, 500 levels) and conditionals in long scripts
// ------------------------------------------------------------------------------------------------
#[test]
fn e12_built_nesting_depth() {
    for depth in [1usize, 2, 100, 499, 500] {
        for cond in [0x00u8, 0x51] {
            // cond IF cond IF ... 7 ELSE 8 ENDIF ... ENDIF DEPTH
            let mut toks = vec![];
            for _ in 0..depth {
                toks.push(Tok::Op(cond));
                toks.push(Tok::Op(0x63));
            }
            toks.push(Tok::Op(0x57));
            for _ in 0..depth {
                toks.push(Tok::Op(0x67));
                toks.push(Tok::Op(0x58));
                toks.push(Tok::Op(0x68));
            }
            let bytes = toks_bytes(&toks);
            let expected = reference::eval(&bytes).0.map_err(|e| e.to_string());
            assert_eq!(run_built(&toks), expected, "built depth {}", depth);
            assert_eq!(run_bytes(&bytes), expected, "parsed depth {}", depth);
        }
    }
}

// ------------------------------------------------------------------------------------------------
// Observations (printed only)
// ------------------------------------------------------------------------------------------------
#[test]
fn observation_mixed_nested_and_plain_conditionals() {
    use OpCodes::*;
    let o = ScriptBit::OpCode;
    // a conditional block whose branch holds plain conditional opcodes: bytes 51 63 51 63 52 68 68 = 1 IF 1 IF 2 ENDIF ENDIF
    let s = Script::from_script_bits(vec![o(OP_1), ScriptBit::If { code: OP_IF, pass: vec![o(OP_1), o(OP_IF), o(OP_2), o(OP_ENDIF)], fail: None }]);
    println!("observation: block holding plain IF/ENDIF {} -> built {:?}, parsed {:?}, reference {:?}", s.to_hex(), run_script(&s), run_bytes(&s.to_bytes()), reference::eval(&s.to_bytes()).0);
    // an Interpreter read from JSON whose elements are plain opcodes
    let i = Interpreter::from_script(&Script::default());
    let mut v = serde_json::to_value(&i).unwrap();
    v["script_bits"] = serde_json::json!(["OP_1", "OP_IF", "OP_2", "OP_ENDIF"]);
    v["script_positions"] = serde_json::json!([0, 1, 2, 3]);
    let mut j: Interpreter = serde_json::from_value(v).unwrap();
    let mut res = vec![];
    while let Some(r) = j.next() {
        res.push(r.map(|s| s.stack).map_err(|e| e.to_string()));
    }
    println!("observation: Interpreter JSON with plain conditional opcodes -> {:?}", res.last());
}

// ------------------------------------------------------------------------------------------------
// E13: a second grammar-heavy exhaustive run with VERIFY, alt stack, IFDUP and a negative-zero push
// ------------------------------------------------------------------------------------------------
#[test]
fn e13_grammar_exhaustive_second_alphabet() {
    let alpha: Vec<Tok> = vec![
        Tok::Op(0x00),
        Tok::Op(0x51),
        Tok::Push(vec![0x80], 0),
        Tok::Op(0x63),
        Tok::Op(0x64),
        Tok::Op(0x67),
        Tok::Op(0x68),
        Tok::Op(0x6a),
        Tok::Op(0x69),
        Tok::Op(0x6b),
        Tok::Op(0x6c),
        Tok::Op(0x73),
    ];
    let mut classes: BTreeMap<String, (usize, String)> = BTreeMap::new();
    let mut total = 0;
    for len in 1..=5usize {
        for mut k in 0..alpha.len().pow(len as u32) {
            let mut toks = vec![];
            for _ in 0..len {
                toks.push(alpha[k % alpha.len()].clone());
                k /= alpha.len();
            }
            total += 1;
            let bytes = toks_bytes(&toks);
            let (expected, meta) = reference::eval(&bytes);
            for (route, got) in [("parsed", run_bytes(&bytes)), ("built", run_built(&toks))] {
                let agree = match (&expected, &got) {
                    (Ok(e), Ok(g)) => e == g,
                    (Err(_), Err(_)) => true,
                    _ => false,
                };
                if !agree {
                    let key = format!("{route}: BSV ok={} library ok={}; top-level return={} inner return={}", expected.is_ok(), got.is_ok(), meta.top_level_return, meta.inner_return);
                    classes.entry(key).or_insert((0, hex::encode(&bytes))).0 += 1;
                }
            }
        }
    }
    println!("second grammar exhaustive: {} scripts x 2 routes", total);
    for (k, (n, first)) in &classes {
        println!("  {:6}  {}   e.g. {}", n, k, first);
        assert!(k.contains("return=true"), "disagreement without any OP_RETURN: {}", k);
    }
}

// ------------------------------------------------------------------------------------------------
// E14: bounded-exhaustive, every opcode on every stack of depth 0..arity+1 over the alphabet (independent re-run
// after the repairs, index/size/count operands of any length included)
// ------------------------------------------------------------------------------------------------
#[test]
fn e14_bounded_exhaustive_opcodes() {
    let alpha = alphabet();
    let small: Vec<Vec<u8>> = ["", "80", "01", "81", "02", "0100", "ff80", "0000008000", "abcdef"].iter().map(|s| h(s)).collect();
    let mut n = 0usize;
    let mut skipped = 0usize;
    let mut check = |items: &[&Vec<u8>], op: u8| {
        let mut toks: Vec<Tok> = items.iter().map(|d| Tok::Push((*d).clone(), 0)).collect();
        toks.push(Tok::Op(op));
        let bytes = toks_bytes(&toks);
        let (expected, meta) = reference::eval(&bytes);
        if meta.huge {
            skipped += 1;
            return;
        }
        let got = run_bytes(&bytes);
        match (&expected, &got) {
            (Ok(e), Ok(g)) => assert_eq!(e, g, "{}", hex::encode(&bytes)),
            (Err(_), Err(_)) => {}
            _ => panic!("{} expected {:?} got {:?}", hex::encode(&bytes), expected, got),
        }
        n += 1;
    };
    for &op in OPS_NULLARY.iter().chain(OPS_UNARY).chain(OPS_BINARY).chain(OPS_MORE) {
        check(&[], op);
        for a in &alpha {
            check(&[a], op);
            for b in &alpha {
                check(&[a, b], op);
            }
        }
    }
    for &op in OPS_BINARY.iter().chain(OPS_MORE) {
        // third item: full alphabet below two full-alphabet operands
        for a in &small {
            for b in &alpha {
                for c in &alpha {
                    check(&[a, b, c], op);
                }
            }
        }
    }
    for &op in &[0x6fu8, 0x7b, 0xa5, 0x79, 0x7a] {
        for a in &small {
            for b in &small {
                for c in &alpha {
                    for d in &alpha {
                        check(&[a, b, c, d], op);
                    }
                }
            }
        }
    }
    // wide stack opcodes: distinct items, depths 0..7; PICK/ROLL with every index encoding over a stack of 5
    let distinct: Vec<Vec<u8>> = (1..=7u8).map(|i| vec![0xa0 + i, i]).collect();
    for &op in &[0x70u8, 0x71, 0x72, 0x6d, 0x6e, 0x6f, 0x7b, 0x7d] {
        for depth in 0..=7 {
            let items: Vec<&Vec<u8>> = distinct[..depth].iter().collect();
            check(&items, op);
        }
    }
    for idx in &alpha {
        for &op in &[0x79u8, 0x7a] {
            let mut items: Vec<&Vec<u8>> = distinct[..5].iter().collect();
            items.push(idx);
            check(&items, op);
        }
    }
    println!("bounded exhaustive: {} scripts compared, {} skipped as huge", n, skipped);
}

// ------------------------------------------------------------------------------------------------
// E15: hash opcodes against published vectors at the padding boundary (56-byte message) and composition invariants
// ------------------------------------------------------------------------------------------------
#[test]
fn e15_hash_vectors() {
    let msg = b"abcdbcdecdefdefgefghfghighijhijkijkljklmklmnlmnomnopnopq".to_vec();
    assert_eq!(msg.len(), 56);
    let run1 = |data: &Vec<u8>, ops: &[u8]| -> Vec<u8> {
        let mut toks = vec![Tok::Push(data.clone(), 0)];
        toks.extend(ops.iter().map(|o| Tok::Op(*o)));
        run_bytes(&toks_bytes(&toks)).unwrap().0.pop().unwrap()
    };
    assert_eq!(hex::encode(run1(&msg, &[0xa8])), "248d6a61d20638b8e5c026930c3e6039a33ce45964ff2167f6ecedd419db06c1");
    assert_eq!(hex::encode(run1(&msg, &[0xa7])), "84983e441c3bd26ebaae4aa1f95129e5e54670f1");
    assert_eq!(hex::encode(run1(&msg, &[0xa6])), "12a053384a9c0c88e405a06c27dcf49ada62eb2b");
    assert_eq!(hex::encode(run1(&vec![], &[0xa8])), "e3b0c44298fc1c149afbf4c8996fb92427ae41e4649b934ca495991b7852b855");
    assert_eq!(hex::encode(run1(&vec![], &[0xa6])), "9c1185a5c5e9fc54612808977ee8f548b2258d31");
    assert_eq!(hex::encode(run1(&vec![], &[0xa7])), "da39a3ee5e6b4b0d3255bfef95601890afd80709");
    for len in [0usize, 1, 55, 56, 63, 64, 65, 119, 120, 127, 128, 300] {
        let data: Vec<u8> = (0..len).map(|i| (i * 7 + 3) as u8).collect();
        assert_eq!(run1(&data, &[0xa9]), run1(&data, &[0xa8, 0xa6]), "HASH160 = RIPEMD160(SHA256) at {}", len);
        assert_eq!(run1(&data, &[0xaa]), run1(&data, &[0xa8, 0xa8]), "HASH256 = SHA256(SHA256) at {}", len);
    }
}

// ------------------------------------------------------------------------------------------------
// E16: stepping with next() and finishing with run() gives the same final stacks as the reference
// ------------------------------------------------------------------------------------------------
#[test]
fn e16_next_then_run() {
    // 1 IF 2 3 ADD TOALTSTACK ELSE 9 ENDIF 0 NOTIF FROMALTSTACK DUP MUL ENDIF  => [25]
    let bytes = h("51635253936b6759680064 6c7695 68".replace(' ', "").as_str());
    let expected = reference::eval(&bytes).0.unwrap();
    assert_eq!(expected, (vec![vec![25]], vec![]));
    for k in 0..12 {
        let mut i = Interpreter::from_script(&Script::from_bytes(&bytes).unwrap());
        for _ in 0..k {
            i.next();
        }
        let mut j = i.clone();
        while let Some(r) = j.next() {
            r.unwrap();
        }
        assert_eq!((j.state().stack.clone(), j.state().alt_stack.clone()), expected, "after {} single steps", k);
    }
}

// ------------------------------------------------------------------------------------------------
// E17: scripts mutated after parsing, and data whose bytes look like conditional opcodes
// ------------------------------------------------------------------------------------------------
#[test]
fn e17_mutated_after_parse_and_opcode_like_data() {
    use OpCodes::*;
    let o = ScriptBit::OpCode;
    // parsed (nested block) + plain elements appended with push / push_array
    let mut s = Script::from_asm_string("OP_1 OP_IF OP_2 OP_ELSE OP_7 OP_ENDIF").unwrap();
    s.push(o(OP_0));
    s.push_array(&[o(OP_NOTIF), o(OP_3), o(OP_ELSE), o(OP_8), o(OP_ENDIF)]);
    let expected = reference::eval(&s.to_bytes()).0.unwrap();
    assert_eq!(expected, (vec![vec![2], vec![3]], vec![]));
    assert_eq!(run_script(&s), Ok(expected.clone()));
    // a parsed block enclosed in plain IF .. ENDIF added around it
    let inner = Script::from_hex("006351675268").unwrap();
    let mut bits = vec![o(OP_1), o(OP_IF)];
    bits.extend(inner.to_script_bits());
    bits.extend([o(OP_ELSE), o(OP_9), o(OP_ENDIF)]);
    let wrapped = Script::from_script_bits(bits);
    assert_eq!(wrapped.to_hex(), "5163006351675268675968");
    assert_eq!(run_script(&wrapped), Ok((vec![vec![2]], vec![])));
    assert_eq!(reference::eval(&wrapped.to_bytes()).0, Ok((vec![vec![2]], vec![])));
    // data made of the bytes of IF, ELSE, ENDIF, RETURN inside branches, direct and PUSHDATA1, parsed and built
    let data = vec![0x63u8, 0x67, 0x68, 0x6a, 0x64];
    for enc in [0u8, 1, 2, 4] {
        for cond in [0x00u8, 0x51] {
            let toks = vec![Tok::Op(cond), Tok::Op(0x63), Tok::Push(data.clone(), enc), Tok::Op(0x67), Tok::Push(data.clone(), enc), Tok::Op(0x82), Tok::Op(0x68), Tok::Op(0x74)];
            let bytes = toks_bytes(&toks);
            let expected = reference::eval(&bytes).0.map_err(|e| e.to_string());
            assert!(expected.is_ok());
            assert_eq!(run_bytes(&bytes), expected);
            assert_eq!(run_built(&toks), expected);
        }
    }
}
