// Third-pass hunt for property C10: the legacy (non-FORKID) signature-hash preimage equals the original Bitcoin algorithm.
//
// Oracle: `ref_preimage` below, a small byte-level re-implementation of the original SignatureHash serialisation
// (it never touches the library's Script / Transaction types).
#![allow(clippy::all)]
use bsv::*;

// ------------------------------------------------------------------------------------------------
// deterministic PRNG (no rand crate among the dependencies)
// ------------------------------------------------------------------------------------------------
struct Rng(u64);
impl Rng {
    fn next(&mut self) -> u64 {
        let mut x = self.0;
        x ^= x >> 12;
        x ^= x << 25;
        x ^= x >> 27;
        self.0 = x;
        x.wrapping_mul(0x2545F4914F6CDD1D)
    }
    fn below(&mut self, n: u64) -> u64 {
        self.next() % n
    }
    fn bytes(&mut self, n: usize) -> Vec<u8> {
        (0..n).map(|_| self.next() as u8).collect()
    }
    fn interesting_bytes(&mut self, n: usize) -> Vec<u8> {
        const I: [u8; 10] = [0xab, 0x63, 0x64, 0x67, 0x68, 0x6a, 0x4c, 0x00, 0x4d, 0xab];
        (0..n).map(|_| if self.below(2) == 0 { I[self.below(10) as usize] } else { self.next() as u8 }).collect()
    }
}

// ------------------------------------------------------------------------------------------------
// reference implementation (bytes only)
// ------------------------------------------------------------------------------------------------
#[derive(Clone, Debug)]
struct RIn {
    txid_ser: [u8; 32], // as serialised on the wire
    vout: u32,
    script: Vec<u8>,
    seq: u32,
}
#[derive(Clone, Debug)]
struct ROut {
    value: u64,
    script: Vec<u8>,
}
#[derive(Clone, Debug)]
struct RTx {
    version: u32,
    ins: Vec<RIn>,
    outs: Vec<ROut>,
    lock: u32,
}

fn varint(n: u64) -> Vec<u8> {
    if n < 0xfd {
        vec![n as u8]
    } else if n <= 0xffff {
        let mut v = vec![0xfd];
        v.extend_from_slice(&(n as u16).to_le_bytes());
        v
    } else if n <= 0xffff_ffff {
        let mut v = vec![0xfe];
        v.extend_from_slice(&(n as u32).to_le_bytes());
        v
    } else {
        let mut v = vec![0xff];
        v.extend_from_slice(&n.to_le_bytes());
        v
    }
}

fn ser(tx: &RTx) -> Vec<u8> {
    let mut b = vec![];
    b.extend_from_slice(&tx.version.to_le_bytes());
    b.extend(varint(tx.ins.len() as u64));
    for i in &tx.ins {
        b.extend_from_slice(&i.txid_ser);
        b.extend_from_slice(&i.vout.to_le_bytes());
        b.extend(varint(i.script.len() as u64));
        b.extend_from_slice(&i.script);
        b.extend_from_slice(&i.seq.to_le_bytes());
    }
    b.extend(varint(tx.outs.len() as u64));
    for o in &tx.outs {
        b.extend_from_slice(&o.value.to_le_bytes());
        b.extend(varint(o.script.len() as u64));
        b.extend_from_slice(&o.script);
    }
    b.extend_from_slice(&tx.lock.to_le_bytes());
    b
}

/// The original serializer: walk the opcodes (GetOp), drop every OP_CODESEPARATOR met at an opcode boundary;
/// when an opcode cannot be read (truncated push) the remainder is copied verbatim.
fn strip_codesep(s: &[u8]) -> Vec<u8> {
    let mut out = vec![];
    let mut i = 0usize;
    while i < s.len() {
        let op = s[i];
        let (hdr, len): (usize, usize) = if op >= 1 && op <= 0x4b {
            (1, op as usize)
        } else if op == 0x4c {
            if i + 2 > s.len() {
                out.extend_from_slice(&s[i..]);
                return out;
            }
            (2, s[i + 1] as usize)
        } else if op == 0x4d {
            if i + 3 > s.len() {
                out.extend_from_slice(&s[i..]);
                return out;
            }
            (3, u16::from_le_bytes([s[i + 1], s[i + 2]]) as usize)
        } else if op == 0x4e {
            if i + 5 > s.len() {
                out.extend_from_slice(&s[i..]);
                return out;
            }
            (5, u32::from_le_bytes([s[i + 1], s[i + 2], s[i + 3], s[i + 4]]) as usize)
        } else {
            (1, 0)
        };
        if i + hdr + len > s.len() {
            out.extend_from_slice(&s[i..]);
            return out;
        }
        if op != 0xab {
            out.extend_from_slice(&s[i..i + hdr + len]);
        }
        i += hdr + len;
    }
    out
}

/// None = SIGHASH_SINGLE without a matching output (the library is allowed to refuse that case).
fn ref_preimage(tx: &RTx, idx: usize, sub: &[u8], flag: u8) -> Option<Vec<u8>> {
    let base = flag & 0x1f;
    let acp = flag & 0x80 != 0;
    assert!(idx < tx.ins.len());
    if base == 3 && idx >= tx.outs.len() {
        return None;
    }
    let sc = strip_codesep(sub);
    let mut t = RTx { version: tx.version, ins: vec![], outs: vec![], lock: tx.lock };
    for (i, inp) in tx.ins.iter().enumerate() {
        if acp && i != idx {
            continue;
        }
        let mut n = inp.clone();
        if i == idx {
            n.script = sc.clone();
        } else {
            n.script = vec![];
            if base == 2 || base == 3 {
                n.seq = 0;
            }
        }
        t.ins.push(n);
    }
    match base {
        2 => {}
        3 => {
            for _ in 0..idx {
                t.outs.push(ROut { value: u64::MAX, script: vec![] });
            }
            t.outs.push(tx.outs[idx].clone());
        }
        _ => t.outs = tx.outs.clone(),
    }
    let mut b = ser(&t);
    b.extend_from_slice(&(flag as u32).to_le_bytes());
    Some(b)
}

const FLAGS: [(u8, SigHash); 6] = [
    (0x01, SigHash::ALL),
    (0x02, SigHash::NONE),
    (0x03, SigHash::SINGLE),
    (0x81, SigHash::Legacy_InputOutputs),
    (0x82, SigHash::Legacy_Input),
    (0x83, SigHash::Legacy_InputOutput),
];

// ------------------------------------------------------------------------------------------------
// generators
// ------------------------------------------------------------------------------------------------
fn safe_op(r: &mut Rng) -> u8 {
    loop {
        let b = r.next() as u8;
        let ok = b == 0 || (0x4f..=0x62).contains(&b) || b == 0x69 || (0x6b..=0xba).contains(&b) || b >= 0xfb;
        if ok {
            return b;
        }
    }
}

fn gen_items(r: &mut Rng, max_items: u64, depth: usize, out: &mut Vec<u8>) {
    let n = r.below(max_items + 1);
    for _ in 0..n {
        match r.below(22) {
            0..=4 => out.push(0xab),
            5..=8 => out.push(safe_op(r)),
            9..=11 => {
                let len = match r.below(4) {
                    0 => 1,
                    1 => 75,
                    _ => 1 + r.below(75) as usize,
                };
                out.push(len as u8);
                out.extend(r.interesting_bytes(len));
            }
            12 => {
                let len = [0usize, 1, 75, 76, 255, r.below(256) as usize][r.below(6) as usize];
                out.push(0x4c);
                out.push(len as u8);
                out.extend(r.interesting_bytes(len));
            }
            13 => {
                let len = [0usize, 1, 255, 256, 300, r.below(700) as usize][r.below(6) as usize];
                out.push(0x4d);
                out.extend_from_slice(&(len as u16).to_le_bytes());
                out.extend(r.interesting_bytes(len));
            }
            14 => {
                let len = [0usize, 1, 2, 80, r.below(300) as usize][r.below(5) as usize];
                out.push(0x4e);
                out.extend_from_slice(&(len as u32).to_le_bytes());
                out.extend(r.interesting_bytes(len));
            }
            15..=17 if depth < 4 => {
                out.push([0x63u8, 0x64, 0x63, 0x64, 0x65, 0x66][r.below(6) as usize]);
                gen_items(r, 4, depth + 1, out);
                let elses = [0u64, 1, 1, 1, 2, 3][r.below(6) as usize];
                for _ in 0..elses {
                    out.push(0x67);
                    gen_items(r, 4, depth + 1, out);
                }
                out.push(0x68);
            }
            18 => out.push(0x6a),
            19 if depth == 0 => out.push(if r.below(2) == 0 { 0x67 } else { 0x68 }),
            _ => out.push(0xab),
        }
    }
}

fn gen_script(r: &mut Rng, max_items: u64) -> Vec<u8> {
    let mut v = vec![];
    gen_items(r, max_items, 0, &mut v);
    v
}

fn gen_tx(r: &mut Rng, max_in: u64, max_out: u64) -> RTx {
    let n_in = 1 + r.below(max_in) as usize;
    let n_out = r.below(max_out + 1) as usize;
    let mut ins = vec![];
    for _ in 0..n_in {
        let mut txid = [0u8; 32];
        txid.copy_from_slice(&r.bytes(32));
        ins.push(RIn {
            txid_ser: txid,
            vout: [0u32, 1, 0xffff_ffff, r.next() as u32][r.below(4) as usize],
            script: gen_script(r, 5),
            seq: [0u32, 1, 0xffff_fffe, 0xffff_ffff, r.next() as u32][r.below(5) as usize],
        });
    }
    let mut outs = vec![];
    for _ in 0..n_out {
        outs.push(ROut { value: [0u64, 1, u64::MAX, 21_000_000 * 100_000_000, r.next()][r.below(5) as usize], script: gen_script(r, 5) });
    }
    RTx { version: [1u32, 2, 0, 0xffff_ffff, 0x8000_0000][r.below(5) as usize], ins, outs, lock: [0u32, 499_999_999, 500_000_000, 0xffff_ffff, r.next() as u32][r.below(5) as usize] }
}

fn lib_tx_parsed(t: &RTx) -> Transaction {
    Transaction::from_bytes(&ser(t)).expect("reference serialisation parses")
}

fn lib_tx_built(t: &RTx, extended: bool) -> Transaction {
    let mut tx = Transaction::new(t.version, t.lock);
    for i in &t.ins {
        let mut id = i.txid_ser.to_vec();
        id.reverse();
        let mut txin = TxIn::new(&id, i.vout, &Script::from_bytes(&i.script).unwrap(), Some(i.seq));
        if extended {
            txin.set_satoshis(12345);
            txin.set_locking_script(&Script::from_hex("ab76ab88ac").unwrap());
        }
        tx.add_input(&txin);
    }
    for o in &t.outs {
        tx.add_output(&TxOut::new(o.value, &Script::from_bytes(&o.script).unwrap()));
    }
    tx
}

/// Compares library and reference for every input index and the six legacy flags. Returns number of comparisons.
fn check_all(t: &RTx, tx: &mut Transaction, sub_bytes: &[u8], sub: &Script, ctx: &str) -> usize {
    let mut n = 0;
    for idx in 0..t.ins.len() {
        for (flag, sh) in FLAGS.iter() {
            let expect = ref_preimage(t, idx, sub_bytes, *flag);
            let got = tx.sighash_preimage(*sh, idx, sub, 777);
            match (expect, got) {
                (Some(e), Ok(g)) => assert_eq!(hex::encode(&g), hex::encode(&e), "{}: idx {} flag {:#x} subscript {}", ctx, idx, flag, hex::encode(sub_bytes)),
                (None, Err(_)) => {}
                (None, Ok(g)) => panic!("{}: idx {} flag {:#x}: SINGLE without output produced {}", ctx, idx, flag, hex::encode(g)),
                (Some(_), Err(e)) => panic!("{}: idx {} flag {:#x} subscript {}: refused: {}", ctx, idx, flag, hex::encode(sub_bytes), e),
            }
            n += 1;
        }
    }
    n
}

// ------------------------------------------------------------------------------------------------
// E01 random differential, transactions read from bytes
// ------------------------------------------------------------------------------------------------
#[test]
fn e01_differential_random_parsed() {
    let mut r = Rng(0x1234_5678_9abc_def1);
    let mut n = 0;
    let rounds: usize = std::env::var("HUNT_ROUNDS").ok().and_then(|v| v.parse().ok()).unwrap_or(1500);
    for round in 0..rounds {
        let t = gen_tx(&mut r, 5, 5);
        let mut tx = lib_tx_parsed(&t);
        assert_eq!(tx.to_bytes().unwrap(), ser(&t), "transaction round trip");
        let sub_bytes = gen_script(&mut r, 10);
        let sub = Script::from_bytes(&sub_bytes).expect("generated subscript parses");
        assert_eq!(sub.to_bytes(), sub_bytes, "subscript round trip");
        n += check_all(&t, &mut tx, &sub_bytes, &sub, &format!("round {}", round));
    }
    println!("e01: {} comparisons", n);
}

// ------------------------------------------------------------------------------------------------
// E02 random differential, transactions assembled through the API (with and without extended fields)
// ------------------------------------------------------------------------------------------------
#[test]
fn e02_differential_random_api_built() {
    let mut r = Rng(0xfeed_face_cafe_beef);
    let mut n = 0;
    for round in 0..600 {
        let t = gen_tx(&mut r, 4, 4);
        let mut tx = lib_tx_built(&t, round % 2 == 0);
        let sub_bytes = gen_script(&mut r, 10);
        let sub = Script::from_bytes(&sub_bytes).unwrap();
        n += check_all(&t, &mut tx, &sub_bytes, &sub, &format!("built round {}", round));
    }
    println!("e02: {} comparisons", n);
}

// ------------------------------------------------------------------------------------------------
// E03 hand-picked code separator positions (hand-computed expectations, cross-checked with strip_codesep)
// ------------------------------------------------------------------------------------------------
#[test]
fn e03_codeseparator_positions_hand_computed() {
    // (subscript, subscript with the code separators removed — written by hand)
    let cases: Vec<(&str, &str)> = vec![
        ("", ""),
        ("ab", ""),
        ("abababab", ""),
        ("abac", "ac"),
        ("acab", "ac"),
        ("ab63ab68ac", "6368ac"),
        ("63ab67ab68", "636768"),
        ("63ab67ab67ab68ab", "63676768"),
        ("6363ab6864ab67ab686768", "6363686467686768"),
        ("01ab", "01ab"),
        ("02abab", "02abab"),
        ("02ababab", "02abab"),
        ("4c01abab", "4c01ab"),
        ("4c00ab", "4c00"),
        ("4d0100abab", "4d0100ab"),
        ("4e01000000abab", "4e01000000ab"),
        ("6aab", "6a"),
        ("6aab01ab", "6a01ab"),
        ("6a63ab68", "6a6368"),
        ("63ab6a68ab", "636a68"),
        ("68ab", "68"),
        ("ab67ab68ab", "6768"),
        ("67ab63ab6868ab", "67636868"),
        ("65ab68", "6568"),
        ("66ab67ab68", "666768"),
        ("00ab00", "0000"),
        ("51ab5163ab5167ab0068ab", "51516351670068"),
        ("abacabadabaeabaf", "acadaeaf"),
    ];
    let mut r = Rng(7);
    let t = gen_tx(&mut r, 3, 3);
    let t = RTx { ins: vec![t.ins[0].clone(), t.ins[0].clone(), t.ins[0].clone()], outs: vec![ROut { value: 5, script: vec![0xab] }; 3], ..t };
    let mut tx = lib_tx_parsed(&t);
    for (sub_hex, stripped_hex) in cases {
        let sub_bytes = hex::decode(sub_hex).unwrap();
        let stripped = hex::decode(stripped_hex).unwrap();
        assert_eq!(strip_codesep(&sub_bytes), stripped, "reference vs hand computation for {}", sub_hex);
        let sub = Script::from_hex(sub_hex).unwrap();
        check_all(&t, &mut tx, &sub_bytes, &sub, sub_hex);
        // hand-computed framing for ALL at index 1: the stripped script sits in input 1 with its length in front
        let p = tx.sighash_preimage(SigHash::ALL, 1, &sub, 0).unwrap();
        let off = 4 + 1 + (36 + 1 + 4) + 36;
        assert_eq!(p[off] as usize, stripped.len());
        assert_eq!(&p[off + 1..off + 1 + stripped.len()], &stripped[..]);
    }
}

// ------------------------------------------------------------------------------------------------
// E04 subscripts that were not read from bytes: flat element lists, hand-nested elements, push/push_array, ASM, JSON
// ------------------------------------------------------------------------------------------------
#[test]
fn e04_subscript_construction_routes() {
    use OpCodes::*;
    let mut r = Rng(99);
    let t = gen_tx(&mut r, 3, 3);
    let t = RTx { outs: vec![ROut { value: 1, script: vec![0x51] }; 3], ins: vec![t.ins[0].clone(); 3], ..t };
    let mut tx = lib_tx_parsed(&t);

    let cs = ScriptBit::OpCode(OP_CODESEPARATOR);
    let routes: Vec<(&str, Script)> = vec![
        ("flat opcodes", Script::from_script_bits(vec![cs.clone(), ScriptBit::OpCode(OP_IF), cs.clone(), ScriptBit::OpCode(OP_ELSE), cs.clone(), ScriptBit::OpCode(OP_ENDIF), cs.clone(), ScriptBit::OpCode(OP_CHECKSIG)])),
        (
            "hand nested, fail Some(empty)",
            Script::from_script_bits(vec![ScriptBit::If { code: OP_NOTIF, pass: vec![cs.clone(), ScriptBit::Push(vec![0xab]), cs.clone()], fail: Some(vec![]) }, cs.clone()]),
        ),
        (
            "hand nested twice",
            Script::from_script_bits(vec![ScriptBit::If {
                code: OP_IF,
                pass: vec![ScriptBit::If { code: OP_IF, pass: vec![cs.clone()], fail: Some(vec![cs.clone(), ScriptBit::OpCode(OP_1)]) }, cs.clone()],
                fail: None,
            }]),
        ),
        ("mixed flat and nested", Script::from_script_bits(vec![ScriptBit::OpCode(OP_IF), ScriptBit::If { code: OP_IF, pass: vec![cs.clone()], fail: None }, cs.clone(), ScriptBit::OpCode(OP_ENDIF)])),
        ("push route", {
            let mut s = Script::default();
            s.push(ScriptBit::OpCode(OP_IF));
            s.push(cs.clone());
            s.push(ScriptBit::PushData(OP_PUSHDATA1, vec![0xab; 3]));
            s.push(ScriptBit::OpCode(OP_ENDIF));
            s.push_array(&[cs.clone(), ScriptBit::OpCode(OP_CHECKSIG), cs.clone()]);
            s
        }),
        ("asm", Script::from_asm_string("OP_CODESEPARATOR OP_IF OP_CODESEPARATOR abab OP_ELSE OP_CODESEPARATOR OP_ENDIF OP_CODESEPARATOR OP_CHECKSIG").unwrap()),
        ("asm long push", Script::from_asm_string(&format!("OP_CODESEPARATOR {} OP_CODESEPARATOR", "ab".repeat(300))).unwrap()),
        ("chunks", Script::from_chunks(vec![vec![0xab], vec![0x63, 0xab], vec![0x68], vec![0x01, 0xab]]).unwrap()),
        ("json round trip", {
            let s = Script::from_hex("ab63ab4c02abab67ab6401ab6868abac").unwrap();
            let j = serde_json::to_string(&s).unwrap();
            serde_json::from_str::<Script>(&j).unwrap()
        }),
    ];
    for (name, sub) in routes {
        let before = sub.to_bytes();
        check_all(&t, &mut tx, &before, &sub, name);
        assert_eq!(sub.to_bytes(), before, "subscript object untouched by the call ({})", name);
    }
}

// ------------------------------------------------------------------------------------------------
// E05 large input / output counts around the compact-size boundary, high indices
// ------------------------------------------------------------------------------------------------
#[test]
fn e05_large_counts_and_high_indices() {
    let mut r = Rng(4242);
    for (n_in, n_out) in [(252usize, 252usize), (253, 253), (254, 300), (300, 253), (300, 10)] {
        let mut ins = vec![];
        for k in 0..n_in {
            let mut txid = [0u8; 32];
            txid.copy_from_slice(&r.bytes(32));
            ins.push(RIn { txid_ser: txid, vout: k as u32, script: vec![0x51, 0xab], seq: 0xffff_fff0 + (k as u32 % 16) });
        }
        let outs: Vec<ROut> = (0..n_out).map(|k| ROut { value: k as u64, script: vec![0x76, 0xab, 0x51 + (k % 16) as u8] }).collect();
        let t = RTx { version: 1, ins, outs, lock: 0 };
        let mut tx = lib_tx_parsed(&t);
        let sub_bytes = hex::decode("ab76a963ab68ac").unwrap();
        let sub = Script::from_bytes(&sub_bytes).unwrap();
        for idx in [0usize, 1, 9, 10, 251, 252, 253, n_in - 1] {
            if idx >= n_in {
                continue;
            }
            for (flag, sh) in FLAGS.iter() {
                let e = ref_preimage(&t, idx, &sub_bytes, *flag);
                let g = tx.sighash_preimage(*sh, idx, &sub, 0);
                match (e, g) {
                    (Some(e), Ok(g)) => assert!(e == g, "counts {}x{} idx {} flag {:#x}", n_in, n_out, idx, flag),
                    (None, Err(_)) => {}
                    (e, g) => panic!("counts {}x{} idx {} flag {:#x}: expected some={} got ok={}", n_in, n_out, idx, flag, e.is_some(), g.is_ok()),
                }
            }
        }
    }
}

// ------------------------------------------------------------------------------------------------
// E06 subscript lengths around the compact-size boundaries (after and before removal of the separators)
// ------------------------------------------------------------------------------------------------
#[test]
fn e06_subscript_length_boundaries() {
    let mut r = Rng(31337);
    let t = gen_tx(&mut r, 3, 3);
    let t = RTx { outs: vec![ROut { value: 1, script: vec![0x51] }; 3], ins: vec![t.ins[0].clone(); 3], ..t };
    let mut tx = lib_tx_parsed(&t);
    for target in [251usize, 252, 253, 254, 255, 256, 0xfffe, 0xffff, 0x10000, 0x10001] {
        for seps in [0usize, 1, 2] {
            // total length after stripping == target; `seps` code separators are spread around a single big push
            let mut sub_bytes = vec![];
            if seps > 0 {
                sub_bytes.push(0xab);
            }
            let body = target - if target <= 0x4b + 1 { 1 } else if target <= 0xff + 2 { 2 } else if target <= 0xffff + 3 { 3 } else { 5 };
            if body <= 0x4b {
                sub_bytes.push(body as u8);
            } else if body <= 0xff {
                sub_bytes.extend_from_slice(&[0x4c, body as u8]);
            } else if body <= 0xffff {
                sub_bytes.push(0x4d);
                sub_bytes.extend_from_slice(&(body as u16).to_le_bytes());
            } else {
                sub_bytes.push(0x4e);
                sub_bytes.extend_from_slice(&(body as u32).to_le_bytes());
            }
            sub_bytes.extend(std::iter::repeat(0xab).take(body));
            if seps > 1 {
                sub_bytes.push(0xab);
            }
            let stripped = strip_codesep(&sub_bytes);
            // header sizes differ by class, so only insist that we are near the boundary
            assert!(stripped.len() + 3 >= target && stripped.len() <= target + 3);
            let sub = Script::from_bytes(&sub_bytes).unwrap();
            check_all(&t, &mut tx, &sub_bytes, &sub, &format!("len {} seps {}", target, seps));
        }
    }
    // exact boundaries with single-byte opcodes only
    for len in [252usize, 253, 254, 65535, 65536] {
        let mut sub_bytes = vec![0x61u8; len];
        sub_bytes.insert(len / 2, 0xab);
        sub_bytes.insert(0, 0xab);
        sub_bytes.push(0xab);
        assert_eq!(strip_codesep(&sub_bytes).len(), len);
        let sub = Script::from_bytes(&sub_bytes).unwrap();
        check_all(&t, &mut tx, &sub_bytes, &sub, &format!("nop len {}", len));
    }
}

// ------------------------------------------------------------------------------------------------
// E07 the call leaves the transaction alone; repeated / interleaved calls and setters
// ------------------------------------------------------------------------------------------------
#[test]
fn e07_state_caches_and_setters() {
    let mut r = Rng(555);
    for _ in 0..100 {
        let mut t = gen_tx(&mut r, 4, 4);
        if t.outs.is_empty() {
            t.outs.push(ROut { value: 9, script: vec![0xab] });
        }
        let mut tx = lib_tx_parsed(&t);
        let sub_bytes = gen_script(&mut r, 8);
        let sub = Script::from_bytes(&sub_bytes).unwrap();
        // fill every cache with the FORKID variants first
        for sh in [SigHash::InputsOutputs, SigHash::Inputs, SigHash::InputsOutput, SigHash::InputOutputs, SigHash::Input, SigHash::InputOutput] {
            let _ = tx.sighash_preimage(sh, 0, &sub, 1);
        }
        check_all(&t, &mut tx, &sub_bytes, &sub, "after forkid calls");
        assert_eq!(tx.to_bytes().unwrap(), ser(&t), "transaction unchanged by the calls");
        let clone = tx.clone();
        check_all(&t, &mut clone.clone(), &sub_bytes, &sub, "clone");

        // mutate through the setters, then compare against the mutated reference
        let k = r.below(t.ins.len() as u64) as usize;
        let mut txin = tx.get_input(k).unwrap();
        txin.set_sequence(7);
        txin.set_vout(3);
        txin.set_unlocking_script(&Script::from_hex("abab51").unwrap());
        tx.set_input(k, &txin);
        t.ins[k].seq = 7;
        t.ins[k].vout = 3;
        t.ins[k].script = vec![0xab, 0xab, 0x51];
        let o = r.below(t.outs.len() as u64) as usize;
        tx.set_output(o, &TxOut::new(42, &Script::from_hex("ab6a").unwrap()));
        t.outs[o] = ROut { value: 42, script: vec![0xab, 0x6a] };
        check_all(&t, &mut tx, &sub_bytes, &sub, "after setters");

        // structural mutations
        let extra_in = RIn { txid_ser: [9; 32], vout: 1, script: vec![], seq: 5 };
        let mut id = extra_in.txid_ser.to_vec();
        id.reverse();
        tx.prepend_input(&TxIn::new(&id, 1, &Script::default(), Some(5)));
        t.ins.insert(0, extra_in);
        tx.insert_output(0, &TxOut::new(1, &Script::from_hex("ab").unwrap()));
        t.outs.insert(0, ROut { value: 1, script: vec![0xab] });
        tx.set_version(7);
        t.version = 7;
        tx.set_nlocktime(11);
        t.lock = 11;
        check_all(&t, &mut tx, &sub_bytes, &sub, "after structural changes");
    }
}

// ------------------------------------------------------------------------------------------------
// E08 SIGHASH_SINGLE edge: refused exactly when there is no output at the index
// ------------------------------------------------------------------------------------------------
#[test]
fn e08_single_edges() {
    let mut r = Rng(8);
    for n_out in 0..5usize {
        let mut t = gen_tx(&mut r, 1, 0);
        t.ins = vec![t.ins[0].clone(); 5];
        t.outs = (0..n_out).map(|k| ROut { value: k as u64 + 1, script: vec![0xab, 0x51 + k as u8] }).collect();
        let mut tx = lib_tx_parsed(&t);
        let sub = Script::from_hex("ab").unwrap();
        for idx in 0..5 {
            for sh in [SigHash::SINGLE, SigHash::Legacy_InputOutput] {
                let got = tx.sighash_preimage(sh, idx, &sub, 0);
                assert_eq!(got.is_ok(), idx < n_out, "n_out {} idx {}", n_out, idx);
            }
        }
        check_all(&t, &mut tx, &[0xab], &sub, "single edges");
    }
}

// ------------------------------------------------------------------------------------------------
// E09 transactions that went through the JSON and the compact (CBOR) encodings
// ------------------------------------------------------------------------------------------------
#[test]
fn e09_serde_routes() {
    let mut r = Rng(0x0909);
    for round in 0..200 {
        let t = gen_tx(&mut r, 3, 3);
        let tx = lib_tx_built(&t, round % 2 == 1);
        let sub_bytes = gen_script(&mut r, 8);
        let sub = Script::from_bytes(&sub_bytes).unwrap();
        let mut via_json = Transaction::from_json_string(&tx.to_json_string().unwrap()).unwrap();
        check_all(&t, &mut via_json, &sub_bytes, &sub, "json");
        let mut via_cbor = Transaction::from_compact_bytes(&tx.to_compact_bytes().unwrap()).unwrap();
        check_all(&t, &mut via_cbor, &sub_bytes, &sub, "cbor");
        // subscript itself through JSON
        let sub2: Script = serde_json::from_str(&serde_json::to_string(&sub).unwrap()).unwrap();
        assert_eq!(sub2.to_bytes(), sub_bytes);
        check_all(&t, &mut via_cbor, &sub_bytes, &sub2, "json subscript");
    }
}

// ------------------------------------------------------------------------------------------------
// E10 an input with the coinbase outpoint (opaque script) next to ordinary inputs
// ------------------------------------------------------------------------------------------------
#[test]
fn e10_coinbase_outpoint_input() {
    let mut r = Rng(1010);
    let mut t = gen_tx(&mut r, 3, 3);
    t.ins = vec![t.ins[0].clone(), t.ins[0].clone(), t.ins[0].clone()];
    t.ins[1].txid_ser = [0; 32];
    t.ins[1].vout = 0xffff_ffff;
    t.ins[1].script = hex::decode("03abcdef4cffab63").unwrap(); // not a well-formed script
    t.outs = vec![ROut { value: 50, script: vec![0xab, 0x51] }; 3];
    let mut tx = lib_tx_parsed(&t);
    assert_eq!(tx.to_bytes().unwrap(), ser(&t));
    let sub_bytes = hex::decode("ab63ab68ac").unwrap();
    let sub = Script::from_bytes(&sub_bytes).unwrap();
    check_all(&t, &mut tx, &sub_bytes, &sub, "coinbase outpoint");
    let mut via_json = Transaction::from_json_string(&tx.to_json_string().unwrap()).unwrap();
    check_all(&t, &mut via_json, &sub_bytes, &sub, "coinbase outpoint json");
}

// ------------------------------------------------------------------------------------------------
// E11 deep nesting: 500 levels read from bytes; deeper when given as a flat element list
// ------------------------------------------------------------------------------------------------
#[test]
fn e11_deep_nesting() {
    let t = RTx {
        version: 1,
        ins: vec![RIn { txid_ser: [1; 32], vout: 0, script: vec![], seq: 1 }, RIn { txid_ser: [2; 32], vout: 1, script: vec![0x51], seq: 2 }],
        outs: vec![ROut { value: 1, script: vec![] }, ROut { value: 2, script: vec![0xab] }],
        lock: 0,
    };
    let mut tx = lib_tx_parsed(&t);
    let mut sub_bytes = vec![];
    for _ in 0..500 {
        sub_bytes.extend_from_slice(&[0xab, 0x63, 0xab]);
    }
    for k in 0..500 {
        if k % 2 == 0 {
            sub_bytes.extend_from_slice(&[0x67, 0xab]);
        }
        sub_bytes.extend_from_slice(&[0xab, 0x68, 0xab]);
    }
    let sub = Script::from_bytes(&sub_bytes).unwrap();
    check_all(&t, &mut tx, &sub_bytes, &sub, "500 levels");

    // 700 levels as a flat list of opcodes (the parsers refuse this depth; the element route does not)
    let mut bits = vec![];
    for _ in 0..700 {
        bits.push(ScriptBit::OpCode(OpCodes::OP_IF));
        bits.push(ScriptBit::OpCode(OpCodes::OP_CODESEPARATOR));
    }
    for _ in 0..700 {
        bits.push(ScriptBit::OpCode(OpCodes::OP_CODESEPARATOR));
        bits.push(ScriptBit::OpCode(OpCodes::OP_ENDIF));
    }
    let sub = Script::from_script_bits(bits);
    let sub_bytes = sub.to_bytes();
    assert_eq!(sub_bytes.len(), 2800);
    check_all(&t, &mut tx, &sub_bytes, &sub, "700 flat levels");
}

// ------------------------------------------------------------------------------------------------
// E12 flag conversions: the numeric flag routes reach the same preimages
// ------------------------------------------------------------------------------------------------
#[test]
fn e12_flag_conversions() {
    use std::convert::TryFrom;
    let mut r = Rng(1212);
    let t = gen_tx(&mut r, 3, 3);
    let t = RTx { outs: vec![ROut { value: 1, script: vec![0x51] }; 3], ins: vec![t.ins[0].clone(); 3], ..t };
    let mut tx = lib_tx_parsed(&t);
    let sub_bytes = hex::decode("ab51ab").unwrap();
    let sub = Script::from_bytes(&sub_bytes).unwrap();
    for (flag, sh) in FLAGS.iter() {
        assert_eq!(SigHash::try_from(*flag).unwrap(), *sh);
    }
    assert_eq!(SigHash::try_from(SigHash::ALL | SigHash::ANYONECANPAY).unwrap(), SigHash::Legacy_InputOutputs);
    assert_eq!(SigHash::try_from(SigHash::NONE | SigHash::ANYONECANPAY).unwrap(), SigHash::Legacy_Input);
    assert_eq!(SigHash::try_from(SigHash::SINGLE | SigHash::ANYONECANPAY).unwrap(), SigHash::Legacy_InputOutput);
    for (flag, _) in FLAGS.iter() {
        let sh = SigHash::try_from(*flag).unwrap();
        for idx in 0..3 {
            assert_eq!(tx.sighash_preimage(sh, idx, &sub, 0).unwrap(), ref_preimage(&t, idx, &sub_bytes, *flag).unwrap());
        }
    }
}

// ------------------------------------------------------------------------------------------------
// E13 Transaction::sign / sign_with_k with legacy flags sign exactly the reference preimage
// ------------------------------------------------------------------------------------------------
#[test]
fn e13_sign_signs_the_reference_preimage() {
    let key = PrivateKey::from_wif("L31JUXCGspUREe9Gya8F2WWjeoRz3bb8AQzJjAP8ntGYp37oYdSx").unwrap();
    let k = PrivateKey::from_wif("L2WAdy8C19GHNtZDSkbsVBJrBaF9XHpPLTgmnc2N5aGyguhJf7zh").unwrap();
    let pk = PublicKey::from_private_key(&key);
    let mut r = Rng(1313);
    for _ in 0..10 {
        let mut t = gen_tx(&mut r, 3, 3);
        t.ins = vec![t.ins[0].clone(); 3];
        t.outs = vec![ROut { value: 3, script: vec![0xab, 0x52] }; 3];
        let mut tx = lib_tx_parsed(&t);
        let sub_bytes = gen_script(&mut r, 8);
        let sub = Script::from_bytes(&sub_bytes).unwrap();
        for idx in 0..3 {
            for (flag, sh) in FLAGS.iter() {
                let e = ref_preimage(&t, idx, &sub_bytes, *flag).unwrap();
                for sig in [tx.sign(&key, *sh, idx, &sub, 5).unwrap(), tx.sign_with_k(&key, &k, *sh, idx, &sub, 5).unwrap()] {
                    let bytes = sig.to_bytes().unwrap();
                    assert_eq!(*bytes.last().unwrap(), *flag);
                    let der = Signature::from_der(&bytes[..bytes.len() - 1]).unwrap();
                    assert!(ECDSA::verify_digest(&e, &pk, &der, SigningHash::Sha256d).unwrap(), "signature is over the reference preimage");
                    assert!(tx.verify(&pk, &sig));
                }
            }
        }
    }
}

// ------------------------------------------------------------------------------------------------
// E14 interpreter route: OP_CHECKSIG with legacy flags and code separators (signature made over the reference preimage)
// ------------------------------------------------------------------------------------------------
fn run_spend(locking_hex: &str, unlocking_tail_hex: &str, subscript_hex: &str, flag: u8, idx: usize) -> Result<Vec<u8>, String> {
    let key = PrivateKey::from_wif("L2WAdy8C19GHNtZDSkbsVBJrBaF9XHpPLTgmnc2N5aGyguhJf7zh").unwrap();
    let pk = PublicKey::from_private_key(&key).to_bytes().unwrap();
    let locking_hex = locking_hex.replace("PK", &format!("21{}", hex::encode(&pk)));
    let subscript_hex = subscript_hex.replace("PK", &format!("21{}", hex::encode(&pk)));
    let t = RTx {
        version: 1,
        ins: (0..3).map(|k| RIn { txid_ser: [k as u8 + 1; 32], vout: k, script: vec![], seq: 0xffff_fff0 + k }).collect(),
        outs: (0..3).map(|k| ROut { value: 1000 + k, script: vec![0x76, 0xab, k as u8 + 0x51] }).collect(),
        lock: 17,
    };
    let pre = ref_preimage(&t, idx, &hex::decode(&subscript_hex).unwrap(), flag).unwrap();
    let sig = ECDSA::sign_with_deterministic_k(&key, &pre, SigningHash::Sha256d, false).unwrap();
    let mut sig_bytes = sig.to_der_bytes();
    sig_bytes.push(flag);
    let mut unlocking = vec![sig_bytes.len() as u8];
    unlocking.extend(sig_bytes);
    unlocking.extend(hex::decode(unlocking_tail_hex).unwrap());

    let mut tx = lib_tx_parsed(&t);
    let mut txin = tx.get_input(idx).unwrap();
    txin.set_unlocking_script(&Script::from_bytes(&unlocking).unwrap());
    txin.set_locking_script(&Script::from_hex(&locking_hex).unwrap());
    txin.set_satoshis(1);
    tx.set_input(idx, &txin);
    let mut interp = Interpreter::from_transaction(&tx, idx).map_err(|e| format!("{:?}", e))?;
    interp.run().map_err(|e| format!("{:?}", e))?;
    Ok(interp.state().stack().last().cloned().unwrap_or_default())
}

#[test]
fn e14_interpreter_legacy_checksig_with_codeseparators() {
    // (locking, unlocking after the signature, subscript per the original rules = locking from after the last executed separator)
    let cases = [
        ("PKac", "", "PKac"),
        ("abPKac", "", "PKac"),
        ("PKabac", "", "ac"),
        ("PKab61abac", "", "ac"),
        ("63ab68PKac", "51", "68PKac"),           // separator executed inside the taken branch
        ("63ab68PKac", "00", "63ab68PKac"),       // separator in the branch not taken: whole script, separators removed
        ("63ab67ab6168abPKac", "51", "PKac"),
        ("6361ab67ab6168PKac", "00", "6168PKac"),
        ("ab63abPK67PK68ac", "51", "PK67PK68ac"),
        ("ab63abPK67abPK68ac", "00", "PK68ac"),
    ];
    for (lock, tail, sub) in cases {
        for (flag, _) in FLAGS.iter() {
            for idx in [0usize, 2] {
                let top = run_spend(lock, tail, sub, *flag, idx);
                assert_eq!(top, Ok(vec![1u8]), "locking {} unlocking-tail {} flag {:#x} idx {}", lock, tail, flag, idx);
            }
        }
    }
}

// ------------------------------------------------------------------------------------------------
// E15 subscripts taken from other objects: an output's script, an input's locking script, a clone after mutation
// ------------------------------------------------------------------------------------------------
#[test]
fn e15_subscript_taken_from_objects() {
    let mut r = Rng(1515);
    for _ in 0..200 {
        let mut t = gen_tx(&mut r, 3, 3);
        if t.outs.is_empty() {
            t.outs.push(ROut { value: 1, script: gen_script(&mut r, 6) });
        }
        let mut tx = lib_tx_built(&t, false);
        // subscript = script of output 0 as the library hands it back
        let sub = tx.get_output(0).unwrap().get_script_pub_key();
        let sub_bytes = t.outs[0].script.clone();
        check_all(&t, &mut tx, &sub_bytes, &sub, "output script as subscript");
        // subscript = unlocking script of the last input as the library hands it back
        let last = t.ins.len() - 1;
        let sub = tx.get_input(last).unwrap().get_unlocking_script();
        let sub_bytes = t.ins[last].script.clone();
        check_all(&t, &mut tx, &sub_bytes, &sub, "input script as subscript");
        // a subscript on which remove_codeseparators was already called, then extended again
        let mut s2 = sub.clone();
        s2.remove_codeseparators();
        assert_eq!(s2.to_bytes(), strip_codesep(&sub_bytes));
        s2.push(ScriptBit::OpCode(OpCodes::OP_CODESEPARATOR));
        s2.push(ScriptBit::OpCode(OpCodes::OP_CHECKSIG));
        let b2 = s2.to_bytes();
        check_all(&t, &mut tx, &b2, &s2, "re-extended subscript");
    }
}

// ------------------------------------------------------------------------------------------------
// E16 random byte strings as subscripts: whatever the parser accepts must be handled like the original does
// (strings with a truncated push after an OP_RETURN are the known lenient reading and are skipped)
// ------------------------------------------------------------------------------------------------
fn has_truncated_push(s: &[u8]) -> bool {
    let mut i = 0usize;
    while i < s.len() {
        let op = s[i];
        let (hdr, len) = if (1..=0x4b).contains(&op) {
            (1usize, op as usize)
        } else if op == 0x4c {
            if i + 2 > s.len() {
                return true;
            }
            (2, s[i + 1] as usize)
        } else if op == 0x4d {
            if i + 3 > s.len() {
                return true;
            }
            (3, u16::from_le_bytes([s[i + 1], s[i + 2]]) as usize)
        } else if op == 0x4e {
            if i + 5 > s.len() {
                return true;
            }
            (5, u32::from_le_bytes([s[i + 1], s[i + 2], s[i + 3], s[i + 4]]) as usize)
        } else {
            (1, 0)
        };
        if i + hdr + len > s.len() {
            return true;
        }
        i += hdr + len;
    }
    false
}

#[test]
fn e16_random_byte_strings() {
    let mut r = Rng(1616);
    let t = gen_tx(&mut r, 2, 2);
    let t = RTx { outs: vec![ROut { value: 1, script: vec![0x51] }; 2], ins: vec![t.ins[0].clone(); 2], ..t };
    let mut tx = lib_tx_parsed(&t);
    let alphabet: [u8; 16] = [0xab, 0x63, 0x64, 0x67, 0x68, 0x6a, 0x01, 0x02, 0x4c, 0x4d, 0x00, 0x51, 0xac, 0xab, 0x65, 0x03];
    let (mut parsed, mut skipped) = (0, 0);
    for _ in 0..60000 {
        let len = r.below(12) as usize;
        let s: Vec<u8> = (0..len).map(|_| alphabet[r.below(16) as usize]).collect();
        if has_truncated_push(&s) {
            skipped += 1;
            continue;
        }
        if let Ok(sub) = Script::from_bytes(&s) {
            parsed += 1;
            assert_eq!(sub.to_bytes(), s, "round trip of {}", hex::encode(&s));
            for (flag, sh) in [(0x01u8, SigHash::ALL), (0x83, SigHash::Legacy_InputOutput)] {
                let e = ref_preimage(&t, 1, &s, flag).unwrap();
                let g = tx.sighash_preimage(sh, 1, &sub, 0).unwrap();
                assert_eq!(hex::encode(g), hex::encode(e), "subscript {}", hex::encode(&s));
            }
        }
    }
    println!("e16: parsed {} skipped {}", parsed, skipped);
    assert!(parsed > 5000);
}

// ------------------------------------------------------------------------------------------------
// E17 CHECKMULTISIG / CHECKSIGVERIFY through the interpreter with legacy flags, separators in both scripts
// ------------------------------------------------------------------------------------------------
#[test]
fn e17_interpreter_multisig_and_unlocking_separators() {
    let key = PrivateKey::from_wif("L2WAdy8C19GHNtZDSkbsVBJrBaF9XHpPLTgmnc2N5aGyguhJf7zh").unwrap();
    let key2 = PrivateKey::from_wif("L31JUXCGspUREe9Gya8F2WWjeoRz3bb8AQzJjAP8ntGYp37oYdSx").unwrap();
    let pk = format!("21{}", hex::encode(PublicKey::from_private_key(&key).to_bytes().unwrap()));
    let pk2 = format!("21{}", hex::encode(PublicKey::from_private_key(&key2).to_bytes().unwrap()));
    let t = RTx {
        version: 2,
        ins: (0..3).map(|k| RIn { txid_ser: [k as u8 + 7; 32], vout: k, script: vec![], seq: k }).collect(),
        outs: (0..3).map(|k| ROut { value: 10 + k, script: vec![0xab, k as u8 + 0x51, 0xab] }).collect(),
        lock: 0,
    };
    // locking: SEP IF SEP <nop> ELSE 2 pk pk2 2 CHECKMULTISIG ENDIF SEP ; unlocking: 0 sig1 sig2 SEP 0
    // (the separator executed in the unlocking script does not cut the locking script; the last one executed before
    //  CHECKMULTISIG is the leading separator of the locking script)
    for (flag, _) in FLAGS.iter() {
        for idx in [0usize, 1, 2] {
            let locking = format!("ab63ab616752{}{}52ae68ab", pk, pk2);
            let subscript = format!("63ab616752{}{}52ae68ab", pk, pk2);
            let pre = ref_preimage(&t, idx, &hex::decode(&subscript).unwrap(), *flag).unwrap();
            let mut unlocking = vec![0x00u8];
            for k in [&key, &key2] {
                let mut sig = ECDSA::sign_with_deterministic_k(k, &pre, SigningHash::Sha256d, false).unwrap().to_der_bytes();
                sig.push(*flag);
                unlocking.push(sig.len() as u8);
                unlocking.extend(sig);
            }
            unlocking.extend_from_slice(&[0xab, 0x00]);
            let mut tx = lib_tx_parsed(&t);
            let mut txin = tx.get_input(idx).unwrap();
            txin.set_unlocking_script(&Script::from_bytes(&unlocking).unwrap());
            txin.set_locking_script(&Script::from_hex(&locking).unwrap());
            txin.set_satoshis(1);
            tx.set_input(idx, &txin);
            let mut interp = Interpreter::from_transaction(&tx, idx).unwrap();
            interp.run().unwrap();
            assert_eq!(interp.state().stack().last().cloned().unwrap_or_default(), vec![1u8], "conditional multisig flag {:#x} idx {}", flag, idx);
        }
    }
    // plain 2-of-2 with a separator in front and CHECKSIGVERIFY chain
    for (flag, _) in FLAGS.iter() {
        let idx = 1usize;
        let locking = format!("61ab52{}{}52ab61ae", pk, pk2);
        let subscript = "61ae".to_string();
        let pre = ref_preimage(&t, idx, &hex::decode(&subscript).unwrap(), *flag).unwrap();
        let mut unlocking = vec![0x00u8];
        for k in [&key, &key2] {
            let mut sig = ECDSA::sign_with_deterministic_k(k, &pre, SigningHash::Sha256d, false).unwrap().to_der_bytes();
            sig.push(*flag);
            unlocking.push(sig.len() as u8);
            unlocking.extend(sig);
        }
        unlocking.push(0xab);
        let mut tx = lib_tx_parsed(&t);
        let mut txin = tx.get_input(idx).unwrap();
        txin.set_unlocking_script(&Script::from_bytes(&unlocking).unwrap());
        txin.set_locking_script(&Script::from_hex(&locking).unwrap());
        txin.set_satoshis(1);
        tx.set_input(idx, &txin);
        let mut interp = Interpreter::from_transaction(&tx, idx).unwrap();
        interp.run().unwrap();
        assert_eq!(interp.state().stack().last().cloned().unwrap_or_default(), vec![1u8], "multisig flag {:#x}", flag);
    }
}

// ------------------------------------------------------------------------------------------------
// E18 observations (not part of the promised domain): bare ANYONECANPAY flag, element forms no byte parser produces
// ------------------------------------------------------------------------------------------------
#[test]
fn e18_observations() {
    let mut r = Rng(1818);
    let t = gen_tx(&mut r, 3, 3);
    let t = RTx { outs: vec![ROut { value: 1, script: vec![0x51] }; 3], ins: vec![t.ins[0].clone(); 3], ..t };
    let mut tx = lib_tx_parsed(&t);
    let sub = Script::from_hex("ab51").unwrap();
    // 0x80 alone (base type 0) is outside the six combinations; the original treats it like ALL|ANYONECANPAY with type 0x80
    let got = tx.sighash_preimage(SigHash::ANYONECANPAY, 1, &sub, 0).unwrap();
    println!("obs: bare ANYONECANPAY equals original = {}", got == ref_preimage(&t, 1, &[0xab, 0x51], 0x80).unwrap());
    // an ASM text naming OP_PUSHDATA1 as a bare opcode followed by a separator: element view and byte view disagree
    let odd = Script::from_asm_string("OP_PUSHDATA1 OP_CODESEPARATOR OP_1").unwrap();
    let got = tx.sighash_preimage(SigHash::ALL, 1, &odd, 0).unwrap();
    println!("obs: bare OP_PUSHDATA1 element then separator equals byte-level original = {}", got == ref_preimage(&t, 1, &odd.to_bytes(), 0x01).unwrap());
    // input index out of range is an error, not a panic
    assert!(tx.sighash_preimage(SigHash::ALL, 3, &sub, 0).is_err());
    assert!(tx.sighash_preimage(SigHash::Legacy_Input, usize::MAX, &sub, 0).is_err());
    // a subscript with bytes the opcode table does not know cannot be read at all
    println!("obs: Script::from_hex(\"abbb\") = {:?}", Script::from_hex("abbb").map(|s| s.to_hex()));
    println!("obs: Script::from_hex(\"6a63\") = {:?}", Script::from_hex("6a63").map(|s| s.to_hex()));
}
