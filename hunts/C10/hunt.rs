// Hunt for violations of C10: the legacy (pre-fork) signature-hash preimage equals the original Bitcoin algorithm.
//
// Oracle: `ref_preimage` below, a streaming re-implementation of Satoshi's SignatureHash serialisation
// (CTransactionSignatureSerializer) over a private byte-level transaction model. It never calls the library.
use bsv::*;
use std::convert::TryFrom;

// ------------------------------------------------------------------------------------------------
// Deterministic PRNG (xorshift64*)
// ------------------------------------------------------------------------------------------------
struct Rng(u64);
impl Rng {
    fn next(&mut self) -> u64 {
        let mut x = self.0;
        x ^= x >> 12;
        x ^= x << 25;
        x ^= x >> 27;
        self.0 = x;
        x.wrapping_mul(0x2545F4914F6CDD1D)
    }
    fn below(&mut self, n: u64) -> u64 {
        self.next() % n
    }
    fn chance(&mut self, percent: u64) -> bool {
        self.below(100) < percent
    }
    fn pick<T: Copy>(&mut self, items: &[T]) -> T {
        items[self.below(items.len() as u64) as usize]
    }
    fn data(&mut self, n: usize) -> Vec<u8> {
        // half of the bytes are 0xab so that data looks like code separators
        (0..n).map(|_| if self.chance(50) { 0xab } else { self.next() as u8 }).collect()
    }
}

// ------------------------------------------------------------------------------------------------
// Byte-level model of a transaction and the reference algorithm
// ------------------------------------------------------------------------------------------------
#[derive(Clone, Debug)]
struct MIn {
    txid_wire: [u8; 32],
    vout: u32,
    script: Vec<u8>,
    seq: u32,
}
#[derive(Clone, Debug)]
struct MOut {
    value: u64,
    script: Vec<u8>,
}
#[derive(Clone, Debug)]
struct MTx {
    version: u32,
    ins: Vec<MIn>,
    outs: Vec<MOut>,
    locktime: u32,
}

fn compact(n: u64, out: &mut Vec<u8>) {
    if n < 253 {
        out.push(n as u8);
    } else if n <= 0xffff {
        out.push(0xfd);
        out.extend_from_slice(&(n as u16).to_le_bytes());
    } else if n <= 0xffff_ffff {
        out.push(0xfe);
        out.extend_from_slice(&(n as u32).to_le_bytes());
    } else {
        out.push(0xff);
        out.extend_from_slice(&n.to_le_bytes());
    }
}

fn ser_tx(tx: &MTx) -> Vec<u8> {
    let mut o = vec![];
    o.extend_from_slice(&tx.version.to_le_bytes());
    compact(tx.ins.len() as u64, &mut o);
    for i in &tx.ins {
        o.extend_from_slice(&i.txid_wire);
        o.extend_from_slice(&i.vout.to_le_bytes());
        compact(i.script.len() as u64, &mut o);
        o.extend_from_slice(&i.script);
        o.extend_from_slice(&i.seq.to_le_bytes());
    }
    compact(tx.outs.len() as u64, &mut o);
    for x in &tx.outs {
        o.extend_from_slice(&x.value.to_le_bytes());
        compact(x.script.len() as u64, &mut o);
        o.extend_from_slice(&x.script);
    }
    o.extend_from_slice(&tx.locktime.to_le_bytes());
    o
}

/// Removes every OP_CODESEPARATOR opcode, walking the script opcode by opcode as CScript::GetOp does.
/// A push that runs past the end stops the walk and the rest is copied as it is.
fn ref_strip(script: &[u8]) -> Vec<u8> {
    let mut out = vec![];
    let mut pc = 0usize;
    while pc < script.len() {
        let op = script[pc];
        let (hdr, len): (usize, usize) = if (1..=0x4b).contains(&op) {
            (1, op as usize)
        } else if op == 0x4c {
            if pc + 2 > script.len() {
                out.extend_from_slice(&script[pc..]);
                return out;
            }
            (2, script[pc + 1] as usize)
        } else if op == 0x4d {
            if pc + 3 > script.len() {
                out.extend_from_slice(&script[pc..]);
                return out;
            }
            (3, u16::from_le_bytes([script[pc + 1], script[pc + 2]]) as usize)
        } else if op == 0x4e {
            if pc + 5 > script.len() {
                out.extend_from_slice(&script[pc..]);
                return out;
            }
            (5, u32::from_le_bytes([script[pc + 1], script[pc + 2], script[pc + 3], script[pc + 4]]) as usize)
        } else {
            (1, 0)
        };
        if pc + hdr + len > script.len() {
            out.extend_from_slice(&script[pc..]);
            return out;
        }
        if op != 0xab {
            out.extend_from_slice(&script[pc..pc + hdr + len]);
        }
        pc += hdr + len;
    }
    out
}

/// Original SignatureHash preimage. None = SIGHASH_SINGLE without a matching output (the library refuses it).
fn ref_preimage(tx: &MTx, n_in: usize, subscript: &[u8], hash_type: u32) -> Option<Vec<u8>> {
    assert!(n_in < tx.ins.len());
    let anyone = hash_type & 0x80 != 0;
    let single = hash_type & 0x1f == 3;
    let none = hash_type & 0x1f == 2;
    if single && n_in >= tx.outs.len() {
        return None;
    }
    let code = ref_strip(subscript);
    let mut o = vec![];
    o.extend_from_slice(&tx.version.to_le_bytes());
    // inputs
    let n_inputs = if anyone { 1 } else { tx.ins.len() };
    compact(n_inputs as u64, &mut o);
    for k in 0..n_inputs {
        let idx = if anyone { n_in } else { k };
        let i = &tx.ins[idx];
        o.extend_from_slice(&i.txid_wire);
        o.extend_from_slice(&i.vout.to_le_bytes());
        if idx == n_in {
            compact(code.len() as u64, &mut o);
            o.extend_from_slice(&code);
        } else {
            o.push(0);
        }
        if idx != n_in && (single || none) {
            o.extend_from_slice(&0u32.to_le_bytes());
        } else {
            o.extend_from_slice(&i.seq.to_le_bytes());
        }
    }
    // outputs
    let n_outputs = if none {
        0
    } else if single {
        n_in + 1
    } else {
        tx.outs.len()
    };
    compact(n_outputs as u64, &mut o);
    for k in 0..n_outputs {
        if single && k != n_in {
            o.extend_from_slice(&[0xff; 8]);
            o.push(0);
        } else {
            o.extend_from_slice(&tx.outs[k].value.to_le_bytes());
            compact(tx.outs[k].script.len() as u64, &mut o);
            o.extend_from_slice(&tx.outs[k].script);
        }
    }
    o.extend_from_slice(&tx.locktime.to_le_bytes());
    o.extend_from_slice(&hash_type.to_le_bytes());
    Some(o)
}

const FLAGS: [(SigHash, u32); 6] = [
    (SigHash::ALL, 0x01),
    (SigHash::NONE, 0x02),
    (SigHash::SINGLE, 0x03),
    (SigHash::Legacy_InputOutputs, 0x81),
    (SigHash::Legacy_Input, 0x82),
    (SigHash::Legacy_InputOutput, 0x83),
];

// ------------------------------------------------------------------------------------------------
// Generators
// ------------------------------------------------------------------------------------------------
const PLAIN_OPS: &[u8] = &[
    0x00, 0x4f, 0x50, 0x51, 0x52, 0x60, 0x61, 0x62, 0x69, 0x6a, 0x6b, 0x75, 0x76, 0x7e, 0x7f, 0x87, 0x88, 0x89, 0x8a, 0x93, 0xa9, 0xaa, 0xac, 0xad, 0xae, 0xaf, 0xb0, 0xb1, 0xb2, 0xb9, 0xba, 0xfb, 0xfc, 0xfd,
    0xfe, 0xff,
];

fn gen_push(rng: &mut Rng, out: &mut Vec<u8>) {
    match rng.below(10) {
        0..=4 => {
            let len = rng.pick(&[1usize, 1, 2, 20, 33, 74, 75]);
            out.push(len as u8);
            out.extend(rng.data(len));
        }
        5..=7 => {
            let len = rng.pick(&[0usize, 1, 2, 75, 76, 171, 255]);
            out.push(0x4c);
            out.push(len as u8);
            out.extend(rng.data(len));
        }
        8 => {
            let len = rng.pick(&[0usize, 1, 171, 255, 256, 300]);
            out.push(0x4d);
            out.extend_from_slice(&(len as u16).to_le_bytes());
            out.extend(rng.data(len));
        }
        _ => {
            let len = rng.pick(&[0usize, 3, 171, 260]);
            out.push(0x4e);
            out.extend_from_slice(&(len as u32).to_le_bytes());
            out.extend(rng.data(len));
        }
    }
}

fn gen_script_into(rng: &mut Rng, depth: usize, out: &mut Vec<u8>) {
    let n = rng.below(7);
    for _ in 0..n {
        match rng.below(100) {
            0..=29 => out.push(0xab),
            30..=54 => out.push(rng.pick(PLAIN_OPS)),
            55..=79 => gen_push(rng, out),
            80..=94 if depth < 5 => {
                out.push(rng.pick(&[0x63u8, 0x63, 0x64, 0x64, 0x65, 0x66]));
                gen_script_into(rng, depth + 1, out);
                for _ in 0..rng.pick(&[0u64, 0, 1, 1, 2, 3]) {
                    out.push(0x67);
                    gen_script_into(rng, depth + 1, out);
                }
                out.push(0x68);
            }
            // stray OP_ELSE / OP_ENDIF, only where no conditional is open
            95..=99 if depth == 0 => out.push(rng.pick(&[0x67u8, 0x68])),
            _ => out.push(0xab),
        }
    }
}

fn gen_script(rng: &mut Rng) -> Vec<u8> {
    let mut out = vec![];
    gen_script_into(rng, 0, &mut out);
    out
}

fn gen_tx(rng: &mut Rng, n_in: usize, n_out: usize) -> MTx {
    let mut ins = vec![];
    for _ in 0..n_in {
        let mut txid = [0u8; 32];
        for b in txid.iter_mut() {
            *b = rng.next() as u8;
        }
        ins.push(MIn {
            txid_wire: txid,
            vout: rng.pick(&[0u32, 1, 2, 0xffff_ffff, 0x0102_0304]),
            script: gen_script(rng),
            seq: rng.pick(&[0xffff_ffffu32, 0, 1, 0xffff_fffe, 0x8000_0000, 0x1234_5678]),
        });
    }
    let mut outs = vec![];
    for _ in 0..n_out {
        outs.push(MOut {
            value: rng.pick(&[0u64, 1, 546, 0xffff_ffff_ffff_ffff, 21_000_000 * 100_000_000, 0x0102_0304_0506_0708]),
            script: gen_script(rng),
        });
    }
    MTx {
        version: rng.pick(&[1u32, 2, 0, 0xffff_ffff, 0x8000_0001]),
        ins,
        outs,
        locktime: rng.pick(&[0u32, 1, 499_999_999, 500_000_000, 0xffff_ffff]),
    }
}

fn build_by_setters(m: &MTx) -> Transaction {
    let mut tx = Transaction::new(m.version, m.locktime);
    for i in &m.ins {
        let mut display = i.txid_wire.to_vec();
        display.reverse();
        tx.add_input(&TxIn::new(&display, i.vout, &Script::from_bytes(&i.script).unwrap(), Some(i.seq)));
    }
    for o in &m.outs {
        tx.add_output(&TxOut::new(o.value, &Script::from_bytes(&o.script).unwrap()));
    }
    tx
}

/// Compares the library with the oracle for every input index and every legacy flag.
fn check_all(label: &str, m: &MTx, tx: &mut Transaction, sub_bytes: &[u8], sub: &Script) {
    let before = tx.to_bytes().unwrap();
    assert_eq!(before, ser_tx(m), "{}: serialisation of the transaction itself", label);
    for n in 0..m.ins.len() {
        for (flag, num) in FLAGS.iter() {
            let expected = ref_preimage(m, n, sub_bytes, *num);
            let got = tx.sighash_preimage(*flag, n, sub, 0x1122_3344_5566_7788);
            match (expected, got) {
                (Some(e), Ok(g)) => assert_eq!(hex::encode(&g), hex::encode(&e), "{}: input {} flag {:#x} subscript {}", label, n, num, hex::encode(sub_bytes)),
                (None, Err(_)) => {}
                (Some(_), Err(e)) => panic!("{}: input {} flag {:#x}: library refused: {}", label, n, num, e),
                (None, Ok(g)) => panic!("{}: input {} flag {:#x}: SINGLE without output accepted: {}", label, n, num, hex::encode(g)),
            }
        }
    }
    assert_eq!(tx.to_bytes().unwrap(), before, "{}: transaction changed by computing a preimage", label);
}

// ------------------------------------------------------------------------------------------------
// E01 sanity of the oracle itself against a vector of the repository / bitcoin
// ------------------------------------------------------------------------------------------------
#[test]
fn e01_oracle_matches_published_vectors() {
    // Vector pinned in tests/sighash.rs (NONE|ANYONECANPAY on input 0, script 00 6a)
    let m = MTx {
        version: 1,
        ins: vec![MIn {
            txid_wire: <[u8; 32]>::try_from(hex::decode("9e8d016a7b0dc49a325922d05da1f916d1e4d4f0cb840c9727f3d22ce8d1363f").unwrap().as_slice()).unwrap(),
            vout: 0,
            script: vec![],
            seq: 0xffff_ffff,
        }],
        outs: vec![],
        locktime: 0,
    };
    assert_eq!(
        hex::encode(ref_preimage(&m, 0, &[0x00, 0x6a], 0x82).unwrap()),
        "01000000019e8d016a7b0dc49a325922d05da1f916d1e4d4f0cb840c9727f3d22ce8d1363f0000000002006affffffff000000000082000000"
    );
    assert_eq!(ref_strip(&hex::decode("ab76ab01abab4c02abab4d0100abab").unwrap()), hex::decode("7601ab4c02abab4d0100ab").unwrap());
}

// ------------------------------------------------------------------------------------------------
// E02 random differential test, transaction parsed from bytes, subscript parsed from bytes
// ------------------------------------------------------------------------------------------------
#[test]
fn e02_random_differential_parsed() {
    let mut rng = Rng(0x9E3779B97F4A7C15);
    for round in 0..600 {
        let n_in = 1 + rng.below(5) as usize;
        let n_out = rng.below(7) as usize;
        let m = gen_tx(&mut rng, n_in, n_out);
        let mut tx = Transaction::from_bytes(&ser_tx(&m)).unwrap();
        let sub_bytes = gen_script(&mut rng);
        let sub = Script::from_bytes(&sub_bytes).unwrap();
        assert_eq!(sub.to_bytes(), sub_bytes, "script round trip");
        check_all(&format!("parsed round {}", round), &m, &mut tx, &sub_bytes, &sub);
    }
}

// ------------------------------------------------------------------------------------------------
// E03 same through the setter route, the JSON route, the CBOR route and a clone
// ------------------------------------------------------------------------------------------------
#[test]
fn e03_random_differential_other_construction_routes() {
    let mut rng = Rng(0xDEADBEEFCAFEF00D);
    for round in 0..150 {
        let n_in = 1 + rng.below(4) as usize;
        let n_out = rng.below(5) as usize;
        let m = gen_tx(&mut rng, n_in, n_out);
        let sub_bytes = gen_script(&mut rng);
        let sub = Script::from_bytes(&sub_bytes).unwrap();

        let mut built = build_by_setters(&m);
        check_all(&format!("setters round {}", round), &m, &mut built, &sub_bytes, &sub);

        let parsed = Transaction::from_bytes(&ser_tx(&m)).unwrap();
        let mut via_json = Transaction::from_json_string(&parsed.to_json_string().unwrap()).unwrap();
        check_all(&format!("json round {}", round), &m, &mut via_json, &sub_bytes, &sub);

        let mut via_cbor = Transaction::from_compact_bytes(&parsed.to_compact_bytes().unwrap()).unwrap();
        check_all(&format!("cbor round {}", round), &m, &mut via_cbor, &sub_bytes, &sub);

        // the subscript itself through JSON
        let sub_json: Script = serde_json::from_str(&serde_json::to_string(&sub).unwrap()).unwrap();
        let mut cloned = parsed.clone();
        check_all(&format!("json subscript round {}", round), &m, &mut cloned, &sub_bytes, &sub_json);
    }
}

// ------------------------------------------------------------------------------------------------
// E04 the BIP143 hash cache must not leak into the legacy preimage, also after mutation
// ------------------------------------------------------------------------------------------------
#[test]
fn e04_cache_then_mutation() {
    let mut rng = Rng(0x1234567);
    for round in 0..60 {
        let mut m = gen_tx(&mut rng, 3, 3);
        let mut tx = Transaction::from_bytes(&ser_tx(&m)).unwrap();
        let sub_bytes = gen_script(&mut rng);
        let sub = Script::from_bytes(&sub_bytes).unwrap();
        // fill the cache
        for f in [SigHash::InputsOutputs, SigHash::InputsOutput, SigHash::Inputs, SigHash::InputOutputs] {
            tx.sighash_preimage(f, 1, &sub, 5).unwrap();
        }
        check_all(&format!("cached round {}", round), &m, &mut tx, &sub_bytes, &sub);

        // mutate through every public mutator and compare again
        let extra_in = gen_tx(&mut rng, 1, 0).ins.remove(0);
        let mut display = extra_in.txid_wire.to_vec();
        display.reverse();
        let lib_in = TxIn::new(&display, extra_in.vout, &Script::from_bytes(&extra_in.script).unwrap(), Some(extra_in.seq));
        match rng.below(4) {
            0 => {
                tx.set_input(1, &lib_in);
                m.ins[1] = extra_in;
            }
            1 => {
                tx.prepend_input(&lib_in);
                m.ins.insert(0, extra_in);
            }
            2 => {
                tx.insert_input(2, &lib_in);
                m.ins.insert(2, extra_in);
            }
            _ => {
                tx.add_input(&lib_in);
                m.ins.push(extra_in);
            }
        }
        let extra_out = MOut { value: 77, script: gen_script(&mut rng) };
        let lib_out = TxOut::new(77, &Script::from_bytes(&extra_out.script).unwrap());
        match rng.below(4) {
            0 => {
                tx.set_output(2, &lib_out);
                m.outs[2] = extra_out;
            }
            1 => {
                tx.prepend_output(&lib_out);
                m.outs.insert(0, extra_out);
            }
            2 => {
                tx.insert_output(1, &lib_out);
                m.outs.insert(1, extra_out);
            }
            _ => {
                tx.add_output(&lib_out);
                m.outs.push(extra_out);
            }
        }
        tx.set_version(7);
        m.version = 7;
        tx.set_nlocktime(0xfffffffe);
        m.locktime = 0xfffffffe;
        check_all(&format!("mutated round {}", round), &m, &mut tx, &sub_bytes, &sub);
    }
}

// ------------------------------------------------------------------------------------------------
// E05 compact-size boundaries in the number of inputs / outputs (252, 253, 254) and high indices
// ------------------------------------------------------------------------------------------------
#[test]
fn e05_many_inputs_and_outputs() {
    let mut rng = Rng(42);
    for (n_in, n_out) in [(252usize, 254usize), (253, 253), (254, 252), (300, 2), (2, 300)] {
        let mut m = gen_tx(&mut rng, n_in, n_out);
        for i in m.ins.iter_mut() {
            i.script = vec![0x51];
        }
        for o in m.outs.iter_mut() {
            o.script = vec![0x76, 0xab, 0xac];
        }
        let mut tx = Transaction::from_bytes(&ser_tx(&m)).unwrap();
        let sub_bytes = hex::decode("ab76ab63ab67ab68ac").unwrap();
        let sub = Script::from_bytes(&sub_bytes).unwrap();
        check_all(&format!("{}x{}", n_in, n_out), &m, &mut tx, &sub_bytes, &sub);
    }
}

// ------------------------------------------------------------------------------------------------
// E06 compact-size boundaries in the subscript length (after removal of code separators)
// ------------------------------------------------------------------------------------------------
#[test]
fn e06_subscript_length_boundaries() {
    let mut rng = Rng(4242);
    let m = gen_tx(&mut rng, 2, 2);
    let mut tx = Transaction::from_bytes(&ser_tx(&m)).unwrap();
    for target in [251usize, 252, 253, 254, 255, 256, 0xffff, 0x10000, 0x10001, 70_000] {
        // target bytes of OP_NOP, interleaved with code separators, so that the stripped length is the target
        let mut sub_bytes = vec![];
        for k in 0..target {
            if k % 97 == 0 {
                sub_bytes.push(0xab);
            }
            sub_bytes.push(0x61);
        }
        sub_bytes.push(0xab);
        let sub = Script::from_bytes(&sub_bytes).unwrap();
        assert_eq!(ref_strip(&sub_bytes).len(), target);
        check_all(&format!("len {}", target), &m, &mut tx, &sub_bytes, &sub);

        // one single push of that size, filled with 0xab, behind a code separator
        let mut push = vec![0xab];
        if target <= 0xffff {
            push.push(0x4d);
            push.extend_from_slice(&(target as u16).to_le_bytes());
        } else {
            push.push(0x4e);
            push.extend_from_slice(&(target as u32).to_le_bytes());
        }
        push.extend(std::iter::repeat(0xab).take(target));
        push.push(0xab);
        let sub = Script::from_bytes(&push).unwrap();
        check_all(&format!("push {}", target), &m, &mut tx, &push, &sub);
    }
}

// ------------------------------------------------------------------------------------------------
// E07 code separators at every position of hand-written scripts, including deep inside conditionals
// ------------------------------------------------------------------------------------------------
#[test]
fn e07_code_separator_positions() {
    let mut rng = Rng(777);
    let m = gen_tx(&mut rng, 3, 3);
    let mut tx = Transaction::from_bytes(&ser_tx(&m)).unwrap();
    let mut cases: Vec<Vec<u8>> = vec![
        vec![],
        vec![0xab],
        vec![0xab, 0xab, 0xab],
        hex::decode("63ab68").unwrap(),
        hex::decode("63ab67ab68").unwrap(),
        hex::decode("ab63ab67ab67ab67ab68ab").unwrap(),
        hex::decode("64ab63ab64ab67ab68ab67ab68ab67ab63ab68ab68ab").unwrap(),
        hex::decode("65ab66ab68ab67ab68").unwrap(),
        hex::decode("68ab67ab68ab").unwrap(),
        hex::decode("6aabab01ab02abab").unwrap(),
        hex::decode("ab6a4c01abab").unwrap(),
    ];
    // 500 conditionals deep (the deepest the parser accepts) with a code separator at every level, in the first and in the second branch
    let mut deep = vec![];
    for _ in 0..500 {
        deep.extend_from_slice(&[0xab, 0x63, 0xab]);
    }
    for _ in 0..500 {
        deep.extend_from_slice(&[0xab, 0x67, 0xab, 0x51, 0xab, 0x68, 0xab]);
    }
    cases.push(deep);
    // a code separator inserted at every position of a base script
    let base = hex::decode("76a9146363636363636363636363636363636363636363886364ac67ad6863ae6867ab6868").unwrap();
    let boundaries = [0usize, 1, 2, 3, 23, 24, 25, 26, 27, 28, 29, 30, 31, 32, 33, 34, 35, 36, 37];
    for b in boundaries {
        let mut s = base[..b].to_vec();
        s.push(0xab);
        s.extend_from_slice(&base[b..]);
        cases.push(s);
    }
    for (k, sub_bytes) in cases.iter().enumerate() {
        let sub = Script::from_bytes(sub_bytes).unwrap_or_else(|e| panic!("case {} does not parse: {}", k, e));
        assert_eq!(&sub.to_bytes(), sub_bytes);
        check_all(&format!("case {}", k), &m, &mut tx, sub_bytes, &sub);
    }
}

// ------------------------------------------------------------------------------------------------
// E08 subscripts written as ASM text and as explicit script bits (nested and written-out flat form)
// ------------------------------------------------------------------------------------------------
#[test]
fn e08_asm_and_script_bit_routes() {
    let mut rng = Rng(888);
    let m = gen_tx(&mut rng, 2, 2);
    let mut tx = Transaction::from_bytes(&ser_tx(&m)).unwrap();

    let asm = "OP_CODESEPARATOR OP_IF OP_CODESEPARATOR abab OP_NOTIF OP_CODESEPARATOR OP_ELSE ab OP_CODESEPARATOR OP_ENDIF OP_ELSE OP_CODESEPARATOR OP_CHECKSIG OP_ENDIF OP_CODESEPARATOR";
    let sub = Script::from_asm_string(asm).unwrap();
    let expected_bytes = hex::decode("ab63ab02abab64ab6701abab6867abac68ab").unwrap();
    assert_eq!(sub.to_bytes(), expected_bytes);
    check_all("asm", &m, &mut tx, &expected_bytes, &sub);

    // long data tokens pick OP_PUSHDATA1 / OP_PUSHDATA2 and keep their 0xab bytes
    for len in [75usize, 76, 171, 255, 256, 1000] {
        let asm = format!("OP_CODESEPARATOR {} OP_CODESEPARATOR OP_DROP", "ab".repeat(len));
        let sub = Script::from_asm_string(&asm).unwrap();
        let mut expected = vec![0xab];
        if len <= 75 {
            expected.push(len as u8);
        } else if len <= 255 {
            expected.extend_from_slice(&[0x4c, len as u8]);
        } else {
            expected.push(0x4d);
            expected.extend_from_slice(&(len as u16).to_le_bytes());
        }
        expected.extend(std::iter::repeat(0xab).take(len));
        expected.extend_from_slice(&[0xab, 0x75]);
        assert_eq!(sub.to_bytes(), expected, "asm push of {}", len);
        check_all(&format!("asm push {}", len), &m, &mut tx, &expected, &sub);
    }

    // explicit bits, nested form
    use OpCodes::*;
    let nested = Script::from_script_bits(vec![
        ScriptBit::OpCode(OP_CODESEPARATOR),
        ScriptBit::If {
            code: OP_NOTIF,
            pass: vec![
                ScriptBit::OpCode(OP_CODESEPARATOR),
                ScriptBit::If {
                    code: OP_IF,
                    pass: vec![ScriptBit::OpCode(OP_CODESEPARATOR)],
                    fail: Some(vec![ScriptBit::OpCode(OP_CODESEPARATOR), ScriptBit::Push(vec![0xab])]),
                },
            ],
            fail: Some(vec![ScriptBit::PushData(OP_PUSHDATA1, vec![0xab, 0xab]), ScriptBit::OpCode(OP_CODESEPARATOR)]),
        },
        ScriptBit::OpCode(OP_CODESEPARATOR),
        ScriptBit::OpCode(OP_CHECKSIG),
    ]);
    let nested_bytes = hex::decode("ab64ab63ab67ab01ab68674c02ababab68abac").unwrap();
    assert_eq!(nested.to_bytes(), nested_bytes);
    check_all("nested bits", &m, &mut tx, &nested_bytes, &nested);

    // explicit bits, flat form beginning inside a conditional (what OP_CHECKSIG passes after a code separator)
    let flat = Script::from_script_bits(vec![
        ScriptBit::OpCode(OP_CHECKSIG),
        ScriptBit::OpCode(OP_CODESEPARATOR),
        ScriptBit::OpCode(OP_ELSE),
        ScriptBit::OpCode(OP_CODESEPARATOR),
        ScriptBit::OpCode(OP_ENDIF),
        ScriptBit::OpCode(OP_IF),
        ScriptBit::OpCode(OP_CODESEPARATOR),
        ScriptBit::OpCode(OP_ENDIF),
        ScriptBit::OpCode(OP_ENDIF),
        ScriptBit::OpCode(OP_CODESEPARATOR),
    ]);
    let flat_bytes = hex::decode("acab67ab6863ab6868ab").unwrap();
    assert_eq!(flat.to_bytes(), flat_bytes);
    check_all("flat bits", &m, &mut tx, &flat_bytes, &flat);

    // unbalanced OP_IF given as flat bits (cannot be parsed from bytes, can be built)
    let open = Script::from_script_bits(vec![ScriptBit::OpCode(OP_IF), ScriptBit::OpCode(OP_CODESEPARATOR), ScriptBit::OpCode(OP_CHECKSIG)]);
    check_all("open if", &m, &mut tx, &[0x63, 0xab, 0xac], &open);

    // a script that was pushed to after construction, and one already stripped by the caller
    let mut grown = Script::from_bytes(&[0x76, 0xab]).unwrap();
    grown.push(ScriptBit::OpCode(OP_CODESEPARATOR));
    grown.push_array(&[ScriptBit::OpCode(OP_CHECKSIG), ScriptBit::OpCode(OP_CODESEPARATOR)]);
    check_all("grown", &m, &mut tx, &[0x76, 0xab, 0xab, 0xac, 0xab], &grown);
    let mut stripped = grown.clone();
    stripped.remove_codeseparators();
    assert_eq!(stripped.to_bytes(), vec![0x76, 0xac]);
    check_all("pre-stripped", &m, &mut tx, &[0x76, 0xac], &stripped);
    // the caller's script object is not altered by the computation
    assert_eq!(grown.to_bytes(), vec![0x76, 0xab, 0xab, 0xac, 0xab]);
}

// ------------------------------------------------------------------------------------------------
// E09 SIGHASH_SINGLE: refused exactly when there is no output at the index; last admissible index works
// ------------------------------------------------------------------------------------------------
#[test]
fn e09_single_boundaries() {
    let mut rng = Rng(999);
    for (n_in, n_out) in [(1usize, 0usize), (1, 1), (2, 1), (3, 2), (5, 5), (5, 4), (4, 7)] {
        let m = gen_tx(&mut rng, n_in, n_out);
        let mut tx = Transaction::from_bytes(&ser_tx(&m)).unwrap();
        let sub_bytes = vec![0xab, 0xac];
        let sub = Script::from_bytes(&sub_bytes).unwrap();
        for n in 0..n_in {
            for (flag, num) in [(SigHash::SINGLE, 3u32), (SigHash::Legacy_InputOutput, 0x83)] {
                let r = tx.sighash_preimage(flag, n, &sub, 0);
                if n < n_out {
                    assert_eq!(r.unwrap(), ref_preimage(&m, n, &sub_bytes, num).unwrap());
                } else {
                    assert!(r.is_err(), "SINGLE at {} with {} outputs must be refused", n, n_out);
                    assert!(tx.sign(&PrivateKey::from_wif("L31JUXCGspUREe9Gya8F2WWjeoRz3bb8AQzJjAP8ntGYp37oYdSx").unwrap(), flag, n, &sub, 0).is_err());
                }
            }
        }
        // an input index that does not exist is an error for every flag, not a panic
        for (flag, _) in FLAGS.iter() {
            assert!(tx.sighash_preimage(*flag, n_in, &sub, 0).is_err());
            assert!(tx.sighash_preimage(*flag, usize::MAX, &sub, 0).is_err());
        }
    }
}

// ------------------------------------------------------------------------------------------------
// E10 flag values reached through every public conversion give the same bytes
// ------------------------------------------------------------------------------------------------
#[test]
fn e10_flag_conversions() {
    let mut rng = Rng(1010);
    let m = gen_tx(&mut rng, 3, 3);
    let mut tx = Transaction::from_bytes(&ser_tx(&m)).unwrap();
    let sub_bytes = vec![0x76, 0xab, 0xac];
    let sub = Script::from_bytes(&sub_bytes).unwrap();
    for num in [1u8, 2, 3, 0x81, 0x82, 0x83] {
        let from_u8 = SigHash::try_from(num).unwrap();
        let base = SigHash::try_from(num & 0x1f).unwrap();
        let combined = if num & 0x80 != 0 { SigHash::try_from(base | SigHash::ANYONECANPAY).unwrap() } else { base };
        assert_eq!(from_u8, combined);
        for n in 0..3 {
            assert_eq!(tx.sighash_preimage(from_u8, n, &sub, 9).unwrap(), ref_preimage(&m, n, &sub_bytes, num as u32).unwrap(), "flag {:#x} input {}", num, n);
        }
    }
}

// ------------------------------------------------------------------------------------------------
// E11 sign(): the buffer that is signed is the reference preimage and the signature verifies over it
// ------------------------------------------------------------------------------------------------
#[test]
fn e11_sign_uses_the_same_preimage() {
    let mut rng = Rng(1111);
    let key = PrivateKey::from_wif("L31JUXCGspUREe9Gya8F2WWjeoRz3bb8AQzJjAP8ntGYp37oYdSx").unwrap();
    let pubkey = PublicKey::from_private_key(&key);
    let m = gen_tx(&mut rng, 3, 3);
    let mut tx = Transaction::from_bytes(&ser_tx(&m)).unwrap();
    let sub_bytes = hex::decode("ab63ab76ab67abac68").unwrap();
    let sub = Script::from_bytes(&sub_bytes).unwrap();
    for n in 0..3 {
        for (flag, num) in FLAGS.iter() {
            let expected = ref_preimage(&m, n, &sub_bytes, *num).unwrap();
            let sig = tx.sign(&key, *flag, n, &sub, 1).unwrap();
            let bytes = sig.to_bytes().unwrap();
            assert_eq!(*bytes.last().unwrap() as u32, *num);
            let der = Signature::from_der(&bytes[..bytes.len() - 1]).unwrap();
            // verifies over the reference preimage (double SHA-256), not over anything the library produced
            assert!(ECDSA::verify_digest(&expected, &pubkey, &der, SigningHash::Sha256d).unwrap(), "input {} flag {:#x}", n, num);
            let ephemeral = PrivateKey::from_wif("L2WAdy8C19GHNtZDSkbsVBJrBaF9XHpPLTgmnc2N5aGyguhJf7zh").unwrap();
            let sig_k = tx.sign_with_k(&key, &ephemeral, *flag, n, &sub, 1).unwrap();
            let bytes_k = sig_k.to_bytes().unwrap();
            let der_k = Signature::from_der(&bytes_k[..bytes_k.len() - 1]).unwrap();
            assert!(ECDSA::verify_digest(&expected, &pubkey, &der_k, SigningHash::Sha256d).unwrap());
        }
    }
}

// ------------------------------------------------------------------------------------------------
// E12 extended-format fields on inputs (previous locking script, satoshis) and a coinbase input among the
//     inputs do not influence the legacy preimage
// ------------------------------------------------------------------------------------------------
#[test]
fn e12_extended_fields_and_coinbase_input() {
    let mut rng = Rng(1212);
    let mut m = gen_tx(&mut rng, 3, 2);
    // input 1 looks like a coinbase input and carries bytes that are not a script at all
    m.ins[1].txid_wire = [0u8; 32];
    m.ins[1].vout = 0xffff_ffff;
    m.ins[1].script = hex::decode("03abcdef4effffffffbbbbbb63").unwrap();
    let mut tx = Transaction::from_bytes(&ser_tx(&m)).unwrap();
    for n in 0..3 {
        let mut i = tx.get_input(n).unwrap();
        i.set_satoshis(1000 + n as u64);
        i.set_locking_script(&Script::from_bytes(&[0xab, 0x76, 0xab]).unwrap());
        tx.set_input(n, &i);
    }
    let sub_bytes = hex::decode("ab76a9ab88abac").unwrap();
    let sub = Script::from_bytes(&sub_bytes).unwrap();
    check_all("extended", &m, &mut tx, &sub_bytes, &sub);
    let mut again = Transaction::from_compact_bytes(&tx.to_compact_bytes().unwrap()).unwrap();
    check_all("extended cbor", &m, &mut again, &sub_bytes, &sub);
    let mut again = Transaction::from_json_string(&tx.to_json_string().unwrap()).unwrap();
    check_all("extended json", &m, &mut again, &sub_bytes, &sub);
}

// ------------------------------------------------------------------------------------------------
// E13 end to end through the interpreter: a legacy signature made over the REFERENCE preimage is accepted
//     by OP_CHECKSIG when the executed code separator sits inside a conditional, for input index 1
// ------------------------------------------------------------------------------------------------
fn legacy_sig_over(preimage: &[u8], key: &PrivateKey, flag: u8) -> Vec<u8> {
    let sig = ECDSA::sign_with_deterministic_k(key, preimage, SigningHash::Sha256d, false).unwrap();
    let mut bytes = sig.to_der_bytes();
    bytes.push(flag);
    bytes
}

fn push_of(data: &[u8]) -> Vec<u8> {
    let mut v = Script::encode_pushdata(data).unwrap();
    v.truncate(v.len());
    v
}

#[test]
fn e13_interpreter_legacy_checksig_after_code_separator_in_conditional() {
    let key = PrivateKey::from_wif("L2WAdy8C19GHNtZDSkbsVBJrBaF9XHpPLTgmnc2N5aGyguhJf7zh").unwrap();
    let pubkey = key.to_public_key().unwrap().to_bytes().unwrap();
    let mut rng = Rng(1313);
    let mut m = gen_tx(&mut rng, 3, 3);
    for i in m.ins.iter_mut() {
        i.script = vec![];
    }

    // locking: OP_CODESEPARATOR OP_1 OP_IF OP_NOP OP_CODESEPARATOR <pk> OP_CHECKSIG OP_ELSE OP_CODESEPARATOR OP_0 OP_ENDIF OP_CODESEPARATOR
    let mut locking = vec![0xab, 0x51, 0x63, 0x61, 0xab];
    let after_separator_from = locking.len();
    locking.extend(push_of(&pubkey));
    locking.extend_from_slice(&[0xac, 0x67, 0xab, 0x00, 0x68, 0xab]);
    // what the original algorithm signs: from after the executed separator to the end, separators removed
    let subscript = locking[after_separator_from..].to_vec();

    for (flag_enum, flag) in FLAGS.iter() {
        let n = 1usize;
        let preimage = ref_preimage(&m, n, &subscript, *flag).unwrap();
        let sig = legacy_sig_over(&preimage, &key, *flag as u8);
        let mut with_sig = m.clone();
        with_sig.ins[n].script = push_of(&sig);

        let mut tx = Transaction::from_bytes(&ser_tx(&with_sig)).unwrap();
        let mut txin = tx.get_input(n).unwrap();
        txin.set_satoshis(0);
        txin.set_locking_script(&Script::from_bytes(&locking).unwrap());
        tx.set_input(n, &txin);

        let mut interpreter = Interpreter::from_transaction(&tx, n).unwrap();
        interpreter.run().unwrap_or_else(|e| panic!("flag {:?}: {}", flag_enum, e));
        // stack: result of OP_CHECKSIG
        assert_eq!(interpreter.state().stack().last().unwrap(), &vec![1u8], "flag {:?}", flag_enum);

        // and a signature over the whole locking script (separator not honoured) must NOT verify
        let wrong = ref_preimage(&m, n, &locking, *flag).unwrap();
        assert_ne!(wrong, preimage);
        let sig = legacy_sig_over(&wrong, &key, *flag as u8);
        let mut with_sig = m.clone();
        with_sig.ins[n].script = push_of(&sig);
        let mut tx = Transaction::from_bytes(&ser_tx(&with_sig)).unwrap();
        let mut txin = tx.get_input(n).unwrap();
        txin.set_satoshis(0);
        txin.set_locking_script(&Script::from_bytes(&locking).unwrap());
        tx.set_input(n, &txin);
        let mut interpreter = Interpreter::from_transaction(&tx, n).unwrap();
        interpreter.run().unwrap();
        assert_ne!(interpreter.state().stack().last().unwrap(), &vec![1u8], "flag {:?} wrong subscript accepted", flag_enum);
    }
}

// ------------------------------------------------------------------------------------------------
// E13b a table of interpreter scenarios: where the subscript starts according to the original rules
// ------------------------------------------------------------------------------------------------
#[test]
fn e13b_interpreter_subscript_table() {
    let key = PrivateKey::from_wif("L2WAdy8C19GHNtZDSkbsVBJrBaF9XHpPLTgmnc2N5aGyguhJf7zh").unwrap();
    let pk = push_of(&key.to_public_key().unwrap().to_bytes().unwrap());
    let key2 = PrivateKey::from_wif("L31JUXCGspUREe9Gya8F2WWjeoRz3bb8AQzJjAP8ntGYp37oYdSx").unwrap();
    let pk2 = push_of(&key2.to_public_key().unwrap().to_bytes().unwrap());
    let cat = |parts: &[&[u8]]| -> Vec<u8> { parts.iter().flat_map(|p| p.to_vec()).collect() };

    // (name, unlocking bytes before the signature push, unlocking bytes after it, locking, byte offset in locking where the subscript starts)
    let table: Vec<(&str, Vec<u8>, Vec<u8>, Vec<u8>, usize)> = vec![
        ("else branch, nested notif", vec![], vec![], cat(&[&[0x00, 0x63, 0xab, 0x67, 0x61, 0x51, 0x64, 0x67, 0xab], &pk, &[0xac, 0x68, 0x68]]), 9),
        ("separator in unlocking script", vec![], vec![0xab], cat(&[&pk, &[0xac]]), 0),
        ("separator in branch not taken", vec![], vec![], cat(&[&[0xab, 0x51, 0x63, 0x67, 0xab, 0x68], &pk, &[0xac]]), 1),
        ("checksig inside if, separator before", vec![], vec![], cat(&[&[0xab, 0x51, 0x63], &pk, &[0xac, 0x68]]), 1),
        ("separator inside if of unlocking script", vec![], vec![0x51, 0x63, 0xab, 0x68], cat(&[&pk, &[0xac]]), 0),
        ("skipped conditional before separator", vec![], vec![], cat(&[&[0x00, 0x63, 0x61, 0x61, 0x67, 0x61, 0x68, 0xab], &pk, &[0xac]]), 8),
        ("two taken ifs before separator", vec![], vec![], cat(&[&[0x51, 0x63, 0x51, 0x63, 0x61, 0x68, 0xab], &pk, &[0xac, 0x68]]), 7),
        ("multisig after separator in if", vec![0x00], vec![], cat(&[&[0x51, 0x63, 0xab, 0x68, 0x51], &pk2, &pk, &[0x52, 0xae]]), 3),
        ("separators before and after, pushes holding 0xab", vec![], vec![], cat(&[&[0x02, 0xab, 0xab, 0x75, 0xab, 0x4c, 0x01, 0xab, 0x75], &pk, &[0xac, 0xab, 0x76, 0x63, 0xab, 0x68]]), 5),
        ("no separator at all", vec![], vec![], cat(&[&[0x61, 0x51, 0x63], &pk, &[0xac, 0x67, 0x00, 0x68]]), 0),
    ];

    let mut rng = Rng(131313);
    let mut m = gen_tx(&mut rng, 3, 3);
    for i in m.ins.iter_mut() {
        i.script = vec![];
    }
    let n = 1usize;
    for (name, before, after, locking, offset) in table.iter() {
        for (flag_enum, flag) in FLAGS.iter() {
            let subscript = &locking[*offset..];
            let run = |signed_over: &[u8]| -> Vec<u8> {
                let preimage = ref_preimage(&m, n, signed_over, *flag).unwrap();
                let sig = legacy_sig_over(&preimage, &key, *flag as u8);
                let mut with_sig = m.clone();
                with_sig.ins[n].script = cat(&[before, &push_of(&sig), after]);
                let mut tx = Transaction::from_bytes(&ser_tx(&with_sig)).unwrap();
                let mut txin = tx.get_input(n).unwrap();
                txin.set_satoshis(0);
                txin.set_locking_script(&Script::from_bytes(locking).unwrap());
                tx.set_input(n, &txin);
                let mut interpreter = Interpreter::from_transaction(&tx, n).unwrap();
                interpreter.run().unwrap_or_else(|e| panic!("{} flag {:?}: {}", name, flag_enum, e));
                interpreter.state().stack().last().unwrap().clone()
            };
            assert_eq!(run(subscript), vec![1u8], "{}: flag {:?}: signature over the original subscript refused", name, flag_enum);
            if ref_strip(locking) != ref_strip(subscript) {
                assert_ne!(run(locking), vec![1u8], "{}: flag {:?}: signature over the whole locking script accepted", name, flag_enum);
            }
            if locking.len() > offset + 1 && ref_strip(&locking[offset + 1..]) != ref_strip(subscript) {
                assert_ne!(run(&locking[offset + 1..]), vec![1u8], "{}: flag {:?}: signature over a shifted subscript accepted", name, flag_enum);
            }
        }
    }
}

// ------------------------------------------------------------------------------------------------
// E14 repeated and interleaved calls are stable (no state kept between calls, whatever the order of flags)
// ------------------------------------------------------------------------------------------------
#[test]
fn e14_interleaved_calls_are_stable() {
    let mut rng = Rng(1414);
    let m = gen_tx(&mut rng, 4, 4);
    let mut tx = Transaction::from_bytes(&ser_tx(&m)).unwrap();
    let subs: Vec<Vec<u8>> = (0..5).map(|_| gen_script(&mut rng)).collect();
    for _ in 0..500 {
        let n = rng.below(4) as usize;
        let sub_bytes = &subs[rng.below(5) as usize];
        let sub = Script::from_bytes(sub_bytes).unwrap();
        if rng.chance(30) {
            // a fork-id call in between
            let _ = tx.sighash_preimage(rng.pick(&[SigHash::InputsOutputs, SigHash::InputOutput, SigHash::Input]), n, &sub, 3);
        }
        let (flag, num) = rng.pick(&FLAGS);
        assert_eq!(tx.sighash_preimage(flag, n, &sub, 0).unwrap(), ref_preimage(&m, n, sub_bytes, num).unwrap());
    }
}

// ------------------------------------------------------------------------------------------------
// E15 degenerate transactions: no outputs, one input one output with empty scripts, empty subscript
// ------------------------------------------------------------------------------------------------
#[test]
fn e15_degenerate_shapes() {
    let txid = [7u8; 32];
    for n_out in 0..3usize {
        let m = MTx {
            version: 0,
            ins: vec![MIn { txid_wire: txid, vout: 0, script: vec![], seq: 0 }, MIn { txid_wire: txid, vout: 1, script: vec![], seq: 0 }],
            outs: (0..n_out).map(|_| MOut { value: 0, script: vec![] }).collect(),
            locktime: 0,
        };
        let mut tx = Transaction::from_bytes(&ser_tx(&m)).unwrap();
        check_all("empty subscript", &m, &mut tx, &[], &Script::default());
        check_all("only separators", &m, &mut tx, &[0xab, 0xab], &Script::from_bytes(&[0xab, 0xab]).unwrap());
        let mut built = build_by_setters(&m);
        check_all("built", &m, &mut built, &[], &Script::from_script_bits(vec![]));
    }
}

// ------------------------------------------------------------------------------------------------
// E16 (documentation of the accepted deviation 1, NOT a violation): a truncated final push behind OP_RETURN
// ------------------------------------------------------------------------------------------------
#[test]
fn e16_known_lenient_truncated_push_after_op_return() {
    let bytes = hex::decode("ab6aab05abab").unwrap();
    let sub = Script::from_bytes(&bytes).unwrap();
    // the library re-writes the push with the length it found; known and accepted (pinned lenient reading)
    assert_eq!(sub.to_bytes(), hex::decode("ab6aab02abab").unwrap());
    // outside OP_RETURN the same bytes are refused
    assert!(Script::from_bytes(&hex::decode("abab05abab").unwrap()).is_err());
    // consequence for the preimage: it follows the re-written bytes, not the bytes that were parsed
    let mut rng = Rng(1616);
    let m = gen_tx(&mut rng, 2, 2);
    let mut tx = Transaction::from_bytes(&ser_tx(&m)).unwrap();
    let got = tx.sighash_preimage(SigHash::ALL, 1, &sub, 0).unwrap();
    assert_eq!(got, ref_preimage(&m, 1, &sub.to_bytes(), 1).unwrap());
    assert_ne!(got, ref_preimage(&m, 1, &bytes, 1).unwrap());
    // the script pinned by the repository (sCrypt stateful contract): its final push 0x14 is re-written as 0x04
    let pinned = hex::decode("6a00010100010001000100010001000100010001001400000000").unwrap();
    assert_ne!(Script::from_bytes(&pinned).unwrap().to_bytes(), pinned);
}

// ------------------------------------------------------------------------------------------------
// E17 four-byte compact sizes: 65535 / 65536 / 65537 inputs and outputs, SINGLE at index 65535
// ------------------------------------------------------------------------------------------------
#[test]
fn e17_very_many_inputs_and_outputs() {
    for (n_in, n_out) in [(65_535usize, 65_537usize), (65_536, 65_536), (65_537, 65_535)] {
        let m = MTx {
            version: 1,
            ins: (0..n_in)
                .map(|k| {
                    let mut txid = [0u8; 32];
                    txid[..4].copy_from_slice(&(k as u32).to_be_bytes());
                    txid[31] = 0xab;
                    MIn { txid_wire: txid, vout: k as u32, script: vec![0x51], seq: k as u32 ^ 0xffff_ffff }
                })
                .collect(),
            outs: (0..n_out).map(|k| MOut { value: k as u64, script: vec![0xab] }).collect(),
            locktime: 3,
        };
        let mut tx = Transaction::from_bytes(&ser_tx(&m)).unwrap();
        let sub_bytes = vec![0xab, 0x76, 0xab];
        let sub = Script::from_bytes(&sub_bytes).unwrap();
        for n in [0usize, 1, 251, 252, 253, 65_533, 65_534, 65_535, 65_536] {
            if n >= n_in {
                continue;
            }
            for (flag, num) in FLAGS.iter() {
                let expected = ref_preimage(&m, n, &sub_bytes, *num);
                let got = tx.sighash_preimage(*flag, n, &sub, 0);
                match (expected, got) {
                    (Some(e), Ok(g)) => assert!(e == g, "{}x{} input {} flag {:#x}", n_in, n_out, n, num),
                    (None, Err(_)) => {}
                    (e, g) => panic!("{}x{} input {} flag {:#x}: oracle {:?} library {:?}", n_in, n_out, n, num, e.is_some(), g.is_ok()),
                }
            }
        }
    }
}

// ------------------------------------------------------------------------------------------------
// E18 (observations OUTSIDE the property's domain, documented only): script objects whose elements break the
//     library's own invariants serialise to bytes that the element list does not describe
// ------------------------------------------------------------------------------------------------
#[test]
fn e18_out_of_domain_observations() {
    // a "direct push" of 171 bytes can only be built by hand; its length byte is 0xab and is kept
    let odd = Script::from_script_bits(vec![ScriptBit::Push(vec![0x61; 171])]);
    assert_eq!(odd.to_bytes()[0], 0xab);
    // an input without a 32-byte previous transaction id is not an input of a transaction
    assert_eq!(TxIn::default().to_bytes().unwrap().len(), 4 + 1 + 4);
}
